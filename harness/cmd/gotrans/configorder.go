package main

import (
	"bytes"
	"fmt"
	"go/ast"
	"go/printer"
	"go/token"
	"regexp"
	"strings"
)

// ConfigOrder (property C39): from src/core/config.go
//   - the config file search order (defaultGlobalConfigFiles, defaultConfigFiles and the constants they use),
//   - the reads ReadConfigFiles does for every file name (the file, then file+"."+profile for every profile),
//   - the slice defaults installed after reading (setDefault calls),
//   - the computed default of setBuildPath (its body is translated statement by statement: fallback, the
//     (option, element) pairs that switch to strings.Split(os.Getenv(var), sep), the final setDefault),
//   - `if !config.A.B { config.C.D = append(config.C.D, "x") }` (an element appended to one option when another is false) and
//   - the literal defaults of DefaultConfiguration().
// Every statement of the two order functions and of the read loop must match one of the shapes below.

type cfgTrans struct {
	fset   *token.FileSet
	file   *ast.File
	consts map[string]ast.Expr
}

func (t *cfgTrans) text(n ast.Node) string {
	var b bytes.Buffer
	if err := printer.Fprint(&b, t.fset, n); err != nil {
		failShape("cannot print node: %v", err)
	}
	return strings.Join(strings.Fields(b.String()), " ")
}

// constString evaluates a constant string expression; runtime.GOOS + "_" + runtime.GOARCH is the symbol <arch>.
func (t *cfgTrans) constString(e ast.Expr, depth int) string {
	if depth > 8 {
		failShape("constant expression too deep")
	}
	switch x := e.(type) {
	case *ast.BasicLit:
		return unquote(x)
	case *ast.Ident:
		d, ok := t.consts[x.Name]
		if !ok {
			failShape("identifier %s is not a string constant of config.go", x.Name)
		}
		if t.text(d) == `runtime.GOOS + "_" + runtime.GOARCH` {
			return "<arch>"
		}
		return t.constString(d, depth+1)
	case *ast.BinaryExpr:
		if x.Op != token.ADD {
			failShape("constant expression uses operator %s", x.Op)
		}
		return t.constString(x.X, depth+1) + t.constString(x.Y, depth+1)
	case *ast.ParenExpr:
		return t.constString(x.X, depth+1)
	}
	failShape("constant expression of unknown shape: %s", t.text(e))
	return ""
}

var identRe = `[A-Za-z_][A-Za-z_0-9]*`

func (t *cfgTrans) globalOrder() []string {
	fd := findFunc(t.file, "", "defaultGlobalConfigFiles")
	stmts := fd.Body.List
	if len(stmts) < 2 {
		failShape("defaultGlobalConfigFiles: body too short")
	}
	out := []string{}
	// configFiles := []string{ A, B, ... }
	first, ok := stmts[0].(*ast.AssignStmt)
	if !ok || first.Tok != token.DEFINE || len(first.Lhs) != 1 || len(first.Rhs) != 1 {
		failShape("defaultGlobalConfigFiles: first statement is not `v := []string{...}`")
	}
	v := first.Lhs[0].(*ast.Ident).Name
	cl, ok := first.Rhs[0].(*ast.CompositeLit)
	if !ok || t.text(cl.Type) != "[]string" {
		failShape("defaultGlobalConfigFiles: first statement is not `v := []string{...}`")
	}
	for _, e := range cl.Elts {
		out = append(out, "SrcAbs "+coqString(t.constString(e, 0)))
	}
	q := regexp.QuoteMeta
	reAppendHome := regexp.MustCompile(`^` + q(v) + ` = append\(` + q(v) + `, fs\.ExpandHomePath\((` + identRe + `)\)\)$`)
	reDirs := regexp.MustCompile(`^if (` + identRe + `) := os\.Getenv\("([A-Z_]+)"\); (` + identRe + `) != "" \{ for _, (` + identRe + `) := range strings\.Split\((` + identRe + `), "(.)"\) \{ if !filepath\.IsAbs\((` + identRe + `)\) \{ continue \} ` +
		q(v) + ` = append\(` + q(v) + `, filepath\.Join\((` + identRe + `), (` + identRe + `)\)\) \} \}$`)
	reDir := regexp.MustCompile(`^if (` + identRe + `) := os\.Getenv\("([A-Z_]+)"\); (` + identRe + `) != "" && filepath\.IsAbs\((` + identRe + `)\) \{ ` +
		q(v) + ` = append\(` + q(v) + `, filepath\.Join\((` + identRe + `), (` + identRe + `)\)\) \}$`)
	for i, st := range stmts[1:] {
		txt := t.text(st)
		if i == len(stmts)-2 {
			if txt != "return "+v {
				failShape("defaultGlobalConfigFiles: last statement is %q, not `return %s`", txt, v)
			}
			break
		}
		if m := reAppendHome.FindStringSubmatch(txt); m != nil {
			out = append(out, "SrcHome "+coqString(t.constString(ast.NewIdent(m[1]), 0)))
		} else if m := reDirs.FindStringSubmatch(txt); m != nil {
			if m[1] != m[3] || m[1] != m[5] || m[4] != m[7] || m[4] != m[8] {
				failShape("defaultGlobalConfigFiles: variables of the %s block do not line up: %s", m[2], txt)
			}
			out = append(out, fmt.Sprintf("SrcEnvDirs %s %s %s", coqString(m[2]), coqString(m[6]), coqString(t.constString(ast.NewIdent(m[9]), 0))))
		} else if m := reDir.FindStringSubmatch(txt); m != nil {
			if m[1] != m[3] || m[1] != m[4] || m[1] != m[5] {
				failShape("defaultGlobalConfigFiles: variables of the %s block do not line up: %s", m[2], txt)
			}
			out = append(out, fmt.Sprintf("SrcEnvDir %s %s", coqString(m[2]), coqString(t.constString(ast.NewIdent(m[6]), 0))))
		} else {
			failShape("defaultGlobalConfigFiles: statement of unknown shape: %s", txt)
		}
	}
	return out
}

func (t *cfgTrans) repoOrder() []string {
	fd := findFunc(t.file, "", "defaultConfigFiles")
	if len(fd.Body.List) != 1 {
		failShape("defaultConfigFiles: body is not a single return")
	}
	ret, ok := fd.Body.List[0].(*ast.ReturnStmt)
	if !ok || len(ret.Results) != 1 {
		failShape("defaultConfigFiles: body is not a single return")
	}
	call, ok := ret.Results[0].(*ast.CallExpr)
	if !ok || t.text(call.Fun) != "append" || len(call.Args) < 1 || t.text(call.Args[0]) != "defaultGlobalConfigFiles()" || call.Ellipsis != token.NoPos {
		failShape("defaultConfigFiles: not `return append(defaultGlobalConfigFiles(), ...)`: %s", t.text(ret))
	}
	out := []string{}
	for _, a := range call.Args[1:] {
		j, ok := a.(*ast.CallExpr)
		if !ok || t.text(j.Fun) != "filepath.Join" || len(j.Args) != 2 || t.text(j.Args[0]) != "RepoRoot" {
			failShape("defaultConfigFiles: argument is not filepath.Join(RepoRoot, <const>): %s", t.text(a))
		}
		out = append(out, "SrcRepo "+coqString(t.constString(j.Args[1], 0)))
	}
	return out
}

// the statements of ReadConfigFiles: the read loop, then the slice defaults
func (t *cfgTrans) readConfigFiles() (reads []string, late []string, lateBazel []string, derived []string, computed []string, appended []string) {
	fd := findFunc(t.file, "", "ReadConfigFiles")
	if len(fd.Type.Params.List) != 3 {
		failShape("ReadConfigFiles: expected 3 parameters")
	}
	fsName := fd.Type.Params.List[0].Names[0].Name
	names := fd.Type.Params.List[1].Names[0].Name
	profiles := fd.Type.Params.List[2].Names[0].Name
	stmts := fd.Body.List
	if len(stmts) < 3 || t.text(stmts[0]) != "config := DefaultConfiguration()" {
		failShape("ReadConfigFiles: does not start with `config := DefaultConfiguration()`")
	}
	q := regexp.QuoteMeta
	read := func(arg string) string {
		return `if err := readConfigFile\(` + q(fsName) + `, config, ` + arg + `, false\); err != nil \{ return config, err \}`
	}
	reLoop := regexp.MustCompile(`^for _, (` + identRe + `) := range ` + q(names) + ` \{ ` + read(`(`+identRe+`)`) +
		` for _, (` + identRe + `) := range ` + q(profiles) + ` \{ ` + read(`(`+identRe+`) ?\+ ?"([^"]*)" ?\+ ?(`+identRe+`)`) + ` \} \}$`)
	m := reLoop.FindStringSubmatch(t.text(stmts[1]))
	if m == nil {
		failShape("ReadConfigFiles: the loop over the file names has an unknown shape: %s", t.text(stmts[1]))
	}
	if m[1] != m[2] || m[1] != m[4] || m[3] != m[6] {
		failShape("ReadConfigFiles: loop variables do not line up: %s", t.text(stmts[1]))
	}
	reads = []string{"ReadFile", "ReadProfiles " + coqString(m[5])}

	defaultPath := ""
	for _, d := range t.file.Decls {
		gd, ok := d.(*ast.GenDecl)
		if !ok || gd.Tok != token.VAR {
			continue
		}
		for _, s := range gd.Specs {
			vs := s.(*ast.ValueSpec)
			if len(vs.Names) == 1 && vs.Names[0].Name == "DefaultPath" && len(vs.Values) == 1 {
				defaultPath = t.stringSliceLit(vs.Values[0], "[]string")
			}
		}
	}
	if defaultPath == "" {
		failShape("var DefaultPath = []string{...} not found")
	}
	setDefault := func(call *ast.CallExpr) string {
		if len(call.Args) < 1 {
			failShape("setDefault without arguments")
		}
		vals := []string{}
		for _, a := range call.Args[1:] {
			bl, ok := a.(*ast.BasicLit)
			if !ok || bl.Kind != token.STRING {
				failShape("setDefault argument is not a string literal: %s", t.text(a))
			}
			vals = append(vals, unquote(bl))
		}
		return "(" + coqString(t.fieldName(call.Args[0], true)) + ", " + coqStringList(vals) + ")"
	}
	for _, st := range stmts[2:] {
		switch x := st.(type) {
		case *ast.ExprStmt:
			call, ok := x.X.(*ast.CallExpr)
			if !ok {
				continue
			}
			switch t.text(call.Fun) {
			case "setDefault":
				e := setDefault(call)
				late = append(late, e)
				lateBazel = append(lateBazel, e)
			case "setBuildPath":
				if len(call.Args) != 3 {
					failShape("setBuildPath: expected 3 arguments")
				}
				computed = append(computed, t.setBuildPath(call, defaultPath))
			}
		case *ast.IfStmt:
			// if config.A.B != "" { config.C.D = filepath.Join(config.A.B, "x", "y") }  : an option computed from another one
			if m := reDerive.FindStringSubmatch(t.text(x)); m != nil && m[1] == m[5] && m[2] == m[6] {
				parts := []string{}
				for _, p := range strings.Split(m[7], ", ") {
					parts = append(parts, strings.Trim(p, `"`))
				}
				derived = append(derived, fmt.Sprintf("(%s, %s, %s)", coqString(strings.ToLower(m[1]+"."+m[2])), coqString(strings.ToLower(m[3]+"."+m[4])), coqStringList(parts)))
				continue
			}
			if m := reAppendIfFalse.FindStringSubmatch(t.text(x)); m != nil {
				if m[3] != m[5] || m[4] != m[6] {
					failShape("ReadConfigFiles: append to a different field than the one assigned: %s", t.text(x))
				}
				appended = append(appended, fmt.Sprintf("(%s, %s, %s)", coqString(strings.ToLower(m[1]+"."+m[2])), coqString(strings.ToLower(m[3]+"."+m[4])), coqString(m[7])))
				continue
			}
			if t.text(x.Cond) != "usingBazelWorkspace" {
				continue
			}
			els, ok := x.Else.(*ast.BlockStmt)
			if !ok || x.Init != nil {
				failShape("if usingBazelWorkspace: unknown shape")
			}
			for k, blk := range []*ast.BlockStmt{x.Body, els} {
				for _, s := range blk.List {
					es, ok := s.(*ast.ExprStmt)
					var call *ast.CallExpr
					if ok {
						call, ok = es.X.(*ast.CallExpr)
					}
					if !ok || t.text(call.Fun) != "setDefault" {
						failShape("if usingBazelWorkspace: branch contains something other than setDefault: %s", t.text(s))
					}
					if k == 0 {
						lateBazel = append(lateBazel, setDefault(call))
					} else {
						late = append(late, setDefault(call))
					}
				}
			}
		}
	}
	if len(late) == 0 {
		failShape("ReadConfigFiles: no setDefault call found")
	}
	return reads, late, lateBazel, derived, computed, appended
}

var reAppendIfFalse = regexp.MustCompile(`^if !config\.(\w+)\.(\w+) \{ config\.(\w+)\.(\w+) = append\(config\.(\w+)\.(\w+), "([^"]*)"\) \}$`)

// setBuildPath translates the body of setBuildPath, instantiated at its call site, into one entry
//   (target, [(trigger option, element); ...], env var, separator, fallback).
// Recognised body, in this order and nothing else:
//   v := DefaultPath
//   for _, i := range <param> { if i == "<elem>" { v = strings.Split(os.Getenv("<VAR>"), "<sep>") } }     (one or more)
//   setDefault(<first param>, v...)
func (t *cfgTrans) setBuildPath(call *ast.CallExpr, defaultPath string) string {
	fd := findFunc(t.file, "", "setBuildPath")
	params := []string{}
	for _, f := range fd.Type.Params.List {
		for _, n := range f.Names {
			params = append(params, n.Name)
		}
	}
	if len(params) != len(call.Args) || len(params) < 2 {
		failShape("setBuildPath: %d parameters but %d arguments at the call site", len(params), len(call.Args))
	}
	arg := map[string]string{}
	for i, p := range params[1:] {
		arg[p] = t.fieldName(call.Args[i+1], false)
	}
	target := t.fieldName(call.Args[0], true)
	stmts := fd.Body.List
	if len(stmts) < 3 {
		failShape("setBuildPath: body too short: %s", t.text(fd.Body))
	}
	m := regexp.MustCompile(`^(` + identRe + `) := DefaultPath$`).FindStringSubmatch(t.text(stmts[0]))
	if m == nil {
		failShape("setBuildPath: first statement is not `v := DefaultPath`: %s", t.text(stmts[0]))
	}
	v := regexp.QuoteMeta(m[1])
	reFor := regexp.MustCompile(`^for _, (` + identRe + `) := range (` + identRe + `) \{ if (` + identRe + `) == "([^"]*)" \{ ` + v +
		` = strings\.Split\(os\.Getenv\("([A-Z_]+)"\), "(.)"\) \} \}$`)
	triggers, envVar, sep := []string{}, "", ""
	for _, st := range stmts[1 : len(stmts)-1] {
		f := reFor.FindStringSubmatch(t.text(st))
		if f == nil {
			failShape("setBuildPath: statement of unknown shape: %s", t.text(st))
		}
		if f[1] != f[3] {
			failShape("setBuildPath: loop variable and compared variable differ: %s", t.text(st))
		}
		field, ok := arg[f[2]]
		if !ok {
			failShape("setBuildPath: loop over %s, which is not a slice parameter", f[2])
		}
		if envVar != "" && (envVar != f[5] || sep != f[6]) {
			failShape("setBuildPath: loops read different variables/separators")
		}
		envVar, sep = f[5], f[6]
		triggers = append(triggers, "("+coqString(field)+", "+coqString(f[4])+")")
	}
	if len(triggers) == 0 {
		failShape("setBuildPath: no loop over a parameter found")
	}
	if last := t.text(stmts[len(stmts)-1]); last != "setDefault("+params[0]+", "+m[1]+"...)" {
		failShape("setBuildPath: last statement is not `setDefault(%s, %s...)`: %s", params[0], m[1], last)
	}
	return fmt.Sprintf("(%s, [%s], %s, %s, %s)", coqString(target), strings.Join(triggers, "; "), coqString(envVar), coqString(sep), defaultPath)
}

var reDerive = regexp.MustCompile(`^if config\.(\w+)\.(\w+) != "" \{ config\.(\w+)\.(\w+) = filepath\.Join\(config\.(\w+)\.(\w+), ("[^"]*"(?:, "[^"]*")*)\) \}$`)

// fieldName turns config.A.B (or &config.A.B) into "a.b"
func (t *cfgTrans) fieldName(e ast.Expr, addr bool) string {
	if addr {
		u, ok := e.(*ast.UnaryExpr)
		if !ok || u.Op != token.AND {
			failShape("expected &config.Section.Field, got %s", t.text(e))
		}
		e = u.X
	}
	s2, ok := e.(*ast.SelectorExpr)
	if !ok {
		failShape("expected config.Section.Field, got %s", t.text(e))
	}
	s1, ok := s2.X.(*ast.SelectorExpr)
	if !ok {
		failShape("expected config.Section.Field, got %s", t.text(e))
	}
	if id, ok := s1.X.(*ast.Ident); !ok || id.Name != "config" {
		failShape("expected config.Section.Field, got %s", t.text(e))
	}
	return strings.ToLower(s1.Sel.Name) + "." + strings.ToLower(s2.Sel.Name)
}

func (t *cfgTrans) stringSliceLit(e ast.Expr, typ string) string {
	cl, ok := e.(*ast.CompositeLit)
	if !ok || t.text(cl.Type) != typ {
		failShape("expected a %s literal, got %s", typ, t.text(e))
	}
	vals := []string{}
	for _, el := range cl.Elts {
		bl, ok := el.(*ast.BasicLit)
		if !ok || bl.Kind != token.STRING {
			failShape("element of %s literal is not a string literal: %s", typ, t.text(el))
		}
		vals = append(vals, unquote(bl))
	}
	return coqStringList(vals)
}

// initDefaults: the `config.A.B = <literal>` statements of DefaultConfiguration(); a right-hand side that is
// not a string / int / bool literal or a literal slice of strings is recorded as None (not translated).
func (t *cfgTrans) initDefaults() []string {
	fd := findFunc(t.file, "", "DefaultConfiguration")
	out := []string{}
	for _, st := range fd.Body.List {
		as, ok := st.(*ast.AssignStmt)
		if !ok || as.Tok != token.ASSIGN || len(as.Lhs) != 1 || len(as.Rhs) != 1 {
			continue
		}
		s2, ok := as.Lhs[0].(*ast.SelectorExpr)
		if !ok {
			continue
		}
		if _, ok := s2.X.(*ast.SelectorExpr); !ok {
			continue // config.BuildConfig = ... : a whole section
		}
		name := t.fieldName(as.Lhs[0], false)
		val := "None"
		switch r := as.Rhs[0].(type) {
		case *ast.BasicLit:
			if r.Kind == token.STRING {
				val = "Some " + coqStringList([]string{unquote(r)})
			} else if r.Kind == token.INT {
				val = "Some " + coqStringList([]string{r.Value})
			}
		case *ast.Ident:
			if r.Name == "true" || r.Name == "false" {
				val = "Some " + coqStringList([]string{r.Name})
			}
		case *ast.CompositeLit:
			if _, ok := r.Type.(*ast.ArrayType); ok {
				val = "Some " + t.stringSliceLit(r, t.text(r.Type))
			}
		}
		out = append(out, "("+coqString(name)+", "+val+")")
	}
	if len(out) == 0 {
		failShape("DefaultConfiguration: no config.Section.Field = ... statement found")
	}
	return out
}

func init() {
	targets["ConfigOrder"] = func() string {
		fset, f := parseFile("src/core/config.go")
		t := &cfgTrans{fset: fset, file: f, consts: map[string]ast.Expr{}}
		for _, d := range f.Decls {
			gd, ok := d.(*ast.GenDecl)
			if !ok || gd.Tok != token.CONST {
				continue
			}
			for _, s := range gd.Specs {
				vs := s.(*ast.ValueSpec)
				if len(vs.Names) == 1 && len(vs.Values) == 1 {
					t.consts[vs.Names[0].Name] = vs.Values[0]
				}
			}
		}
		global, repo := t.globalOrder(), t.repoOrder()
		reads, late, lateBazel, derived, computed, appended := t.readConfigFiles()
		sep := ";\n   "
		return genHeader +
			"(* one entry per element of the search order.  SrcEnvDirs var sep name: every absolute element of $var split at sep, joined with name;\n" +
			"   SrcEnvDir var name: $var if set and absolute, joined with name; SrcHome: ~ expanded; SrcRepo: under the repository root;\n" +
			"   <arch> stands for runtime.GOOS_runtime.GOARCH *)\n" +
			"Inductive cfg_src := SrcAbs (path : string) | SrcEnvDirs (var sep name : string) | SrcHome (path : string)\n" +
			"  | SrcEnvDir (var name : string) | SrcRepo (name : string).\n" +
			"Definition global_order : list cfg_src :=\n  [" + strings.Join(global, sep) + "].\n" +
			"Definition repo_order : list cfg_src :=\n  [" + strings.Join(repo, sep) + "].\n" +
			"(* what ReadConfigFiles reads for one file name, in order; ReadProfiles sep = for every profile, in order, name ++ sep ++ profile *)\n" +
			"Inductive cfg_read := ReadFile | ReadProfiles (sep : string).\n" +
			"Definition per_file_reads : list cfg_read := [" + strings.Join(reads, "; ") + "].\n" +
			"(* setDefault calls after the read loop (usingBazelWorkspace = false, resp. true) *)\n" +
			"Definition late_defaults : list (string * list string) :=\n  [" + strings.Join(late, sep) + "].\n" +
			"Definition late_defaults_bazel : list (string * list string) :=\n  [" + strings.Join(lateBazel, sep) + "].\n" +
			"(* if config.<src> != \"\" { config.<dst> = filepath.Join(config.<src>, parts...) } after the read loop *)\n" +
			"Definition derived_options : list (string * string * list string) := [" + strings.Join(derived, "; ") + "].\n" +
			"(* setBuildPath(&config.<target>, config.<trigger>...) after the read loop, body of setBuildPath instantiated:\n" +
			"   (target, [(trigger option, element)], env var, separator, fallback): setDefault(&target, v...) where v = strings.Split(os.Getenv(var), sep)\n" +
			"   if some trigger option lists its element, else the fallback *)\n" +
			"Definition computed_defaults : list (string * list (string * string) * string * string * list string) :=\n  [" + strings.Join(computed, sep) + "].\n" +
			"(* if !config.<cond> { config.<dst> = append(config.<dst>, elem) } after the read loop: (cond, dst, elem) *)\n" +
			"Definition appended_options : list (string * string * string) := [" + strings.Join(appended, "; ") + "].\n" +
			"(* DefaultConfiguration(): None = right-hand side is not a literal *)\n" +
			"Definition init_defaults : list (string * option (list string)) :=\n  [" + strings.Join(initDefaults(t), sep) + "].\n"
	}
}

func initDefaults(t *cfgTrans) []string { return t.initDefaults() }
