package main

import (
	"bytes"
	"fmt"
	"go/ast"
	"go/printer"
	"go/token"
	"regexp"
	"strings"
)

// ConfigOrder (property C39): from src/core/config.go
//   - the config file search order (defaultGlobalConfigFiles, defaultConfigFiles and the constants they use),
//   - the reads ReadConfigFiles does for every file name (the file, then file+"."+profile for every profile),
//   - the slice defaults installed after reading (setDefault calls),
//   - the computed default of setBuildPath (its body is translated statement by statement: fallback, the
//     (option, element) pairs that switch to strings.Split(os.Getenv(var), sep), the final setDefault),
//   - `if !config.A.B { config.C.D = append(config.C.D, "x") }` (an element appended to one option when another is false) and
//   - the literal defaults of DefaultConfiguration(),
//   - what readConfigFileOnly does when fs.Open fails (translated: which errors are skipped, which abort the read),
//   - the statements of readConfigFile (fresh plugin map, read-or-abort, merge) and
//   - the passes of normaliseAndMergePluginConfig, in the order they are written (lower-casing of the keys, merge of the
//     previous layers' values).
// Every statement of the two order functions and of the read loop must match one of the shapes below.

type cfgTrans struct {
	fset   *token.FileSet
	file   *ast.File
	consts map[string]ast.Expr
}

func (t *cfgTrans) text(n ast.Node) string {
	var b bytes.Buffer
	if err := printer.Fprint(&b, t.fset, n); err != nil {
		failShape("cannot print node: %v", err)
	}
	return strings.Join(strings.Fields(b.String()), " ")
}

// constString evaluates a constant string expression; runtime.GOOS + "_" + runtime.GOARCH is the symbol <arch>.
func (t *cfgTrans) constString(e ast.Expr, depth int) string {
	if depth > 8 {
		failShape("constant expression too deep")
	}
	switch x := e.(type) {
	case *ast.BasicLit:
		return unquote(x)
	case *ast.Ident:
		d, ok := t.consts[x.Name]
		if !ok {
			failShape("identifier %s is not a string constant of config.go", x.Name)
		}
		if t.text(d) == `runtime.GOOS + "_" + runtime.GOARCH` {
			return "<arch>"
		}
		return t.constString(d, depth+1)
	case *ast.BinaryExpr:
		if x.Op != token.ADD {
			failShape("constant expression uses operator %s", x.Op)
		}
		return t.constString(x.X, depth+1) + t.constString(x.Y, depth+1)
	case *ast.ParenExpr:
		return t.constString(x.X, depth+1)
	}
	failShape("constant expression of unknown shape: %s", t.text(e))
	return ""
}

var identRe = `[A-Za-z_][A-Za-z_0-9]*`

func (t *cfgTrans) globalOrder() ([]string, string) {
	fd := findFunc(t.file, "", "defaultGlobalConfigFiles")
	stmts := fd.Body.List
	if len(stmts) < 2 {
		failShape("defaultGlobalConfigFiles: body too short")
	}
	out := []string{}
	// configFiles := []string{ A, B, ... }
	first, ok := stmts[0].(*ast.AssignStmt)
	if !ok || first.Tok != token.DEFINE || len(first.Lhs) != 1 || len(first.Rhs) != 1 {
		failShape("defaultGlobalConfigFiles: first statement is not `v := []string{...}`")
	}
	v := first.Lhs[0].(*ast.Ident).Name
	cl, ok := first.Rhs[0].(*ast.CompositeLit)
	if !ok || t.text(cl.Type) != "[]string" {
		failShape("defaultGlobalConfigFiles: first statement is not `v := []string{...}`")
	}
	for _, e := range cl.Elts {
		out = append(out, "SrcAbs "+coqString(t.constString(e, 0)))
	}
	q := regexp.QuoteMeta
	reAppendHome := regexp.MustCompile(`^` + q(v) + ` = append\(` + q(v) + `, fs\.ExpandHomePath\((` + identRe + `)\)\)$`)
	reDirs := regexp.MustCompile(`^if (` + identRe + `) := os\.Getenv\("([A-Z_]+)"\); (` + identRe + `) != "" \{ for _, (` + identRe + `) := range strings\.Split\((` + identRe + `), "(.)"\) \{ if !filepath\.IsAbs\((` + identRe + `)\) \{ continue \} ` +
		q(v) + ` = append\(` + q(v) + `, filepath\.Join\((` + identRe + `), (` + identRe + `)\)\) \} \}$`)
	reDir := regexp.MustCompile(`^if (` + identRe + `) := os\.Getenv\("([A-Z_]+)"\); (` + identRe + `) != "" && filepath\.IsAbs\((` + identRe + `)\) \{ ` +
		q(v) + ` = append\(` + q(v) + `, filepath\.Join\((` + identRe + `), (` + identRe + `)\)\) \}$`)
	// the end of the function: `return v` (every name as often as it was appended), or the keep-last dedupe
	//   d := v[:0:0]; for i, f := range v { if !slices.Contains(v[i+1:], f) { d = append(d, f) } }; return d
	dedupe := "DedupeNone"
	if n := len(stmts); n >= 4 && t.text(stmts[n-1]) != "return "+v {
		reInit := regexp.MustCompile(`^(` + identRe + `) := ` + q(v) + `\[:0:0\]$`)
		m := reInit.FindStringSubmatch(t.text(stmts[n-3]))
		if m == nil {
			failShape("defaultGlobalConfigFiles: does not end in `return %s` or the keep-last dedupe: %s", v, t.text(stmts[n-3]))
		}
		d := m[1]
		wantLoop := "for i, f := range " + v + " { if !slices.Contains(" + v + "[i+1:], f) { " + d + " = append(" + d + ", f) } }"
		if t.text(stmts[n-2]) != wantLoop {
			failShape("defaultGlobalConfigFiles: dedupe loop of unknown shape: %s", t.text(stmts[n-2]))
		}
		if t.text(stmts[n-1]) != "return "+d {
			failShape("defaultGlobalConfigFiles: last statement is %q, not `return %s`", t.text(stmts[n-1]), d)
		}
		dedupe = "DedupeKeepLast"
		stmts = append(append([]ast.Stmt{}, stmts[:n-3]...), &ast.ReturnStmt{Results: []ast.Expr{ast.NewIdent(v)}})
	}
	for i, st := range stmts[1:] {
		txt := t.text(st)
		if i == len(stmts)-2 {
			if txt != "return "+v {
				failShape("defaultGlobalConfigFiles: last statement is %q, not `return %s`", txt, v)
			}
			break
		}
		if m := reAppendHome.FindStringSubmatch(txt); m != nil {
			out = append(out, "SrcHome "+coqString(t.constString(ast.NewIdent(m[1]), 0)))
		} else if m := reDirs.FindStringSubmatch(txt); m != nil {
			if m[1] != m[3] || m[1] != m[5] || m[4] != m[7] || m[4] != m[8] {
				failShape("defaultGlobalConfigFiles: variables of the %s block do not line up: %s", m[2], txt)
			}
			out = append(out, fmt.Sprintf("SrcEnvDirs %s %s %s", coqString(m[2]), coqString(m[6]), coqString(t.constString(ast.NewIdent(m[9]), 0))))
		} else if m := reDir.FindStringSubmatch(txt); m != nil {
			if m[1] != m[3] || m[1] != m[4] || m[1] != m[5] {
				failShape("defaultGlobalConfigFiles: variables of the %s block do not line up: %s", m[2], txt)
			}
			out = append(out, fmt.Sprintf("SrcEnvDir %s %s", coqString(m[2]), coqString(t.constString(ast.NewIdent(m[6]), 0))))
		} else {
			failShape("defaultGlobalConfigFiles: statement of unknown shape: %s", txt)
		}
	}
	return out, dedupe
}

func (t *cfgTrans) repoOrder() []string {
	fd := findFunc(t.file, "", "defaultConfigFiles")
	if len(fd.Body.List) != 1 {
		failShape("defaultConfigFiles: body is not a single return")
	}
	ret, ok := fd.Body.List[0].(*ast.ReturnStmt)
	if !ok || len(ret.Results) != 1 {
		failShape("defaultConfigFiles: body is not a single return")
	}
	call, ok := ret.Results[0].(*ast.CallExpr)
	if !ok || t.text(call.Fun) != "append" || len(call.Args) < 1 || t.text(call.Args[0]) != "defaultGlobalConfigFiles()" || call.Ellipsis != token.NoPos {
		failShape("defaultConfigFiles: not `return append(defaultGlobalConfigFiles(), ...)`: %s", t.text(ret))
	}
	out := []string{}
	for _, a := range call.Args[1:] {
		j, ok := a.(*ast.CallExpr)
		if !ok || t.text(j.Fun) != "filepath.Join" || len(j.Args) != 2 || t.text(j.Args[0]) != "RepoRoot" {
			failShape("defaultConfigFiles: argument is not filepath.Join(RepoRoot, <const>): %s", t.text(a))
		}
		out = append(out, "SrcRepo "+coqString(t.constString(j.Args[1], 0)))
	}
	return out
}

// the statements of ReadConfigFiles: the read loop, then the slice defaults
func (t *cfgTrans) readConfigFiles() (reads []string, late []string, lateBazel []string, derived []string, computed []string, appended []string) {
	fd := findFunc(t.file, "", "ReadConfigFiles")
	if len(fd.Type.Params.List) != 3 {
		failShape("ReadConfigFiles: expected 3 parameters")
	}
	fsName := fd.Type.Params.List[0].Names[0].Name
	names := fd.Type.Params.List[1].Names[0].Name
	profiles := fd.Type.Params.List[2].Names[0].Name
	stmts := fd.Body.List
	if len(stmts) < 3 || t.text(stmts[0]) != "config := DefaultConfiguration()" {
		failShape("ReadConfigFiles: does not start with `config := DefaultConfiguration()`")
	}
	q := regexp.QuoteMeta
	read := func(arg string) string {
		return `if err := readConfigFile\(` + q(fsName) + `, config, ` + arg + `, false\); err != nil \{ return config, err \}`
	}
	reLoop := regexp.MustCompile(`^for _, (` + identRe + `) := range ` + q(names) + ` \{ ` + read(`(`+identRe+`)`) +
		` for _, (` + identRe + `) := range ` + q(profiles) + ` \{ ` + read(`(`+identRe+`) ?\+ ?"([^"]*)" ?\+ ?(`+identRe+`)`) + ` \} \}$`)
	m := reLoop.FindStringSubmatch(t.text(stmts[1]))
	if m == nil {
		failShape("ReadConfigFiles: the loop over the file names has an unknown shape: %s", t.text(stmts[1]))
	}
	if m[1] != m[2] || m[1] != m[4] || m[3] != m[6] {
		failShape("ReadConfigFiles: loop variables do not line up: %s", t.text(stmts[1]))
	}
	reads = []string{"ReadFile", "ReadProfiles " + coqString(m[5])}

	defaultPath := ""
	for _, d := range t.file.Decls {
		gd, ok := d.(*ast.GenDecl)
		if !ok || gd.Tok != token.VAR {
			continue
		}
		for _, s := range gd.Specs {
			vs := s.(*ast.ValueSpec)
			if len(vs.Names) == 1 && vs.Names[0].Name == "DefaultPath" && len(vs.Values) == 1 {
				defaultPath = t.stringSliceLit(vs.Values[0], "[]string")
			}
		}
	}
	if defaultPath == "" {
		failShape("var DefaultPath = []string{...} not found")
	}
	setDefault := func(call *ast.CallExpr) string {
		if len(call.Args) < 1 {
			failShape("setDefault without arguments")
		}
		vals := []string{}
		for _, a := range call.Args[1:] {
			bl, ok := a.(*ast.BasicLit)
			if !ok || bl.Kind != token.STRING {
				failShape("setDefault argument is not a string literal: %s", t.text(a))
			}
			vals = append(vals, unquote(bl))
		}
		return "(" + coqString(t.fieldName(call.Args[0], true)) + ", " + coqStringList(vals) + ")"
	}
	for _, st := range stmts[2:] {
		switch x := st.(type) {
		case *ast.ExprStmt:
			call, ok := x.X.(*ast.CallExpr)
			if !ok {
				continue
			}
			switch t.text(call.Fun) {
			case "setDefault":
				e := setDefault(call)
				late = append(late, e)
				lateBazel = append(lateBazel, e)
			case "setBuildPath":
				if len(call.Args) != 3 {
					failShape("setBuildPath: expected 3 arguments")
				}
				computed = append(computed, t.setBuildPath(call, defaultPath))
			}
		case *ast.IfStmt:
			// if config.A.B != "" { config.C.D = filepath.Join(config.A.B, "x", "y") }  : an option computed from another one
			if m := reDerive.FindStringSubmatch(t.text(x)); m != nil && m[1] == m[5] && m[2] == m[6] {
				parts := []string{}
				for _, p := range strings.Split(m[7], ", ") {
					parts = append(parts, strings.Trim(p, `"`))
				}
				derived = append(derived, fmt.Sprintf("(%s, %s, %s)", coqString(strings.ToLower(m[1]+"."+m[2])), coqString(strings.ToLower(m[3]+"."+m[4])), coqStringList(parts)))
				continue
			}
			if m := reAppendIfFalse.FindStringSubmatch(t.text(x)); m != nil {
				if m[3] != m[5] || m[4] != m[6] {
					failShape("ReadConfigFiles: append to a different field than the one assigned: %s", t.text(x))
				}
				appended = append(appended, fmt.Sprintf("(%s, %s, %s)", coqString(strings.ToLower(m[1]+"."+m[2])), coqString(strings.ToLower(m[3]+"."+m[4])), coqString(m[7])))
				continue
			}
			if t.text(x.Cond) != "usingBazelWorkspace" {
				continue
			}
			els, ok := x.Else.(*ast.BlockStmt)
			if !ok || x.Init != nil {
				failShape("if usingBazelWorkspace: unknown shape")
			}
			for k, blk := range []*ast.BlockStmt{x.Body, els} {
				for _, s := range blk.List {
					es, ok := s.(*ast.ExprStmt)
					var call *ast.CallExpr
					if ok {
						call, ok = es.X.(*ast.CallExpr)
					}
					if !ok || t.text(call.Fun) != "setDefault" {
						failShape("if usingBazelWorkspace: branch contains something other than setDefault: %s", t.text(s))
					}
					if k == 0 {
						lateBazel = append(lateBazel, setDefault(call))
					} else {
						late = append(late, setDefault(call))
					}
				}
			}
		}
	}
	if len(late) == 0 {
		failShape("ReadConfigFiles: no setDefault call found")
	}
	return reads, late, lateBazel, derived, computed, appended
}

var reAppendIfFalse = regexp.MustCompile(`^if !config\.(\w+)\.(\w+) \{ config\.(\w+)\.(\w+) = append\(config\.(\w+)\.(\w+), "([^"]*)"\) \}$`)

// setBuildPath translates the body of setBuildPath, instantiated at its call site, into one entry
//   (target, [(trigger option, element); ...], env var, separator, fallback).
// Recognised body, in this order and nothing else:
//   v := DefaultPath
//   for _, i := range <param> { if i == "<elem>" { v = strings.Split(os.Getenv("<VAR>"), "<sep>") } }     (one or more)
//   setDefault(<first param>, v...)
func (t *cfgTrans) setBuildPath(call *ast.CallExpr, defaultPath string) string {
	fd := findFunc(t.file, "", "setBuildPath")
	params := []string{}
	for _, f := range fd.Type.Params.List {
		for _, n := range f.Names {
			params = append(params, n.Name)
		}
	}
	if len(params) != len(call.Args) || len(params) < 2 {
		failShape("setBuildPath: %d parameters but %d arguments at the call site", len(params), len(call.Args))
	}
	arg := map[string]string{}
	for i, p := range params[1:] {
		arg[p] = t.fieldName(call.Args[i+1], false)
	}
	target := t.fieldName(call.Args[0], true)
	stmts := fd.Body.List
	if len(stmts) < 3 {
		failShape("setBuildPath: body too short: %s", t.text(fd.Body))
	}
	m := regexp.MustCompile(`^(` + identRe + `) := DefaultPath$`).FindStringSubmatch(t.text(stmts[0]))
	if m == nil {
		failShape("setBuildPath: first statement is not `v := DefaultPath`: %s", t.text(stmts[0]))
	}
	v := regexp.QuoteMeta(m[1])
	reFor := regexp.MustCompile(`^for _, (` + identRe + `) := range (` + identRe + `) \{ if (` + identRe + `) == "([^"]*)" \{ ` + v +
		` = strings\.Split\(os\.Getenv\("([A-Z_]+)"\), "(.)"\) \} \}$`)
	triggers, envVar, sep := []string{}, "", ""
	for _, st := range stmts[1 : len(stmts)-1] {
		f := reFor.FindStringSubmatch(t.text(st))
		if f == nil {
			failShape("setBuildPath: statement of unknown shape: %s", t.text(st))
		}
		if f[1] != f[3] {
			failShape("setBuildPath: loop variable and compared variable differ: %s", t.text(st))
		}
		field, ok := arg[f[2]]
		if !ok {
			failShape("setBuildPath: loop over %s, which is not a slice parameter", f[2])
		}
		if envVar != "" && (envVar != f[5] || sep != f[6]) {
			failShape("setBuildPath: loops read different variables/separators")
		}
		envVar, sep = f[5], f[6]
		triggers = append(triggers, "("+coqString(field)+", "+coqString(f[4])+")")
	}
	if len(triggers) == 0 {
		failShape("setBuildPath: no loop over a parameter found")
	}
	if last := t.text(stmts[len(stmts)-1]); last != "setDefault("+params[0]+", "+m[1]+"...)" {
		failShape("setBuildPath: last statement is not `setDefault(%s, %s...)`: %s", params[0], m[1], last)
	}
	return fmt.Sprintf("(%s, [%s], %s, %s, %s)", coqString(target), strings.Join(triggers, "; "), coqString(envVar), coqString(sep), defaultPath)
}


// openPolicy translates the error handling after `f, err := <fs>.Open(<filename>)` in readConfigFileOnly into
// (action for an error that satisfies os.IsNotExist, action for every other error): "OpenSkip" = return nil (the file is
// treated as absent), "OpenAbort" = return err.
// Recognised statements inside `if err != nil { ... }`, anything else fails closed:
//   if os.IsNotExist(err) { return nil | return err }
//   log.<Level>(...)
//   return err | return nil            (ends the block)
func (t *cfgTrans) openPolicy() (notExist, other string) {
	fd := findFunc(t.file, "", "readConfigFileOnly")
	if len(fd.Type.Params.List) < 3 {
		failShape("readConfigFileOnly: expected at least 3 parameters")
	}
	fsName := fd.Type.Params.List[0].Names[0].Name
	fileName := fd.Type.Params.List[2].Names[0].Name
	openIdx := -1
	for i, st := range fd.Body.List {
		if t.text(st) == "f, err := "+fsName+".Open("+fileName+")" {
			openIdx = i
		}
	}
	if openIdx < 0 || openIdx+1 >= len(fd.Body.List) {
		failShape("readConfigFileOnly: `f, err := %s.Open(%s)` not found", fsName, fileName)
	}
	for _, st := range fd.Body.List[:openIdx] {
		if !strings.HasPrefix(t.text(st), "log.") {
			failShape("readConfigFileOnly: statement before the Open call is not a log call: %s", t.text(st))
		}
	}
	ifs, ok := fd.Body.List[openIdx+1].(*ast.IfStmt)
	if !ok || ifs.Init != nil || ifs.Else != nil || t.text(ifs.Cond) != "err != nil" {
		failShape("readConfigFileOnly: the Open call is not followed by `if err != nil { ... }`: %s", t.text(fd.Body.List[openIdx+1]))
	}
	action := func(ret string) string {
		switch ret {
		case "return nil":
			return "OpenSkip"
		case "return err":
			return "OpenAbort"
		}
		failShape("readConfigFileOnly: unknown return in the Open error handling: %s", ret)
		return ""
	}
	for _, st := range ifs.Body.List {
		txt := t.text(st)
		switch x := st.(type) {
		case *ast.IfStmt:
			if x.Init != nil || x.Else != nil || t.text(x.Cond) != "os.IsNotExist(err)" || len(x.Body.List) != 1 {
				failShape("readConfigFileOnly: unknown condition in the Open error handling: %s", txt)
			}
			if notExist != "" {
				failShape("readConfigFileOnly: os.IsNotExist tested twice")
			}
			notExist = action(t.text(x.Body.List[0]))
		case *ast.ExprStmt:
			if !strings.HasPrefix(txt, "log.") {
				failShape("readConfigFileOnly: unknown statement in the Open error handling: %s", txt)
			}
		case *ast.ReturnStmt:
			if other != "" {
				failShape("readConfigFileOnly: statement after a return in the Open error handling")
			}
			other = action(txt)
		default:
			failShape("readConfigFileOnly: unknown statement in the Open error handling: %s", txt)
		}
	}
	if other == "" {
		failShape("readConfigFileOnly: the Open error handling does not end in a return")
	}
	if notExist == "" {
		notExist = other
	}
	return notExist, other
}

// readFileSteps translates the statements of readConfigFile (what happens around one file of the read loop).
func (t *cfgTrans) readFileSteps() []string {
	fd := findFunc(t.file, "", "readConfigFile")
	if len(fd.Type.Params.List) != 4 {
		failShape("readConfigFile: expected 4 parameters")
	}
	fsName := fd.Type.Params.List[0].Names[0].Name
	cfg := fd.Type.Params.List[1].Names[0].Name
	fileName := fd.Type.Params.List[2].Names[0].Name
	sub := fd.Type.Params.List[3].Names[0].Name
	saved := ""
	out := []string{}
	for i, st := range fd.Body.List {
		txt := t.text(st)
		if m := regexp.MustCompile(`^(` + identRe + `) := ` + regexp.QuoteMeta(cfg) + `\.Plugin$`).FindStringSubmatch(txt); m != nil && saved == "" {
			saved = m[1]
			out = append(out, "RSavePlugins")
			continue
		}
		switch txt {
		case cfg + ".Plugin = map[string]*Plugin{}":
			out = append(out, "RFreshPlugins")
		case "if err := readConfigFileOnly(" + fsName + ", " + cfg + ", " + fileName + ", " + sub + "); err != nil { return err }":
			out = append(out, "RReadOrAbort")
		case "if " + sub + " { checkPluginVersionRequirements(" + cfg + ") }":
			// subrepo == false on the paths of this property
		case "normaliseAndMergePluginConfig(" + cfg + ", " + saved + ")":
			out = append(out, "RMergePlugins")
		case "return nil":
			if i != len(fd.Body.List)-1 {
				failShape("readConfigFile: return before the end")
			}
		default:
			failShape("readConfigFile: statement of unknown shape: %s", txt)
		}
	}
	return out
}

// pluginMergeSteps translates the top-level passes of normaliseAndMergePluginConfig, in source order.
func (t *cfgTrans) pluginMergeSteps() []string {
	fd := findFunc(t.file, "", "normaliseAndMergePluginConfig")
	if len(fd.Type.Params.List) != 2 {
		failShape("normaliseAndMergePluginConfig: expected 2 parameters")
	}
	cfg := fd.Type.Params.List[0].Names[0].Name
	old := fd.Type.Params.List[1].Names[0].Name
	lowerPass := "for _, plugin := range " + cfg + ".Plugin { newExtraValues := make(map[string][]string, len(plugin.ExtraValues)) " +
		"for k, v := range plugin.ExtraValues { newExtraValues[strings.ToLower(k)] = v } plugin.ExtraValues = newExtraValues }"
	mergePass := "for pluginName, plugin := range " + old + " { pluginName = strings.ToLower(pluginName) newPlugin, ok := " + cfg + ".Plugin[pluginName] " +
		"if !ok { " + cfg + ".Plugin[pluginName] = plugin continue } " +
		"if newPlugin.Target.IsEmpty() { newPlugin.Target = plugin.Target } " +
		"for k, v := range plugin.ExtraValues { if _, ok := newPlugin.ExtraValues[k]; !ok { newPlugin.ExtraValues[k] = v } } }"
	out := []string{}
	for _, st := range fd.Body.List {
		switch t.text(st) {
		case lowerPass:
			out = append(out, "PLowerKeys")
		case mergePass:
			out = append(out, "PMergeOld")
		default:
			failShape("normaliseAndMergePluginConfig: pass of unknown shape: %s", t.text(st))
		}
	}
	if len(out) == 0 {
		failShape("normaliseAndMergePluginConfig: empty body")
	}
	return out
}

var reDerive = regexp.MustCompile(`^if config\.(\w+)\.(\w+) != "" \{ config\.(\w+)\.(\w+) = filepath\.Join\(config\.(\w+)\.(\w+), ("[^"]*"(?:, "[^"]*")*)\) \}$`)

// fieldName turns config.A.B (or &config.A.B) into "a.b"
func (t *cfgTrans) fieldName(e ast.Expr, addr bool) string {
	if addr {
		u, ok := e.(*ast.UnaryExpr)
		if !ok || u.Op != token.AND {
			failShape("expected &config.Section.Field, got %s", t.text(e))
		}
		e = u.X
	}
	s2, ok := e.(*ast.SelectorExpr)
	if !ok {
		failShape("expected config.Section.Field, got %s", t.text(e))
	}
	s1, ok := s2.X.(*ast.SelectorExpr)
	if !ok {
		failShape("expected config.Section.Field, got %s", t.text(e))
	}
	if id, ok := s1.X.(*ast.Ident); !ok || id.Name != "config" {
		failShape("expected config.Section.Field, got %s", t.text(e))
	}
	return strings.ToLower(s1.Sel.Name) + "." + strings.ToLower(s2.Sel.Name)
}

func (t *cfgTrans) stringSliceLit(e ast.Expr, typ string) string {
	cl, ok := e.(*ast.CompositeLit)
	if !ok || t.text(cl.Type) != typ {
		failShape("expected a %s literal, got %s", typ, t.text(e))
	}
	vals := []string{}
	for _, el := range cl.Elts {
		bl, ok := el.(*ast.BasicLit)
		if !ok || bl.Kind != token.STRING {
			failShape("element of %s literal is not a string literal: %s", typ, t.text(el))
		}
		vals = append(vals, unquote(bl))
	}
	return coqStringList(vals)
}

// initDefaults: the `config.A.B = <literal>` statements of DefaultConfiguration(); a right-hand side that is
// not a string / int / bool literal or a literal slice of strings is recorded as None (not translated).
func (t *cfgTrans) initDefaults() []string {
	fd := findFunc(t.file, "", "DefaultConfiguration")
	out := []string{}
	for _, st := range fd.Body.List {
		as, ok := st.(*ast.AssignStmt)
		if !ok || as.Tok != token.ASSIGN || len(as.Lhs) != 1 || len(as.Rhs) != 1 {
			continue
		}
		s2, ok := as.Lhs[0].(*ast.SelectorExpr)
		if !ok {
			continue
		}
		if _, ok := s2.X.(*ast.SelectorExpr); !ok {
			continue // config.BuildConfig = ... : a whole section
		}
		name := t.fieldName(as.Lhs[0], false)
		val := "None"
		switch r := as.Rhs[0].(type) {
		case *ast.BasicLit:
			if r.Kind == token.STRING {
				val = "Some " + coqStringList([]string{unquote(r)})
			} else if r.Kind == token.INT {
				val = "Some " + coqStringList([]string{r.Value})
			}
		case *ast.Ident:
			if r.Name == "true" || r.Name == "false" {
				val = "Some " + coqStringList([]string{r.Name})
			}
		case *ast.CompositeLit:
			if _, ok := r.Type.(*ast.ArrayType); ok {
				val = "Some " + t.stringSliceLit(r, t.text(r.Type))
			}
		}
		out = append(out, "("+coqString(name)+", "+val+")")
	}
	if len(out) == 0 {
		failShape("DefaultConfiguration: no config.Section.Field = ... statement found")
	}
	return out
}

func init() {
	targets["ConfigOrder"] = func() string {
		fset, f := parseFile("src/core/config.go")
		t := &cfgTrans{fset: fset, file: f, consts: map[string]ast.Expr{}}
		for _, d := range f.Decls {
			gd, ok := d.(*ast.GenDecl)
			if !ok || gd.Tok != token.CONST {
				continue
			}
			for _, s := range gd.Specs {
				vs := s.(*ast.ValueSpec)
				if len(vs.Names) == 1 && len(vs.Values) == 1 {
					t.consts[vs.Names[0].Name] = vs.Values[0]
				}
			}
		}
		global, dedupe := t.globalOrder()
		repo := t.repoOrder()
		reads, late, lateBazel, derived, computed, appended := t.readConfigFiles()
		sep := ";\n   "
		notExist, otherErr := t.openPolicy()
		return genHeader +
			"(* one entry per element of the search order.  SrcEnvDirs var sep name: every absolute element of $var split at sep, joined with name;\n" +
			"   SrcEnvDir var name: $var if set and absolute, joined with name; SrcHome: ~ expanded; SrcRepo: under the repository root;\n" +
			"   <arch> stands for runtime.GOOS_runtime.GOARCH *)\n" +
			"Inductive cfg_src := SrcAbs (path : string) | SrcEnvDirs (var sep name : string) | SrcHome (path : string)\n" +
			"  | SrcEnvDir (var name : string) | SrcRepo (name : string).\n" +
			"Definition global_order : list cfg_src :=\n  [" + strings.Join(global, sep) + "].\n" +
			"(* how defaultGlobalConfigFiles returns the list built from global_order: DedupeNone = as built; DedupeKeepLast = every name once,\n" +
			"   at its last (highest-priority) position: element i is kept iff it does not occur again after position i *)\n" +
			"Inductive dedupe_mode := DedupeNone | DedupeKeepLast.\n" +
			"Definition global_dedupe : dedupe_mode := " + dedupe + ".\n" +
			"Definition repo_order : list cfg_src :=\n  [" + strings.Join(repo, sep) + "].\n" +
			"(* what ReadConfigFiles reads for one file name, in order; ReadProfiles sep = for every profile, in order, name ++ sep ++ profile *)\n" +
			"Inductive cfg_read := ReadFile | ReadProfiles (sep : string).\n" +
			"Definition per_file_reads : list cfg_read := [" + strings.Join(reads, "; ") + "].\n" +
			"(* setDefault calls after the read loop (usingBazelWorkspace = false, resp. true) *)\n" +
			"Definition late_defaults : list (string * list string) :=\n  [" + strings.Join(late, sep) + "].\n" +
			"Definition late_defaults_bazel : list (string * list string) :=\n  [" + strings.Join(lateBazel, sep) + "].\n" +
			"(* if config.<src> != \"\" { config.<dst> = filepath.Join(config.<src>, parts...) } after the read loop *)\n" +
			"Definition derived_options : list (string * string * list string) := [" + strings.Join(derived, "; ") + "].\n" +
			"(* setBuildPath(&config.<target>, config.<trigger>...) after the read loop, body of setBuildPath instantiated:\n" +
			"   (target, [(trigger option, element)], env var, separator, fallback): setDefault(&target, v...) where v = strings.Split(os.Getenv(var), sep)\n" +
			"   if some trigger option lists its element, else the fallback *)\n" +
			"Definition computed_defaults : list (string * list (string * string) * string * string * list string) :=\n  [" + strings.Join(computed, sep) + "].\n" +
			"(* if !config.<cond> { config.<dst> = append(config.<dst>, elem) } after the read loop: (cond, dst, elem) *)\n" +
			"Definition appended_options : list (string * string * string) := [" + strings.Join(appended, "; ") + "].\n" +
			"(* DefaultConfiguration(): None = right-hand side is not a literal *)\n" +
			"Definition init_defaults : list (string * option (list string)) :=\n  [" + strings.Join(initDefaults(t), sep) + "].\n" +
			"(* readConfigFileOnly, after `f, err := fs.Open(filename)`: what an error of Open leads to.\n" +
			"   OpenSkip = return nil (the location is treated as absent), OpenAbort = return err (the whole read fails) *)\n" +
			"Inductive open_action := OpenSkip | OpenAbort.\n" +
			"Definition on_open_not_exist : open_action := " + notExist + ".\n" +
			"Definition on_open_other_error : open_action := " + otherErr + ".\n" +
			"(* readConfigFile, statement by statement: plugins := config.Plugin / config.Plugin = map[string]*Plugin{} /\n" +
			"   if err := readConfigFileOnly(...); err != nil { return err } / normaliseAndMergePluginConfig(config, plugins) *)\n" +
			"Inductive read_file_step := RSavePlugins | RFreshPlugins | RReadOrAbort | RMergePlugins.\n" +
			"Definition read_file_steps : list read_file_step := [" + strings.Join(t.readFileSteps(), "; ") + "].\n" +
			"(* normaliseAndMergePluginConfig, pass by pass in source order: PLowerKeys = every key of the plugin sections just read is\n" +
			"   lower-cased; PMergeOld = the previous layers' values are copied in for the keys the section just read does not have *)\n" +
			"Inductive plugin_step := PLowerKeys | PMergeOld.\n" +
			"Definition plugin_merge_steps : list plugin_step := [" + strings.Join(t.pluginMergeSteps(), "; ") + "].\n"
	}
}

func initDefaults(t *cfgTrans) []string { return t.initDefaults() }
