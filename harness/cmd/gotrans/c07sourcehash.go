package main

// C07SourceHash: translate the body of build.sourceHash (src/build/incrementality.go) into the loop program of
// Model/C07_Src.v (`sprog`): which of hash / path is written per yielded source and per tool path, in which order, and the
// includeTools argument of core.IterSources; and fingerprint the functions whose ORDER the proofs of Proof/C07_Src.v rely
// on. Output: Gen/C07SourceHash.v (for the proofs and the Coq side of the correspondence) and Gen/C07SourceHash.json (the
// same program, interpreted by the Go harness over real graphs).
//
// Closed set of shapes; anything else -> failShape (exit 3). Deliberately tolerated, because the theorem is meant to
// notice it: a missing `sort.Sort(ret)` in BuildTarget.BuildDependencies (-> sp_build_deps_sorted = false), a missing
// `sort.Strings(keys)` in BuildTarget.allBuildInputs (-> sp_inputs_sorted = false), reordered / dropped / duplicated
// h.Write calls and loops in sourceHash (-> another program; the expected stream of Props/C07.v's example pins the current one).
// Hand-modelled and therefore matched exactly: core.IterSources, core.IterInputs, BuildTarget.AllSources, AllTools,
// ExportedDependencies (NOT sorted: the model follows the stored order), IsTool, isTool, BuildTargets.Less.

import (
	"encoding/json"
	"go/ast"
	"go/token"
	"os"
	"path/filepath"
	"strings"
)

func init() { targets["C07SourceHash"] = c07SourceHash }

type shEmit struct {
	Op           string   `json:"op"` // SrcLoop | ToolLoop
	IncludeTools bool     `json:"include_tools"`
	Ws           []string `json:"ws"` // WHash | WPath
}

type shProg struct {
	Body            []shEmit `json:"body"`
	BuildDepsSorted bool     `json:"build_deps_sorted"`
	InputsSorted    bool     `json:"inputs_sorted"`
}

const c07IterSources = `return func(yield func(string, string) bool) {
	done := map[string]bool{}
	tmpDir := target.TmpDir()
	for input := range IterInputs(state, graph, target, includeTools, false) {
		fullPaths := input.FullPaths(graph)
		for i, sourcePath := range input.Paths(graph) {
			if tmpPath := filepath.Join(tmpDir, sourcePath); !done[tmpPath] {
				if !yield(fullPaths[i], tmpPath) {
					return
				}
				done[tmpPath] = true
			}
		}
	}
}`

const c07IterInputs = `return func(yield func(BuildInput) bool) {
	done := map[BuildLabel]bool{}
	recursivelyProvideSource := func(target *BuildTarget, src BuildInput) bool {
		if label, ok := src.nonOutputLabel(); ok {
			for p := range recursivelyProvideFor(graph, target, target, label) {
				if !yield(p) {
					return false
				}
				for runDep := range graph.TargetOrDie(p).IterAllRuntimeDependencies(graph) {
					if !yield(runDep) {
						return false
					}
				}
			}
			return true
		}
		return yield(src)
	}
	var inner func(dependency *BuildTarget) bool
	inner = func(dependency *BuildTarget) bool {
		if dependency != target {
			if !yield(dependency.Label) {
				return false
			}
			for runDep := range graph.TargetOrDie(dependency.Label).IterAllRuntimeDependencies(graph) {
				if !yield(runDep) {
					return false
				}
			}
		}
		done[dependency.Label] = true
		if target == dependency || (target.NeedsTransitiveDependencies && !dependency.OutputIsComplete) {
			for _, dep := range dependency.BuildDependencies() {
				for dep2 := range recursivelyProvideFor(graph, target, dependency, dep.Label) {
					if !done[dep2] && !dependency.IsTool(dep2) {
						if !inner(graph.TargetOrDie(dep2)) {
							return false
						}
					}
				}
			}
		} else {
			for _, dep := range dependency.ExportedDependencies() {
				for dep2 := range recursivelyProvideFor(graph, target, dependency, dep) {
					if !done[dep2] {
						if !inner(graph.TargetOrDie(dep2)) {
							return false
						}
					}
				}
			}
		}
		return true
	}
	for _, source := range target.AllSources() {
		if !recursivelyProvideSource(target, source) {
			return
		}
	}
	if includeTools {
		for _, tool := range target.AllTools() {
			if !recursivelyProvideSource(target, tool) {
				return
			}
		}
	}
	if !sourcesOnly {
		inner(target)
	}
}`

type shTrans struct {
	fset    *token.FileSet
	state   string
	target  string
	hashVar string
}

func (tr *shTrans) str(n ast.Node) string {
	return strings.Join(strings.Fields(nodeStr(tr.fset, n)), " ")
}

// the statements of one loop body over the path variable v: `result, err := state.PathHasher.Hash(v, false, true, false)`,
// `if err != nil { return nil, err }`, `h.Write(result)` (-> WHash), `h.Write([]byte(v))` (-> WPath)
func (tr *shTrans) writes(what string, body []ast.Stmt, v string) []string {
	ws := []string{}
	result := ""
	for _, st := range body {
		text := tr.str(st)
		switch x := st.(type) {
		case *ast.AssignStmt:
			if x.Tok != token.DEFINE || len(x.Lhs) != 2 || len(x.Rhs) != 1 || !isIdent(x.Lhs[1], "err") {
				failShape("sourceHash, %s: assignment not recognised: %s", what, text)
			}
			if tr.str(x.Rhs[0]) != tr.state+".PathHasher.Hash("+v+", false, true, false)" {
				failShape("sourceHash, %s: the hashed value is not %s.PathHasher.Hash(%s, false, true, false): %s", what, tr.state, v, text)
			}
			id, ok := x.Lhs[0].(*ast.Ident)
			if !ok || id.Name == "_" {
				failShape("sourceHash, %s: result of PathHasher.Hash is not kept: %s", what, text)
			}
			result = id.Name
		case *ast.IfStmt:
			if text != "if err != nil { return nil, err }" {
				failShape("sourceHash, %s: if statement not recognised: %s", what, text)
			}
		case *ast.ExprStmt:
			switch text {
			case tr.hashVar + ".Write(" + result + ")":
				if result == "" {
					failShape("sourceHash, %s: %s before the path was hashed", what, text)
				}
				ws = append(ws, "WHash")
			case tr.hashVar + ".Write([]byte(" + v + "))":
				ws = append(ws, "WPath")
			default:
				failShape("sourceHash, %s: statement not recognised: %s", what, text)
			}
		default:
			failShape("sourceHash, %s: statement not recognised: %s", what, text)
		}
	}
	return ws
}

func (tr *shTrans) loop(rs *ast.RangeStmt) shEmit {
	if rs.Tok != token.DEFINE {
		failShape("sourceHash: range without := : %s", tr.str(rs.X))
	}
	call, ok := rs.X.(*ast.CallExpr)
	if !ok {
		failShape("sourceHash: range over %s, which is not a call", tr.str(rs.X))
	}
	switch tr.str(call.Fun) {
	case "core.IterSources":
		// for src := range core.IterSources(state, state.Graph, target, <includeTools>)
		if len(call.Args) != 4 || !isIdent(call.Args[0], tr.state) || tr.str(call.Args[1]) != tr.state+".Graph" || !isIdent(call.Args[2], tr.target) {
			failShape("sourceHash: arguments of core.IterSources not recognised: %s", tr.str(call))
		}
		it, ok := call.Args[3].(*ast.Ident)
		if !ok || (it.Name != "true" && it.Name != "false") {
			failShape("sourceHash: includeTools argument of core.IterSources is not a literal: %s", tr.str(call))
		}
		key, ok := rs.Key.(*ast.Ident)
		if !ok || key.Name == "_" || rs.Value != nil {
			failShape("sourceHash: loop variables of the IterSources loop (expected `for src := range`)")
		}
		return shEmit{Op: "SrcLoop", IncludeTools: it.Name == "true", Ws: tr.writes("IterSources loop", rs.Body.List, key.Name)}
	case tr.target + ".AllTools":
		// for _, tool := range target.AllTools() { for _, path := range tool.FullPaths(state.Graph) { ... } }
		if len(call.Args) != 0 || !isIdent(rs.Key, "_") || rs.Value == nil || len(rs.Body.List) != 1 {
			failShape("sourceHash: AllTools loop not recognised")
		}
		tool := rs.Value.(*ast.Ident).Name
		in, ok := rs.Body.List[0].(*ast.RangeStmt)
		if !ok || in.Tok != token.DEFINE || !isIdent(in.Key, "_") || in.Value == nil || tr.str(in.X) != tool+".FullPaths("+tr.state+".Graph)" {
			failShape("sourceHash: body of the AllTools loop is not `for _, path := range tool.FullPaths(state.Graph)`")
		}
		return shEmit{Op: "ToolLoop", Ws: tr.writes("AllTools loop", in.Body.List, in.Value.(*ast.Ident).Name)}
	}
	failShape("sourceHash ranges over %s, which the translator does not know", tr.str(rs.X))
	return shEmit{}
}

func c07SourceHash() string {
	fset, f := parseFile("src/build/incrementality.go")
	fd := findFunc(f, "", "sourceHash")
	names := []string{}
	for _, p := range fd.Type.Params.List {
		for _, n := range p.Names {
			names = append(names, n.Name)
		}
	}
	if len(names) != 2 {
		failShape("sourceHash: expected (state, target), got %v", names)
	}
	tr := &shTrans{fset: fset, state: names[0], target: names[1]}
	body := fd.Body.List
	if len(body) < 2 {
		failShape("sourceHash: body too short")
	}
	as, ok := body[0].(*ast.AssignStmt)
	if !ok || as.Tok != token.DEFINE || len(as.Lhs) != 1 || len(as.Rhs) != 1 || tr.str(as.Rhs[0]) != "sha1.New()" {
		failShape("sourceHash: first statement is not `h := sha1.New()`")
	}
	tr.hashVar = as.Lhs[0].(*ast.Ident).Name
	if tr.str(body[len(body)-1]) != "return "+tr.hashVar+".Sum(nil), nil" {
		failShape("sourceHash: last statement is not `return h.Sum(nil), nil`")
	}
	prog := shProg{Body: []shEmit{}}
	for _, st := range body[1 : len(body)-1] {
		rs, ok := st.(*ast.RangeStmt)
		if !ok {
			failShape("sourceHash: statement not recognised: %s", tr.str(st))
		}
		prog.Body = append(prog.Body, tr.loop(rs))
	}
	// the callers must still be what they were: mustSourceHash wraps sourceHash
	matchBody("mustSourceHash", bodyStrings(fset, findFunc(f, "", "mustSourceHash")), []string{
		"b, err := sourceHash(state, target)", "if err != nil {\n\tlog.Fatalf(\"%s\", err)\n}", "return b"}, -1)

	// ---- hand-modelled iteration: exact match
	ufset, uf := parseFile("src/core/utils.go")
	matchBody("core.IterSources", bodyStrings(ufset, findFunc(uf, "", "IterSources")), []string{c07IterSources}, -1)
	matchBody("core.IterInputs", bodyStrings(ufset, findFunc(uf, "", "IterInputs")), []string{c07IterInputs}, -1)

	cfset, cf := parseFile("src/core/build_target.go")
	cbody := func(recv, name string) []string { return bodyStrings(cfset, findFunc(cf, recv, name)) }
	matchBody("BuildTarget.AllSources", cbody("BuildTarget", "AllSources"), []string{
		"if target.NamedSources == nil {\n\treturn target.Sources\n}",
		"return target.allBuildInputs(target.Sources, target.NamedSources)"}, -1)
	matchBody("BuildTarget.AllTools", cbody("BuildTarget", "AllTools"), []string{
		"if target.namedTools == nil {\n\treturn target.Tools\n}",
		"return target.allBuildInputs(target.Tools, target.namedTools)"}, -1)
	prog.InputsSorted = matchBody("BuildTarget.allBuildInputs", cbody("BuildTarget", "allBuildInputs"), []string{
		"ret := unnamed",
		"keys := make([]string, 0, len(named))",
		"for k := range named {\n\tkeys = append(keys, k)\n}",
		"sort.Strings(keys)",
		"for _, k := range keys {\n\tret = append(ret, named[k]...)\n}",
		"return ret"}, 3)
	prog.BuildDepsSorted = matchBody("BuildTarget.BuildDependencies", cbody("BuildTarget", "BuildDependencies"), []string{
		"target.mutex.RLock()", "defer target.mutex.RUnlock()",
		"ret := make(BuildTargets, 0, len(target.dependencies))",
		"for _, deps := range target.dependencies {\n\tif !deps.runtime && !deps.data && !deps.internal && !deps.source {\n\t\tfor _, dep := range deps.deps {\n\t\t\tret = append(ret, dep)\n\t\t}\n\t}\n}",
		"sort.Sort(ret)", "return ret"}, 4)
	matchBody("BuildTarget.ExportedDependencies", cbody("BuildTarget", "ExportedDependencies"), []string{
		"target.mutex.RLock()", "defer target.mutex.RUnlock()",
		"ret := make(BuildLabels, 0, len(target.dependencies))",
		"for _, info := range target.dependencies {\n\tif info.exported {\n\t\tret = append(ret, *info.declared)\n\t}\n}",
		"return ret"}, -1)
	matchBody("BuildTarget.IsTool", cbody("BuildTarget", "IsTool"), []string{
		"if target.isTool(tool, target.Tools, target.namedTools) {\n\treturn true\n} else if target.Test != nil && target.isTool(tool, target.Test.tools, target.Test.namedTools) {\n\treturn true\n}",
		"return false"}, -1)
	matchBody("BuildTarget.isTool", cbody("BuildTarget", "isTool"), []string{
		"for _, t := range tools {\n\tif label, ok := t.Label(); ok && label == tool {\n\t\treturn true\n\t}\n}",
		"for _, tools := range namedTools {\n\tfor _, t := range tools {\n\t\tif label, ok := t.Label(); ok && label == tool {\n\t\t\treturn true\n\t\t}\n\t}\n}",
		"return false"}, -1)
	matchBody("BuildTargets.Less", cbody("BuildTargets", "Less"), []string{"return slice[i].Label.Less(slice[j].Label)"}, -1)

	js, err := json.MarshalIndent(prog, "", " ")
	if err != nil {
		panic(err)
	}
	if err := os.WriteFile(filepath.Join(outDir, "C07SourceHash.json"), append(js, '\n'), 0o644); err != nil {
		panic(err)
	}
	var b strings.Builder
	b.WriteString("(* sourceHash of src/build/incrementality.go as a loop program over Model/C07_Src.v *)\n")
	b.WriteString("From PlzV Require Import Base.Harness Model.C08 Model.C07_Src.\n")
	b.WriteString("Definition prog : sprog := SProg [\n")
	for i, e := range prog.Body {
		if i > 0 {
			b.WriteString(";\n")
		}
		ws := "[" + strings.Join(e.Ws, "; ") + "]"
		if e.Op == "SrcLoop" {
			b.WriteString("  SrcLoop " + coqBool(e.IncludeTools) + " " + ws)
		} else {
			b.WriteString("  ToolLoop " + ws)
		}
	}
	b.WriteString("\n] " + coqBool(prog.BuildDepsSorted) + " " + coqBool(prog.InputsSorted) + ".\n")
	return b.String()
}
