package main

// C07SourceHash: translate the body of build.sourceHash (src/build/incrementality.go) into the loop program of
// Model/C07_Src.v (`sprog`): which of hash / path is written per yielded source and per tool path, in which order, and the
// includeTools argument of core.IterSources; and fingerprint the functions whose ORDER the proofs of Proof/C07_Src.v rely
// on. Output: Gen/C07SourceHash.v (for the proofs and the Coq side of the correspondence) and Gen/C07SourceHash.json (the
// same program, interpreted by the Go harness over real graphs).
//
// Closed set of shapes; anything else -> failShape (exit 3). Deliberately tolerated, because the theorem is meant to
// notice it: a missing `sort.Sort(ret)` in BuildTarget.BuildDependencies (-> sp_build_deps_sorted = false), a missing
// `sort.Strings(keys)` in BuildTarget.allBuildInputs (-> sp_inputs_sorted = false), reordered / dropped / duplicated
// h.Write calls and loops in sourceHash (-> another program; the expected stream of Props/C07.v's example pins the current one).
// Hand-modelled and therefore matched exactly: core.IterSources, core.IterInputs, BuildTarget.AllSources, AllTools,
// ExportedDependencies (NOT sorted: the model follows the stored order), IsTool, isTool, BuildTargets.Less.

import (
	"encoding/json"
	"go/ast"
	"go/token"
	"os"
	"path/filepath"
	"strings"
)

func init() {
	targets["C07SourceHash"] = c07SourceHash
	targets["C07Provide"] = c07Provide
	targets["C07Hasher"] = c07Hasher
}

type shEmit struct {
	Op           string   `json:"op"` // SrcLoop | ToolLoop
	IncludeTools bool     `json:"include_tools"`
	Ws           []string `json:"ws"` // WHash | WPath
}

type shProg struct {
	Body            []shEmit `json:"body"`
	BuildDepsSorted bool     `json:"build_deps_sorted"`
	InputsSorted    bool     `json:"inputs_sorted"`
}

const c07IterSources = `return func(yield func(string, string) bool) {
	done := map[string]bool{}
	tmpDir := target.TmpDir()
	for input := range IterInputs(state, graph, target, includeTools, false) {
		fullPaths := input.FullPaths(graph)
		for i, sourcePath := range input.Paths(graph) {
			if tmpPath := filepath.Join(tmpDir, sourcePath); !done[tmpPath] {
				if !yield(fullPaths[i], tmpPath) {
					return
				}
				done[tmpPath] = true
			}
		}
	}
}`

const c07IterInputs = `return func(yield func(BuildInput) bool) {
	done := map[BuildLabel]bool{}
	recursivelyProvideSource := func(target *BuildTarget, src BuildInput) bool {
		if label, ok := src.nonOutputLabel(); ok {
			for p := range recursivelyProvideFor(graph, target, target, label) {
				if !yield(p) {
					return false
				}
				for runDep := range graph.TargetOrDie(p).IterAllRuntimeDependencies(graph) {
					if !yield(runDep) {
						return false
					}
				}
			}
			return true
		}
		return yield(src)
	}
	var inner func(dependency *BuildTarget) bool
	inner = func(dependency *BuildTarget) bool {
		if dependency != target {
			if !yield(dependency.Label) {
				return false
			}
			for runDep := range graph.TargetOrDie(dependency.Label).IterAllRuntimeDependencies(graph) {
				if !yield(runDep) {
					return false
				}
			}
		}
		done[dependency.Label] = true
		if target == dependency || (target.NeedsTransitiveDependencies && !dependency.OutputIsComplete) {
			for _, dep := range dependency.BuildDependencies() {
				for dep2 := range recursivelyProvideFor(graph, target, dependency, dep.Label) {
					if !done[dep2] && !dependency.IsTool(dep2) {
						if !inner(graph.TargetOrDie(dep2)) {
							return false
						}
					}
				}
			}
		} else {
			for _, dep := range dependency.ExportedDependencies() {
				for dep2 := range recursivelyProvideFor(graph, target, dependency, dep) {
					if !done[dep2] {
						if !inner(graph.TargetOrDie(dep2)) {
							return false
						}
					}
				}
			}
		}
		return true
	}
	for _, source := range target.AllSources() {
		if !recursivelyProvideSource(target, source) {
			return
		}
	}
	if includeTools {
		for _, tool := range target.AllTools() {
			if !recursivelyProvideSource(target, tool) {
				return
			}
		}
	}
	if !sourcesOnly {
		inner(target)
	}
}`

type shTrans struct {
	fset    *token.FileSet
	state   string
	target  string
	hashVar string
}

func (tr *shTrans) str(n ast.Node) string {
	return strings.Join(strings.Fields(nodeStr(tr.fset, n)), " ")
}

// the statements of one loop body over the path variable v: `result, err := state.PathHasher.Hash(v, false, true, false)`,
// `if err != nil { return nil, err }`, `h.Write(result)` (-> WHash), `h.Write([]byte(v))` (-> WPath)
func (tr *shTrans) writes(what string, body []ast.Stmt, v string) []string {
	ws := []string{}
	result := ""
	for _, st := range body {
		text := tr.str(st)
		switch x := st.(type) {
		case *ast.AssignStmt:
			if x.Tok != token.DEFINE || len(x.Lhs) != 2 || len(x.Rhs) != 1 || !isIdent(x.Lhs[1], "err") {
				failShape("sourceHash, %s: assignment not recognised: %s", what, text)
			}
			if tr.str(x.Rhs[0]) != tr.state+".PathHasher.Hash("+v+", false, true, false)" {
				failShape("sourceHash, %s: the hashed value is not %s.PathHasher.Hash(%s, false, true, false): %s", what, tr.state, v, text)
			}
			id, ok := x.Lhs[0].(*ast.Ident)
			if !ok || id.Name == "_" {
				failShape("sourceHash, %s: result of PathHasher.Hash is not kept: %s", what, text)
			}
			result = id.Name
		case *ast.IfStmt:
			if text != "if err != nil { return nil, err }" {
				failShape("sourceHash, %s: if statement not recognised: %s", what, text)
			}
		case *ast.ExprStmt:
			switch text {
			case tr.hashVar + ".Write(" + result + ")":
				if result == "" {
					failShape("sourceHash, %s: %s before the path was hashed", what, text)
				}
				ws = append(ws, "WHash")
			case tr.hashVar + ".Write([]byte(" + v + "))":
				ws = append(ws, "WPath")
			default:
				failShape("sourceHash, %s: statement not recognised: %s", what, text)
			}
		default:
			failShape("sourceHash, %s: statement not recognised: %s", what, text)
		}
	}
	return ws
}

func (tr *shTrans) loop(rs *ast.RangeStmt) shEmit {
	if rs.Tok != token.DEFINE {
		failShape("sourceHash: range without := : %s", tr.str(rs.X))
	}
	call, ok := rs.X.(*ast.CallExpr)
	if !ok {
		failShape("sourceHash: range over %s, which is not a call", tr.str(rs.X))
	}
	switch tr.str(call.Fun) {
	case "core.IterSources":
		// for src := range core.IterSources(state, state.Graph, target, <includeTools>)
		if len(call.Args) != 4 || !isIdent(call.Args[0], tr.state) || tr.str(call.Args[1]) != tr.state+".Graph" || !isIdent(call.Args[2], tr.target) {
			failShape("sourceHash: arguments of core.IterSources not recognised: %s", tr.str(call))
		}
		it, ok := call.Args[3].(*ast.Ident)
		if !ok || (it.Name != "true" && it.Name != "false") {
			failShape("sourceHash: includeTools argument of core.IterSources is not a literal: %s", tr.str(call))
		}
		key, ok := rs.Key.(*ast.Ident)
		if !ok || key.Name == "_" || rs.Value != nil {
			failShape("sourceHash: loop variables of the IterSources loop (expected `for src := range`)")
		}
		return shEmit{Op: "SrcLoop", IncludeTools: it.Name == "true", Ws: tr.writes("IterSources loop", rs.Body.List, key.Name)}
	case tr.target + ".AllTools":
		// for _, tool := range target.AllTools() { for _, path := range tool.FullPaths(state.Graph) { ... } }
		if len(call.Args) != 0 || !isIdent(rs.Key, "_") || rs.Value == nil || len(rs.Body.List) != 1 {
			failShape("sourceHash: AllTools loop not recognised")
		}
		tool := rs.Value.(*ast.Ident).Name
		in, ok := rs.Body.List[0].(*ast.RangeStmt)
		if !ok || in.Tok != token.DEFINE || !isIdent(in.Key, "_") || in.Value == nil || tr.str(in.X) != tool+".FullPaths("+tr.state+".Graph)" {
			failShape("sourceHash: body of the AllTools loop is not `for _, path := range tool.FullPaths(state.Graph)`")
		}
		return shEmit{Op: "ToolLoop", Ws: tr.writes("AllTools loop", in.Body.List, in.Value.(*ast.Ident).Name)}
	}
	failShape("sourceHash ranges over %s, which the translator does not know", tr.str(rs.X))
	return shEmit{}
}

func c07SourceHash() string {
	fset, f := parseFile("src/build/incrementality.go")
	fd := findFunc(f, "", "sourceHash")
	names := []string{}
	for _, p := range fd.Type.Params.List {
		for _, n := range p.Names {
			names = append(names, n.Name)
		}
	}
	if len(names) != 2 {
		failShape("sourceHash: expected (state, target), got %v", names)
	}
	tr := &shTrans{fset: fset, state: names[0], target: names[1]}
	body := fd.Body.List
	if len(body) < 2 {
		failShape("sourceHash: body too short")
	}
	as, ok := body[0].(*ast.AssignStmt)
	if !ok || as.Tok != token.DEFINE || len(as.Lhs) != 1 || len(as.Rhs) != 1 || tr.str(as.Rhs[0]) != "sha1.New()" {
		failShape("sourceHash: first statement is not `h := sha1.New()`")
	}
	tr.hashVar = as.Lhs[0].(*ast.Ident).Name
	if tr.str(body[len(body)-1]) != "return "+tr.hashVar+".Sum(nil), nil" {
		failShape("sourceHash: last statement is not `return h.Sum(nil), nil`")
	}
	prog := shProg{Body: []shEmit{}}
	for _, st := range body[1 : len(body)-1] {
		rs, ok := st.(*ast.RangeStmt)
		if !ok {
			failShape("sourceHash: statement not recognised: %s", tr.str(st))
		}
		prog.Body = append(prog.Body, tr.loop(rs))
	}
	// the callers must still be what they were: mustSourceHash wraps sourceHash
	matchBody("mustSourceHash", bodyStrings(fset, findFunc(f, "", "mustSourceHash")), []string{
		"b, err := sourceHash(state, target)", "if err != nil {\n\tlog.Fatalf(\"%s\", err)\n}", "return b"}, -1)

	// ---- hand-modelled iteration: exact match
	ufset, uf := parseFile("src/core/utils.go")
	matchBody("core.IterSources", bodyStrings(ufset, findFunc(uf, "", "IterSources")), []string{c07IterSources}, -1)
	matchBody("core.IterInputs", bodyStrings(ufset, findFunc(uf, "", "IterInputs")), []string{c07IterInputs}, -1)

	cfset, cf := parseFile("src/core/build_target.go")
	cbody := func(recv, name string) []string { return bodyStrings(cfset, findFunc(cf, recv, name)) }
	matchBody("BuildTarget.AllSources", cbody("BuildTarget", "AllSources"), []string{
		"if target.NamedSources == nil {\n\treturn target.Sources\n}",
		"return target.allBuildInputs(target.Sources, target.NamedSources)"}, -1)
	matchBody("BuildTarget.AllTools", cbody("BuildTarget", "AllTools"), []string{
		"if target.namedTools == nil {\n\treturn target.Tools\n}",
		"return target.allBuildInputs(target.Tools, target.namedTools)"}, -1)
	prog.InputsSorted = matchBody("BuildTarget.allBuildInputs", cbody("BuildTarget", "allBuildInputs"), []string{
		"ret := unnamed",
		"keys := make([]string, 0, len(named))",
		"for k := range named {\n\tkeys = append(keys, k)\n}",
		"sort.Strings(keys)",
		"for _, k := range keys {\n\tret = append(ret, named[k]...)\n}",
		"return ret"}, 3)
	prog.BuildDepsSorted = matchBody("BuildTarget.BuildDependencies", cbody("BuildTarget", "BuildDependencies"), []string{
		"target.mutex.RLock()", "defer target.mutex.RUnlock()",
		"ret := make(BuildTargets, 0, len(target.dependencies))",
		"for _, deps := range target.dependencies {\n\tif !deps.runtime && !deps.data && !deps.internal && !deps.source {\n\t\tfor _, dep := range deps.deps {\n\t\t\tret = append(ret, dep)\n\t\t}\n\t}\n}",
		"sort.Sort(ret)", "return ret"}, 4)
	matchBody("BuildTarget.ExportedDependencies", cbody("BuildTarget", "ExportedDependencies"), []string{
		"target.mutex.RLock()", "defer target.mutex.RUnlock()",
		"ret := make(BuildLabels, 0, len(target.dependencies))",
		"for _, info := range target.dependencies {\n\tif info.exported {\n\t\tret = append(ret, *info.declared)\n\t}\n}",
		"return ret"}, -1)
	matchBody("BuildTarget.IsTool", cbody("BuildTarget", "IsTool"), []string{
		"if target.isTool(tool, target.Tools, target.namedTools) {\n\treturn true\n} else if target.Test != nil && target.isTool(tool, target.Test.tools, target.Test.namedTools) {\n\treturn true\n}",
		"return false"}, -1)
	matchBody("BuildTarget.isTool", cbody("BuildTarget", "isTool"), []string{
		"for _, t := range tools {\n\tif label, ok := t.Label(); ok && label == tool {\n\t\treturn true\n\t}\n}",
		"for _, tools := range namedTools {\n\tfor _, t := range tools {\n\t\tif label, ok := t.Label(); ok && label == tool {\n\t\t\treturn true\n\t\t}\n\t}\n}",
		"return false"}, -1)
	matchBody("BuildTargets.Less", cbody("BuildTargets", "Less"), []string{"return slice[i].Label.Less(slice[j].Label)"}, -1)

	js, err := json.MarshalIndent(prog, "", " ")
	if err != nil {
		panic(err)
	}
	if err := os.WriteFile(filepath.Join(outDir, "C07SourceHash.json"), append(js, '\n'), 0o644); err != nil {
		panic(err)
	}
	var b strings.Builder
	b.WriteString("(* sourceHash of src/build/incrementality.go as a loop program over Model/C07_Src.v *)\n")
	b.WriteString("From PlzV Require Import Base.Harness Model.C08 Model.C07_Src.\n")
	b.WriteString("Definition prog : sprog := SProg [\n")
	for i, e := range prog.Body {
		if i > 0 {
			b.WriteString(";\n")
		}
		ws := "[" + strings.Join(e.Ws, "; ") + "]"
		if e.Op == "SrcLoop" {
			b.WriteString("  SrcLoop " + coqBool(e.IncludeTools) + " " + ws)
		} else {
			b.WriteString("  ToolLoop " + ws)
		}
	}
	b.WriteString("\n] " + coqBool(prog.BuildDepsSorted) + " " + coqBool(prog.InputsSorted) + ".\n")
	return b.String()
}

// ------------------------------------------------------------------------------------------------------------------
// C07Provide: which collection the loop of BuildTarget.provideFor (src/core/build_target.go) ranges over, as a value of
// `ploop` (Model/C07_Provide.v). The declared types of the fields of core.BuildTarget decide what a range is: a range over
// a slice-typed field (other.Requires) with a map LOOKUP in the body is PRangeRequires; a range over a map-typed field
// (target.Provides) with a membership test on the slice is PRangeProvides - translated, not rejected, so that the model
// walks the map in enumeration order and gen_provide_loop / the order-independence theorem of Proof/C07_Provide.v break.
// Everything else of provideFor, ProvideFor, isDataFor and recursivelyProvideFor is hand-modelled and matched exactly.

const c07RecursivelyProvideFor = `return func(yield func(BuildLabel) bool) {
	depTarget := graph.TargetOrDie(dep)
	ret := depTarget.ProvideFor(dependency)
	if len(ret) == 1 && ret[0] == dep {
		ret = depTarget.ProvideFor(target)
		if len(ret) == 1 && ret[0] == dep {
			yield(ret[0])
			return
		}
	}
	for _, r := range ret {
		if r == dep {
			if !yield(r) {
				return
			}
		} else {
			for p := range recursivelyProvideFor(graph, target, dependency, r) {
				if !yield(p) {
					return
				}
			}
		}
	}
}`

// the kind ("map" | "slice") of a field of struct BuildTarget
func c07FieldKind(f *ast.File, field string) string {
	for _, d := range f.Decls {
		gd, ok := d.(*ast.GenDecl)
		if !ok || gd.Tok != token.TYPE {
			continue
		}
		for _, sp := range gd.Specs {
			ts := sp.(*ast.TypeSpec)
			st, ok := ts.Type.(*ast.StructType)
			if !ok || ts.Name.Name != "BuildTarget" {
				continue
			}
			for _, fl := range st.Fields.List {
				for _, n := range fl.Names {
					if n.Name == field {
						switch t := fl.Type.(type) {
						case *ast.MapType:
							return "map"
						case *ast.ArrayType:
							if t.Len == nil {
								return "slice"
							}
						}
						failShape("BuildTarget.%s is neither a map nor a slice", field)
					}
				}
			}
		}
	}
	failShape("field BuildTarget.%s not found", field)
	return ""
}

func c07Provide() string {
	fset, f := parseFile("src/core/build_target.go")
	norm := func(n ast.Node) string { return strings.Join(strings.Fields(nodeStr(fset, n)), " ") }
	fd := findFunc(f, "BuildTarget", "provideFor")
	body := fd.Body.List
	want := map[int]string{
		0: "target.mutex.RLock()",
		1: "defer target.mutex.RUnlock()",
		2: "if target.Provides == nil || len(other.Requires) == 0 { return nil, false }",
		3: "if target.isDataFor(other) { return nil, false }",
		4: "if other.IsTool(target.Label) { return nil, false }",
		5: "var ret []BuildLabel",
		6: "found := false",
		8: "return ret, found",
	}
	if len(body) != 9 {
		failShape("provideFor: %d statements, expected 9", len(body))
	}
	for i, w := range want {
		if got := norm(body[i]); got != w {
			failShape("provideFor: statement %d not recognised: %s", i, got)
		}
	}
	rs, ok := body[7].(*ast.RangeStmt)
	if !ok || rs.Tok != token.DEFINE {
		failShape("provideFor: statement 7 is not a `for .. := range` loop: %s", norm(body[7]))
	}
	sel, ok := rs.X.(*ast.SelectorExpr)
	if !ok {
		failShape("provideFor: ranges over %s, which is not a field", norm(rs.X))
	}
	recv, ok := sel.X.(*ast.Ident)
	if !ok {
		failShape("provideFor: ranges over %s", norm(rs.X))
	}
	kind := c07FieldKind(f, sel.Sel.Name)
	loop := ""
	switch {
	case recv.Name == "other" && sel.Sel.Name == "Requires" && kind == "slice":
		if !isIdent(rs.Key, "_") || rs.Value == nil {
			failShape("provideFor: loop variables of the range over other.Requires")
		}
		v := rs.Value.(*ast.Ident).Name
		wantBody := "{ if label, present := target.Provides[" + v + "]; present { if ret == nil { ret = make([]BuildLabel, 0, len(other.Requires)) } ret = append(ret, label...) found = true } }"
		if got := norm(rs.Body); got != wantBody {
			failShape("provideFor: body of the range over other.Requires not recognised: %s", got)
		}
		loop = "PRangeRequires"
	case recv.Name == "target" && sel.Sel.Name == "Provides" && kind == "map":
		k, ok1 := rs.Key.(*ast.Ident)
		v, ok2 := rs.Value.(*ast.Ident)
		if !ok1 || !ok2 || k.Name == "_" || v.Name == "_" {
			failShape("provideFor: loop variables of the range over target.Provides")
		}
		got := norm(rs.Body)
		ok := false
		for _, capExpr := range []string{"len(target.Provides)", "len(other.Requires)"} {
			if got == "{ if slices.Contains(other.Requires, "+k.Name+") { if ret == nil { ret = make([]BuildLabel, 0, "+capExpr+") } ret = append(ret, "+v.Name+"...) found = true } }" {
				ok = true
			}
		}
		if !ok {
			failShape("provideFor: body of the range over the MAP target.Provides not recognised: %s", got)
		}
		loop = "PRangeProvides"
	default:
		failShape("provideFor ranges over %s (%s), which the translator does not know", norm(rs.X), kind)
	}
	if c07FieldKind(f, "Provides") != "map" || c07FieldKind(f, "Requires") != "slice" {
		failShape("BuildTarget.Provides / Requires are no longer a map / a slice")
	}
	cbody := func(recv, name string) []string { return bodyStrings(fset, findFunc(f, recv, name)) }
	matchBody("BuildTarget.ProvideFor", cbody("BuildTarget", "ProvideFor"), []string{
		"if p, ok := target.provideFor(other); ok {\n\treturn p\n}", "return []BuildLabel{target.Label}"}, -1)
	matchBody("BuildTarget.isDataFor", cbody("BuildTarget", "isDataFor"), []string{
		"for _, data := range other.AllData() {\n\tif label, ok := data.Label(); ok && label == target.Label {\n\t\treturn true\n\t}\n}", "return false"}, -1)
	ufset, uf := parseFile("src/core/utils.go")
	matchBody("core.recursivelyProvideFor", bodyStrings(ufset, findFunc(uf, "", "recursivelyProvideFor")), []string{c07RecursivelyProvideFor}, -1)

	var b strings.Builder
	b.WriteString("(* the loop of BuildTarget.provideFor (src/core/build_target.go): which collection it ranges over *)\n")
	b.WriteString("From PlzV Require Import Base.Harness Model.C08 Model.C07_Provide.\n")
	b.WriteString("Definition provide_range : ploop := " + loop + ".\n")
	return b.String()
}

// ------------------------------------------------------------------------------------------------------------------
// C07Hasher: from src/fs/hash.go (a) whether the store into hasher.memo in PathHasher.Hash is guarded by `err == nil`,
// (b) the rule by which NewPathHasher derives the xattr name from the algorithm, as an `xrule` of Model/C07_Hasher.v
// (initial suffix; the condition `algo != / == "<lit>"`; the suffix assigned under it; the base name), and from
// src/core/state.go (c) the algorithms for which NewBuildState creates hashers. Tolerated because the theorems are meant to
// notice it: an unguarded memo store (memo_guarded = false), any rule of that form (names_distinct is decided by
// computation on the generated table). Hand-modelled and matched exactly: the rest of Hash, CopyHash, MoveHash,
// moveOrCopyHash; every xattr.LGet / LSet in the file must name hasher.xattrName.

func c07Hasher() string {
	fset, f := parseFile("src/fs/hash.go")
	norm := func(n ast.Node) string { return strings.Join(strings.Fields(nodeStr(fset, n)), " ") }

	// ---- (a) Hash
	hb := findFunc(f, "PathHasher", "Hash").Body.List
	prefix := []string{
		"path = hasher.ensureRelative(path)",
		"if !recalc { hasher.mutex.RLock() cached, present := hasher.memo[path] hasher.mutex.RUnlock() if present && cached != nil { return cached, nil } else if present { store = false recalc = true } }",
		"if !PathExists(path) { return nil, fmt.Errorf(\"cannot calculate hash for %s: %s\", path, os.ErrNotExist) }",
		"hasher.mutex.Lock()",
		"if pending, present := hasher.wait[path]; present { hasher.mutex.Unlock() <-pending.Ch return pending.Hash, pending.Err }",
		"pending := &pendingHash{Ch: make(chan struct{})}",
		"hasher.wait[path] = pending",
		"hasher.mutex.Unlock()",
	}
	if len(hb) < len(prefix)+6 {
		failShape("PathHasher.Hash: body too short")
	}
	for i, w := range prefix {
		if got := norm(hb[i]); got != w {
			failShape("PathHasher.Hash: statement %d not recognised: %s", i, got)
		}
	}
	rest := hb[len(prefix):]
	as, ok := rest[0].(*ast.AssignStmt)
	if !ok || len(as.Lhs) != 2 || len(as.Rhs) != 1 || norm(as.Rhs[0]) != "hasher.hash(path, store, !recalc, timestamp)" {
		failShape("PathHasher.Hash: the computation is not `<res>, <err> := hasher.hash(path, store, !recalc, timestamp)`: %s", norm(rest[0]))
	}
	res, errv := norm(as.Lhs[0]), norm(as.Lhs[1])
	switch {
	case as.Tok == token.DEFINE && res == "result" && errv == "err":
	case as.Tok == token.ASSIGN && res == "pending.Hash" && errv == "pending.Err":
	default:
		failShape("PathHasher.Hash: results of hasher.hash kept in %s, %s", res, errv)
	}
	if norm(rest[1]) != "hasher.mutex.Lock()" {
		failShape("PathHasher.Hash: no lock before the memo store: %s", norm(rest[1]))
	}
	guarded := false
	switch norm(rest[2]) {
	case "if " + errv + " == nil { hasher.memo[path] = " + res + " }":
		guarded = true
	case "hasher.memo[path] = " + res:
	default:
		failShape("PathHasher.Hash: memo store not recognised: %s", norm(rest[2]))
	}
	tail := []string{"delete(hasher.wait, path)", "hasher.mutex.Unlock()"}
	if res != "pending.Hash" {
		tail = append(tail, "pending.Hash = "+res, "pending.Err = "+errv)
	}
	tail = append(tail, "close(pending.Ch)", "return "+res+", "+errv)
	if len(rest[3:]) != len(tail) {
		failShape("PathHasher.Hash: %d statements after the memo store, expected %d", len(rest[3:]), len(tail))
	}
	for i, w := range tail {
		if got := norm(rest[3+i]); got != w {
			failShape("PathHasher.Hash: statement after the memo store not recognised: %s (expected %s)", got, w)
		}
	}
	hbody := func(name string) []string { return bodyStrings(fset, findFunc(f, "PathHasher", name)) }
	matchBody("PathHasher.CopyHash", hbody("CopyHash"), []string{"hasher.moveOrCopyHash(oldPath, newPath, true)"}, -1)
	matchBody("PathHasher.MoveHash", hbody("MoveHash"), []string{"hasher.moveOrCopyHash(oldPath, newPath, false)"}, -1)
	matchBody("PathHasher.moveOrCopyHash", hbody("moveOrCopyHash"), []string{
		"oldPath = hasher.ensureRelative(oldPath)", "newPath = hasher.ensureRelative(newPath)",
		"hasher.mutex.Lock()", "defer hasher.mutex.Unlock()",
		"if oldHash, present := hasher.memo[oldPath]; present {\n\thasher.memo[newPath] = oldHash\n\tif !copy && strings.HasPrefix(oldPath, \"plz-out/tmp\") {\n\t\tdelete(hasher.memo, oldPath)\n\t}\n} else if copy {\n\thasher.memo[newPath] = nil\n}"}, -1)

	// ---- (b) NewPathHasher
	nfd := findFunc(f, "", "NewPathHasher")
	if len(nfd.Type.Params.List) != 4 {
		failShape("NewPathHasher: parameters")
	}
	algoVar := nfd.Type.Params.List[3].Names[0].Name
	nb := nfd.Body.List
	if len(nb) != 3 {
		failShape("NewPathHasher: %d statements, expected 3", len(nb))
	}
	sfxVar := ""
	sfxOf := func(what, text string) string {
		switch text {
		case `""`:
			return "SfxEmpty"
		case `"_" + ` + algoVar:
			return "SfxUnderscoreAlgo"
		}
		failShape("NewPathHasher: %s is %s, neither \"\" nor \"_\" + %s", what, text, algoVar)
		return ""
	}
	initSfx := ""
	switch x := nb[0].(type) {
	case *ast.DeclStmt:
		t := norm(x)
		if !strings.HasPrefix(t, "var ") || !strings.HasSuffix(t, " string") || len(strings.Fields(t)) != 3 {
			failShape("NewPathHasher: declaration not recognised: %s", t)
		}
		sfxVar, initSfx = strings.Fields(t)[1], "SfxEmpty"
	case *ast.AssignStmt:
		if x.Tok != token.DEFINE || len(x.Lhs) != 1 || len(x.Rhs) != 1 {
			failShape("NewPathHasher: first statement not recognised: %s", norm(x))
		}
		sfxVar, initSfx = norm(x.Lhs[0]), sfxOf("the initial suffix", norm(x.Rhs[0]))
	default:
		failShape("NewPathHasher: first statement not recognised: %s", norm(nb[0]))
	}
	ifs, ok := nb[1].(*ast.IfStmt)
	if !ok || ifs.Init != nil || ifs.Else != nil || len(ifs.Body.List) != 1 {
		failShape("NewPathHasher: second statement is not a plain if: %s", norm(nb[1]))
	}
	cond, ok := ifs.Cond.(*ast.BinaryExpr)
	if !ok || (cond.Op != token.NEQ && cond.Op != token.EQL) || !isIdent(cond.X, algoVar) {
		failShape("NewPathHasher: condition not recognised: %s", norm(ifs.Cond))
	}
	lit, ok := cond.Y.(*ast.BasicLit)
	if !ok || lit.Kind != token.STRING {
		failShape("NewPathHasher: condition does not compare with a string literal: %s", norm(ifs.Cond))
	}
	tas, ok := ifs.Body.List[0].(*ast.AssignStmt)
	if !ok || tas.Tok != token.ASSIGN || len(tas.Lhs) != 1 || len(tas.Rhs) != 1 || norm(tas.Lhs[0]) != sfxVar {
		failShape("NewPathHasher: body of the if not recognised: %s", norm(ifs.Body))
	}
	thenSfx := sfxOf("the suffix assigned under the condition", norm(tas.Rhs[0]))
	ret := norm(nb[2])
	const retPre, retPost = "return &PathHasher{ new: hash, memo: map[string][]byte{}, wait: map[string]*pendingHash{}, root: root, useXattrs: useXattrs, xattrName: ", ", algo: algo, }"
	if !strings.HasPrefix(ret, retPre) || !strings.HasSuffix(ret, retPost) {
		failShape("NewPathHasher: return statement not recognised: %s", ret)
	}
	nameExpr := strings.TrimSuffix(strings.TrimPrefix(ret, retPre), retPost)
	parts := strings.Split(nameExpr, " + ")
	if len(parts) != 2 || parts[1] != sfxVar || !strings.HasPrefix(parts[0], `"`) || algoVar != "algo" {
		failShape("NewPathHasher: xattrName is %s, not \"<base>\" + %s", nameExpr, sfxVar)
	}
	base := strings.Trim(parts[0], `"`)
	// every xattr access in the file names hasher.xattrName
	nx := 0
	ast.Inspect(f, func(n ast.Node) bool {
		c, ok := n.(*ast.CallExpr)
		if !ok {
			return true
		}
		switch norm(c.Fun) {
		case "xattr.LGet", "xattr.LSet", "xattr.Get", "xattr.Set", "xattr.LRemove", "xattr.Remove":
			nx++
			if len(c.Args) < 2 || norm(c.Args[1]) != "hasher.xattrName" {
				failShape("fs/hash.go: %s does not name hasher.xattrName", norm(c))
			}
		}
		return true
	})
	if nx != 3 {
		failShape("fs/hash.go: %d xattr accesses, expected 3 (LGet in hash, LSet twice in storeHash)", nx)
	}

	// ---- (c) the hashers of NewBuildState
	sfset, sf := parseFile("src/core/state.go")
	algos := []string{}
	ast.Inspect(findFunc(sf, "", "NewBuildState"), func(n ast.Node) bool {
		kv, ok := n.(*ast.KeyValueExpr)
		if !ok || !isIdent(kv.Key, "hashers") {
			return true
		}
		cl, ok := kv.Value.(*ast.CompositeLit)
		if !ok {
			failShape("NewBuildState: hashers is not a composite literal")
		}
		for _, e := range cl.Elts {
			ent, ok := e.(*ast.KeyValueExpr)
			if !ok {
				failShape("NewBuildState: entry of hashers")
			}
			k, ok := ent.Key.(*ast.BasicLit)
			call, ok2 := ent.Value.(*ast.CallExpr)
			if !ok || !ok2 || k.Kind != token.STRING || strings.Join(strings.Fields(nodeStr(sfset, call.Fun)), "") != "fs.NewPathHasher" || len(call.Args) != 4 {
				failShape("NewBuildState: entry of hashers not recognised: %s", nodeStr(sfset, ent))
			}
			a, ok := call.Args[3].(*ast.BasicLit)
			if !ok || a.Value != k.Value || nodeStr(sfset, call.Args[0]) != "RepoRoot" || nodeStr(sfset, call.Args[1]) != "config.Build.Xattrs" {
				failShape("NewBuildState: hasher %s is created as %s", k.Value, nodeStr(sfset, call))
			}
			algos = append(algos, unquote(k))
		}
		return false
	})
	if len(algos) < 2 {
		failShape("NewBuildState: hashers not found")
	}
	coqStrs := make([]string, len(algos))
	for i, a := range algos {
		coqStrs[i] = "s " + coqString(a)
	}
	var b strings.Builder
	b.WriteString("(* PathHasher.Hash's memo store, NewPathHasher's xattr name (src/fs/hash.go), the hashers of NewBuildState (src/core/state.go) *)\n")
	b.WriteString("From PlzV Require Import Base.Harness Model.C08 Model.C07_Hasher.\n")
	b.WriteString("Definition memo_guarded : bool := " + coqBool(guarded) + ".\n")
	b.WriteString("Definition xattr_rule : xrule := XRule (s " + coqString(base) + ") " + initSfx + " " + coqBool(cond.Op == token.NEQ) + " (s " + coqString(unquote(lit)) + ") " + thenSfx + ".\n")
	b.WriteString("Definition algos : list str := [" + strings.Join(coqStrs, "; ") + "].\n")
	return b.String()
}
