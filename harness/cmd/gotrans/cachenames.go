package main

import (
	"fmt"
	"go/ast"
	"go/token"
	"go/types"
	"strconv"
	"strings"
)

// CacheNames (property C14): the entry-name recognition constants of dirCache.shouldClean
// (src/cache/dir_cache.go), the compressed-entry suffix set by newDirCache, the access-time grace
// period and the "=" suffixes used by markDir, Store and clean.
//
// Recognised shape of shouldClean's last statement:
//
//	return ((len(name) == A || len(name) == B ...) && name[I] == 'c') || (... same ...) ...
func init() {
	targets["CacheNames"] = func() string {
		_, f := parseFile("src/cache/dir_cache.go")

		// --- shouldClean
		sc := findFunc(f, "dirCache", "shouldClean")
		if len(sc.Type.Params.List) != 2 || len(sc.Type.Params.List[0].Names) != 1 || sc.Type.Params.List[0].Names[0].Name != "name" {
			failShape("shouldClean: parameters are not (name string, isDir bool)")
		}
		body := sc.Body.List
		if len(body) != 3 {
			failShape("shouldClean: expected 3 statements (if-chain, trim, return), found %d", len(body))
		}
		// statement 1: if cache.Compress == isDir { return false } else if !strings.HasSuffix(name, cache.Suffix) { return false }
		if1, ok := body[0].(*ast.IfStmt)
		if !ok || cnExpr(if1.Cond) != "cache.Compress == isDir" || !cnReturnsFalse(if1.Body) {
			failShape("shouldClean: first statement is not `if cache.Compress == isDir { return false }`")
		}
		if2, ok := if1.Else.(*ast.IfStmt)
		if !ok || cnExpr(if2.Cond) != "!strings.HasSuffix(name, cache.Suffix)" || !cnReturnsFalse(if2.Body) || if2.Else != nil {
			failShape("shouldClean: else-branch is not `if !strings.HasSuffix(name, cache.Suffix) { return false }`")
		}
		// statement 2: name = strings.TrimSuffix(name, cache.Suffix)
		as, ok := body[1].(*ast.AssignStmt)
		if !ok || len(as.Lhs) != 1 || len(as.Rhs) != 1 || cnExpr(as.Lhs[0]) != "name" || cnExpr(as.Rhs[0]) != "strings.TrimSuffix(name, cache.Suffix)" {
			failShape("shouldClean: second statement is not `name = strings.TrimSuffix(name, cache.Suffix)`")
		}
		ret, ok := body[2].(*ast.ReturnStmt)
		if !ok || len(ret.Results) != 1 {
			failShape("shouldClean: last statement is not a single-value return")
		}
		var shapes []string
		for _, d := range cnFlatten(ret.Results[0], token.LOR) {
			conj := cnFlatten(d, token.LAND)
			if len(conj) != 2 {
				failShape("shouldClean: disjunct %s is not `(lengths) && name[i] == c`", cnExpr(d))
			}
			var lens []string
			for _, l := range cnFlatten(conj[0], token.LOR) {
				be, ok := l.(*ast.BinaryExpr)
				if !ok || be.Op != token.EQL || cnExpr(be.X) != "len(name)" {
					failShape("shouldClean: %s is not `len(name) == N`", cnExpr(l))
				}
				lens = append(lens, cnIntLit(be.Y))
			}
			be, ok := conj[1].(*ast.BinaryExpr)
			if !ok || be.Op != token.EQL {
				failShape("shouldClean: %s is not `name[i] == c`", cnExpr(conj[1]))
			}
			ix, ok := be.X.(*ast.IndexExpr)
			if !ok || cnExpr(ix.X) != "name" {
				failShape("shouldClean: %s is not `name[i] == c`", cnExpr(conj[1]))
			}
			ch, ok := be.Y.(*ast.BasicLit)
			if !ok || ch.Kind != token.CHAR {
				failShape("shouldClean: %s does not compare with a character literal", cnExpr(conj[1]))
			}
			c := unquote(ch)
			if len(c) != 1 {
				failShape("shouldClean: character %s is not a single byte", ch.Value)
			}
			shapes = append(shapes, fmt.Sprintf("([%s], %s, %d)", strings.Join(lens, "; "), cnIntLit(ix.Index), c[0]))
		}

		// --- newDirCache: if cache.Compress { cache.Suffix = "<lit>" }
		suffix, found := "", false
		ast.Inspect(findFunc(f, "", "newDirCache"), func(n ast.Node) bool {
			is, ok := n.(*ast.IfStmt)
			if !ok || cnExpr(is.Cond) != "cache.Compress" || len(is.Body.List) != 1 {
				return true
			}
			as, ok := is.Body.List[0].(*ast.AssignStmt)
			if !ok || len(as.Lhs) != 1 || cnExpr(as.Lhs[0]) != "cache.Suffix" {
				return true
			}
			bl, ok := as.Rhs[0].(*ast.BasicLit)
			if !ok || bl.Kind != token.STRING {
				failShape("newDirCache: cache.Suffix is not assigned a string literal")
			}
			suffix, found = unquote(bl), true
			return false
		})
		if !found {
			failShape("newDirCache: `if cache.Compress { cache.Suffix = ... }` not found")
		}
		// every other assignment to a Suffix field would invalidate "Suffix is empty unless compressing"
		nSuffix := 0
		ast.Inspect(f, func(n ast.Node) bool {
			if as, ok := n.(*ast.AssignStmt); ok {
				for _, l := range as.Lhs {
					if strings.HasSuffix(cnExpr(l), ".Suffix") {
						nSuffix++
					}
				}
			}
			if kv, ok := n.(*ast.KeyValueExpr); ok && cnExpr(kv.Key) == "Suffix" {
				nSuffix++
			}
			return true
		})
		if nSuffix != 1 {
			failShape("dir_cache.go assigns the Suffix field %d times, expected exactly once", nSuffix)
		}

		// --- const accessTimeGracePeriod = N
		grace := ""
		for _, d := range f.Decls {
			gd, ok := d.(*ast.GenDecl)
			if !ok || gd.Tok != token.CONST {
				continue
			}
			for _, s := range gd.Specs {
				vs := s.(*ast.ValueSpec)
				if len(vs.Names) == 1 && vs.Names[0].Name == "accessTimeGracePeriod" && len(vs.Values) == 1 {
					grace = cnIntLit(vs.Values[0])
				}
			}
		}
		if grace == "" {
			failShape("const accessTimeGracePeriod not found")
		}

		// --- markDir: cache.added[path] = size; cache.added[path+"<lit>"] = size
		var markKeys []string
		ast.Inspect(findFunc(f, "dirCache", "markDir"), func(n ast.Node) bool {
			as, ok := n.(*ast.AssignStmt)
			if !ok || len(as.Lhs) != 1 {
				return true
			}
			ix, ok := as.Lhs[0].(*ast.IndexExpr)
			if !ok || cnExpr(ix.X) != "cache.added" {
				return true
			}
			if cnExpr(as.Rhs[0]) != "size" {
				failShape("markDir: stores %s, not size", cnExpr(as.Rhs[0]))
			}
			markKeys = append(markKeys, cnExpr(ix.Index))
			return true
		})
		if len(markKeys) != 2 || markKeys[0] != "path" || !strings.HasPrefix(markKeys[1], "path + ") {
			failShape("markDir: expected added[path] and added[path+lit], found %v", markKeys)
		}
		markSuffix, err := strconv.Unquote(strings.TrimPrefix(markKeys[1], "path + "))
		if err != nil {
			failShape("markDir: second key is not path + string literal: %s", markKeys[1])
		}

		// --- clean: newPath := entry.Path + "<lit>"
		renameSuffix, found := "", false
		ast.Inspect(findFunc(f, "dirCache", "clean"), func(n ast.Node) bool {
			as, ok := n.(*ast.AssignStmt)
			if !ok || len(as.Lhs) != 1 || cnExpr(as.Lhs[0]) != "newPath" {
				return true
			}
			x := cnExpr(as.Rhs[0])
			if !strings.HasPrefix(x, "entry.Path + ") {
				failShape("clean: newPath is %s, not entry.Path + literal", x)
			}
			v, err := strconv.Unquote(strings.TrimPrefix(x, "entry.Path + "))
			if err != nil {
				failShape("clean: newPath is %s, not entry.Path + literal", x)
			}
			renameSuffix, found = v, true
			return true
		})
		if !found {
			failShape("clean: newPath assignment not found")
		}

		// --- Store: tmpDir := cache.getFullPath(target, key, "", "<lit>")
		tmpSuffix, found := "", false
		ast.Inspect(findFunc(f, "dirCache", "Store"), func(n ast.Node) bool {
			as, ok := n.(*ast.AssignStmt)
			if !ok || len(as.Lhs) != 1 || cnExpr(as.Lhs[0]) != "tmpDir" {
				return true
			}
			call, ok := as.Rhs[0].(*ast.CallExpr)
			if !ok || cnExpr(call.Fun) != "cache.getFullPath" || len(call.Args) != 4 || cnExpr(call.Args[2]) != `""` {
				failShape("Store: tmpDir is not cache.getFullPath(target, key, \"\", lit)")
			}
			bl, ok := call.Args[3].(*ast.BasicLit)
			if !ok || bl.Kind != token.STRING {
				failShape("Store: temporary suffix is not a string literal")
			}
			tmpSuffix, found = unquote(bl), true
			return true
		})
		if !found {
			failShape("Store: tmpDir assignment not found")
		}

		return genHeader +
			"(* shouldClean: (accepted lengths, index of the padding character, its byte) per disjunct *)\n" +
			"Definition key_shapes : list (list N * N * N) := [" + strings.Join(shapes, "; ") + "]%N.\n" +
			"Definition compressed_suffix : string := " + coqString(suffix) + ".\n" +
			"Definition grace_period : Z := " + grace + "%Z.\n" +
			"Definition mark_suffix : string := " + coqString(markSuffix) + ".\n" +
			"Definition rename_suffix : string := " + coqString(renameSuffix) + ".\n" +
			"Definition tmp_suffix : string := " + coqString(tmpSuffix) + ".\n"
	}
}

func cnReturnsFalse(b *ast.BlockStmt) bool {
	if len(b.List) != 1 {
		return false
	}
	r, ok := b.List[0].(*ast.ReturnStmt)
	return ok && len(r.Results) == 1 && cnExpr(r.Results[0]) == "false"
}

// flatten splits e at the given binary operator, looking through parentheses.
func cnFlatten(e ast.Expr, op token.Token) []ast.Expr {
	for {
		p, ok := e.(*ast.ParenExpr)
		if !ok {
			break
		}
		e = p.X
	}
	if be, ok := e.(*ast.BinaryExpr); ok && be.Op == op {
		return append(cnFlatten(be.X, op), cnFlatten(be.Y, op)...)
	}
	return []ast.Expr{e}
}

func cnIntLit(e ast.Expr) string {
	bl, ok := e.(*ast.BasicLit)
	if !ok || bl.Kind != token.INT {
		failShape("%s is not an integer literal", cnExpr(e))
	}
	v, err := strconv.ParseUint(bl.Value, 0, 64)
	if err != nil {
		failShape("bad integer literal %s", bl.Value)
	}
	return strconv.FormatUint(v, 10)
}

func cnExpr(e ast.Expr) string { return types.ExprString(e) }
