package main

import (
	"fmt"
	"go/ast"
	"go/printer"
	"go/token"
	"go/types"
	"strconv"
	"strings"
)

// CacheNames (property C14): the entry-name recognition constants of dirCache.shouldClean
// (src/cache/dir_cache.go), the compressed-entry suffix set by newDirCache, the access-time grace
// period and the "=" suffixes used by markDir, Store and clean.
//
// Recognised shape of shouldClean's last statement:
//
//	return ((len(name) == A || len(name) == B ...) && name[I] == 'c') || (... same ...) ...
func init() {
	targets["CacheNames"] = func() string {
		_, f := parseFile("src/cache/dir_cache.go")

		// --- shouldClean
		sc := findFunc(f, "dirCache", "shouldClean")
		if len(sc.Type.Params.List) != 2 || len(sc.Type.Params.List[0].Names) != 1 || sc.Type.Params.List[0].Names[0].Name != "name" {
			failShape("shouldClean: parameters are not (name string, isDir bool)")
		}
		body := sc.Body.List
		if len(body) != 3 {
			failShape("shouldClean: expected 3 statements (if-chain, trim, return), found %d", len(body))
		}
		// statement 1: if cache.Compress == isDir { return false } else if !strings.HasSuffix(name, cache.Suffix) { return false }
		if1, ok := body[0].(*ast.IfStmt)
		if !ok || cnExpr(if1.Cond) != "cache.Compress == isDir" || !cnReturnsFalse(if1.Body) {
			failShape("shouldClean: first statement is not `if cache.Compress == isDir { return false }`")
		}
		if2, ok := if1.Else.(*ast.IfStmt)
		if !ok || cnExpr(if2.Cond) != "!strings.HasSuffix(name, cache.Suffix)" || !cnReturnsFalse(if2.Body) || if2.Else != nil {
			failShape("shouldClean: else-branch is not `if !strings.HasSuffix(name, cache.Suffix) { return false }`")
		}
		// statement 2: name = strings.TrimSuffix(name, cache.Suffix)
		as, ok := body[1].(*ast.AssignStmt)
		if !ok || len(as.Lhs) != 1 || len(as.Rhs) != 1 || cnExpr(as.Lhs[0]) != "name" || cnExpr(as.Rhs[0]) != "strings.TrimSuffix(name, cache.Suffix)" {
			failShape("shouldClean: second statement is not `name = strings.TrimSuffix(name, cache.Suffix)`")
		}
		ret, ok := body[2].(*ast.ReturnStmt)
		if !ok || len(ret.Results) != 1 {
			failShape("shouldClean: last statement is not a single-value return")
		}
		var shapes []string
		for _, d := range cnFlatten(ret.Results[0], token.LOR) {
			conj := cnFlatten(d, token.LAND)
			if len(conj) != 2 {
				failShape("shouldClean: disjunct %s is not `(lengths) && name[i] == c`", cnExpr(d))
			}
			var lens []string
			for _, l := range cnFlatten(conj[0], token.LOR) {
				be, ok := l.(*ast.BinaryExpr)
				if !ok || be.Op != token.EQL || cnExpr(be.X) != "len(name)" {
					failShape("shouldClean: %s is not `len(name) == N`", cnExpr(l))
				}
				lens = append(lens, cnIntLit(be.Y))
			}
			be, ok := conj[1].(*ast.BinaryExpr)
			if !ok || be.Op != token.EQL {
				failShape("shouldClean: %s is not `name[i] == c`", cnExpr(conj[1]))
			}
			ix, ok := be.X.(*ast.IndexExpr)
			if !ok || cnExpr(ix.X) != "name" {
				failShape("shouldClean: %s is not `name[i] == c`", cnExpr(conj[1]))
			}
			ch, ok := be.Y.(*ast.BasicLit)
			if !ok || ch.Kind != token.CHAR {
				failShape("shouldClean: %s does not compare with a character literal", cnExpr(conj[1]))
			}
			c := unquote(ch)
			if len(c) != 1 {
				failShape("shouldClean: character %s is not a single byte", ch.Value)
			}
			shapes = append(shapes, fmt.Sprintf("([%s], %s, %d)", strings.Join(lens, "; "), cnIntLit(ix.Index), c[0]))
		}

		// --- newDirCache: if cache.Compress { cache.Suffix = "<lit>" }
		suffix, found := "", false
		ast.Inspect(findFunc(f, "", "newDirCache"), func(n ast.Node) bool {
			is, ok := n.(*ast.IfStmt)
			if !ok || cnExpr(is.Cond) != "cache.Compress" || len(is.Body.List) != 1 {
				return true
			}
			as, ok := is.Body.List[0].(*ast.AssignStmt)
			if !ok || len(as.Lhs) != 1 || cnExpr(as.Lhs[0]) != "cache.Suffix" {
				return true
			}
			bl, ok := as.Rhs[0].(*ast.BasicLit)
			if !ok || bl.Kind != token.STRING {
				failShape("newDirCache: cache.Suffix is not assigned a string literal")
			}
			suffix, found = unquote(bl), true
			return false
		})
		if !found {
			failShape("newDirCache: `if cache.Compress { cache.Suffix = ... }` not found")
		}
		// every other assignment to a Suffix field would invalidate "Suffix is empty unless compressing"
		nSuffix := 0
		ast.Inspect(f, func(n ast.Node) bool {
			if as, ok := n.(*ast.AssignStmt); ok {
				for _, l := range as.Lhs {
					if strings.HasSuffix(cnExpr(l), ".Suffix") {
						nSuffix++
					}
				}
			}
			if kv, ok := n.(*ast.KeyValueExpr); ok && cnExpr(kv.Key) == "Suffix" {
				nSuffix++
			}
			return true
		})
		if nSuffix != 1 {
			failShape("dir_cache.go assigns the Suffix field %d times, expected exactly once", nSuffix)
		}

		// --- const accessTimeGracePeriod = N
		grace := ""
		for _, d := range f.Decls {
			gd, ok := d.(*ast.GenDecl)
			if !ok || gd.Tok != token.CONST {
				continue
			}
			for _, s := range gd.Specs {
				vs := s.(*ast.ValueSpec)
				if len(vs.Names) == 1 && vs.Names[0].Name == "accessTimeGracePeriod" && len(vs.Values) == 1 {
					grace = cnIntLit(vs.Values[0])
				}
			}
		}
		if grace == "" {
			failShape("const accessTimeGracePeriod not found")
		}

		// --- markDir: cache.added[path] = size; cache.added[path+"<lit>"] = size
		var markKeys []string
		ast.Inspect(findFunc(f, "dirCache", "markDir"), func(n ast.Node) bool {
			as, ok := n.(*ast.AssignStmt)
			if !ok || len(as.Lhs) != 1 {
				return true
			}
			ix, ok := as.Lhs[0].(*ast.IndexExpr)
			if !ok || cnExpr(ix.X) != "cache.added" {
				return true
			}
			if cnExpr(as.Rhs[0]) != "size" {
				failShape("markDir: stores %s, not size", cnExpr(as.Rhs[0]))
			}
			markKeys = append(markKeys, cnExpr(ix.Index))
			return true
		})
		if len(markKeys) != 2 || markKeys[0] != "path" || !strings.HasPrefix(markKeys[1], "path + ") {
			failShape("markDir: expected added[path] and added[path+lit], found %v", markKeys)
		}
		markSuffix, err := strconv.Unquote(strings.TrimPrefix(markKeys[1], "path + "))
		if err != nil {
			failShape("markDir: second key is not path + string literal: %s", markKeys[1])
		}

		// --- clean: newPath := entry.Path + "<lit>"
		renameSuffix, found := "", false
		ast.Inspect(findFunc(f, "dirCache", "clean"), func(n ast.Node) bool {
			as, ok := n.(*ast.AssignStmt)
			if !ok || len(as.Lhs) != 1 || cnExpr(as.Lhs[0]) != "newPath" {
				return true
			}
			x := cnExpr(as.Rhs[0])
			if !strings.HasPrefix(x, "entry.Path + ") {
				failShape("clean: newPath is %s, not entry.Path + literal", x)
			}
			v, err := strconv.Unquote(strings.TrimPrefix(x, "entry.Path + "))
			if err != nil {
				failShape("clean: newPath is %s, not entry.Path + literal", x)
			}
			renameSuffix, found = v, true
			return true
		})
		if !found {
			failShape("clean: newPath assignment not found")
		}

		// --- Store: tmpDir := cache.getFullPath(target, key, "", "<lit>")
		tmpSuffix, found := "", false
		ast.Inspect(findFunc(f, "dirCache", "Store"), func(n ast.Node) bool {
			as, ok := n.(*ast.AssignStmt)
			if !ok || len(as.Lhs) != 1 || cnExpr(as.Lhs[0]) != "tmpDir" {
				return true
			}
			call, ok := as.Rhs[0].(*ast.CallExpr)
			if !ok || cnExpr(call.Fun) != "cache.getFullPath" || len(call.Args) != 4 || cnExpr(call.Args[2]) != `""` {
				failShape("Store: tmpDir is not cache.getFullPath(target, key, \"\", lit)")
			}
			bl, ok := call.Args[3].(*ast.BasicLit)
			if !ok || bl.Kind != token.STRING {
				failShape("Store: temporary suffix is not a string literal")
			}
			tmpSuffix, found = unquote(bl), true
			return true
		})
		if !found {
			failShape("Store: tmpDir assignment not found")
		}

		phases, evict := cnCleanSkeleton(findFunc(f, "dirCache", "clean"))
		storeBody, storeFilesBody := cnStoreSkeleton(findFunc(f, "dirCache", "Store"), findFunc(f, "dirCache", "storeFiles"))

		return genHeader +
			"(* Store: its statements in source order (the two path computations left out):\n" +
			"   StMarkEarly        cache.markDir(cacheDir, 0)\n" +
			"   StRemoveOld        if fs.RemoveAll(cacheDir) fails { log; return }\n" +
			"   StStoreFiles       cache.storeFiles(target, key, \"\", cacheDir, tmpDir, files, true)\n" +
			"   StRenameIntoPlace  if os.Rename(tmpDir, cacheDir) fails other than with not-exist { log } *)\n" +
			"Inductive store_step := StMarkEarly | StRemoveOld | StStoreFiles | StRenameIntoPlace.\n" +
			"Definition store_body : list store_step := [" + strings.Join(storeBody, "; ") + "].\n" +
			"(* storeFiles: its statements in source order (the declaration of totalSize left out):\n" +
			"   SfStoreEach   if cache.Compress { totalSize = cache.storeCompressed(target, tmpDir, files) }\n" +
			"                 else { for _, out := range files { totalSize += cache.storeFile(target, out, tmpDir) } }\n" +
			"   SfMarkTotal   cache.markDir(cacheDir, totalSize) *)\n" +
			"Inductive store_files_step := SfStoreEach | SfMarkTotal.\n" +
			"Definition store_files_body : list store_files_step := [" + strings.Join(storeFilesBody, "; ") + "].\n" +
			"(* clean: its phases in source order (declarations and logging left out) *)\n" +
			"Inductive clean_phase := PhWalk | PhReturnBelowHigh | PhSort | PhEvict | PhReturnTotal.\n" +
			"Definition clean_phases : list clean_phase := [" + strings.Join(phases, "; ") + "].\n" +
			"(* clean: the body of `for _, entry := range entries`, one constructor per statement (logging left out):\n" +
			"   EvSkipIfMarked    if _, marked := cache.isMarked(entry.Path); marked { continue }\n" +
			"   EvEvictOrSkip     newPath := entry.Path + lit; if os.Rename(entry.Path, newPath) fails { continue };\n" +
			"                     if fs.RemoveAll(newPath) fails { continue }\n" +
			"   EvSubtractSize    totalSize -= entry.Size\n" +
			"   EvBreakBelowLow   if totalSize < lowWaterMark { break } *)\n" +
			"Inductive evict_step := EvSkipIfMarked | EvEvictOrSkip | EvSubtractSize | EvBreakBelowLow.\n" +
			"Definition evict_body : list evict_step := [" + strings.Join(evict, "; ") + "].\n" +
			"(* shouldClean: (accepted lengths, index of the padding character, its byte) per disjunct *)\n" +
			"Definition key_shapes : list (list N * N * N) := [" + strings.Join(shapes, "; ") + "]%N.\n" +
			"Definition compressed_suffix : string := " + coqString(suffix) + ".\n" +
			"Definition grace_period : Z := " + grace + "%Z.\n" +
			"Definition mark_suffix : string := " + coqString(markSuffix) + ".\n" +
			"Definition rename_suffix : string := " + coqString(renameSuffix) + ".\n" +
			"Definition tmp_suffix : string := " + coqString(tmpSuffix) + ".\n"
	}
}

// cnCleanSkeleton pins the statement skeleton of dirCache.clean: the order of its phases and the
// body of the eviction loop.  Declarations and log calls are skipped; every other statement must
// be one of the recognised shapes (fail closed).  A recognised statement that is absent is simply
// absent from the emitted lists: the proofs over them (Proof/C14_Interleave.v) then no longer check.
func cnCleanSkeleton(fd *ast.FuncDecl) (phases, evict []string) {
	if got := cnExpr(fd.Type.Params.List[0].Type); len(fd.Type.Params.List) != 1 || len(fd.Type.Params.List[0].Names) != 2 ||
		fd.Type.Params.List[0].Names[0].Name != "highWaterMark" || fd.Type.Params.List[0].Names[1].Name != "lowWaterMark" || got != "uint64" {
		failShape("clean: parameters are not (highWaterMark, lowWaterMark uint64)")
	}
	var loop *ast.RangeStmt
	for _, st := range fd.Body.List {
		switch x := st.(type) {
		case *ast.DeclStmt:
			if s := cnNode(x); s != "var totalSize uint64" {
				failShape("clean: unexpected declaration %s", s)
			}
		case *ast.AssignStmt:
			if s := cnNode(x); s != "entries := []cacheEntry{}" {
				failShape("clean: unexpected assignment %s", s)
			}
		case *ast.ExprStmt:
			call, ok := x.X.(*ast.CallExpr)
			if !ok {
				failShape("clean: unexpected statement %s", cnNode(x))
			}
			switch fn := cnExpr(call.Fun); {
			case strings.HasPrefix(fn, "log."):
			case fn == "sort.Slice" && len(call.Args) == 2 && cnExpr(call.Args[0]) == "entries":
				phases = append(phases, "PhSort")
			default:
				failShape("clean: unexpected call %s", fn)
			}
		case *ast.IfStmt:
			switch {
			case x.Init != nil && strings.HasPrefix(cnNode(x.Init), "err := fs.Walk(cache.Dir, ") && cnExpr(x.Cond) == "err != nil" && x.Else == nil &&
				cnEndsWith(x.Body, "return totalSize"):
				phases = append(phases, "PhWalk")
			case x.Init == nil && cnExpr(x.Cond) == "totalSize < highWaterMark" && x.Else == nil && len(x.Body.List) == 1 && cnEndsWith(x.Body, "return totalSize"):
				phases = append(phases, "PhReturnBelowHigh")
			default:
				failShape("clean: unexpected if statement `if %s`", cnExpr(x.Cond))
			}
		case *ast.RangeStmt:
			if loop != nil {
				failShape("clean: more than one range loop")
			}
			if x.Key == nil || cnExpr(x.Key) != "_" || x.Value == nil || cnExpr(x.Value) != "entry" || cnExpr(x.X) != "entries" || x.Tok != token.DEFINE {
				failShape("clean: the loop is not `for _, entry := range entries`")
			}
			loop = x
			phases = append(phases, "PhEvict")
		case *ast.ReturnStmt:
			if cnNode(x) != "return totalSize" {
				failShape("clean: unexpected %s", cnNode(x))
			}
			phases = append(phases, "PhReturnTotal")
		default:
			failShape("clean: unexpected statement %s", cnNode(st))
		}
	}
	if loop == nil {
		failShape("clean: eviction loop not found")
	}
	body := loop.Body.List
	for i := 0; i < len(body); i++ {
		switch x := body[i].(type) {
		case *ast.ExprStmt:
			if call, ok := x.X.(*ast.CallExpr); !ok || !strings.HasPrefix(cnExpr(call.Fun), "log.") {
				failShape("clean loop: unexpected statement %s", cnNode(x))
			}
		case *ast.IfStmt:
			switch {
			case x.Init != nil && cnNode(x.Init) == "_, marked := cache.isMarked(entry.Path)" && cnExpr(x.Cond) == "marked" && x.Else == nil &&
				len(x.Body.List) == 1 && cnEndsWith(x.Body, "continue"):
				evict = append(evict, "EvSkipIfMarked")
			case x.Init == nil && cnExpr(x.Cond) == "totalSize < lowWaterMark" && x.Else == nil && len(x.Body.List) == 1 && cnEndsWith(x.Body, "break"):
				evict = append(evict, "EvBreakBelowLow")
			default:
				failShape("clean loop: unexpected if statement `if %s; %s`", cnNode(x.Init), cnExpr(x.Cond))
			}
		case *ast.AssignStmt:
			switch s := cnNode(x); {
			case s == "totalSize -= entry.Size":
				evict = append(evict, "EvSubtractSize")
			case strings.HasPrefix(s, "newPath := entry.Path + "):
				if i+2 >= len(body) {
					failShape("clean loop: newPath is not followed by the rename and the removal")
				}
				for k, want := range []string{"err := os.Rename(entry.Path, newPath)", "err := fs.RemoveAll(newPath)"} {
					is, ok := body[i+1+k].(*ast.IfStmt)
					if !ok || is.Init == nil || cnNode(is.Init) != want || cnExpr(is.Cond) != "err != nil" || is.Else != nil || !cnEndsWith(is.Body, "continue") {
						failShape("clean loop: statement %d after newPath is not `if %s; err != nil { log; continue }`", k+1, want)
					}
				}
				i += 2
				evict = append(evict, "EvEvictOrSkip")
			default:
				failShape("clean loop: unexpected assignment %s", s)
			}
		default:
			failShape("clean loop: unexpected statement %s", cnNode(body[i]))
		}
	}
	return phases, evict
}

// cnStoreSkeleton translates the statement lists of dirCache.Store and dirCache.storeFiles.  Every
// statement must be one of the recognised shapes (fail closed); a recognised statement that is
// absent is absent from the emitted list, so the model interprets the Store that is in the source
// and the proofs about it (Proof/C14_Store.v) no longer check.
func cnStoreSkeleton(store, storeFiles *ast.FuncDecl) (sb, sfb []string) {
	if got := cnNode(store.Type); got != "func(target *core.BuildTarget, key []byte, files []string)" {
		failShape("Store: parameters are %s", got)
	}
	for _, st := range store.Body.List {
		switch s := cnNode(st); {
		case s == `cacheDir := cache.getPath(target, key, "")`:
		case strings.HasPrefix(s, `tmpDir := cache.getFullPath(target, key, "", "`):
		case s == "cache.markDir(cacheDir, 0)":
			sb = append(sb, "StMarkEarly")
		case s == `cache.storeFiles(target, key, "", cacheDir, tmpDir, files, true)`:
			sb = append(sb, "StStoreFiles")
		default:
			is, ok := st.(*ast.IfStmt)
			if !ok || is.Init == nil || is.Else != nil {
				failShape("Store: unexpected statement %s", s)
			}
			switch init, cond := cnNode(is.Init), cnExpr(is.Cond); {
			case init == "err := fs.RemoveAll(cacheDir)" && cond == "err != nil" && cnEndsWith(is.Body, "return"):
				sb = append(sb, "StRemoveOld")
			case init == "err := os.Rename(tmpDir, cacheDir)" && cond == "err != nil && !os.IsNotExist(err)" && cnOnlyLogs(is.Body):
				sb = append(sb, "StRenameIntoPlace")
			default:
				failShape("Store: unexpected if statement `if %s; %s`", init, cond)
			}
		}
	}
	if got := cnNode(storeFiles.Type); got != "func(target *core.BuildTarget, key []byte, suffix, cacheDir, tmpDir string, files []string, clean bool)" {
		failShape("storeFiles: parameters are %s", got)
	}
	for _, st := range storeFiles.Body.List {
		switch s := cnNode(st); {
		case s == "var totalSize uint64":
		case s == "cache.markDir(cacheDir, totalSize)":
			sfb = append(sfb, "SfMarkTotal")
		case s == "if cache.Compress { totalSize = cache.storeCompressed(target, tmpDir, files) } else { for _, out := range files { totalSize += cache.storeFile(target, out, tmpDir) } }":
			sfb = append(sfb, "SfStoreEach")
		default:
			failShape("storeFiles: unexpected statement %s", s)
		}
	}
	return sb, sfb
}

// cnOnlyLogs: the block consists of log calls only.
func cnOnlyLogs(b *ast.BlockStmt) bool {
	for _, st := range b.List {
		es, ok := st.(*ast.ExprStmt)
		if !ok {
			return false
		}
		call, ok := es.X.(*ast.CallExpr)
		if !ok || !strings.HasPrefix(cnExpr(call.Fun), "log.") {
			return false
		}
	}
	return len(b.List) > 0
}

// cnEndsWith: the block consists of log calls followed by the given last statement.
func cnEndsWith(b *ast.BlockStmt, last string) bool {
	if len(b.List) == 0 || cnNode(b.List[len(b.List)-1]) != last {
		return false
	}
	for _, st := range b.List[:len(b.List)-1] {
		es, ok := st.(*ast.ExprStmt)
		if !ok {
			return false
		}
		call, ok := es.X.(*ast.CallExpr)
		if !ok || !strings.HasPrefix(cnExpr(call.Fun), "log.") {
			return false
		}
	}
	return true
}

// cnNode prints a statement (or any node) on one line.
func cnNode(n ast.Node) string {
	if n == nil {
		return ""
	}
	var b strings.Builder
	if err := printer.Fprint(&b, token.NewFileSet(), n); err != nil {
		failShape("cannot print node: %v", err)
	}
	return strings.Join(strings.Fields(b.String()), " ")
}

func cnReturnsFalse(b *ast.BlockStmt) bool {
	if len(b.List) != 1 {
		return false
	}
	r, ok := b.List[0].(*ast.ReturnStmt)
	return ok && len(r.Results) == 1 && cnExpr(r.Results[0]) == "false"
}

// flatten splits e at the given binary operator, looking through parentheses.
func cnFlatten(e ast.Expr, op token.Token) []ast.Expr {
	for {
		p, ok := e.(*ast.ParenExpr)
		if !ok {
			break
		}
		e = p.X
	}
	if be, ok := e.(*ast.BinaryExpr); ok && be.Op == op {
		return append(cnFlatten(be.X, op), cnFlatten(be.Y, op)...)
	}
	return []ast.Expr{e}
}

func cnIntLit(e ast.Expr) string {
	bl, ok := e.(*ast.BasicLit)
	if !ok || bl.Kind != token.INT {
		failShape("%s is not an integer literal", cnExpr(e))
	}
	v, err := strconv.ParseUint(bl.Value, 0, 64)
	if err != nil {
		failShape("bad integer literal %s", bl.Value)
	}
	return strconv.FormatUint(v, 10)
}

func cnExpr(e ast.Expr) string { return types.ExprString(e) }
