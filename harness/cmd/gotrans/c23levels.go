package main

import (
	"bytes"
	"go/printer"
	"regexp"
	"strconv"
	"strings"
)

// C23Levels (property C23): the level arithmetic of the two level-limited dependency queries.
//   - src/query/deps.go, func deps: the whole body must have the recognised shape; extracted are the
//     comparison of the cut-off test and the level passed to each of the three recursive calls
//     (printed dependency / hidden dependency of the same rule / other hidden dependency).
//   - src/query/reverse_deps.go, func (r *revdeps) findRevdeps: the depth-limit test, the "report" test and
//     the zero-cost rule (depth++ unless isSameTarget).
//
// Anything else fails closed.
func init() {
	targets["C23Levels"] = func() string {
		fsetD, fd := parseFile("src/query/deps.go")
		var b bytes.Buffer
		deps := findFunc(fd, "", "deps")
		if err := printer.Fprint(&b, fsetD, deps.Body); err != nil {
			failShape("cannot print deps: %v", err)
		}
		body := strings.Join(strings.Fields(b.String()), " ")
		lvl := `(currentLevel(?:\s*\+\s*\d+)?)`
		reDeps := regexp.MustCompile(`^\{ if currentLevel (==|!=|<|<=|>|>=) targetLevel \{ return \} ` +
			`for _, l := range target\.DeclaredDependencies\(\) \{ dep := state\.Graph\.TargetOrDie\(l\) ` +
			`for _, l := range dep\.ProvideFor\(target\) \{ if !state\.ShouldInclude\(dep\) \|\| done\[l\] \{ continue \} done\[l\] = true ` +
			`if dep := state\.Graph\.TargetOrDie\(l\); hidden \|\| !dep\.HasParent\(\) \{ ` +
			`if formatdot \{ printTargetDot\(out, dep, target\) \} else \{ printTarget\(out, dep, currentLevel\) \} ` +
			`deps\(out, state, dep, done, targetLevel, ` + lvl + `, hidden, formatdot\) ` +
			`\} else if dep\.Label\.Parent\(\) == target\.Label\.Parent\(\) \{ ` +
			`deps\(out, state, dep, done, targetLevel, ` + lvl + `, hidden, formatdot\) ` +
			`\} else \{ deps\(out, state, dep, done, targetLevel, ` + lvl + `, hidden, formatdot\) \} \} \} \}$`)
		m := reDeps.FindStringSubmatch(body)
		if m == nil {
			failShape("src/query/deps.go: body of deps has an unrecognised shape: %s", body)
		}
		step := func(s string) string {
			s = strings.ReplaceAll(s, " ", "")
			if s == "currentLevel" {
				return "0"
			}
			n, err := strconv.Atoi(strings.TrimPrefix(s, "currentLevel+"))
			if err != nil {
				failShape("deps: level argument %q", s)
			}
			return strconv.Itoa(n)
		}

		fsetR, fr := parseFile("src/query/reverse_deps.go")
		b.Reset()
		find := findFunc(fr, "revdeps", "findRevdeps")
		if err := printer.Fprint(&b, fsetR, find.Body); err != nil {
			failShape("cannot print findRevdeps: %v", err)
		}
		rbody := strings.Join(strings.Fields(b.String()), " ")
		one := func(re string) []string {
			all := regexp.MustCompile(re).FindAllStringSubmatch(rbody, -1)
			if len(all) != 1 {
				failShape("src/query/reverse_deps.go: findRevdeps: expected exactly one match of %s, found %d in: %s", re, len(all), rbody)
			}
			return all[0]
		}
		one(`depth := next\.depth `)
		one(`if r\.hidden \|\| !isSameTarget\(state\.Graph, next\.target, t\) \{ depth\+\+ \}`)
		lim := one(`if next\.depth (==|!=|<|<=|>|>=) r\.maxDepth \|\| r\.maxDepth == (-?\d+) \{`)
		rep := one(`if depth (==|!=|<|<=|>|>=) (\d+) \{ if r\.hidden \|\| !t\.Label\.IsHidden\(\) \{ ret\[t\] = struct\{\}\{\} \} else if parent := t\.Parent\(state\.Graph\); parent != nil \{ ret\[parent\] = struct\{\}\{\} \} \}`)
		one(`r\.os\.Push\(&node\{ target: t, depth: depth, \}\)`)
		z := func(s string) string { return "(" + s + ")%Z" }
		return genHeader +
			"(* deps: cut-off test `currentLevel <op> targetLevel`; level increments of the three recursive calls *)\n" +
			"Definition deps_cutoff_op : string := " + coqString(m[1]) + ".\n" +
			"Definition deps_level_steps : list Z := [" + z(step(m[2])) + "; " + z(step(m[3])) + "; " + z(step(m[4])) + "].\n" +
			"(* findRevdeps: `next.depth <op> r.maxDepth || r.maxDepth == <unlimited>`; report when `depth <op> <n>`; depth++ unless isSameTarget *)\n" +
			"Definition rev_limit_op : string := " + coqString(lim[1]) + ".\n" +
			"Definition rev_unlimited : Z := " + z(lim[2]) + ".\n" +
			"Definition rev_report_op : string := " + coqString(rep[1]) + ".\n" +
			"Definition rev_report_bound : Z := " + z(rep[2]) + ".\n"
	}
}
