package main

import (
	"fmt"
	"go/ast"
	"go/printer"
	"go/token"
	"strings"
)

// StateOrder (C04/C05): the declaration order of the BuildTargetState enum (its numeric order is what the
// scheduler's comparisons and the "states only move forward" argument use), the bounds of IsBuilt, and the
// state constants the queueing state machine compares with / swaps / stores:
//   queueResolvedTarget  target.State() >= X && !forceBuild ;  the SyncUpdateState pairs of both branches
//   queueTargetAsync     t.State() >= X ; target.SetState(X) inside that branch ; SyncUpdateState(A, B)
//   build.Build          the first SetState (start) and the SetState of the error branch
func init() {
	targets["StateOrder"] = func() string {
		_, bt := parseFile("src/core/build_target.go")
		names := iotaConsts(bt, "BuildTargetState")
		known := map[string]bool{}
		for _, n := range names {
			known[n] = true
		}
		constName := func(e ast.Expr, what string) string {
			if se, ok := e.(*ast.SelectorExpr); ok { // core.Building
				e = se.Sel
			}
			id, ok := e.(*ast.Ident)
			if !ok || !known[id.Name] {
				failShape("%s: not a BuildTargetState constant", what)
			}
			return id.Name
		}
		isCallTo := func(e ast.Expr, method string) (*ast.CallExpr, bool) {
			c, ok := e.(*ast.CallExpr)
			if !ok {
				return nil, false
			}
			se, ok := c.Fun.(*ast.SelectorExpr)
			return c, ok && se.Sel.Name == method
		}
		casPairs := func(n ast.Node, what string) []string {
			var out []string
			ast.Inspect(n, func(x ast.Node) bool {
				if e, ok := x.(ast.Expr); ok {
					if c, ok := isCallTo(e, "SyncUpdateState"); ok {
						if len(c.Args) != 2 {
							failShape("%s: SyncUpdateState without two arguments", what)
						}
						out = append(out, "("+constName(c.Args[0], what)+", "+constName(c.Args[1], what)+")")
					}
				}
				return true
			})
			return out
		}
		setStates := func(n ast.Node, what string) []string {
			var out []string
			ast.Inspect(n, func(x ast.Node) bool {
				if e, ok := x.(ast.Expr); ok {
					if c, ok := isCallTo(e, "SetState"); ok && len(c.Args) == 1 {
						out = append(out, constName(c.Args[0], what))
					}
				}
				return true
			})
			return out
		}
		// X.State() >= K   (returns K)
		stateGEQ := func(e ast.Expr) (string, bool) {
			be, ok := e.(*ast.BinaryExpr)
			if !ok || be.Op != token.GEQ {
				return "", false
			}
			if c, ok := isCallTo(be.X, "State"); !ok || len(c.Args) != 0 {
				return "", false
			}
			return constName(be.Y, "State() >= K"), true
		}

		// IsBuilt: return LO <= s && s < HI
		isBuilt := findFunc(bt, "BuildTargetState", "IsBuilt")
		if len(isBuilt.Body.List) != 1 {
			failShape("IsBuilt: body is not a single return")
		}
		ret, ok := isBuilt.Body.List[0].(*ast.ReturnStmt)
		if !ok || len(ret.Results) != 1 {
			failShape("IsBuilt: body is not a single return")
		}
		and, ok := ret.Results[0].(*ast.BinaryExpr)
		if !ok || and.Op != token.LAND {
			failShape("IsBuilt: not a conjunction")
		}
		l, ok1 := and.X.(*ast.BinaryExpr)
		r, ok2 := and.Y.(*ast.BinaryExpr)
		if !ok1 || !ok2 || l.Op != token.LEQ || r.Op != token.LSS {
			failShape("IsBuilt: not of the shape LO <= s && s < HI")
		}
		if id, ok := l.Y.(*ast.Ident); !ok || id.Name != "s" {
			failShape("IsBuilt: LO <= s expected")
		}
		if id, ok := r.X.(*ast.Ident); !ok || id.Name != "s" {
			failShape("IsBuilt: s < HI expected")
		}
		lo, hi := constName(l.X, "IsBuilt"), constName(r.Y, "IsBuilt")

		_, st := parseFile("src/core/state.go")
		// queueResolvedTarget
		qr := findFunc(st, "BuildState", "queueResolvedTarget")
		threshold := ""
		var casNeed, casNoNeed []string
		for _, s := range qr.Body.List {
			is, ok := s.(*ast.IfStmt)
			if !ok {
				continue
			}
			if be, ok := is.Cond.(*ast.BinaryExpr); ok && be.Op == token.LAND {
				if k, ok := stateGEQ(be.X); ok {
					ue, ok := be.Y.(*ast.UnaryExpr)
					if !ok || ue.Op != token.NOT {
						failShape("queueResolvedTarget: State() >= K && !forceBuild expected")
					}
					if len(is.Body.List) != 1 {
						failShape("queueResolvedTarget: early-return branch has changed")
					}
					if _, ok := is.Body.List[0].(*ast.ReturnStmt); !ok {
						failShape("queueResolvedTarget: early-return branch has changed")
					}
					threshold = k
				}
			}
			if be, ok := is.Cond.(*ast.BinaryExpr); ok && be.Op == token.LOR {
				if se, ok := be.X.(*ast.SelectorExpr); ok && se.Sel.Name == "NeedBuild" {
					inner, ok := is.Body.List[0].(*ast.IfStmt)
					if !ok || len(is.Body.List) != 1 {
						failShape("queueResolvedTarget: NeedBuild branch is not a single if")
					}
					casNeed = casPairs(inner.Cond, "queueResolvedTarget")
					if len(casPairs(inner.Body, "queueResolvedTarget")) != 0 {
						failShape("queueResolvedTarget: CAS inside the NeedBuild body")
					}
					el, ok := is.Else.(*ast.IfStmt)
					if !ok {
						failShape("queueResolvedTarget: else-if branch missing")
					}
					casNoNeed = casPairs(el.Cond, "queueResolvedTarget")
				}
			}
		}
		if threshold == "" || len(casNeed) == 0 || len(casNoNeed) == 0 {
			failShape("queueResolvedTarget: threshold or CAS branches not found")
		}
		if n := len(casPairs(qr.Body, "queueResolvedTarget")); n != len(casNeed)+len(casNoNeed) {
			failShape("queueResolvedTarget: %d SyncUpdateState calls, expected %d", n, len(casNeed)+len(casNoNeed))
		}

		// queueTargetAsync
		qa := findFunc(st, "BuildState", "queueTargetAsync")
		depThr, depSet := "", ""
		ast.Inspect(qa.Body, func(x ast.Node) bool {
			if is, ok := x.(*ast.IfStmt); ok {
				if k, ok := stateGEQ(is.Cond); ok {
					if depThr != "" {
						failShape("queueTargetAsync: more than one State() >= K test")
					}
					depThr = k
					ss := setStates(is.Body, "queueTargetAsync")
					if len(ss) != 1 {
						failShape("queueTargetAsync: dependency-failed branch does not set exactly one state")
					}
					depSet = ss[0]
				}
			}
			return true
		})
		casPending := casPairs(qa.Body, "queueTargetAsync")
		if depThr == "" || len(casPending) != 1 {
			failShape("queueTargetAsync: threshold or the single CAS not found")
		}
		if len(setStates(qa.Body, "queueTargetAsync")) != 1 {
			failShape("queueTargetAsync: SetState calls have changed")
		}

		// build.Build
		_, bs := parseFile("src/build/build_step.go")
		bf := findFunc(bs, "", "Build")
		startSet, failSet := "", ""
		for _, s := range bf.Body.List {
			if es, ok := s.(*ast.ExprStmt); ok && startSet == "" {
				if ss := setStates(es, "Build"); len(ss) == 1 {
					startSet = ss[0]
				}
			}
			if is, ok := s.(*ast.IfStmt); ok && is.Init != nil && strings.Contains(fmt.Sprint(is.Init.(*ast.AssignStmt).Rhs[0].(*ast.CallExpr).Fun), "buildTarget") {
				// if err := buildTarget(...); err != nil { if errors.Is(err, errStop) {...return}; ...; SetState(Failed); FinishBuild; return }
				for _, b := range is.Body.List {
					if es, ok := b.(*ast.ExprStmt); ok {
						if ss := setStates(es, "Build"); len(ss) == 1 {
							if failSet != "" {
								failShape("Build: error branch sets more than one state")
							}
							failSet = ss[0]
						}
					}
				}
			}
		}
		if startSet == "" || failSet == "" {
			failShape("Build: start / failure SetState not found")
		}

		// logResult: the order of "store the failure flags" and "publish the result", flattened:
		//   result.Time = ... ; if result.Status.IsFailure() { switch {case X: specific.Store(true)...}; failed.Store(true) } ; internalResults <- result
		// (either order of the if and the send, any order inside the if; anything else fails closed)
		lr := findFunc(st, "BuildState", "logResult")
		var lrProg []string
		storeOf := func(e ast.Expr) string { // state.progress.<flag>.Store(true)
			c, ok := isCallTo(e, "Store")
			if !ok || len(c.Args) != 1 {
				failShape("logResult: a statement is not flag.Store(true)")
			}
			if id, ok := c.Args[0].(*ast.Ident); !ok || id.Name != "true" {
				failShape("logResult: a flag is stored with something other than true")
			}
			fl, ok := c.Fun.(*ast.SelectorExpr).X.(*ast.SelectorExpr)
			if !ok {
				failShape("logResult: Store receiver is not a field")
			}
			return fl.Sel.Name
		}
		for _, stx := range lr.Body.List {
			switch x := stx.(type) {
			case *ast.AssignStmt:
				if se, ok := x.Lhs[0].(*ast.SelectorExpr); !ok || se.Sel.Name != "Time" || len(x.Lhs) != 1 {
					failShape("logResult: unexpected assignment")
				}
				lrProg = append(lrProg, "LRTime")
			case *ast.SendStmt:
				if se, ok := x.Chan.(*ast.SelectorExpr); !ok || se.Sel.Name != "internalResults" {
					failShape("logResult: send on something other than internalResults")
				}
				lrProg = append(lrProg, "LRSend")
			case *ast.IfStmt:
				if c, ok := isCallTo(x.Cond, "IsFailure"); !ok || len(c.Args) != 0 || x.Else != nil || x.Init != nil {
					failShape("logResult: the if is not `if result.Status.IsFailure()`")
				}
				for _, inner := range x.Body.List {
					switch y := inner.(type) {
					case *ast.ExprStmt:
						if storeOf(y.X) != "failed" {
							failShape("logResult: top-level store in the failure branch is not progress.failed")
						}
						lrProg = append(lrProg, "LRStoreFailed")
					case *ast.SwitchStmt:
						seen := map[string]string{}
						for _, cc := range y.Body.List {
							cl := cc.(*ast.CaseClause)
							if len(cl.List) != 1 || len(cl.Body) != 1 {
								failShape("logResult: a switch case is not `case S: flag.Store(true)`")
							}
							es, ok := cl.Body[0].(*ast.ExprStmt)
							if !ok {
								failShape("logResult: a switch case is not `case S: flag.Store(true)`")
							}
							seen[fmt.Sprint(cl.List[0])] = storeOf(es.X)
						}
						if len(seen) != 2 || seen["TargetBuildFailed"] != "buildFailed" || seen["TargetTestFailed"] != "testFailed" {
							failShape("logResult: the switch does not map TargetBuildFailed/TargetTestFailed to buildFailed/testFailed")
						}
						lrProg = append(lrProg, "LRStoreSpecific")
					default:
						failShape("logResult: unexpected statement in the failure branch")
					}
				}
			default:
				failShape("logResult: unexpected statement")
			}
		}

		// asyncError: log.Error(...); state.LogBuildError(...); then either `state.Stop()` or `if !state.KeepGoing { state.Stop() }`
		ae := findFunc(st, "BuildState", "asyncError")
		asyncStopsAlways := ""
		isStopCall := func(x ast.Stmt) bool {
			es, ok := x.(*ast.ExprStmt)
			if !ok {
				return false
			}
			c, ok := isCallTo(es.X, "Stop")
			return ok && len(c.Args) == 0
		}
		if len(ae.Body.List) != 3 {
			failShape("asyncError: body is not three statements")
		}
		if es, ok := ae.Body.List[1].(*ast.ExprStmt); !ok {
			failShape("asyncError: second statement is not a call")
		} else if _, ok := isCallTo(es.X, "LogBuildError"); !ok {
			failShape("asyncError: second statement is not LogBuildError")
		}
		switch x := ae.Body.List[2].(type) {
		case *ast.ExprStmt:
			if !isStopCall(x) {
				failShape("asyncError: last statement is not state.Stop()")
			}
			asyncStopsAlways = "true"
		case *ast.IfStmt:
			ue, ok := x.Cond.(*ast.UnaryExpr)
			if !ok || ue.Op != token.NOT || x.Else != nil || x.Init != nil || len(x.Body.List) != 1 || !isStopCall(x.Body.List[0]) {
				failShape("asyncError: conditional Stop of an unknown shape")
			}
			if se, ok := ue.X.(*ast.SelectorExpr); !ok || se.Sel.Name != "KeepGoing" {
				failShape("asyncError: conditional Stop of an unknown shape")
			}
			asyncStopsAlways = "false"
		default:
			failShape("asyncError: last statement is neither Stop() nor a conditional Stop()")
		}
		// queueTargetAsync: the guard of the Active -> Pending swap: `building && target.SyncUpdateState(A, B)` or the bare swap
		pendingNeedsBuilding := ""
		ast.Inspect(qa.Body, func(x ast.Node) bool {
			is, ok := x.(*ast.IfStmt)
			if !ok || len(casPairs(is.Cond, "queueTargetAsync")) != 1 {
				return true
			}
			if pendingNeedsBuilding != "" {
				failShape("queueTargetAsync: more than one guarded swap")
			}
			switch c := is.Cond.(type) {
			case *ast.BinaryExpr:
				id, ok := c.X.(*ast.Ident)
				if _, isCas := isCallTo(c.Y, "SyncUpdateState"); c.Op != token.LAND || !ok || id.Name != "building" || !isCas {
					failShape("queueTargetAsync: the guard of the Active -> Pending swap has an unknown shape")
				}
				pendingNeedsBuilding = "true"
			case *ast.CallExpr:
				pendingNeedsBuilding = "false"
			default:
				failShape("queueTargetAsync: the guard of the Active -> Pending swap has an unknown shape")
			}
			return true
		})
		if pendingNeedsBuilding == "" {
			failShape("queueTargetAsync: guarded swap not found")
		}

		exprText := func(n ast.Node) string {
			var sb strings.Builder
			if err := printer.Fprint(&sb, token.NewFileSet(), n); err != nil {
				failShape("cannot print a node: %v", err)
			}
			return sb.String()
		}
		// build.Build, the failure path after the errStop branch, in source order:
		//   state.LogBuildError(...) ; if err := RemoveOutputs(target); err != nil {log} ; target.SetState(F) ; target.FinishBuild() ; return
		var bfProg []string
		for _, s := range bf.Body.List {
			is, ok := s.(*ast.IfStmt)
			if !ok || is.Init == nil || !strings.Contains(fmt.Sprint(is.Init.(*ast.AssignStmt).Rhs[0].(*ast.CallExpr).Fun), "buildTarget") {
				continue
			}
			if len(is.Body.List) < 2 {
				failShape("Build: failure branch too short")
			}
			if first, ok := is.Body.List[0].(*ast.IfStmt); !ok || !strings.Contains(exprText(first.Cond), "errStop") {
				failShape("Build: failure branch does not start with the errStop test")
			}
			for i, b := range is.Body.List[1:] {
				last := i == len(is.Body.List)-2
				switch x := b.(type) {
				case *ast.ReturnStmt:
					if !last {
						failShape("Build: return in the middle of the failure branch")
					}
				case *ast.IfStmt:
					as, ok := x.Init.(*ast.AssignStmt)
					if !ok || len(as.Rhs) != 1 || x.Else != nil {
						failShape("Build: unexpected if in the failure branch")
					}
					c, ok := as.Rhs[0].(*ast.CallExpr)
					if !ok || fmt.Sprint(c.Fun) != "RemoveOutputs" {
						failShape("Build: unexpected if in the failure branch")
					}
					bfProg = append(bfProg, "BFRemoveOutputs")
				case *ast.ExprStmt:
					if _, ok := isCallTo(x.X, "LogBuildError"); ok {
						bfProg = append(bfProg, "BFLog")
					} else if _, ok := isCallTo(x.X, "SetState"); ok {
						bfProg = append(bfProg, "BFSetState")
					} else if c, ok := isCallTo(x.X, "FinishBuild"); ok && len(c.Args) == 0 {
						bfProg = append(bfProg, "BFFinish")
					} else {
						failShape("Build: unexpected call in the failure branch")
					}
				default:
					failShape("Build: unexpected statement in the failure branch")
				}
				if last {
					if _, ok := b.(*ast.ReturnStmt); !ok {
						failShape("Build: failure branch does not end with return")
					}
				}
			}
		}
		count := func(xs []string, s string) int {
			n := 0
			for _, x := range xs {
				if x == s {
					n++
				}
			}
			return n
		}
		if count(bfProg, "BFLog") != 1 || count(bfProg, "BFSetState") != 1 || count(bfProg, "BFFinish") != 1 || count(bfProg, "BFRemoveOutputs") > 1 {
			failShape("Build: failure branch is not one LogBuildError, one SetState, one FinishBuild (got %v)", bfProg)
		}

		// waitOnChan: start := ...; t := time.NewTimer(...); defer t.Stop(); select { case <-ch: [return] ; case <-t.C: log [; return] } ; [<-ch]
		wc := findFunc(st, "", "waitOnChan")
		var wcProg []string
		isRecvFrom := func(e ast.Expr, what string) bool {
			ue, ok := e.(*ast.UnaryExpr)
			return ok && ue.Op == token.ARROW && exprText(ue.X) == what
		}
		for _, s := range wc.Body.List {
			switch x := s.(type) {
			case *ast.AssignStmt, *ast.DeferStmt:
				if len(wcProg) != 0 {
					failShape("waitOnChan: set-up statement after the select")
				}
			case *ast.SelectStmt:
				chRet, tmRet, seenCh, seenTm := "false", "false", false, false
				for _, cc := range x.Body.List {
					cl := cc.(*ast.CommClause)
					es, ok := cl.Comm.(*ast.ExprStmt)
					if !ok {
						failShape("waitOnChan: a select case is not a bare receive")
					}
					returns := "false"
					for i, bs := range cl.Body {
						switch y := bs.(type) {
						case *ast.ReturnStmt:
							if i != len(cl.Body)-1 {
								failShape("waitOnChan: return in the middle of a select case")
							}
							returns = "true"
						case *ast.ExprStmt:
							if !strings.HasPrefix(exprText(y.X), "log.") {
								failShape("waitOnChan: a select case does something other than logging")
							}
						default:
							failShape("waitOnChan: unexpected statement in a select case")
						}
					}
					switch {
					case isRecvFrom(es.X, "ch") && !seenCh:
						seenCh, chRet = true, returns
					case isRecvFrom(es.X, "t.C") && !seenTm:
						seenTm, tmRet = true, returns
					default:
						failShape("waitOnChan: unknown select case")
					}
				}
				if !seenCh || !seenTm {
					failShape("waitOnChan: the select does not have the cases <-ch and <-t.C")
				}
				wcProg = append(wcProg, "WCSelect "+chRet+" "+tmRet)
			case *ast.ExprStmt:
				if !isRecvFrom(x.X, "ch") {
					failShape("waitOnChan: unexpected statement")
				}
				wcProg = append(wcProg, "WCRecv")
			default:
				failShape("waitOnChan: unexpected statement")
			}
		}

		// parse.checkSubrepo: sl := label.SubrepoLabel(state) ; if inSamePackage(X, dependent) { return nil, error } - which X?
		_, ps := parseFile("src/parse/parse_step.go")
		cs := findFunc(ps, "", "checkSubrepo")
		guardArg, slDefined, guardReturnsErr := "", false, false
		for _, s := range cs.Body.List {
			if as, ok := s.(*ast.AssignStmt); ok && len(as.Lhs) == 1 && exprText(as.Lhs[0]) == "sl" {
				if c, ok := isCallTo(as.Rhs[0], "SubrepoLabel"); !ok || exprText(c.Fun) != "label.SubrepoLabel" || guardArg != "" {
					failShape("checkSubrepo: sl is not label.SubrepoLabel(state), or is assigned after the guard")
				}
				slDefined = true
			}
			is, ok := s.(*ast.IfStmt)
			if !ok {
				continue
			}
			c, ok := is.Cond.(*ast.CallExpr)
			if !ok || exprText(c.Fun) != "inSamePackage" {
				if strings.Contains(exprText(is.Cond), "inSamePackage") {
					failShape("checkSubrepo: inSamePackage used in a condition of an unknown shape")
				}
				continue
			}
			if guardArg != "" || len(c.Args) != 2 || exprText(c.Args[1]) != "dependent" {
				failShape("checkSubrepo: the lock-up guard is not a single inSamePackage(X, dependent)")
			}
			switch exprText(c.Args[0]) {
			case "sl":
				guardArg = "SGDefiner"
			case "label":
				guardArg = "SGLabel"
			default:
				failShape("checkSubrepo: unknown first argument of inSamePackage")
			}
			if len(is.Body.List) == 1 {
				if r, ok := is.Body.List[0].(*ast.ReturnStmt); ok && len(r.Results) == 2 && exprText(r.Results[0]) == "nil" && strings.HasPrefix(exprText(r.Results[1]), "fmt.Errorf") {
					guardReturnsErr = true
				}
			}
		}
		if guardArg == "" || !slDefined || !guardReturnsErr {
			failShape("checkSubrepo: lock-up guard not found (sl defined: %v, guard: %q, returns an error: %v)", slDefined, guardArg, guardReturnsErr)
		}
		// inSamePackage(label, dependent): !dependent.IsOriginalTarget() && label.Subrepo == dependent.Subrepo && label.PackageName == dependent.PackageName
		isp := findFunc(ps, "", "inSamePackage")
		if len(isp.Body.List) != 1 {
			failShape("inSamePackage: body is not a single return")
		}
		if r, ok := isp.Body.List[0].(*ast.ReturnStmt); !ok || len(r.Results) != 1 ||
			exprText(r.Results[0]) != "!dependent.IsOriginalTarget() && label.Subrepo == dependent.Subrepo && label.PackageName == dependent.PackageName" {
			failShape("inSamePackage: the comparison has changed")
		}
		// the package that is parsed next is sl's: maybeParseSubrepoPackage(state, sl.PackageName, sl.Subrepo, label, mode)
		if !strings.Contains(exprText(cs.Body), "maybeParseSubrepoPackage(state, sl.PackageName, sl.Subrepo, label, mode)") {
			failShape("checkSubrepo: the host-repo parse is not maybeParseSubrepoPackage(state, sl.PackageName, sl.Subrepo, label, mode)")
		}

		var b strings.Builder
		b.WriteString("From Coq Require Import List NArith. Import ListNotations.\n")
		b.WriteString("(* src/core/build_target.go: the BuildTargetState iota block, in declaration order *)\n")
		b.WriteString("Inductive tstate := " + strings.Join(names, " | ") + ".\n")
		b.WriteString("Definition rank (s : tstate) : N :=\n  match s with\n")
		for i, n := range names {
			fmt.Fprintf(&b, "  | %s => %d\n", n, i)
		}
		b.WriteString("  end%N.\n")
		b.WriteString("Definition all_states : list tstate := [" + strings.Join(names, "; ") + "].\n")
		b.WriteString("(* func (s BuildTargetState) IsBuilt() bool { return LO <= s && s < HI } *)\n")
		b.WriteString("Definition is_built_lo := " + lo + ".\nDefinition is_built_hi := " + hi + ".\n")
		b.WriteString("(* queueResolvedTarget: if target.State() >= K && !forceBuild { return nil } *)\n")
		b.WriteString("Definition queued_threshold := " + threshold + ".\n")
		b.WriteString("(* queueResolvedTarget: the SyncUpdateState pairs tried when NeedBuild || forceBuild, and otherwise *)\n")
		b.WriteString("Definition cas_need : list (tstate * tstate) := [" + strings.Join(casNeed, "; ") + "].\n")
		b.WriteString("Definition cas_noneed : list (tstate * tstate) := [" + strings.Join(casNoNeed, "; ") + "].\n")
		b.WriteString("(* queueTargetAsync: if t.State() >= K { target.SetState(S); ... } ; building && target.SyncUpdateState(A, B) *)\n")
		b.WriteString("Definition dep_failed_threshold := " + depThr + ".\nDefinition dep_failed_set := " + depSet + ".\n")
		b.WriteString("Definition cas_pending : tstate * tstate := " + casPending[0] + ".\n")
		b.WriteString("(* build.Build: target.SetState(S) on entry; target.SetState(F) when buildTarget returned an error *)\n")
		b.WriteString("Definition build_start_set := " + startSet + ".\nDefinition build_fail_set := " + failSet + ".\n")
		b.WriteString("(* queueTargetAsync: the Active -> Pending swap is guarded by `building &&` (false: a non-building pass performs it too) *)\n")
		b.WriteString("Definition pending_cas_needs_building : bool := " + pendingNeedsBuilding + ".\n")
		b.WriteString("(* asyncError: state.Stop() unconditionally (false: only `if !state.KeepGoing`) *)\n")
		b.WriteString("Definition asyncerror_stops_always : bool := " + asyncStopsAlways + ".\n")
		b.WriteString("(* logResult on a failure status, flattened in source order: LRStoreSpecific = buildFailed/testFailed.Store(true) (the switch),\n   LRStoreFailed = failed.Store(true), LRSend = internalResults <- result *)\n")
		b.WriteString("Inductive lr_stmt := LRTime | LRStoreSpecific | LRStoreFailed | LRSend.\n")
		b.WriteString("Definition logresult_prog : list lr_stmt := [" + strings.Join(lrProg, "; ") + "].\n")
		b.WriteString("(* build.Build, the failure path (buildTarget returned an error other than errStop), in source order: BFLog = LogBuildError,\n   BFRemoveOutputs, BFSetState = target.SetState(build_fail_set), BFFinish = target.FinishBuild() (wakes every WaitForBuild) *)\n")
		b.WriteString("Inductive bf_stmt := BFLog | BFRemoveOutputs | BFSetState | BFFinish.\n")
		b.WriteString("Definition buildfail_prog : list bf_stmt := [" + strings.Join(bfProg, "; ") + "].\n")
		b.WriteString("(* core.waitOnChan after its set-up: WCSelect a b = select { case <-ch: (return iff a) ; case <-t.C: log (return iff b) }, WCRecv = <-ch *)\n")
		b.WriteString("Inductive wc_stmt := WCSelect (ch_returns timer_returns : bool) | WCRecv.\n")
		b.WriteString("Definition waitonchan_prog : list wc_stmt := [" + strings.Join(wcProg, "; ") + "].\n")
		b.WriteString("(* parse.checkSubrepo: the lock-up guard inSamePackage(X, dependent): X = sl, the label of the target expected to define the\n   subrepo (SGDefiner), or X = label, the label inside the subrepo (SGLabel); the package parsed next is sl's *)\n")
		b.WriteString("Inductive sg_arg := SGDefiner | SGLabel.\n")
		b.WriteString("Definition subrepo_guard_arg : sg_arg := " + guardArg + ".\n")
		return b.String()
	}
}
