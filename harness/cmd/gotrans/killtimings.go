package main

import (
	"bytes"
	"go/ast"
	"go/printer"
	"go/token"
	"os"
	"path/filepath"
	"regexp"
	"strconv"
	"strings"
)

// KillTimings (property C30): the kill protocol of src/process/process.go and the process-group set-up of
// src/process/exec_linux.go.
//   - (*Executor).killProcess: exactly `success := sendSignal(cmd, ch, SIG1, D1)` followed by
//     `if !sendSignal(cmd, ch, SIG2, D2) && !success { log... }` and `e.removeProcess(cmd)`: the two signals, the
//     two waits (converted to whole milliseconds) and the fact that the second call is evaluated unconditionally.
//   - sendSignal: the nil-process guard, one syscall.Kill whose target is `-cmd.Process.Pid` (the group) or
//     `cmd.Process.Pid`, then a select between `<-ch` (true) and `<-time.After(timeout)` (false).
//   - (*Executor).ExecWithTimeout: context.WithTimeout(ctx, timeout), no CommandContext, an unbuffered channel,
//     and the final select `case err = <-ch` / `case <-ctx.Done(): err = ctx.Err(); e.KillProcess(cmd)`.
//   - (*Executor).KillProcess: e.killProcess(cmd, e.processChan(cmd)).
//   - (*Executor).ExecCommand (exec_linux.go): the SysProcAttr literal with Pdeathsig, Setpgid, Foreground, and the
//     ORDER of its statements as a small program (execCommandProgram): which `cmd` object is current (every
//     exec.Command call makes a new one) when the SysProcAttr is assigned, under which of the conditions
//     `sandbox != NoSandbox`, `e.usePleaseSandbox`, `shouldNamespace`.
//   - runCommand may close the channel after the send and the timeout branch of ExecWithTimeout may receive from
//     it once more after KillProcess; both are translated into booleans the model's controller follows.
//
// Anything else fails closed.
func init() {
	targets["KillTimings"] = func() string {
		fset, f := parseFile("src/process/process.go")
		bodyOf := func(fs *token.FileSet, fd *ast.FuncDecl) string {
			var b bytes.Buffer
			if err := printer.Fprint(&b, fs, fd.Body); err != nil {
				failShape("cannot print %s: %v", fd.Name.Name, err)
			}
			return strings.Join(strings.Fields(b.String()), " ")
		}
		sigNum := func(name string) string {
			switch name {
			case "SIGTERM":
				return "15"
			case "SIGKILL":
				return "9"
			case "SIGHUP":
				return "1"
			case "SIGINT":
				return "2"
			case "SIGQUIT":
				return "3"
			}
			failShape("signal syscall.%s is not one the model knows", name)
			return ""
		}
		unitNs := map[string]int64{"Nanosecond": 1, "Microsecond": 1000, "Millisecond": 1000000, "Second": 1000000000, "Minute": 60000000000}
		millis := func(expr string) string {
			expr = strings.ReplaceAll(expr, " ", "")
			m := regexp.MustCompile(`^(?:(\d+)\*)?time\.(\w+)$`).FindStringSubmatch(expr)
			if m == nil {
				m2 := regexp.MustCompile(`^time\.(\w+)\*(\d+)$`).FindStringSubmatch(expr)
				if m2 == nil {
					failShape("killProcess: wait %q is not <n>*time.<Unit>", expr)
				}
				m = []string{"", m2[2], m2[1]}
			}
			n := int64(1)
			if m[1] != "" {
				v, err := strconv.ParseInt(m[1], 10, 64)
				if err != nil {
					failShape("killProcess: wait %q", expr)
				}
				n = v
			}
			u, ok := unitNs[m[2]]
			if !ok {
				failShape("killProcess: unknown unit time.%s", m[2])
			}
			ns := n * u
			if ns%1000000 != 0 {
				failShape("killProcess: wait %q is not a whole number of milliseconds", expr)
			}
			return strconv.FormatInt(ns/1000000, 10)
		}

		kp := bodyOf(fset, findFunc(f, "Executor", "killProcess"))
		mk := regexp.MustCompile(`^\{ success := sendSignal\(cmd, ch, syscall\.(\w+), ([^)]+)\) ` +
			`if !sendSignal\(cmd, ch, syscall\.(\w+), ([^)]+)\) && !success \{ log\.Error\("[^"]*"\) \} ` +
			`e\.removeProcess\(cmd\) \}$`).FindStringSubmatch(kp)
		if mk == nil {
			failShape("src/process/process.go: body of killProcess has an unrecognised shape: %s", kp)
		}

		ss := bodyOf(fset, findFunc(f, "", "sendSignal"))
		ms := regexp.MustCompile(`^\{ if cmd\.Process == nil \{ log\.Debug\("[^"]*"\) return false \} ` +
			`log\.Debug\("Sending signal %s to -%d", sig, cmd\.Process\.Pid\) ` +
			`syscall\.Kill\((-?)cmd\.Process\.Pid, sig\) ` +
			`select \{ case <-ch: return true case <-time\.After\(timeout\): return false \} \}$`).FindStringSubmatch(ss)
		if ms == nil {
			failShape("src/process/process.go: body of sendSignal has an unrecognised shape: %s", ss)
		}

		kpub := bodyOf(fset, findFunc(f, "Executor", "KillProcess"))
		if kpub != `{ e.killProcess(cmd, e.processChan(cmd)) }` {
			failShape("src/process/process.go: body of KillProcess has an unrecognised shape: %s", kpub)
		}
		rc := bodyOf(fset, findFunc(f, "", "runCommand"))
		mrc := regexp.MustCompile(`^\{ ch <- cmd\.Wait\(\)( close\(ch\))? \}$`).FindStringSubmatch(rc)
		if mrc == nil {
			failShape("src/process/process.go: body of runCommand has an unrecognised shape: %s", rc)
		}
		closesChan := mrc[1] != ""

		ex := bodyOf(fset, findFunc(f, "Executor", "ExecWithTimeout"))
		recvAfterKill := false
		for _, re := range []string{
			`^\{ ctx, cancel := context\.WithTimeout\(ctx, timeout\) defer cancel\(\) cmd := e\.ExecCommand\(sandbox, foreground, argv\[0\], argv\[1:\]\.\.\.\) `,
			` err := cmd\.Start\(\) if err != nil \{ return nil, nil, err \} ch := make\(chan error\) e\.registerProcess\(cmd, ch\) defer e\.removeProcess\(cmd\) go runCommand\(cmd, ch\) ` +
				`select \{ case err = <-ch: case <-ctx\.Done\(\): err = ctx\.Err\(\) e\.KillProcess\(cmd\)( <-ch)? \} return out\.Bytes\(\), outerr\.Bytes\(\), err \}$`,
		} {
			m := regexp.MustCompile(re).FindStringSubmatch(ex)
			if m == nil {
				failShape("src/process/process.go: ExecWithTimeout does not match %s in: %s", re, ex)
			}
			if len(m) > 1 && m[1] != "" {
				// the timeout branch receives from ch once more after KillProcess returned
				recvAfterKill = true
			}
		}
		if strings.Contains(ex, "CommandContext") || strings.Contains(ex, "WaitDelay") || strings.Contains(ex, "cmd.Cancel") {
			failShape("src/process/process.go: ExecWithTimeout now uses CommandContext/WaitDelay/Cancel: the model does not cover that")
		}

		fsetL, fl := parseFile("src/process/exec_linux.go")
		ec := bodyOf(fsetL, findFunc(fl, "Executor", "ExecCommand"))
		all := regexp.MustCompile(`cmd\.SysProcAttr = &syscall\.SysProcAttr\{ Pdeathsig: syscall\.(\w+), Setpgid: (true|false), Foreground: foreground, \}`).FindAllStringSubmatch(ec, -1)
		if len(all) != 1 {
			failShape("src/process/exec_linux.go: ExecCommand: expected exactly one SysProcAttr literal {Pdeathsig, Setpgid, Foreground}, found %d in: %s", len(all), ec)
		}
		if n := strings.Count(ec, "Setpgid") + strings.Count(ec, "Setsid") + strings.Count(ec, "Pgid:"); n != 1 {
			failShape("src/process/exec_linux.go: ExecCommand mentions Setpgid/Setsid/Pgid %d times", n)
		}
		prog, nsExpr := execCommandProgram(fsetL, findFunc(fl, "Executor", "ExecCommand"))
		const wantNs = `e.namespace == NamespaceAlways || ((e.namespace == NamespaceSandbox || e.usePleaseSandbox) && sandbox != NoSandbox)`
		if nsExpr != wantNs {
			failShape("src/process/exec_linux.go: ExecCommand: shouldNamespace is %q, the model knows %q", nsExpr, wantNs)
		}
		boolv := func(b bool) string {
			if b {
				return "true"
			}
			return "false"
		}
		return "From Coq Require Import List NArith Bool. Import ListNotations.\n" +
			"(* killProcess: the sendSignal calls in evaluation order, (signal number, wait in milliseconds) *)\n" +
			"Definition kill_protocol : list (N * N) := [(" + sigNum(mk[1]) + ", " + millis(mk[2]) + "); (" + sigNum(mk[3]) + ", " + millis(mk[4]) + ")]%N.\n" +
			"(* `if !sendSignal(second) && !success`: the second call is made whatever the first returned *)\n" +
			"Definition second_signal_unconditional : bool := true.\n" +
			"(* sendSignal: syscall.Kill(-cmd.Process.Pid, sig) addresses the process group *)\n" +
			"Definition kill_group : bool := " + boolv(ms[1] == "-") + ".\n" +
			"(* ExecCommand: SysProcAttr{Pdeathsig, Setpgid} *)\n" +
			"Definition setpgid : bool := " + all[0][2] + ".\n" +
			"Definition pdeathsig : N := " + sigNum(all[0][1]) + "%N.\n" +
			"(* ExecWithTimeout, `case <-ctx.Done():` - after e.KillProcess(cmd) the branch receives from ch once more *)\n" +
			"Definition timeout_branch_recv_after_kill : bool := " + boolv(recvAfterKill) + ".\n" +
			"(* runCommand closes ch after sending cmd.Wait()'s result *)\n" +
			"Definition run_command_closes_chan : bool := " + boolv(closesChan) + ".\n" +
			"(* ExecCommand, statement by statement, as far as the identity of `cmd` and its SysProcAttr are concerned *)\n" +
			"Inductive econd := CSandboxed (* sandbox != NoSandbox *) | CBuiltin (* e.usePleaseSandbox *) | CNamespace (* shouldNamespace *).\n" +
			"Inductive estmt :=\n" +
			"| ENewCmd                    (* cmd := / cmd = exec.Command(...): a fresh *exec.Cmd, SysProcAttr nil *)\n" +
			"| ESetAttr (pg : bool)       (* cmd.SysProcAttr = &syscall.SysProcAttr{Pdeathsig, Setpgid, Foreground} *)\n" +
			"| EModAttr                   (* cmd.SysProcAttr.<Cloneflags|UidMappings|GidMappings> (|)= ...: dereferences cmd.SysProcAttr *)\n" +
			"| ESkip                      (* touches neither the identity of cmd nor its SysProcAttr *)\n" +
			"| EIf (c : econd) (th el : list estmt)\n" +
			"| EReturn.                   (* return cmd *)\n" +
			"Definition exec_command_prog : list estmt :=\n  " + prog + ".\n" +
			c30ActionDeadline()
	}
}

// actionDeadline (property C30, second part): where the deadline handed to ExecWithTimeout comes from.
//   - src/parse/asp/targets.go sizeAndTimeout: translated statement by statement into `size_and_timeout_prog : list dstmt`
//     (a type switch on the timeout argument with the cases pyInt and pyString, `if t > 0`, `if size != nil`, and returns of
//     one of the four expressions time.Duration(t) * time.<Unit>, mustSize(s, string(t)).Timeout, size.Timeout,
//     defaultTimeout) - the ORDER of the statements is what decides the precedence and is not pinned here: the proofs
//     evaluate the program;
//   - createTarget: the two calls `target.BuildTimeout = sizeAndTimeout(s, size, args[<idx>], s.state.Config.<X>.Timeout)` and
//     `target.Test.Timeout = ...`, and `size = mustSize(s, name)` under `args[sizeBuildRuleArgIdx] != None`;
//   - src/build/build_step.go and src/test/test_step.go: the timeout argument of the ExecWithTimeoutShell* calls.
//
// Anything else fails closed.
func c30ActionDeadline() string {
	const file = "src/parse/asp/targets.go"
	fset, f := parseFile(file)
	show := func(n ast.Node) string {
		var b bytes.Buffer
		if err := printer.Fprint(&b, fset, n); err != nil {
			failShape("%s: cannot print a node: %v", file, err)
		}
		return strings.Join(strings.Fields(b.String()), " ")
	}
	fd := findFunc(f, "", "sizeAndTimeout")
	if sig := show(fd.Type); sig != "func(s *scope, size *core.Size, timeout pyObject, defaultTimeout cli.Duration) time.Duration" {
		failShape("%s: sizeAndTimeout has signature %q", file, sig)
	}
	unit := ""
	// ctx: "" outside the type switch, "int" / "str" inside the respective case (the type of t)
	var block func(list []ast.Stmt, ctx string) string
	var stmt func(st ast.Stmt, ctx string) string
	block = func(list []ast.Stmt, ctx string) string {
		items := make([]string, len(list))
		for i, st := range list {
			items[i] = stmt(st, ctx)
		}
		return "[" + strings.Join(items, "; ") + "]"
	}
	stmt = func(st ast.Stmt, ctx string) string {
		text := show(st)
		switch s := st.(type) {
		case *ast.ReturnStmt:
			if len(s.Results) != 1 {
				failShape("%s: sizeAndTimeout: %q", file, text)
			}
			e := show(s.Results[0])
			if m := regexp.MustCompile(`^time\.Duration\(t\) \* time\.(\w+)$`).FindStringSubmatch(e); m != nil && ctx == "int" {
				if unit != "" && unit != m[1] {
					failShape("%s: sizeAndTimeout uses two different units for the explicit timeout", file)
				}
				unit = m[1]
				return "DReturn DExplicit"
			}
			switch {
			case e == "time.Duration(mustSize(s, string(t)).Timeout)" && ctx == "str":
				return "DReturn DNamed"
			case e == "time.Duration(size.Timeout)":
				return "DReturn DSize"
			case e == "time.Duration(defaultTimeout)":
				return "DReturn DDefault"
			}
			failShape("%s: sizeAndTimeout returns %q (inside case %q)", file, e, ctx)
		case *ast.IfStmt:
			if s.Init != nil || s.Else != nil {
				failShape("%s: sizeAndTimeout: if with init or else: %q", file, text)
			}
			switch cond := show(s.Cond); {
			case cond == "t > 0" && ctx == "int":
				return "DIf DPositive " + block(s.Body.List, ctx)
			case cond == "size != nil":
				return "DIf DHasSize " + block(s.Body.List, ctx)
			}
			failShape("%s: sizeAndTimeout: condition of %q is not one the translator knows", file, text)
		case *ast.TypeSwitchStmt:
			if ctx != "" || s.Init != nil || show(s.Assign) != "t := timeout.(type)" {
				failShape("%s: sizeAndTimeout: type switch %q", file, text)
			}
			cases := map[string]string{"pyInt": "[]", "pyString": "[]"}
			seen := map[string]bool{}
			for _, c := range s.Body.List {
				cc := c.(*ast.CaseClause)
				if len(cc.List) != 1 {
					failShape("%s: sizeAndTimeout: case clause with %d types (a default clause or a list)", file, len(cc.List))
				}
				ty := show(cc.List[0])
				if _, ok := cases[ty]; !ok || seen[ty] {
					failShape("%s: sizeAndTimeout: case %s", file, ty)
				}
				seen[ty] = true
				cases[ty] = block(cc.Body, map[string]string{"pyInt": "int", "pyString": "str"}[ty])
			}
			return "DSwitch " + cases["pyInt"] + " " + cases["pyString"]
		}
		failShape("%s: sizeAndTimeout: statement %q is not one the translator knows", file, text)
		return ""
	}
	prog := block(fd.Body.List, "")
	unitNs := map[string]string{"Nanosecond": "1", "Microsecond": "1000", "Millisecond": "1000000", "Second": "1000000000", "Minute": "60000000000", "Hour": "3600000000000"}
	if unit == "" {
		unit = "Second" // no statement returns the explicit timeout any more: the proofs will say so
	}
	if _, ok := unitNs[unit]; !ok {
		failShape("%s: sizeAndTimeout: unknown unit time.%s", file, unit)
	}

	// createTarget: the two calls and the size lookup
	ct := show(findFunc(f, "", "createTarget").Body)
	call := func(lhs string) (string, string) {
		re := regexp.MustCompile(regexp.QuoteMeta(lhs) + ` = sizeAndTimeout\(s, size, args\[(\w+)\], s\.state\.Config\.(\w+)\.Timeout\)`)
		all := re.FindAllStringSubmatch(ct, -1)
		if len(all) != 1 || strings.Count(ct, lhs+" =") != 1 {
			failShape("%s: createTarget: expected exactly one assignment `%s = sizeAndTimeout(s, size, args[...], s.state.Config.X.Timeout)`", file, lhs)
		}
		arg, ok := map[string]string{"buildTimeoutBuildRuleArgIdx": "ABuildTimeout", "testTimeoutBuildRuleArgIdx": "ATestTimeout"}[all[0][1]]
		if !ok {
			failShape("%s: createTarget: %s is computed from args[%s]", file, lhs, all[0][1])
		}
		dflt, ok := map[string]string{"Build": "CfgBuildTimeout", "Test": "CfgTestTimeout"}[all[0][2]]
		if !ok {
			failShape("%s: createTarget: %s defaults to Config.%s.Timeout", file, lhs, all[0][2])
		}
		return arg, dflt
	}
	if strings.Count(ct, "sizeAndTimeout(") != 2 {
		failShape("%s: createTarget calls sizeAndTimeout %d times", file, strings.Count(ct, "sizeAndTimeout("))
	}
	bArg, bDef := call("target.BuildTimeout")
	tArg, tDef := call("target.Test.Timeout")
	if !strings.Contains(ct, "var size *core.Size if args[sizeBuildRuleArgIdx] != None { name := string(args[sizeBuildRuleArgIdx].(pyString)) size = mustSize(s, name) target.AddLabel(name) }") ||
		strings.Count(ct, "size =") != 1 || strings.Count(ct, "&size") != 0 {
		failShape("%s: createTarget: the declared size is no longer looked up by `if args[sizeBuildRuleArgIdx] != None { ... size = mustSize(s, name) ... }` alone", file)
	}
	ms := show(findFunc(f, "", "mustSize").Body)
	if ms != `{ size, present := s.state.Config.Size[name] s.Assert(present, "Unknown size %s", name) return size }` {
		failShape("%s: body of mustSize has an unrecognised shape: %s", file, ms)
	}

	// the consumers: the timeout argument (4th) of the executor calls
	consumer := func(rel, fn, want string) {
		data := c30ReadRepoFile(rel)
		re := regexp.MustCompile(`state\.ProcessExecutor\.` + fn + `\(target, [^,]+, [^,]+, ([^,]+),`)
		all := re.FindAllStringSubmatch(data, -1)
		if len(all) != 1 || strings.TrimSpace(all[0][1]) != want {
			failShape("%s: expected exactly one call state.ProcessExecutor.%s(target, dir, env, %s, ...), found %v", rel, fn, want, all)
		}
	}
	consumer("src/build/build_step.go", "ExecWithTimeoutShell", "target.BuildTimeout")
	consumer("src/test/test_step.go", "ExecWithTimeoutShellStdStreams", "target.Test.Timeout")

	return "(* ---- where the deadline comes from: sizeAndTimeout (src/parse/asp/targets.go), statement by statement ---- *)\n" +
		"Inductive dexpr :=\n" +
		"| DExplicit   (* time.Duration(t) * time.<Unit>, t the pyInt timeout argument *)\n" +
		"| DNamed      (* mustSize(s, string(t)).Timeout, t the pyString timeout argument *)\n" +
		"| DSize       (* size.Timeout *)\n" +
		"| DDefault.   (* defaultTimeout *)\n" +
		"Inductive dcond := DPositive (* t > 0 *) | DHasSize (* size != nil *).\n" +
		"Inductive dstmt :=\n" +
		"| DReturn (e : dexpr)\n" +
		"| DIf (c : dcond) (th : list dstmt)\n" +
		"| DSwitch (on_int on_str : list dstmt).   (* switch t := timeout.(type) { case pyInt: ... case pyString: ... }; any other type matches no case *)\n" +
		"Definition size_and_timeout_prog : list dstmt :=\n  " + prog + ".\n" +
		"(* the unit of an explicit integer timeout, in nanoseconds (time." + unit + ") *)\n" +
		"Definition explicit_unit_ns : N := " + unitNs[unit] + "%N.\n" +
		"(* createTarget: the rule argument and the configured default each deadline is computed from *)\n" +
		"Inductive darg := ABuildTimeout | ATestTimeout.\n" +
		"Inductive ddefault := CfgBuildTimeout | CfgTestTimeout.\n" +
		"Definition build_deadline_call : darg * ddefault := (" + bArg + ", " + bDef + ").\n" +
		"Definition test_deadline_call : darg * ddefault := (" + tArg + ", " + tDef + ").\n"
}

func c30ReadRepoFile(rel string) string {
	data, err := os.ReadFile(filepath.Join(repo, rel))
	if err != nil {
		failShape("cannot read %s: %v", rel, err)
	}
	return string(data)
}

// execCommandProgram translates the body of ExecCommand into a term of type `list estmt` (see the generated file) and
// returns the expression assigned to shouldNamespace. Statements are classified by what they do to the variable cmd:
// anything not recognised fails closed.
func execCommandProgram(fset *token.FileSet, fd *ast.FuncDecl) (string, string) {
	show := func(n ast.Node) string {
		var b bytes.Buffer
		if err := printer.Fprint(&b, fset, n); err != nil {
			failShape("cannot print a node of ExecCommand: %v", err)
		}
		return strings.Join(strings.Fields(b.String()), " ")
	}
	nsExpr := ""
	attrRe := regexp.MustCompile(`^&syscall\.SysProcAttr\{ Pdeathsig: syscall\.\w+, Setpgid: (true|false), Foreground: foreground, \}$`)
	var block func(list []ast.Stmt) string
	var stmt func(st ast.Stmt) string
	block = func(list []ast.Stmt) string {
		items := make([]string, len(list))
		for i, st := range list {
			items[i] = stmt(st)
		}
		return "[" + strings.Join(items, "; ") + "]"
	}
	onlyModAttr := func(list []ast.Stmt) {
		for _, st := range list {
			if stmt(st) != "EModAttr" {
				failShape("src/process/exec_linux.go: ExecCommand: %q inside a sandbox.Network/sandbox.Mount branch is not an update of cmd.SysProcAttr.Cloneflags", show(st))
			}
		}
	}
	stmt = func(st ast.Stmt) string {
		text := show(st)
		switch s := st.(type) {
		case *ast.AssignStmt:
			if len(s.Lhs) == 0 {
				failShape("src/process/exec_linux.go: ExecCommand: %q", text)
			}
			lhs := show(s.Lhs[0])
			rhs := ""
			if len(s.Rhs) == 1 {
				rhs = show(s.Rhs[0])
			}
			switch {
			case lhs == "shouldNamespace" && len(s.Lhs) == 1 && s.Tok == token.DEFINE && nsExpr == "":
				nsExpr = rhs
				return "ESkip"
			case lhs == "cmd" && len(s.Lhs) == 1 && (s.Tok == token.DEFINE || s.Tok == token.ASSIGN) && regexp.MustCompile(`^exec\.Command\([^()]*\)$`).MatchString(rhs):
				return "ENewCmd"
			case lhs == "cmd.SysProcAttr" && len(s.Lhs) == 1 && s.Tok == token.ASSIGN:
				m := attrRe.FindStringSubmatch(rhs)
				if m == nil {
					failShape("src/process/exec_linux.go: ExecCommand: cmd.SysProcAttr is assigned %q", rhs)
				}
				return "ESetAttr " + m[1]
			case len(s.Lhs) == 1 && (lhs == "cmd.SysProcAttr.Cloneflags" || lhs == "cmd.SysProcAttr.UidMappings" || lhs == "cmd.SysProcAttr.GidMappings") && !strings.Contains(rhs, "cmd"):
				return "EModAttr"
			case len(s.Lhs) == 1 && lhs == "cmd.Env" && s.Tok == token.ASSIGN && strings.HasPrefix(rhs, "append(cmd.Env, ") && !strings.Contains(rhs, "SysProcAttr") && !strings.Contains(rhs, "exec."):
				return "ESkip"
			case !strings.Contains(lhs, "cmd") && !strings.Contains(rhs, "cmd") && func() bool {
				for _, l := range s.Lhs {
					if id, ok := l.(*ast.Ident); !ok || id.Name == "cmd" || id.Name == "shouldNamespace" {
						return false
					}
				}
				return true
			}():
				return "ESkip" // args = append(...), plz, err := os.Executable()
			}
			failShape("src/process/exec_linux.go: ExecCommand: assignment %q is not one the translator knows", text)
		case *ast.IfStmt:
			if s.Init != nil {
				failShape("src/process/exec_linux.go: ExecCommand: if with an init statement: %q", text)
			}
			cond := show(s.Cond)
			var els []ast.Stmt
			switch e := s.Else.(type) {
			case nil:
			case *ast.BlockStmt:
				els = e.List
			default:
				failShape("src/process/exec_linux.go: ExecCommand: else-if chain: %q", text)
			}
			switch cond {
			case "sandbox != NoSandbox":
				return "EIf CSandboxed " + block(s.Body.List) + " " + block(els)
			case "e.usePleaseSandbox":
				return "EIf CBuiltin " + block(s.Body.List) + " " + block(els)
			case "shouldNamespace":
				return "EIf CNamespace " + block(s.Body.List) + " " + block(els)
			case "sandbox.Network", "sandbox.Mount":
				// which namespaces: only ever updates of the flags; translated as one (unconditional) dereference
				onlyModAttr(s.Body.List)
				onlyModAttr(els)
				return "EModAttr"
			case "err != nil":
				if len(els) == 0 && len(s.Body.List) == 1 && show(s.Body.List[0]) == "panic(err)" {
					return "ESkip"
				}
			}
			failShape("src/process/exec_linux.go: ExecCommand: if statement %q is not one the translator knows", text)
		case *ast.ReturnStmt:
			if text == "return cmd" {
				return "EReturn"
			}
			failShape("src/process/exec_linux.go: ExecCommand returns %q", text)
		}
		failShape("src/process/exec_linux.go: ExecCommand: statement %q is not one the translator knows", text)
		return ""
	}
	prog := block(fd.Body.List)
	if nsExpr == "" {
		failShape("src/process/exec_linux.go: ExecCommand does not define shouldNamespace")
	}
	return prog, nsExpr
}
