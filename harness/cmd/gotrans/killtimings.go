package main

import (
	"bytes"
	"go/ast"
	"go/printer"
	"go/token"
	"regexp"
	"strconv"
	"strings"
)

// KillTimings (property C30): the kill protocol of src/process/process.go and the process-group set-up of
// src/process/exec_linux.go.
//   - (*Executor).killProcess: exactly `success := sendSignal(cmd, ch, SIG1, D1)` followed by
//     `if !sendSignal(cmd, ch, SIG2, D2) && !success { log... }` and `e.removeProcess(cmd)`: the two signals, the
//     two waits (converted to whole milliseconds) and the fact that the second call is evaluated unconditionally.
//   - sendSignal: the nil-process guard, one syscall.Kill whose target is `-cmd.Process.Pid` (the group) or
//     `cmd.Process.Pid`, then a select between `<-ch` (true) and `<-time.After(timeout)` (false).
//   - (*Executor).ExecWithTimeout: context.WithTimeout(ctx, timeout), no CommandContext, an unbuffered channel,
//     and the final select `case err = <-ch` / `case <-ctx.Done(): err = ctx.Err(); e.KillProcess(cmd)`.
//   - (*Executor).KillProcess: e.killProcess(cmd, e.processChan(cmd)).
//   - (*Executor).ExecCommand (exec_linux.go): the SysProcAttr literal with Pdeathsig, Setpgid, Foreground, and the
//     ORDER of its statements as a small program (execCommandProgram): which `cmd` object is current (every
//     exec.Command call makes a new one) when the SysProcAttr is assigned, under which of the conditions
//     `sandbox != NoSandbox`, `e.usePleaseSandbox`, `shouldNamespace`.
//   - runCommand may close the channel after the send and the timeout branch of ExecWithTimeout may receive from
//     it once more after KillProcess; both are translated into booleans the model's controller follows.
//
// Anything else fails closed.
func init() {
	targets["KillTimings"] = func() string {
		fset, f := parseFile("src/process/process.go")
		bodyOf := func(fs *token.FileSet, fd *ast.FuncDecl) string {
			var b bytes.Buffer
			if err := printer.Fprint(&b, fs, fd.Body); err != nil {
				failShape("cannot print %s: %v", fd.Name.Name, err)
			}
			return strings.Join(strings.Fields(b.String()), " ")
		}
		sigNum := func(name string) string {
			switch name {
			case "SIGTERM":
				return "15"
			case "SIGKILL":
				return "9"
			case "SIGHUP":
				return "1"
			case "SIGINT":
				return "2"
			case "SIGQUIT":
				return "3"
			}
			failShape("signal syscall.%s is not one the model knows", name)
			return ""
		}
		unitNs := map[string]int64{"Nanosecond": 1, "Microsecond": 1000, "Millisecond": 1000000, "Second": 1000000000, "Minute": 60000000000}
		millis := func(expr string) string {
			expr = strings.ReplaceAll(expr, " ", "")
			m := regexp.MustCompile(`^(?:(\d+)\*)?time\.(\w+)$`).FindStringSubmatch(expr)
			if m == nil {
				m2 := regexp.MustCompile(`^time\.(\w+)\*(\d+)$`).FindStringSubmatch(expr)
				if m2 == nil {
					failShape("killProcess: wait %q is not <n>*time.<Unit>", expr)
				}
				m = []string{"", m2[2], m2[1]}
			}
			n := int64(1)
			if m[1] != "" {
				v, err := strconv.ParseInt(m[1], 10, 64)
				if err != nil {
					failShape("killProcess: wait %q", expr)
				}
				n = v
			}
			u, ok := unitNs[m[2]]
			if !ok {
				failShape("killProcess: unknown unit time.%s", m[2])
			}
			ns := n * u
			if ns%1000000 != 0 {
				failShape("killProcess: wait %q is not a whole number of milliseconds", expr)
			}
			return strconv.FormatInt(ns/1000000, 10)
		}

		kp := bodyOf(fset, findFunc(f, "Executor", "killProcess"))
		mk := regexp.MustCompile(`^\{ success := sendSignal\(cmd, ch, syscall\.(\w+), ([^)]+)\) ` +
			`if !sendSignal\(cmd, ch, syscall\.(\w+), ([^)]+)\) && !success \{ log\.Error\("[^"]*"\) \} ` +
			`e\.removeProcess\(cmd\) \}$`).FindStringSubmatch(kp)
		if mk == nil {
			failShape("src/process/process.go: body of killProcess has an unrecognised shape: %s", kp)
		}

		ss := bodyOf(fset, findFunc(f, "", "sendSignal"))
		ms := regexp.MustCompile(`^\{ if cmd\.Process == nil \{ log\.Debug\("[^"]*"\) return false \} ` +
			`log\.Debug\("Sending signal %s to -%d", sig, cmd\.Process\.Pid\) ` +
			`syscall\.Kill\((-?)cmd\.Process\.Pid, sig\) ` +
			`select \{ case <-ch: return true case <-time\.After\(timeout\): return false \} \}$`).FindStringSubmatch(ss)
		if ms == nil {
			failShape("src/process/process.go: body of sendSignal has an unrecognised shape: %s", ss)
		}

		kpub := bodyOf(fset, findFunc(f, "Executor", "KillProcess"))
		if kpub != `{ e.killProcess(cmd, e.processChan(cmd)) }` {
			failShape("src/process/process.go: body of KillProcess has an unrecognised shape: %s", kpub)
		}
		rc := bodyOf(fset, findFunc(f, "", "runCommand"))
		mrc := regexp.MustCompile(`^\{ ch <- cmd\.Wait\(\)( close\(ch\))? \}$`).FindStringSubmatch(rc)
		if mrc == nil {
			failShape("src/process/process.go: body of runCommand has an unrecognised shape: %s", rc)
		}
		closesChan := mrc[1] != ""

		ex := bodyOf(fset, findFunc(f, "Executor", "ExecWithTimeout"))
		recvAfterKill := false
		for _, re := range []string{
			`^\{ ctx, cancel := context\.WithTimeout\(ctx, timeout\) defer cancel\(\) cmd := e\.ExecCommand\(sandbox, foreground, argv\[0\], argv\[1:\]\.\.\.\) `,
			` err := cmd\.Start\(\) if err != nil \{ return nil, nil, err \} ch := make\(chan error\) e\.registerProcess\(cmd, ch\) defer e\.removeProcess\(cmd\) go runCommand\(cmd, ch\) ` +
				`select \{ case err = <-ch: case <-ctx\.Done\(\): err = ctx\.Err\(\) e\.KillProcess\(cmd\)( <-ch)? \} return out\.Bytes\(\), outerr\.Bytes\(\), err \}$`,
		} {
			m := regexp.MustCompile(re).FindStringSubmatch(ex)
			if m == nil {
				failShape("src/process/process.go: ExecWithTimeout does not match %s in: %s", re, ex)
			}
			if len(m) > 1 && m[1] != "" {
				// the timeout branch receives from ch once more after KillProcess returned
				recvAfterKill = true
			}
		}
		if strings.Contains(ex, "CommandContext") || strings.Contains(ex, "WaitDelay") || strings.Contains(ex, "cmd.Cancel") {
			failShape("src/process/process.go: ExecWithTimeout now uses CommandContext/WaitDelay/Cancel: the model does not cover that")
		}

		fsetL, fl := parseFile("src/process/exec_linux.go")
		ec := bodyOf(fsetL, findFunc(fl, "Executor", "ExecCommand"))
		all := regexp.MustCompile(`cmd\.SysProcAttr = &syscall\.SysProcAttr\{ Pdeathsig: syscall\.(\w+), Setpgid: (true|false), Foreground: foreground, \}`).FindAllStringSubmatch(ec, -1)
		if len(all) != 1 {
			failShape("src/process/exec_linux.go: ExecCommand: expected exactly one SysProcAttr literal {Pdeathsig, Setpgid, Foreground}, found %d in: %s", len(all), ec)
		}
		if n := strings.Count(ec, "Setpgid") + strings.Count(ec, "Setsid") + strings.Count(ec, "Pgid:"); n != 1 {
			failShape("src/process/exec_linux.go: ExecCommand mentions Setpgid/Setsid/Pgid %d times", n)
		}
		prog, nsExpr := execCommandProgram(fsetL, findFunc(fl, "Executor", "ExecCommand"))
		const wantNs = `e.namespace == NamespaceAlways || ((e.namespace == NamespaceSandbox || e.usePleaseSandbox) && sandbox != NoSandbox)`
		if nsExpr != wantNs {
			failShape("src/process/exec_linux.go: ExecCommand: shouldNamespace is %q, the model knows %q", nsExpr, wantNs)
		}
		boolv := func(b bool) string {
			if b {
				return "true"
			}
			return "false"
		}
		return "From Coq Require Import List NArith Bool. Import ListNotations.\n" +
			"(* killProcess: the sendSignal calls in evaluation order, (signal number, wait in milliseconds) *)\n" +
			"Definition kill_protocol : list (N * N) := [(" + sigNum(mk[1]) + ", " + millis(mk[2]) + "); (" + sigNum(mk[3]) + ", " + millis(mk[4]) + ")]%N.\n" +
			"(* `if !sendSignal(second) && !success`: the second call is made whatever the first returned *)\n" +
			"Definition second_signal_unconditional : bool := true.\n" +
			"(* sendSignal: syscall.Kill(-cmd.Process.Pid, sig) addresses the process group *)\n" +
			"Definition kill_group : bool := " + boolv(ms[1] == "-") + ".\n" +
			"(* ExecCommand: SysProcAttr{Pdeathsig, Setpgid} *)\n" +
			"Definition setpgid : bool := " + all[0][2] + ".\n" +
			"Definition pdeathsig : N := " + sigNum(all[0][1]) + "%N.\n" +
			"(* ExecWithTimeout, `case <-ctx.Done():` - after e.KillProcess(cmd) the branch receives from ch once more *)\n" +
			"Definition timeout_branch_recv_after_kill : bool := " + boolv(recvAfterKill) + ".\n" +
			"(* runCommand closes ch after sending cmd.Wait()'s result *)\n" +
			"Definition run_command_closes_chan : bool := " + boolv(closesChan) + ".\n" +
			"(* ExecCommand, statement by statement, as far as the identity of `cmd` and its SysProcAttr are concerned *)\n" +
			"Inductive econd := CSandboxed (* sandbox != NoSandbox *) | CBuiltin (* e.usePleaseSandbox *) | CNamespace (* shouldNamespace *).\n" +
			"Inductive estmt :=\n" +
			"| ENewCmd                    (* cmd := / cmd = exec.Command(...): a fresh *exec.Cmd, SysProcAttr nil *)\n" +
			"| ESetAttr (pg : bool)       (* cmd.SysProcAttr = &syscall.SysProcAttr{Pdeathsig, Setpgid, Foreground} *)\n" +
			"| EModAttr                   (* cmd.SysProcAttr.<Cloneflags|UidMappings|GidMappings> (|)= ...: dereferences cmd.SysProcAttr *)\n" +
			"| ESkip                      (* touches neither the identity of cmd nor its SysProcAttr *)\n" +
			"| EIf (c : econd) (th el : list estmt)\n" +
			"| EReturn.                   (* return cmd *)\n" +
			"Definition exec_command_prog : list estmt :=\n  " + prog + ".\n"
	}
}

// execCommandProgram translates the body of ExecCommand into a term of type `list estmt` (see the generated file) and
// returns the expression assigned to shouldNamespace. Statements are classified by what they do to the variable cmd:
// anything not recognised fails closed.
func execCommandProgram(fset *token.FileSet, fd *ast.FuncDecl) (string, string) {
	show := func(n ast.Node) string {
		var b bytes.Buffer
		if err := printer.Fprint(&b, fset, n); err != nil {
			failShape("cannot print a node of ExecCommand: %v", err)
		}
		return strings.Join(strings.Fields(b.String()), " ")
	}
	nsExpr := ""
	attrRe := regexp.MustCompile(`^&syscall\.SysProcAttr\{ Pdeathsig: syscall\.\w+, Setpgid: (true|false), Foreground: foreground, \}$`)
	var block func(list []ast.Stmt) string
	var stmt func(st ast.Stmt) string
	block = func(list []ast.Stmt) string {
		items := make([]string, len(list))
		for i, st := range list {
			items[i] = stmt(st)
		}
		return "[" + strings.Join(items, "; ") + "]"
	}
	onlyModAttr := func(list []ast.Stmt) {
		for _, st := range list {
			if stmt(st) != "EModAttr" {
				failShape("src/process/exec_linux.go: ExecCommand: %q inside a sandbox.Network/sandbox.Mount branch is not an update of cmd.SysProcAttr.Cloneflags", show(st))
			}
		}
	}
	stmt = func(st ast.Stmt) string {
		text := show(st)
		switch s := st.(type) {
		case *ast.AssignStmt:
			if len(s.Lhs) == 0 {
				failShape("src/process/exec_linux.go: ExecCommand: %q", text)
			}
			lhs := show(s.Lhs[0])
			rhs := ""
			if len(s.Rhs) == 1 {
				rhs = show(s.Rhs[0])
			}
			switch {
			case lhs == "shouldNamespace" && len(s.Lhs) == 1 && s.Tok == token.DEFINE && nsExpr == "":
				nsExpr = rhs
				return "ESkip"
			case lhs == "cmd" && len(s.Lhs) == 1 && (s.Tok == token.DEFINE || s.Tok == token.ASSIGN) && regexp.MustCompile(`^exec\.Command\([^()]*\)$`).MatchString(rhs):
				return "ENewCmd"
			case lhs == "cmd.SysProcAttr" && len(s.Lhs) == 1 && s.Tok == token.ASSIGN:
				m := attrRe.FindStringSubmatch(rhs)
				if m == nil {
					failShape("src/process/exec_linux.go: ExecCommand: cmd.SysProcAttr is assigned %q", rhs)
				}
				return "ESetAttr " + m[1]
			case len(s.Lhs) == 1 && (lhs == "cmd.SysProcAttr.Cloneflags" || lhs == "cmd.SysProcAttr.UidMappings" || lhs == "cmd.SysProcAttr.GidMappings") && !strings.Contains(rhs, "cmd"):
				return "EModAttr"
			case len(s.Lhs) == 1 && lhs == "cmd.Env" && s.Tok == token.ASSIGN && strings.HasPrefix(rhs, "append(cmd.Env, ") && !strings.Contains(rhs, "SysProcAttr") && !strings.Contains(rhs, "exec."):
				return "ESkip"
			case !strings.Contains(lhs, "cmd") && !strings.Contains(rhs, "cmd") && func() bool {
				for _, l := range s.Lhs {
					if id, ok := l.(*ast.Ident); !ok || id.Name == "cmd" || id.Name == "shouldNamespace" {
						return false
					}
				}
				return true
			}():
				return "ESkip" // args = append(...), plz, err := os.Executable()
			}
			failShape("src/process/exec_linux.go: ExecCommand: assignment %q is not one the translator knows", text)
		case *ast.IfStmt:
			if s.Init != nil {
				failShape("src/process/exec_linux.go: ExecCommand: if with an init statement: %q", text)
			}
			cond := show(s.Cond)
			var els []ast.Stmt
			switch e := s.Else.(type) {
			case nil:
			case *ast.BlockStmt:
				els = e.List
			default:
				failShape("src/process/exec_linux.go: ExecCommand: else-if chain: %q", text)
			}
			switch cond {
			case "sandbox != NoSandbox":
				return "EIf CSandboxed " + block(s.Body.List) + " " + block(els)
			case "e.usePleaseSandbox":
				return "EIf CBuiltin " + block(s.Body.List) + " " + block(els)
			case "shouldNamespace":
				return "EIf CNamespace " + block(s.Body.List) + " " + block(els)
			case "sandbox.Network", "sandbox.Mount":
				// which namespaces: only ever updates of the flags; translated as one (unconditional) dereference
				onlyModAttr(s.Body.List)
				onlyModAttr(els)
				return "EModAttr"
			case "err != nil":
				if len(els) == 0 && len(s.Body.List) == 1 && show(s.Body.List[0]) == "panic(err)" {
					return "ESkip"
				}
			}
			failShape("src/process/exec_linux.go: ExecCommand: if statement %q is not one the translator knows", text)
		case *ast.ReturnStmt:
			if text == "return cmd" {
				return "EReturn"
			}
			failShape("src/process/exec_linux.go: ExecCommand returns %q", text)
		}
		failShape("src/process/exec_linux.go: ExecCommand: statement %q is not one the translator knows", text)
		return ""
	}
	prog := block(fd.Body.List)
	if nsExpr == "" {
		failShape("src/process/exec_linux.go: ExecCommand does not define shouldNamespace")
	}
	return prog, nsExpr
}
