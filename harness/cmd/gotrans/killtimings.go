package main

import (
	"bytes"
	"go/ast"
	"go/printer"
	"go/token"
	"regexp"
	"strconv"
	"strings"
)

// KillTimings (property C30): the kill protocol of src/process/process.go and the process-group set-up of
// src/process/exec_linux.go.
//   - (*Executor).killProcess: exactly `success := sendSignal(cmd, ch, SIG1, D1)` followed by
//     `if !sendSignal(cmd, ch, SIG2, D2) && !success { log... }` and `e.removeProcess(cmd)`: the two signals, the
//     two waits (converted to whole milliseconds) and the fact that the second call is evaluated unconditionally.
//   - sendSignal: the nil-process guard, one syscall.Kill whose target is `-cmd.Process.Pid` (the group) or
//     `cmd.Process.Pid`, then a select between `<-ch` (true) and `<-time.After(timeout)` (false).
//   - (*Executor).ExecWithTimeout: context.WithTimeout(ctx, timeout), no CommandContext, an unbuffered channel,
//     and the final select `case err = <-ch` / `case <-ctx.Done(): err = ctx.Err(); e.KillProcess(cmd)`.
//   - (*Executor).KillProcess: e.killProcess(cmd, e.processChan(cmd)).
//   - (*Executor).ExecCommand (exec_linux.go): the SysProcAttr literal with Pdeathsig, Setpgid, Foreground.
//
// Anything else fails closed.
func init() {
	targets["KillTimings"] = func() string {
		fset, f := parseFile("src/process/process.go")
		bodyOf := func(fs *token.FileSet, fd *ast.FuncDecl) string {
			var b bytes.Buffer
			if err := printer.Fprint(&b, fs, fd.Body); err != nil {
				failShape("cannot print %s: %v", fd.Name.Name, err)
			}
			return strings.Join(strings.Fields(b.String()), " ")
		}
		sigNum := func(name string) string {
			switch name {
			case "SIGTERM":
				return "15"
			case "SIGKILL":
				return "9"
			case "SIGHUP":
				return "1"
			case "SIGINT":
				return "2"
			case "SIGQUIT":
				return "3"
			}
			failShape("signal syscall.%s is not one the model knows", name)
			return ""
		}
		unitNs := map[string]int64{"Nanosecond": 1, "Microsecond": 1000, "Millisecond": 1000000, "Second": 1000000000, "Minute": 60000000000}
		millis := func(expr string) string {
			expr = strings.ReplaceAll(expr, " ", "")
			m := regexp.MustCompile(`^(?:(\d+)\*)?time\.(\w+)$`).FindStringSubmatch(expr)
			if m == nil {
				m2 := regexp.MustCompile(`^time\.(\w+)\*(\d+)$`).FindStringSubmatch(expr)
				if m2 == nil {
					failShape("killProcess: wait %q is not <n>*time.<Unit>", expr)
				}
				m = []string{"", m2[2], m2[1]}
			}
			n := int64(1)
			if m[1] != "" {
				v, err := strconv.ParseInt(m[1], 10, 64)
				if err != nil {
					failShape("killProcess: wait %q", expr)
				}
				n = v
			}
			u, ok := unitNs[m[2]]
			if !ok {
				failShape("killProcess: unknown unit time.%s", m[2])
			}
			ns := n * u
			if ns%1000000 != 0 {
				failShape("killProcess: wait %q is not a whole number of milliseconds", expr)
			}
			return strconv.FormatInt(ns/1000000, 10)
		}

		kp := bodyOf(fset, findFunc(f, "Executor", "killProcess"))
		mk := regexp.MustCompile(`^\{ success := sendSignal\(cmd, ch, syscall\.(\w+), ([^)]+)\) ` +
			`if !sendSignal\(cmd, ch, syscall\.(\w+), ([^)]+)\) && !success \{ log\.Error\("[^"]*"\) \} ` +
			`e\.removeProcess\(cmd\) \}$`).FindStringSubmatch(kp)
		if mk == nil {
			failShape("src/process/process.go: body of killProcess has an unrecognised shape: %s", kp)
		}

		ss := bodyOf(fset, findFunc(f, "", "sendSignal"))
		ms := regexp.MustCompile(`^\{ if cmd\.Process == nil \{ log\.Debug\("[^"]*"\) return false \} ` +
			`log\.Debug\("Sending signal %s to -%d", sig, cmd\.Process\.Pid\) ` +
			`syscall\.Kill\((-?)cmd\.Process\.Pid, sig\) ` +
			`select \{ case <-ch: return true case <-time\.After\(timeout\): return false \} \}$`).FindStringSubmatch(ss)
		if ms == nil {
			failShape("src/process/process.go: body of sendSignal has an unrecognised shape: %s", ss)
		}

		kpub := bodyOf(fset, findFunc(f, "Executor", "KillProcess"))
		if kpub != `{ e.killProcess(cmd, e.processChan(cmd)) }` {
			failShape("src/process/process.go: body of KillProcess has an unrecognised shape: %s", kpub)
		}
		rc := bodyOf(fset, findFunc(f, "", "runCommand"))
		if rc != `{ ch <- cmd.Wait() }` {
			failShape("src/process/process.go: body of runCommand has an unrecognised shape: %s", rc)
		}

		ex := bodyOf(fset, findFunc(f, "Executor", "ExecWithTimeout"))
		for _, re := range []string{
			`^\{ ctx, cancel := context\.WithTimeout\(ctx, timeout\) defer cancel\(\) cmd := e\.ExecCommand\(sandbox, foreground, argv\[0\], argv\[1:\]\.\.\.\) `,
			` err := cmd\.Start\(\) if err != nil \{ return nil, nil, err \} ch := make\(chan error\) e\.registerProcess\(cmd, ch\) defer e\.removeProcess\(cmd\) go runCommand\(cmd, ch\) ` +
				`select \{ case err = <-ch: case <-ctx\.Done\(\): err = ctx\.Err\(\) e\.KillProcess\(cmd\) \} return out\.Bytes\(\), outerr\.Bytes\(\), err \}$`,
		} {
			if !regexp.MustCompile(re).MatchString(ex) {
				failShape("src/process/process.go: ExecWithTimeout does not match %s in: %s", re, ex)
			}
		}
		if strings.Contains(ex, "CommandContext") || strings.Contains(ex, "WaitDelay") || strings.Contains(ex, "cmd.Cancel") {
			failShape("src/process/process.go: ExecWithTimeout now uses CommandContext/WaitDelay/Cancel: the model does not cover that")
		}

		fsetL, fl := parseFile("src/process/exec_linux.go")
		ec := bodyOf(fsetL, findFunc(fl, "Executor", "ExecCommand"))
		all := regexp.MustCompile(`cmd\.SysProcAttr = &syscall\.SysProcAttr\{ Pdeathsig: syscall\.(\w+), Setpgid: (true|false), Foreground: foreground, \}`).FindAllStringSubmatch(ec, -1)
		if len(all) != 1 {
			failShape("src/process/exec_linux.go: ExecCommand: expected exactly one SysProcAttr literal {Pdeathsig, Setpgid, Foreground}, found %d in: %s", len(all), ec)
		}
		if n := strings.Count(ec, "Setpgid") + strings.Count(ec, "Setsid") + strings.Count(ec, "Pgid:"); n != 1 {
			failShape("src/process/exec_linux.go: ExecCommand mentions Setpgid/Setsid/Pgid %d times", n)
		}
		boolv := func(b bool) string {
			if b {
				return "true"
			}
			return "false"
		}
		return "From Coq Require Import List NArith Bool. Import ListNotations.\n" +
			"(* killProcess: the sendSignal calls in evaluation order, (signal number, wait in milliseconds) *)\n" +
			"Definition kill_protocol : list (N * N) := [(" + sigNum(mk[1]) + ", " + millis(mk[2]) + "); (" + sigNum(mk[3]) + ", " + millis(mk[4]) + ")]%N.\n" +
			"(* `if !sendSignal(second) && !success`: the second call is made whatever the first returned *)\n" +
			"Definition second_signal_unconditional : bool := true.\n" +
			"(* sendSignal: syscall.Kill(-cmd.Process.Pid, sig) addresses the process group *)\n" +
			"Definition kill_group : bool := " + boolv(ms[1] == "-") + ".\n" +
			"(* ExecCommand: SysProcAttr{Pdeathsig, Setpgid} *)\n" +
			"Definition setpgid : bool := " + all[0][2] + ".\n" +
			"Definition pdeathsig : N := " + sigNum(all[0][1]) + "%N.\n"
	}
}
