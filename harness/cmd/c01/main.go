// C01: incremental builds produce exactly what a clean build produces (end to end, real plz).
//
// Part A (model + oracle): histories inside the fragment of Model/Engine.v (output_dirs targets included); every
// history is one Coq case (all trees, requests and what plz did at every step: exit class, executed commands, output
// trees, metadata files), and after every step the incremental outputs are compared with a clean build of the same
// tree in a fresh directory (the oracle, model independent). After every clean build `plz hash --detailed` gives the
// real rule hashes: one RuleKeys case per history ties the model's rule key to them (equal keys <-> equal hashes).
// Part B (oracle only): the full generator of harness/e2e, including output_dirs targets.
package main

import (
	"fmt"
	"os"
	"sort"
	"strings"
	"sync"

	"verifharness/e2e"
	"verifharness/lib"
)

func main() {
	lib.Main("C01", func(c *lib.Ctx) {
		c.Model("From PlzV Require Import Model.Engine. From PlzV Require Model.C01Ext.", "C01Ext.case", "C01Ext.check")
		c.Rule("generated repositories (1-3 packages, 2-7 targets: genrules concat/const/copydir/listnames(/fail), filegroups, text_files; every other history of part A and part B have output_dirs targets) " +
			"with edit histories (content edits, renames and byte shifts inside output directories, srcs/outs/cmd changes, comments, adding/removing targets, " +
			"renaming the declared out / adding, dropping, editing sources of output_dirs targets, " +
			"breaking/repairing a command, deleting plz-out, going back to an earlier tree, requesting a subset); after every step the real `plz build` is compared " +
			"with a clean build of the same tree in a fresh directory, and the whole history is replayed in the Coq model. " +
			"Part D (targeted streams, cmd/c01/streams.go): takeover = a target with 2-3 outputs replaced in the BUILD file by a target claiming some of them, then brought back; " +
			"ino = a source behind a filegroup (output = hard link) edited in place repeatedly, replaced, renamed to a path another genrule reads, with builds in between. " +
			"distinct = distinct histories; non-trivial = a history with at least two steps that changed the tree")
		base := e2e.Scratch("c01")
		defer os.RemoveAll(base)

		var replay struct {
			Spec  *e2e.Spec   `json:"spec"`
			Specs []*e2e.Spec `json:"specs"`
			Ino   *struct {
				C0     string     `json:"c0"`
				Events []inoEvent `json:"events"`
			} `json:"ino"`
		}
		if c.ReadReplay(&replay) && replay.Ino != nil {
			h := runIno(base+"/ino", replay.Ino.C0, replay.Ino.Events)
			inoOracle(c, 0, h)
			if !h.TimedOut {
				c.Case(inoTerm(h), map[string]any{"ino": replay.Ino}, inoKey(h), true)
			}
			return
		}
		if len(replay.Specs) > 0 {
			replayHistory(c, base, replay.Specs)
			return
		}

		nA := c.Scale(8, 400)
		steps := c.Scale(4, 7)
		nB := c.Scale(2, 100)
		// the three parts run concurrently, each on its own generator forked in a fixed order
		rA, rB := c.Rng.Fork(), c.Rng.Fork()
		rC := c.Rng.Fork()
		nC := c.Scale(1, 40)
		var shapes map[string][][]e2e.EngStep
		var wg sync.WaitGroup
		var all [][]e2e.EngStep
		var allB [][]e2e.Step
		wits := append(e2e.EngWitnesses(), e2e.EngOutDirWitnesses()...)
		wits = append(wits, e2e.EngToolRenameWitness())
		witH := make([][]e2e.EngStep, len(wits))
		// Part D: the targeted streams (outputs taken over by another target; hard-linked sources edited in place / renamed)
		rD := c.Rng.Fork()
		nTake, nIno := c.Scale(2, 24), c.Scale(2, 30)
		takes := make([]takeoverHist, nTake)
		inos := make([]*inoHist, nIno)
		inoPlans := make([][]inoEvent, nIno)
		takeRngs := make([]*lib.Rng, nTake)
		for i := range takeRngs {
			takeRngs[i] = rD.Fork()
		}
		for i := range inoPlans {
			inoPlans[i] = inoPlan(rD.Fork(), i%2 == 0, c.Scale(3, 8))
		}
		wg.Add(2)
		go func() {
			defer wg.Done()
			for i := range takes {
				takes[i] = runTakeover(takeRngs[i], fmt.Sprintf("%s/t%d", base, i), i)
			}
		}()
		go func() {
			defer wg.Done()
			var iw sync.WaitGroup
			for i := range inos {
				iw.Add(1)
				go func(i int) {
					defer iw.Done()
					inos[i] = runIno(fmt.Sprintf("%s/i%d", base, i), "one\n", inoPlans[i])
				}(i)
				if i%4 == 3 {
					iw.Wait()
				}
			}
			iw.Wait()
		}()
		wg.Add(3 + len(wits))
		go func() {
			defer wg.Done()
			// Part C: the targeted shapes (names through labels, temporary directory after a failed build, filegroups of
			// directories, tools)
			shapes = e2e.EngRunShapes(rC, base+"/c", nC, c.Scale(3, 6), 8)
		}()
		go func() {
			defer wg.Done()
			all = e2e.EngRunHistories(rA, base+"/a", nA, 10, func(i int) e2e.EngOpts {
				return e2e.EngOpts{MaxPkgs: 2, MaxTargets: 6, Steps: steps, CleanRef: true, Subsets: i%3 == 1, Failures: i%4 == 3,
					PWipe: 8, PRevert: 15, PNoop: 5, DirHeavy: i%2 == 0, OutDirs: i%2 == 1, RuleHashes: true}
			})
		}()
		go func() {
			defer wg.Done()
			// Part B: the lead's first harness, full generator (output_dirs included), oracle only
			allB = e2e.RunHistories(rB, base+"/b", nB, 6, e2e.HistOpts{Gen: e2e.GenOpts{MaxPkgs: 3, MaxTargets: 7, DirOutputs: true}, Steps: steps, CleanRef: true, RmPlzOut: true, Revert: true})
		}()
		for wi := range wits {
			go func(wi int) {
				defer wg.Done()
				dir := fmt.Sprintf("%s/w%d", base, wi)
				os.MkdirAll(dir, 0o755)
				witH[wi] = e2e.EngRunSpecs(dir, wits[wi].Specs, wits[wi].Order, e2e.EngOpts{CleanRef: true, RuleHashes: true}, nil)
			}(wi)
		}
		wg.Wait()

		for i, h := range all {
			changed := 0
			for k := range h {
				st := &h[k]
				c.Hist("edit", st.Edit.Kind)
				c.HistN("targets", len(st.Requested))
				if k > 0 && st.Edit.Kind != "none" {
					changed++
				}
				oracle(c, i, h, k)
			}
			if timedOut(c, h) {
				continue
			}
			c.Case(engTerm(h), histJSON(i, h, len(h)-1), e2e.EngKey(h), changed >= 2)
			ruleKeys(c, i, h)
		}

		// fixed witnesses of the directory-hash defect
		for wi, w := range wits {
			h := witH[wi]
			for k := range h {
				c.Hist("edit", "witness-"+w.Name)
				oracle(c, 1000+wi, h, k)
			}
			if timedOut(c, h) {
				continue
			}
			c.Case(engTerm(h), histJSON(1000+wi, h, len(h)-1), e2e.EngKey(h), true)
			ruleKeys(c, 1000+wi, h)
		}

		// Part C: targeted shapes; oracle incremental = clean, oracle "a command runs only when something it reads changed",
		// and (modelled shapes) the replay in the model
		for ki, kind := range e2e.ShapeKinds {
			for hi, h := range shapes[kind] {
				id := 2000 + 100*ki + hi
				if timedOut(c, h) {
					continue
				}
				changed := 0
				for k := range h {
					st := &h[k]
					c.Hist("edit", st.Edit.Kind)
					if k > 0 && !strings.HasSuffix(st.Edit.Kind, ":none") {
						changed++
					}
					oracle(c, id, h, k)
					if k > 0 && st.Exit == 0 && h[k-1].Exit == 0 {
						c.Oracle()
						for _, l := range st.Executed {
							if why := e2e.EngAllowed(&h[k-1], st, l); why == "" {
								c.Fail("unneeded-rerun-"+kind, fmt.Sprintf("%s ran again after %v although its definition, its source files and the clean outputs of its dependencies and tools are unchanged", l, st.Edit), histJSON(id, h, k))
							} else {
								c.Hist("reason", why)
							}
						}
					}
				}
				if e2e.ShapeModelled(kind) {
					c.Case(engTerm(h), histJSON(id, h, len(h)-1), e2e.EngKey(h), changed >= 2)
				} else {
					c.Eval(histJSON(id, h, len(h)-1), e2e.EngKey(h), changed >= 2)
				}
			}
		}

		// Part D
		for i, t := range takes {
			h := t.Steps
			id := 3000 + i
			if timedOut(c, h) {
				continue
			}
			for k := range h {
				c.Hist("edit", h[k].Edit.Kind)
				c.Hist("takeover", t.Name)
				oracleCls(c, id, h, k, takeoverClass)
			}
			c.Case(engTerm(h), histJSON(id, h, len(h)-1), e2e.EngKey(h)+t.Name, true)
			ruleKeys(c, id, h)
		}
		for i, h := range inos {
			inoOracle(c, 3500+i, h)
			if h.TimedOut {
				continue
			}
			c.HistN("ino-builds", len(h.Steps))
			c.Case(inoTerm(h), map[string]any{"stream": "ino", "history": 3500 + i, "ino": map[string]any{"c0": h.C0, "events": h.Events}, "g_ran": h.GRan, "g2_ran": h.G2Ran}, inoKey(h), len(h.Steps) >= 3)
		}

		for i, hist := range allB {
			for _, st := range hist {
				if st.Exit == -9 || st.CleanExit == -9 { // killed by the harness timeout (machine overloaded): no verdict
					c.Hist("edit-b", "timed-out")
					break
				}
				c.Hist("edit-b", st.Edit.Kind)
				js := map[string]any{"history": i, "part": "B", "step": st.Index, "edit": st.Edit, "exit": st.Exit, "clean_exit": st.CleanExit, "executed": st.Executed, "outputs": st.OutStr, "clean": st.CleanStr}
				c.Eval(js, fmt.Sprint("B", st.Spec.Labels(), st.OutStr, st.Edit), st.Index > 0 && st.Edit.Kind != "none")
				c.Oracle()
				specs := []*e2e.Spec{}
				for _, s := range hist[:st.Index+1] {
					specs = append(specs, s.Spec)
				}
				js["specs"] = specs
				if st.Exit != st.CleanExit {
					c.Fail("exit-status-differs", fmt.Sprintf("incremental exit %d, clean exit %d after %v: %s", st.Exit, st.CleanExit, st.Edit, st.Stderr), js)
					continue
				}
				for _, l := range lib.SortedKeys(st.Outputs) {
					if ok, why := e2e.OutputsEqual(st.Outputs[l], st.Clean[l]); !ok {
						c.Fail(e2e.StaleClass(st.Spec, l, st.Outputs, st.Clean), fmt.Sprintf("%s after edit %v: incremental vs clean: %s", l, st.Edit, why), js)
					}
				}
			}
		}
	})
}

func histJSON(i int, h []e2e.EngStep, upto int) map[string]any {
	specs := []*e2e.Spec{}
	edits := []e2e.Edit{}
	for _, s := range h[:upto+1] {
		specs = append(specs, s.Spec)
		edits = append(edits, s.Edit)
	}
	st := h[upto]
	return map[string]any{"history": i, "step": upto, "edits": edits, "specs": specs, "requested": st.Requested, "exit": st.Exit, "clean_exit": st.CleanExit,
		"executed": st.Executed, "outputs": st.OutStr, "clean": st.CleanStr}
}

// timedOut: a plz invocation of the history was killed by the harness timeout (overloaded machine): the history
// says nothing about the property or the model, it is counted and dropped.
func timedOut(c *lib.Ctx, h []e2e.EngStep) bool {
	for k := range h {
		if h[k].TimedOut || h[k].Exit == -9 || h[k].CleanExit == -9 {
			c.Hist("edit", "timed-out")
			return true
		}
	}
	return false
}

// ruleKeys: the model's rule key (a digest of the BUILD entry) against the real rule hash (`plz hash --detailed`)
// for every target of the history: equal keys <-> equal hashes. One Coq case per history, plus the direct oracle.
func ruleKeys(c *lib.Ctx, i int, h []e2e.EngStep) {
	term, pairs := e2e.EngRuleKeysTerm(h)
	if term == "" {
		return
	}
	js := map[string]any{"history": i, "rule_keys": pairs}
	c.Case(lib.App("C01Ext.Eng", term), js, fmt.Sprint("keys", pairs), len(pairs) >= 2)
	c.HistN("rule-key-pairs", len(pairs))
	c.Oracle()
	for a := range pairs {
		for b := a + 1; b < len(pairs); b++ {
			sameKey, sameHash := pairs[a][0] == pairs[b][0], pairs[a][1] == pairs[b][1]
			if sameKey && !sameHash {
				c.Fail("rule-hash-differs-for-one-definition", fmt.Sprintf("definition %s has rule hashes %s and %s", pairs[a][0], pairs[a][1], pairs[b][1]), js)
			}
			if !sameKey && sameHash {
				c.Fail("rule-hash-equal-for-different-definitions", fmt.Sprintf("definitions %s and %s have the same rule hash %s", pairs[a][0], pairs[b][0], pairs[a][1]), js)
			}
		}
	}
}

// the engine histories are one constructor of C01Ext.case (the other: the inode histories, streams.go)
func engTerm(h []e2e.EngStep) string { return lib.App("C01Ext.Eng", e2e.EngCaseTerm(h)) }

// oracle: incremental = clean at step k of history h
func oracle(c *lib.Ctx, i int, h []e2e.EngStep, k int) { oracleCls(c, i, h, k, "") }

// oracleCls: as oracle; a stale output of a target whose declared outputs were claimed by ANOTHER target earlier in the history
// is reported under the narrow class cls (when given)
func oracleCls(c *lib.Ctx, i int, h []e2e.EngStep, k int, cls string) {
	st := &h[k]
	if st.TimedOut || st.Exit == -9 || st.CleanExit == -9 {
		return
	}
	c.Oracle()
	if (st.Exit == 0) != (st.CleanExit == 0) {
		c.Fail(e2e.ExitClass(h, k), fmt.Sprintf("incremental exit %d, clean exit %d after %v: %s", st.Exit, st.CleanExit, st.Edit, st.Stderr), histJSON(i, h, k))
		return
	}
	if st.Exit != 0 {
		return // a failing build: which outputs exist is not part of the statement
	}
	labels := make([]string, 0, len(st.Outputs))
	for l := range st.Outputs {
		labels = append(labels, l)
	}
	sort.Strings(labels)
	for _, l := range labels {
		if ok, why := e2e.OutputsEqual(st.Outputs[l], st.Clean[l]); !ok {
			if e2e.ToolRenameStale(h, k, l) {
				c.Fail(e2e.ToolRenameClass, fmt.Sprintf("%s after %v: incremental vs clean: %s", l, st.Edit, why), histJSON(i, h, k))
				continue
			}
			if cls != "" && claimedByAnother(h, k, l) {
				c.Fail(cls, fmt.Sprintf("%s after %v: incremental vs clean: %s", l, st.Edit, why), histJSON(i, h, k))
				continue
			}
			c.Fail(e2e.StaleClass(st.Spec, l, st.Outputs, st.Clean), fmt.Sprintf("%s after %v: incremental vs clean: %s", l, st.Edit, why), histJSON(i, h, k))
		}
	}
}

// claimedByAnother: did a target with another label declare one of the outputs of l (same package) at an earlier step?
func claimedByAnother(h []e2e.EngStep, k int, l string) bool {
	t := h[k].Spec.Target(l)
	if t == nil {
		return false
	}
	pkg, _ := e2e.SplitLabel(l)
	for j := 0; j < k; j++ {
		for _, l2 := range h[j].Spec.Labels() {
			p2, _ := e2e.SplitLabel(l2)
			u := h[j].Spec.Target(l2)
			if l2 == l || p2 != pkg || u == nil {
				continue
			}
			for _, o := range u.Outs {
				for _, o2 := range t.Outs {
					if o == o2 {
						return true
					}
				}
			}
		}
	}
	return false
}

// replayHistory re-runs a recorded sequence of trees (build all after each) and applies the oracle.
func replayHistory(c *lib.Ctx, base string, specs []*e2e.Spec) {
	repo := e2e.NewRepo(base, "repo")
	var h []e2e.EngStep
	for i, s := range specs {
		repo.Write(s)
		order := s.Labels()
		sort.SliceStable(order, func(a, b int) bool { return depth(s, order[a]) < depth(s, order[b]) })
		h = append(h, e2e.EngBuild(repo, base, s, order, s.Labels(), i, e2e.Edit{Kind: "replay"}, false, e2e.EngOpts{CleanRef: true, RuleHashes: true}))
		oracleCls(c, 0, h, i, takeoverClass)
	}
	modelled := true
	for _, s := range specs {
		if !e2e.EngSpecModelled(s) {
			modelled = false
		}
	}
	if modelled && !timedOut(c, h) {
		c.Case(engTerm(h), histJSON(0, h, len(h)-1), e2e.EngKey(h), true)
		ruleKeys(c, 0, h)
	}
}

func depth(s *e2e.Spec, l string) int {
	t := s.Target(l)
	d := 0
	if t == nil {
		return 0
	}
	for _, x := range e2e.DepsOf(t) {
		if y := depth(s, x) + 1; y > d {
			d = y
		}
	}
	return d
}
