// C01: incremental builds produce exactly what a clean build produces (end to end, real plz).
package main

import (
	"fmt"
	"os"
	"sort"
	"strings"

	"verifharness/e2e"
	"verifharness/lib"
)

func main() {
	lib.Main("C01", func(c *lib.Ctx) {
		c.Rule("generated repositories (1-3 packages, 2-7 targets: genrules concat/const/copydir/output_dirs/listnames, filegroups, text_files) " +
			"with edit histories (content edits, renames inside output directories, srcs/outs/cmd changes, comments, adding/removing targets, deleting plz-out); " +
			"after every edit `plz build` of all targets is compared with a clean build of the same tree in a fresh directory. " +
			"distinct = distinct (tree, edit) steps; non-trivial = a step after the first whose edit changed the tree")
		nrepos := c.Scale(12, 300)
		steps := c.Scale(5, 8)
		base := e2e.Scratch("c01")
		defer os.RemoveAll(base)
		all := e2e.RunHistories(c.Rng, base, nrepos, 6, e2e.HistOpts{Gen: e2e.GenOpts{MaxPkgs: 3, MaxTargets: 7, DirOutputs: true}, Steps: steps, CleanRef: true, RmPlzOut: true, Revert: true})
		for i, hist := range all {
			for _, st := range hist {
				c.Hist("edit", st.Edit.Kind)
				c.HistN("targets", len(st.Requested))
				js := map[string]any{"history": i, "step": st.Index, "edit": st.Edit, "exit": st.Exit, "clean_exit": st.CleanExit, "executed": st.Executed, "outputs": st.OutStr, "clean": st.CleanStr}
				c.Eval(js, fmt.Sprint(st.Spec.Labels(), st.OutStr, st.Edit), st.Index > 0 && st.Edit.Kind != "none")
				c.Oracle()
				if st.Exit != st.CleanExit {
					c.Fail("exit-status-differs", fmt.Sprintf("incremental exit %d, clean exit %d after %v: %s", st.Exit, st.CleanExit, st.Edit, st.Stderr), withHist(js, hist, st.Index))
					continue
				}
				labels := make([]string, 0, len(st.Outputs))
				for l := range st.Outputs {
					labels = append(labels, l)
				}
				sort.Strings(labels)
				for _, l := range labels {
					if ok, why := e2e.OutputsEqual(st.Outputs[l], st.Clean[l]); !ok {
						c.Fail(classify(st, l), fmt.Sprintf("%s after edit %v: incremental vs clean: %s", l, st.Edit, why), withHist(js, hist, st.Index))
					}
				}
			}
		}
	})
}

func withHist(js map[string]any, hist []e2e.Step, upto int) map[string]any {
	edits := []e2e.Edit{}
	for _, s := range hist[:upto+1] {
		edits = append(edits, s.Edit)
	}
	js["edits"] = edits
	js["spec"] = hist[upto].Spec
	return js
}

// classify gives the narrow defect class of a stale output.
func classify(st e2e.Step, label string) string {
	t := st.Spec.Target(label)
	if t == nil {
		return "stale-output"
	}
	switch t.Cmd.Op {
	case "copydir":
		return "stale-directory-output-after-entry-rename"
	case "outdir":
		return "stale-output-dir-files"
	case "listnames":
		return "dependent-of-directory-output-not-rebuilt"
	}
	if strings.Contains(st.Edit.Kind, "rename") {
		return "stale-after-rename"
	}
	return "stale-output"
}
