package main

// Two targeted streams of the C01 harness (follow-up of the seeded changes C01/r2-m1..m3). Both drive the real plz binary,
// compare every incremental build with a clean build of the same tree and emit cases for the Coq side.
//
//	takeover  outputs shared ACROSS targets over time: g has 2-3 outputs; the BUILD file is edited so that g is gone and h
//	          declares one or two of g's outputs (other content) and is built; the BUILD file is reverted and g built again,
//	          then a source edit and a no-op build. g's record still sits on the outputs h did not touch; h's record on the
//	          others: readRuleHashFromXattrs must see that not ALL outputs carry g's record. Engine-model histories (Eng).
//	ino       the inode level: filegroup f(srcs = [a.txt]), genrule g(srcs = [:f]); a.txt edited IN PLACE again and again
//	          with a build after each edit, replaced (new inode), renamed to b.txt (the inode - and whatever xattr plz left
//	          on it - moves to a path of the source tree that genrule g2 reads directly) with a new a.txt, b.txt edited in
//	          place, rm -rf plz-out. Cases InoHist of Model/C01Ext.v (which of g, g2 ran at every build).

import (
	"fmt"
	"os"
	"path/filepath"
	"strings"

	"verifharness/e2e"
	"verifharness/lib"
)

// ---------------------------------------------------------------------------------------------
// takeover

const takeoverClass = "stale-output-last-written-by-another-target"

type takeoverHist struct {
	Name  string
	Steps []e2e.EngStep
}

func takeoverSpec(x string, targets ...*e2e.Target) *e2e.Spec {
	p := &e2e.Pkg{Files: map[string]string{"x.txt": x}}
	p.Targets = targets
	return &e2e.Spec{Pkgs: map[string]*e2e.Pkg{"p": p}}
}

// runTakeover: variant 0 is the fixed one (g = [a.out, b.out], h takes b.out - a NON-first output); the others vary the number
// of outputs, which of them h takes, and add a consumer of g.
func runTakeover(r *lib.Rng, base string, variant int) takeoverHist {
	os.MkdirAll(base, 0o755)
	gouts := []string{"a.out", "b.out"}
	houts := []string{"b.out"}
	consumer := false
	name := "non-first-output"
	if variant > 0 {
		consumer = r.Chance(1, 2)
		switch r.Intn(4) {
		case 0:
			gouts, houts, name = []string{"a.out", "b.out", "c.out"}, []string{"c.out"}, "last-of-three"
		case 1:
			gouts, houts, name = []string{"a.out", "b.out", "c.out"}, []string{"b.out", "c.out"}, "two-of-three"
		case 2:
			houts, name = []string{"a.out"}, "first-output"
		case 3:
			gouts, houts, name = []string{"a.out", "b.out", "c.out"}, []string{"b.out"}, "middle-of-three"
		}
	}
	g := func() *e2e.Target {
		return &e2e.Target{Name: "g", Kind: "genrule", Srcs: []string{"x.txt"}, Outs: append([]string{}, gouts...), Cmd: e2e.Cmd{Op: "const", Arg: "from-g"}}
	}
	h := &e2e.Target{Name: "h", Kind: "genrule", Srcs: []string{"x.txt"}, Outs: append([]string{}, houts...), Cmd: e2e.Cmd{Op: "const", Arg: "from-h"}}
	d := &e2e.Target{Name: "d", Kind: "genrule", Srcs: []string{"//p:g"}, Outs: []string{"d.out"}, Cmd: e2e.Cmd{Op: "concat"}}
	withG := func(x string) (*e2e.Spec, []string) {
		if consumer {
			return takeoverSpec(x, g(), d), []string{"//p:g", "//p:d"}
		}
		return takeoverSpec(x, g()), []string{"//p:g"}
	}
	type stepT struct {
		spec  *e2e.Spec
		order []string
		kind  string
	}
	s1, o1 := withG("x0\n")
	s3, o3 := withG("x0\n")
	s4, o4 := withG("x1\n")
	s5, o5 := withG("x1\n")
	steps := []stepT{
		{s1, o1, "initial"},
		{takeoverSpec("x0\n", h), []string{"//p:h"}, "target-replaced-by-one-claiming-its-outputs"},
		{s3, o3, "BUILD-reverted"},
		{s4, o4, "content"},
		{s5, o5, "none"},
	}
	repo := e2e.NewRepo(base, "repo")
	out := takeoverHist{Name: name}
	for i, s := range steps {
		repo.Write(s.spec)
		out.Steps = append(out.Steps, e2e.EngBuild(repo, base, s.spec, s.order, s.spec.Labels(), i, e2e.Edit{Kind: "takeover:" + s.kind, What: name}, false,
			e2e.EngOpts{CleanRef: true, RuleHashes: true}))
	}
	return out
}

// ---------------------------------------------------------------------------------------------
// ino

const inoClass = "stale-output-hash-memoised-on-shared-inode-trusted"

type inoEvent struct {
	Kind    string `json:"kind"` // build | edit-a | replace-a | rename-a-to-b | edit-b | rm-plz-out
	Content string `json:"content,omitempty"`
}

type inoHist struct {
	C0       string        `json:"c0"`
	Events   []inoEvent    `json:"events"`
	Steps    []e2e.EngStep `json:"-"`
	GRan     []bool        `json:"g_ran"`
	G2Ran    []*bool       `json:"g2_ran"`
	TimedOut bool          `json:"timed_out,omitempty"`
}

func inoSpec(c0 string) *e2e.Spec {
	p := &e2e.Pkg{Files: map[string]string{"a.txt": c0}}
	p.Targets = []*e2e.Target{
		{Name: "f", Kind: "filegroup", Srcs: []string{"a.txt"}},
		{Name: "g", Kind: "genrule", Srcs: []string{"//p:f"}, Outs: []string{"g.out"}, Cmd: e2e.Cmd{Op: "concat"}},
	}
	return &e2e.Spec{Pkgs: map[string]*e2e.Pkg{"p": p}}
}

func has(xs []string, x string) bool {
	for _, y := range xs {
		if y == x {
			return true
		}
	}
	return false
}

// inoPlan: the events of one history. The fixed prefix holds the three seeded shapes: two edits in place with a build after
// each (after a no-op build in a new process), the rename with a new a.txt, two edits in place of b.txt.
func inoPlan(r *lib.Rng, fixed bool, extra int) []inoEvent {
	n := 0
	seen := map[string][]string{}
	content := func(file string) string {
		n++
		if old := seen[file]; len(old) > 1 && r.Chance(1, 4) {
			return old[r.Intn(len(old))] // back to an earlier content of this file: A, B, A in place
		}
		c := fmt.Sprintf("%s%d\n", lib.Pick(r, []string{"two", "three", "x", "new"}), n)
		seen[file] = append(seen[file], c)
		return c
	}
	var evs []inoEvent
	add := func(kind string) {
		switch kind {
		case "edit-a", "replace-a", "rename-a-to-b":
			evs = append(evs, inoEvent{Kind: kind, Content: content("a")})
		case "edit-b":
			evs = append(evs, inoEvent{Kind: kind, Content: content("b")})
		case "rm-plz-out":
			evs = append(evs, inoEvent{Kind: kind})
		case "noop":
		}
		evs = append(evs, inoEvent{Kind: "build"})
	}
	evs = append(evs, inoEvent{Kind: "build"})
	haveB := false
	if fixed {
		for _, k := range []string{"noop", "edit-a", "edit-a", "rename-a-to-b", "edit-b", "edit-b", "edit-a"} {
			add(k)
		}
		haveB = true
	}
	for i := 0; i < extra; i++ {
		kinds := []string{"edit-a", "edit-a", "edit-a", "replace-a", "rename-a-to-b", "noop", "rm-plz-out"}
		if haveB {
			kinds = append(kinds, "edit-b", "edit-b", "edit-b")
		}
		k := lib.Pick(r, kinds)
		if !fixed && i == 0 {
			k = "edit-a"
		}
		if k == "rename-a-to-b" {
			haveB = true
		}
		add(k)
	}
	return evs
}

// runIno applies the events to a real repository; every build is compared with a clean build of the same tree.
func runIno(base, c0 string, evs []inoEvent) *inoHist {
	os.MkdirAll(base, 0o755)
	h := &inoHist{C0: c0, Events: evs}
	spec := inoSpec(c0)
	repo := e2e.NewRepo(base, "repo")
	pdir := filepath.Join(repo.Dir, "p")
	files := spec.Pkgs["p"].Files
	order := func() []string {
		if _, ok := files["b.txt"]; ok {
			return []string{"//p:f", "//p:g", "//p:g2"}
		}
		return []string{"//p:f", "//p:g"}
	}
	last := "initial"
	wipe := false
	for _, e := range evs {
		if h.TimedOut {
			break
		}
		switch e.Kind {
		case "edit-a": // Repo.Write rewrites an existing file with os.WriteFile: truncated in place, same inode
			files["a.txt"] = e.Content
			last = e.Kind
		case "edit-b":
			if _, ok := files["b.txt"]; ok {
				files["b.txt"] = e.Content
			}
			last = e.Kind
		case "replace-a": // a new inode
			files["a.txt"] = e.Content
			tmp := filepath.Join(pdir, "a.txt.tmp")
			must(os.WriteFile(tmp, []byte(e.Content), 0o644))
			must(os.Rename(tmp, filepath.Join(pdir, "a.txt")))
			last = e.Kind
		case "rename-a-to-b": // the inode of a.txt (hard-linked from plz-out) becomes b.txt; a.txt is a new file
			must(os.Rename(filepath.Join(pdir, "a.txt"), filepath.Join(pdir, "b.txt")))
			if _, ok := files["b.txt"]; !ok {
				p := spec.Pkgs["p"]
				p.Targets = append(p.Targets, &e2e.Target{Name: "g2", Kind: "genrule", Srcs: []string{"b.txt"}, Outs: []string{"g2.out"}, Cmd: e2e.Cmd{Op: "concat"}})
			}
			files["b.txt"] = files["a.txt"]
			files["a.txt"] = e.Content
			last = e.Kind
		case "rm-plz-out":
			repo.RemovePlzOut()
			wipe = true
			last = e.Kind
		case "build":
			repo.Write(spec)
			st := e2e.EngBuild(repo, base, spec, order(), spec.Labels(), len(h.Steps), e2e.Edit{Kind: "ino:" + last}, wipe, e2e.EngOpts{CleanRef: true})
			h.Steps = append(h.Steps, st)
			h.GRan = append(h.GRan, has(st.Executed, "//p:g"))
			if _, ok := files["b.txt"]; ok {
				b := has(st.Executed, "//p:g2")
				h.G2Ran = append(h.G2Ran, &b)
			} else {
				h.G2Ran = append(h.G2Ran, nil)
			}
			h.TimedOut = h.TimedOut || st.TimedOut || st.Exit == -9 || st.CleanExit == -9
			last, wipe = "none", false
		default:
			panic("ino event " + e.Kind)
		}
	}
	return h
}

func must(err error) {
	if err != nil {
		panic(err)
	}
}

func inoTerm(h *inoHist) string {
	var evs []string
	builds := 0
	for _, e := range h.Events {
		switch e.Kind {
		case "build":
			if builds >= len(h.Steps) {
				continue
			}
			builds++
			evs = append(evs, "C01Ext.Build")
		case "edit-a":
			evs = append(evs, lib.App("C01Ext.EditA", lib.Str(e.Content)))
		case "replace-a":
			evs = append(evs, lib.App("C01Ext.ReplaceA", lib.Str(e.Content)))
		case "rename-a-to-b":
			evs = append(evs, lib.App("C01Ext.RenameAB", lib.Str(e.Content)))
		case "edit-b":
			evs = append(evs, lib.App("C01Ext.EditB", lib.Str(e.Content)))
		case "rm-plz-out":
			evs = append(evs, "C01Ext.RmOut")
		}
	}
	var obs []string
	for k := range h.Steps {
		o := "None"
		if h.G2Ran[k] != nil {
			o = lib.App("Some", lib.Bool(*h.G2Ran[k]))
		}
		obs = append(obs, lib.Pair(lib.Bool(h.GRan[k]), o))
	}
	return lib.App("C01Ext.InoHist", lib.Str(h.C0), lib.List(evs), lib.List(obs))
}

// inoOracle: every build succeeds and has the outputs of a clean build of the same tree; a consumer whose file changed
// since the previous build (or whose plz-out was deleted) ran.
func inoOracle(c *lib.Ctx, id int, h *inoHist) {
	curA, curB, haveB := h.C0, "", false
	lastA, lastB, haveLastA, haveLastB := "", "", false, false
	k := 0
	for ei, e := range h.Events {
		switch e.Kind {
		case "edit-a", "replace-a":
			curA = e.Content
		case "rename-a-to-b":
			curB, haveB = curA, true
			curA = e.Content
		case "edit-b":
			if haveB {
				curB = e.Content
			}
		case "rm-plz-out":
			haveLastA, haveLastB = false, false
		case "build":
			if k >= len(h.Steps) {
				return
			}
			st := &h.Steps[k]
			if st.TimedOut || st.Exit == -9 || st.CleanExit == -9 {
				c.Hist("edit", "timed-out")
				return
			}
			js := map[string]any{"stream": "ino", "history": id, "build": k, "ino": map[string]any{"c0": h.C0, "events": h.Events[:ei+1]},
				"g_ran": h.GRan[:k+1], "g2_ran": h.G2Ran[:k+1], "exit": st.Exit, "clean_exit": st.CleanExit, "executed": st.Executed,
				"outputs": st.OutStr, "clean": st.CleanStr}
			c.Oracle()
			c.Hist("edit", st.Edit.Kind)
			switch {
			case st.Exit != 0 || st.CleanExit != 0:
				c.Fail("ino-build-fails", fmt.Sprintf("build %d of the hard-link history: exit %d (clean %d): %s", k, st.Exit, st.CleanExit, st.Stderr), js)
			default:
				for _, l := range lib.SortedKeys(st.Outputs) {
					if ok, why := e2e.OutputsEqual(st.Outputs[l], st.Clean[l]); !ok {
						c.Fail(inoClass, fmt.Sprintf("%s after %s: incremental vs clean: %s", l, st.Edit.Kind, why), js)
					}
				}
				if (!haveLastA || lastA != curA) && !h.GRan[k] {
					c.Fail(inoClass, fmt.Sprintf("//p:g reads p/a.txt through the filegroup //p:f; its content changed (%q -> %q, %s) but the command did not run", lastA, curA, st.Edit.Kind), js)
				}
				if haveB && (!haveLastB || lastB != curB) && h.G2Ran[k] != nil && !*h.G2Ran[k] {
					c.Fail(inoClass, fmt.Sprintf("//p:g2 reads p/b.txt; its content changed (%q -> %q, %s) but the command did not run", lastB, curB, st.Edit.Kind), js)
				}
			}
			lastA, haveLastA = curA, true
			if haveB {
				lastB, haveLastB = curB, true
			}
			k++
		}
	}
}

func inoKey(h *inoHist) string {
	var b strings.Builder
	for _, e := range h.Events {
		b.WriteString(e.Kind + ":" + e.Content + "|")
	}
	return b.String()
}
