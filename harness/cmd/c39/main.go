// C39: configuration layering. Implementation side of the correspondence + property oracle.
//
// Every case writes a set of generated config files into an in-memory io/fs.FS (which also records
// the order of Open calls), runs the REAL core.ReadDefaultConfigFiles / core.ReadConfigFiles and
// Configuration.ApplyOverrides on it, and reads a fixed sample of options of several Go types back
// from the resulting Configuration.
package main

import (
	"bytes"
	"encoding/json"
	"fmt"
	iofs "io/fs"
	"os"
	"path/filepath"
	"sort"
	"strconv"
	"strings"
	"syscall"
	"time"

	"verifharness/lib"

	"github.com/thought-machine/please/src/cli"
	"github.com/thought-machine/please/src/core"
	plzfs "github.com/thought-machine/please/src/fs"
)

// ---------------------------------------------------------------------------------------------
// the file system handed to the implementation

type memFS struct {
	files  map[string]string
	faults map[string]syscall.Errno // Open of these names fails with this errno
	opens  []string
}

// errnos an Open can fail with; ENOENT is the only one that means "there is no such file"
var errnos = map[string]syscall.Errno{
	"EACCES": syscall.EACCES, "EIO": syscall.EIO, "EMFILE": syscall.EMFILE, "ENFILE": syscall.ENFILE,
	"ELOOP": syscall.ELOOP, "ENOTDIR": syscall.ENOTDIR, "ENOENT": syscall.ENOENT,
}
var errnoNames = []string{"EACCES", "EIO", "EMFILE", "ELOOP", "ENOTDIR", "ENFILE", "EACCES", "EIO", "ENOENT"}

type memFile struct {
	*bytes.Reader
	name string
}

func (f memFile) Stat() (iofs.FileInfo, error) { return nil, fmt.Errorf("stat not supported") }
func (f memFile) Close() error                 { return nil }

func (m *memFS) Open(name string) (iofs.File, error) {
	m.opens = append(m.opens, name)
	if e, ok := m.faults[name]; ok {
		return nil, &iofs.PathError{Op: "open", Path: name, Err: e}
	}
	if c, ok := m.files[name]; ok {
		return memFile{bytes.NewReader([]byte(c)), name}, nil
	}
	return nil, &iofs.PathError{Op: "open", Path: name, Err: iofs.ErrNotExist}
}

// ---------------------------------------------------------------------------------------------
// the sampled options

type tv struct{ text, canon string } // what is written / the canonical text of the Go value it denotes

type optSpec struct {
	name    string // section.field, lower case: the -o key and the name used in the model
	kind    string // "str" | "bool" | "map" | "multi"   (the model's Single SStr/SBool/SMap, Multi)
	typ     string // Go type family, for the evidence histogram
	vals    []tv
	ovals   []tv // values usable with -o (ApplyOverrides parses differently from gcfg)
	get     func(c *core.Configuration) []string
	def     []string // documented default (value with no source at all)
	lateDef bool     // default is installed by setDefault after reading (repeated options)
	index   int
}

func id(xs ...string) []tv {
	out := []tv{}
	for _, x := range xs {
		out = append(out, tv{x, x})
	}
	return out
}

var boolVals = []tv{{"true", "true"}, {"false", "false"}, {"yes", "true"}, {"no", "false"}, {"on", "true"}, {"off", "false"}, {"1", "true"}, {"0", "false"}, {"True", "true"}, {"FALSE", "false"}}
var boolOv = id("true", "false")
var intVals = []tv{{"3", "3"}, {"0", "0"}, {"25", "25"}, {"7", "7"}, {"0x10", "16"}, {"100", "100"}}
var intOv = id("3", "0", "25", "64")
var durVals = []tv{{"30s", "30s"}, {"5m", "5m0s"}, {"1h", "1h0m0s"}, {"90", "1m30s"}, {"2m30s", "2m30s"}}
var strVals = id("opt", "dbg", "cover", "fast-1", "x_y.z", "", "a b c")
var urlVals = id("https://a.example/x", "http://mirror.local:8080/plz", "https://get.please.build")
var dirVals = id("BUILD", "BUILD.plz", "BUILD.bazel", "third_party", "node_modules", "/opt/bin", "/usr/sbin", "plz-out", "")
var envVals = id("HOME", "LANG", "PATH", "GOPATH", "PATH", "CI", "USER", "PATH", "path", "PATH2")
var covLabels = id("slow", "cc", "py", "integration", "manual")

// values of $PATH in the environment of the caller (build.path's computed default reads it)
var callerPaths = []string{"/caller/bin:/usr/bin", "/usr/local/bin:/usr/bin:/bin", "/opt/x/bin", "", "/a::/b", "/home/u/go/bin:/usr/local/go/bin:/usr/bin:/bin", ":/bin"}
var labelVals = id("//build_defs:go", "//third_party/go:all", "///pleasings//python:requirements", "//a/b:c", "//x:y")
var hashVals = id("sha1", "sha256", "blake3", "xxhash", "crc32", "crc64")
var versionVals = []tv{{">=16.0.0", ">=16.0.0"}, {"17.1.0", "17.1.0"}, {">= 16.2.0", ">=16.2.0"}, {"16.5.1", "16.5.1"}, {"17.1.0", "17.1.0"}}
var pathVals = id("/usr/local/go", "/opt/go1.22", "", "/usr/lib/go")

func b2s(b bool) []string { return []string{strconv.FormatBool(b)} }
func i2s(i int) []string  { return []string{strconv.Itoa(i)} }
func strs(l []string) []string {
	return append([]string{}, l...)
}

var opts = []*optSpec{
	{name: "build.config", kind: "str", typ: "string", vals: strVals, ovals: id("opt", "dbg", "cover", ""), def: []string{"opt"},
		get: func(c *core.Configuration) []string { return []string{c.Build.Config} }},
	{name: "build.nonce", kind: "str", typ: "string", vals: strVals, ovals: id("n1", "n2"), def: []string{"1402"},
		get: func(c *core.Configuration) []string { return []string{c.Build.Nonce} }},
	{name: "please.downloadlocation", kind: "str", typ: "cli.URL", vals: urlVals, ovals: urlVals, def: []string{"https://get.please.build"},
		get: func(c *core.Configuration) []string { return []string{string(c.Please.DownloadLocation)} }},
	{name: "build.xattrs", kind: "bool", typ: "bool", vals: boolVals, ovals: boolOv, def: []string{"true"},
		get: func(c *core.Configuration) []string { return b2s(c.Build.Xattrs) }},
	{name: "parse.gitfunctions", kind: "bool", typ: "bool", vals: boolVals, ovals: boolOv, def: []string{"true"},
		get: func(c *core.Configuration) []string { return b2s(c.Parse.GitFunctions) }},
	{name: "display.updatetitle", kind: "bool", typ: "bool", vals: boolVals, ovals: boolOv, def: []string{"false"},
		get: func(c *core.Configuration) []string { return b2s(c.Display.UpdateTitle) }},
	{name: "please.numoldversions", kind: "str", typ: "int", vals: intVals, ovals: intOv, def: []string{"10"},
		get: func(c *core.Configuration) []string { return i2s(c.Please.NumOldVersions) }},
	{name: "display.maxworkers", kind: "str", typ: "int", vals: intVals, ovals: intOv, def: []string{"40"},
		get: func(c *core.Configuration) []string { return i2s(c.Display.MaxWorkers) }},
	{name: "build.timeout", kind: "str", typ: "cli.Duration", vals: durVals, ovals: durVals, def: []string{"10m0s"},
		get: func(c *core.Configuration) []string { return []string{time.Duration(c.Build.Timeout).String()} }},
	{name: "buildconfig.my-key", kind: "map", typ: "map[string]string", vals: strVals, ovals: id("o1", "o2", ""), def: []string{""},
		get: func(c *core.Configuration) []string { return []string{c.BuildConfig["my-key"]} }},
	{name: "buildenv.secret", kind: "map", typ: "map[string]string", vals: strVals, ovals: id("o1", "o2"), def: []string{""},
		get: func(c *core.Configuration) []string { return []string{c.BuildEnv["secret"]} }},
	{name: "go.goroot", kind: "str", typ: "string", vals: pathVals, ovals: id("/ov/go"), def: []string{""},
		get: func(c *core.Configuration) []string { return []string{c.Go.GoRoot} }},
	{name: "go.gotool", kind: "str", typ: "string", vals: id("go", "/usr/bin/go", "go1.22", "gotip"), ovals: id("ovgo"), def: []string{"go"},
		get: func(c *core.Configuration) []string { return []string{c.Go.GoTool} }},

	{name: "parse.buildfilename", kind: "multi", typ: "[]string", vals: dirVals, def: []string{"BUILD", "BUILD.plz"}, lateDef: true,
		get: func(c *core.Configuration) []string { return strs(c.Parse.BuildFileName) }},
	{name: "parse.blacklistdirs", kind: "multi", typ: "[]string", vals: dirVals, def: []string{},
		get: func(c *core.Configuration) []string { return strs(c.Parse.BlacklistDirs) }},
	{name: "parse.builddefsdir", kind: "multi", typ: "[]string", vals: dirVals, def: []string{"build_defs"}, lateDef: true,
		get: func(c *core.Configuration) []string { return strs(c.Parse.BuildDefsDir) }},
	{name: "build.path", kind: "multi", typ: "[]string", vals: dirVals, def: []string{"/usr/local/bin", "/usr/bin", "/bin"}, lateDef: true,
		get: func(c *core.Configuration) []string { return strs(c.Build.Path) }},
	{name: "build.passenv", kind: "multi", typ: "[]string", vals: envVals, def: []string{}, lateDef: true,
		get: func(c *core.Configuration) []string { return strs(c.Build.PassEnv) }},
	{name: "build.hashcheckers", kind: "multi", typ: "[]string+options", vals: hashVals, def: []string{"sha1", "sha256", "blake3"}, lateDef: true,
		get: func(c *core.Configuration) []string { return strs(c.Build.HashCheckers) }},
	{name: "please.pluginrepo", kind: "multi", typ: "[]string", vals: urlVals, lateDef: true,
		def: []string{"https://github.com/{owner}/{plugin}/archive/{revision}.zip", "https://github.com/{owner}/{plugin}-rules/archive/{revision}.zip"},
		get: func(c *core.Configuration) []string { return strs(c.Please.PluginRepo) }},
	{name: "parse.preloadsubincludes", kind: "multi", typ: "[]BuildLabel", vals: labelVals, def: []string{},
		get: func(c *core.Configuration) []string {
			out := []string{}
			for _, l := range c.Parse.PreloadSubincludes {
				out = append(out, l.String())
			}
			return out
		}},
	{name: "java.defaultmavenrepo", kind: "multi", typ: "[]cli.URL", vals: urlVals, def: []string{"https://repo1.maven.org/maven2", "https://jcenter.bintray.com/"},
		get: func(c *core.Configuration) []string {
			out := []string{}
			for _, l := range c.Java.DefaultMavenRepo {
				out = append(out, string(l))
			}
			return out
		}},
	{name: "build.passunsafeenv", kind: "multi", typ: "[]string", vals: envVals, def: []string{}, lateDef: true,
		get: func(c *core.Configuration) []string { return strs(c.Build.PassUnsafeEnv) }},
	{name: "cpp.coverage", kind: "bool", typ: "bool", vals: boolVals, ovals: boolOv, def: []string{"true"},
		get: func(c *core.Configuration) []string { return b2s(c.Cpp.Coverage) }},
	{name: "test.disablecoverage", kind: "multi", typ: "[]string", vals: covLabels, def: []string{},
		get: func(c *core.Configuration) []string { return strs(c.Test.DisableCoverage) }},
	// cli.Version: the value carries a flag (">=") besides the version; a later exact version must clear it
	{name: "please.version", kind: "str", typ: "cli.Version", vals: versionVals, ovals: nil /* -o please.version is rejected: "can't override config field of type struct" */, def: []string{""},
		get: func(c *core.Configuration) []string {
			if !c.Please.Version.IsSet {
				return []string{""}
			}
			return []string{c.Please.Version.String()}
		}},
}

var optByName = map[string]*optSpec{}

func (o *optSpec) multi() bool { return o.kind == "multi" }

// coq names the option by its index in Model.C39.sampled (same order as opts)
func (o *optSpec) coq() string { return fmt.Sprintf("(O %d)", o.index) }

// ---------------------------------------------------------------------------------------------
// a case

type assign struct {
	Opt   string `json:"opt"`
	Blank bool   `json:"blank,omitempty"`
	Text  string `json:"text"`  // as written in the file
	Canon string `json:"canon"` // the value it denotes
}

type cfgFile struct {
	Name    string   `json:"name"`
	Assigns []assign `json:"assigns"`
}

type ovr struct {
	Opt   string `json:"opt"`
	Text  string `json:"text"`
	Canon string `json:"canon"`
}

type envT struct {
	XdgDirs string `json:"xdg_config_dirs"`
	Home    string `json:"home"`
	XdgHome string `json:"xdg_config_home"`
	Root    string `json:"repo_root"`
}

type caseT struct {
	Path      string     `json:"caller_PATH"` // $PATH of the caller
	Default   bool       `json:"default_files"`
	Env       envT       `json:"env"`
	Names     []string   `json:"names,omitempty"` // explicit file names (Default == false)
	Profiles  []string   `json:"profiles"`
	Files     []cfgFile  `json:"files"`
	Overrides []ovr      `json:"overrides"`
	Opens     []string   `json:"opens,omitempty"`
	Err       string     `json:"error,omitempty"`
	Result    [][]string `json:"result,omitempty"` // per option of `opts`, in order
	Scenario  string     `json:"scenario,omitempty"`
	Kind      string     `json:"kind,omitempty"`   // "" = plain read, "fault" = some Open fails, "plugin" = [Plugin "x"] sections, "hostfs" = real file system
	Faults    []faultT   `json:"faults,omitempty"` // kind fault
	Plugin    *pluginT   `json:"plugin,omitempty"` // kind plugin
	Host      *hostT     `json:"hostfs,omitempty"` // kind hostfs
}

type faultT struct {
	Name  string `json:"name"`
	Errno string `json:"errno"`
}

// render writes the assignments as gcfg text. Section headers are repeated freely, field names vary in
// case, and blank lines / comments are interspersed: none of that may matter.
func render(r *lib.Rng, as []assign) string {
	var b strings.Builder
	last := ""
	for _, a := range as {
		sect, field, _ := strings.Cut(a.Opt, ".")
		if sect != last || r.Chance(1, 4) {
			hdr := sect
			if r.Chance(1, 4) {
				hdr = strings.ToUpper(sect[:1]) + sect[1:]
			}
			fmt.Fprintf(&b, "[%s]\n", hdr)
			last = sect
		}
		if r.Chance(1, 8) {
			b.WriteString("; a comment\n")
		}
		if optByName[a.Opt].kind != "map" { // keys of a map section are case sensitive, field names are not
			switch r.Intn(4) {
			case 0:
				field = strings.ToUpper(field)
			case 1:
				field = strings.ToUpper(field[:1]) + field[1:]
			}
		}
		if a.Blank {
			b.WriteString(field + "\n")
		} else if strings.Contains(a.Text, " ") && r.Bool() {
			fmt.Fprintf(&b, "%s = \"%s\"\n", field, a.Text)
		} else if r.Bool() {
			fmt.Fprintf(&b, "%s = %s\n", field, a.Text)
		} else {
			fmt.Fprintf(&b, "%s=%s  \n", field, a.Text)
		}
		if r.Chance(1, 10) {
			b.WriteString("\n")
		}
	}
	return b.String()
}

// ---------------------------------------------------------------------------------------------
// reference: the documented order and the documented layering rules, written from the property text

// refGlobal: the documented global locations, every one ONCE - a location the environment names twice
// (XDG_CONFIG_HOME=~/.config/please names the user config again) counts at its last, highest-priority mention.
func refGlobal(e envT) []string {
	raw := refGlobalRaw(e)
	out := []string{}
	for i, f := range raw {
		if !contains(raw[i+1:], f) {
			out = append(out, f)
		}
	}
	return out
}

func refGlobalRaw(e envT) []string {
	out := []string{"/etc/please/plzconfig"}
	if e.XdgDirs != "" {
		for _, p := range strings.Split(e.XdgDirs, ":") {
			if strings.HasPrefix(p, "/") {
				out = append(out, p+"/plzconfig")
			}
		}
	}
	out = append(out, e.Home+"/.config/please/plzconfig")
	if strings.HasPrefix(e.XdgHome, "/") {
		out = append(out, e.XdgHome+"/plzconfig")
	}
	return out
}

func refBaseFiles(c *caseT) []string {
	if !c.Default {
		return c.Names
	}
	return append(refGlobal(c.Env), c.Env.Root+"/.plzconfig", c.Env.Root+"/.plzconfig_"+core.OsArch, c.Env.Root+"/.plzconfig.local")
}

// refOrder: every base file, each followed immediately by its profile files.
func refOrder(c *caseT) []string {
	out := []string{}
	for _, f := range refBaseFiles(c) {
		out = append(out, f)
		for _, p := range c.Profiles {
			out = append(out, f+"."+p)
		}
	}
	return out
}

// layerOrder: the sources in priority order.
func layerOrder(c *caseT) []string { return refOrder(c) }

// rawOrder: what the search order would be if a location named twice were read twice (the behaviour before the fix
// 5f1c258; kept as a regression class)
func rawOrder(c *caseT) []string {
	out := []string{}
	for _, f := range append(refGlobalRaw(c.Env), c.Env.Root+"/.plzconfig", c.Env.Root+"/.plzconfig_"+core.OsArch, c.Env.Root+"/.plzconfig.local") {
		out = append(out, f)
		for _, p := range c.Profiles {
			out = append(out, f+"."+p)
		}
	}
	return out
}

func userConfigNamedTwice(c *caseT) bool {
	return c.Default && len(refGlobalRaw(c.Env)) != len(refGlobal(c.Env))
}

func readTwiceClass(c *caseT) string {
	if c.Env.XdgHome == c.Env.Home+"/.config/please" {
		return "user-config-read-twice-when-xdg-config-home-is-its-directory"
	}
	return "global-config-location-read-twice"
}

// layeredList: what the files (no -o) leave in a repeated option - accumulated in read order, a blank clears.
func layeredList(c *caseT, name string) []string {
	files := map[string][]assign{}
	for _, f := range c.Files {
		files[f.Name] = f.Assigns
	}
	acc := []string{}
	for _, fn := range layerOrder(c) {
		for _, a := range files[fn] {
			if a.Opt != name {
				continue
			}
			if a.Blank {
				acc = []string{}
			} else {
				acc = append(acc, a.Canon)
			}
		}
	}
	return acc
}

func contains(l []string, x string) bool {
	for _, y := range l {
		if x == y {
			return true
		}
	}
	return false
}

// pathPassedThrough: the files list PATH in build.passenv or build.passunsafeenv
func pathPassedThrough(c *caseT) bool {
	return contains(layeredList(c, "build.passenv"), "PATH") || contains(layeredList(c, "build.passunsafeenv"), "PATH")
}

// docDefault: the default of an option that no source sets. build.path has a computed one: the $PATH of the caller
// when PATH is passed through to the build environment, else the documented /usr/local/bin:/usr/bin:/bin.
func docDefault(c *caseT, o *optSpec) []string {
	if o.name == "build.path" && pathPassedThrough(c) {
		return strings.Split(c.Path, ":")
	}
	return o.def
}

type refResult struct {
	vals      []string
	mentioned bool // some source (file or -o) sets the option
	hasBlank  bool // a file source contains a blank reset of it
	byOv      bool
}

func reference(c *caseT, o *optSpec) refResult { return referenceWith(c, o, layerOrder(c)) }

func referenceWith(c *caseT, o *optSpec, order []string) refResult {
	files := map[string][]assign{}
	for _, f := range c.Files {
		files[f.Name] = f.Assigns
	}
	res := refResult{}
	for _, ov := range c.Overrides {
		if ov.Opt == o.name {
			res.mentioned, res.byOv = true, true
			if o.multi() {
				res.vals = strings.Split(ov.Text, ",")
			} else {
				res.vals = []string{ov.Canon}
			}
		}
	}
	if res.byOv {
		return res
	}
	if !o.multi() {
		// highest-priority source first; inside one file the last assignment
		for i := len(order) - 1; i >= 0; i-- {
			as := files[order[i]]
			for j := len(as) - 1; j >= 0; j-- {
				if as[j].Opt == o.name {
					res.vals = []string{as[j].Canon}
					res.mentioned = true
					return res
				}
			}
		}
		res.vals = docDefault(c, o)
		return res
	}
	acc := []string{}
	fileMention := false
	for _, name := range order {
		for _, a := range files[name] {
			if a.Opt != o.name {
				continue
			}
			fileMention = true
			if a.Blank {
				acc = []string{}
				res.hasBlank = true
			} else {
				acc = append(acc, a.Canon)
			}
		}
	}
	if fileMention {
		res.mentioned = true
		res.vals = acc
	} else {
		res.vals = docDefault(c, o)
	}
	return res
}

func eqs(a, b []string) bool {
	if len(a) != len(b) {
		return false
	}
	for i := range a {
		if a[i] != b[i] {
			return false
		}
	}
	return true
}

// ---------------------------------------------------------------------------------------------
// running the implementation

func run(c *caseT) {
	os.Setenv("HOME", c.Env.Home)
	if c.Env.XdgDirs == "" {
		os.Unsetenv("XDG_CONFIG_DIRS")
	} else {
		os.Setenv("XDG_CONFIG_DIRS", c.Env.XdgDirs)
	}
	if c.Env.XdgHome == "" {
		os.Unsetenv("XDG_CONFIG_HOME")
	} else {
		os.Setenv("XDG_CONFIG_HOME", c.Env.XdgHome)
	}
	core.RepoRoot = c.Env.Root
	oldPath := os.Getenv("PATH")
	os.Setenv("PATH", c.Path)
	defer os.Setenv("PATH", oldPath)
	if c.Kind == "plugin" {
		runPlugin(c)
		return
	}
	if c.Kind == "hostfs" {
		runHost(c)
		return
	}
	m := &memFS{files: map[string]string{}, faults: map[string]syscall.Errno{}}
	rr := lib.NewRng(uint64(len(c.Files))*7919 + uint64(len(c.Profiles)))
	for _, f := range c.Files {
		m.files[f.Name] = render(rr, f.Assigns)
	}
	for _, f := range c.Faults {
		m.faults[f.Name] = errnos[f.Errno]
	}
	var cfg *core.Configuration
	var err error
	if c.Default {
		ps := make([]core.ConfigProfile, len(c.Profiles))
		for i, p := range c.Profiles {
			ps[i] = core.ConfigProfile(p)
		}
		cfg, err = core.ReadDefaultConfigFiles(m, ps)
	} else {
		cfg, err = core.ReadConfigFiles(m, c.Names, c.Profiles)
	}
	c.Opens = m.opens
	if err == nil {
		ov := map[string]string{}
		for _, o := range c.Overrides {
			ov[o.Opt] = o.Text
		}
		err = cfg.ApplyOverrides(ov)
	}
	c.Err, c.Result = "", nil
	if err != nil {
		c.Err = err.Error()
		return
	}
	for _, o := range opts {
		c.Result = append(c.Result, o.get(cfg))
	}
}

// ---------------------------------------------------------------------------------------------
// Coq term. Strings are interned: the case files start with one definition per distinct string
// (type-checking string literals dominates the evaluation time otherwise).

var internIdx = map[string]int{}
var internDefs []string

func S(x string) string {
	i, ok := internIdx[x]
	if !ok {
		i = len(internDefs)
		internIdx[x] = i
		internDefs = append(internDefs, fmt.Sprintf("Definition z%d : str := Eval vm_compute in %s.", i, lib.Str(x)))
	}
	return fmt.Sprintf("z%d", i)
}

func SList(xs []string) string {
	out := make([]string, len(xs))
	for i, x := range xs {
		out[i] = S(x)
	}
	return lib.List(out)
}

func modelHeader() string {
	return "From PlzV Require Import Model.C39.\n" + strings.Join(internDefs, "\n")
}

func coqEnv(e envT) string {
	return fmt.Sprintf("{| e_xdg_dirs := %s; e_home := %s; e_xdg_home := %s; e_root := %s; e_arch := %s |}",
		S(e.XdgDirs), S(e.Home), S(e.XdgHome), S(e.Root), S(core.OsArch))
}

func coqCase(c *caseT) string {
	if c.Kind == "plugin" {
		return coqPluginCase(c)
	}
	var files string
	if c.Default {
		files = lib.App("Default", coqEnv(c.Env))
	} else {
		files = lib.App("Explicit", SList(c.Names))
	}
	notThere := map[string]bool{} // Open reports "does not exist": the file is absent as far as the reader can tell
	faults := []string{}
	for _, f := range c.Faults {
		if f.Errno == "ENOENT" {
			notThere[f.Name] = true
		} else {
			faults = append(faults, f.Name)
		}
	}
	fsItems := []string{}
	for _, f := range c.Files {
		if notThere[f.Name] {
			continue
		}
		as := []string{}
		for _, a := range f.Assigns {
			o := optByName[a.Opt]
			if a.Blank {
				as = append(as, lib.App("Blank", o.coq()))
			} else {
				as = append(as, lib.App("Assign", o.coq(), S(a.Canon)))
			}
		}
		fsItems = append(fsItems, lib.Pair(S(f.Name), lib.List(as)))
	}
	ovs := []string{}
	for _, ov := range c.Overrides {
		o := optByName[ov.Opt]
		v := ov.Canon
		if o.multi() {
			v = ov.Text
		}
		ovs = append(ovs, lib.Pair(o.coq(), S(v)))
	}
	result := "None"
	if c.Err == "" {
		items := []string{}
		for i := range opts {
			items = append(items, SList(c.Result[i]))
		}
		result = lib.Some(lib.List(items))
	}
	if c.Kind == "fault" {
		return lib.App("CFault", S(c.Path), files, SList(c.Profiles), lib.List(fsItems), SList(faults), lib.List(ovs), SList(c.Opens), result)
	}
	return lib.App("CRead", S(c.Path), files, SList(c.Profiles), lib.List(fsItems), lib.List(ovs), SList(c.Opens), result)
}

// ---------------------------------------------------------------------------------------------
// generator

var profilePool = []string{"dev", "remote", "ci", "local"}

func genEnv(r *lib.Rng) envT {
	e := genEnv0(r)
	if r.Chance(1, 10) {
		e.XdgHome = e.Home + "/.config/please" // names ~/.config/please/plzconfig a second time
	}
	return e
}

func genEnv0(r *lib.Rng) envT {
	return envT{
		XdgDirs: lib.Pick(r, []string{"", "", "/etc/xdg", "/etc/xdg:/opt/cfg", "rel/dir:/etc/xdg", "/opt/cfg:", "::", "/opt/cfg:/etc/xdg:/opt/cfg"}),
		Home:    lib.Pick(r, []string{"/home/u", "/root", "/home/u"}),
		XdgHome: lib.Pick(r, []string{"", "", "/home/u/.xdg", "relative/.config", "/home/u/.config"}),
		Root:    lib.Pick(r, []string{"/work/repo", "/r"}),
	}
}

func genAssigns(r *lib.Rng, o *optSpec, adversarial bool) []assign {
	n := 1
	if o.multi() {
		n = r.Range(1, 3)
	} else if r.Chance(1, 6) {
		n = 2
	}
	out := []assign{}
	for i := 0; i < n; i++ {
		blankOdds := 0
		switch o.kind {
		case "multi":
			blankOdds = 25
			if adversarial {
				blankOdds = 45
			}
		case "bool", "map":
			blankOdds = 15
		case "str":
			if adversarial {
				blankOdds = 3 // fatal error in gcfg: the whole read fails
			}
		}
		if r.Intn(100) < blankOdds {
			a := assign{Opt: o.name, Blank: true}
			if o.kind == "bool" {
				a.Canon = "true" // documented: a bool named without a value is switched on
			}
			out = append(out, a)
			continue
		}
		v := lib.Pick(r, o.vals)
		if v.text == "" && (o.typ == "[]string+options" || o.typ == "[]BuildLabel") {
			v = o.vals[0]
		}
		out = append(out, assign{Opt: o.name, Text: v.text, Canon: v.canon})
	}
	return out
}

// pathScenario: the stream aimed at the computed default of build.path. build.path, build.passenv and
// build.passunsafeenv are the focus; PATH is listed (and sometimes cleared again by a blank reset, or only named in
// a file outside the search order / a -o) in one of the two lists, build.path is set explicitly in 0-2 files.
func pathScenario(r *lib.Rng, c *caseT, cands []string) (map[string][]assign, []ovr) {
	content := map[string][]assign{}
	add := func(f string, a assign) { content[f] = append(content[f], a) }
	pe := lib.Pick(r, []string{"build.passenv", "build.passunsafeenv"})
	val := func(name string) assign {
		v := lib.Pick(r, optByName[name].vals)
		return assign{Opt: name, Text: v.text, Canon: v.canon}
	}
	// PATH passed through (4/5), by one or both lists
	if !r.Chance(1, 5) {
		add(lib.Pick(r, cands), assign{Opt: pe, Text: "PATH", Canon: "PATH"})
		if r.Chance(1, 4) {
			add(lib.Pick(r, cands), assign{Opt: "build.passunsafeenv", Text: "PATH", Canon: "PATH"})
		}
	}
	for i, n := 0, r.Range(0, 2); i < n; i++ { // other variables around it
		add(lib.Pick(r, cands), val(lib.Pick(r, []string{"build.passenv", "build.passunsafeenv"})))
	}
	if r.Chance(1, 4) { // ... cleared again somewhere (takes effect only if read later)
		add(lib.Pick(r, cands), assign{Opt: pe, Blank: true})
	}
	// build.path set explicitly by 0-2 files (2/3), sometimes ending in a blank reset
	if !r.Chance(1, 3) {
		for i, n := 0, r.Range(1, 2); i < n; i++ {
			add(lib.Pick(r, cands), val("build.path"))
		}
		if r.Chance(1, 6) {
			add(lib.Pick(r, cands), assign{Opt: "build.path", Blank: true})
		}
	}
	ovs := []ovr{}
	if r.Chance(1, 8) {
		ovs = append(ovs, ovr{Opt: "build.path", Text: "/ov/bin,/bin", Canon: "/ov/bin,/bin"})
	}
	if r.Chance(1, 8) { // -o is applied after the computed default was installed
		ovs = append(ovs, ovr{Opt: pe, Text: "PATH", Canon: "PATH"})
	}
	return content, ovs
}

// covScenario: cpp.coverage and test.disablecoverage together
func covScenario(r *lib.Rng, c *caseT, cands []string) (map[string][]assign, []ovr) {
	content := map[string][]assign{}
	add := func(f string, a assign) { content[f] = append(content[f], a) }
	for i, n := 0, r.Range(1, 2); i < n; i++ {
		v := lib.Pick(r, []tv{{"false", "false"}, {"false", "false"}, {"no", "false"}, {"true", "true"}, {"off", "false"}})
		add(lib.Pick(r, cands), assign{Opt: "cpp.coverage", Text: v.text, Canon: v.canon})
	}
	for i, n := 0, r.Range(0, 2); i < n; i++ {
		v := lib.Pick(r, covLabels)
		add(lib.Pick(r, cands), assign{Opt: "test.disablecoverage", Text: v.text, Canon: v.canon})
	}
	if r.Chance(1, 6) {
		add(lib.Pick(r, cands), assign{Opt: "test.disablecoverage", Blank: true})
	}
	ovs := []ovr{}
	if r.Chance(1, 8) {
		ovs = append(ovs, ovr{Opt: "test.disablecoverage", Text: "manual", Canon: "manual"})
	}
	if r.Chance(1, 8) {
		v := lib.Pick(r, boolOv)
		ovs = append(ovs, ovr{Opt: "cpp.coverage", Text: v.text, Canon: v.canon})
	}
	return content, ovs
}

// versionScenario: please.version = >=X in a lower layer, an exact version in a higher one (regression for the sticky ">=":
// the effective value must be the exact version, without ">="), sometimes the other way round or three layers.
func versionScenario(r *lib.Rng, c *caseT, cands []string) (map[string][]assign, []ovr) {
	content := map[string][]assign{}
	i := r.Intn(len(cands))
	j := r.Intn(len(cands))
	if i > j {
		i, j = j, i
	}
	gte := lib.Pick(r, []tv{{">=16.0.0", ">=16.0.0"}, {">= 16.2.0", ">=16.2.0"}, {">=17.0.0", ">=17.0.0"}})
	exact := lib.Pick(r, []tv{{"17.1.0", "17.1.0"}, {"16.5.1", "16.5.1"}})
	lo, hi := gte, exact
	if r.Chance(1, 5) {
		lo, hi = exact, gte
	}
	content[cands[i]] = append(content[cands[i]], assign{Opt: "please.version", Text: lo.text, Canon: lo.canon})
	content[cands[j]] = append(content[cands[j]], assign{Opt: "please.version", Text: hi.text, Canon: hi.canon})
	if r.Chance(1, 4) {
		k := r.Intn(len(cands))
		v := lib.Pick(r, versionVals)
		content[cands[k]] = append(content[cands[k]], assign{Opt: "please.version", Text: v.text, Canon: v.canon})
	}
	return content, []ovr{}
}

// genFault: a plain case in which the Open of one (rarely two) of the config locations fails. Mostly a location that
// exists and sets something; ENOENT is the one errno that legitimately means "not there".
func genFault(r *lib.Rng) *caseT {
	c := generate(r)
	c.Kind = "fault"
	order := refOrder(c)
	existing := []string{}
	inOrder := map[string]bool{}
	for _, n := range order {
		inOrder[n] = true
	}
	for _, f := range c.Files {
		if inOrder[f.Name] && len(f.Assigns) > 0 {
			existing = append(existing, f.Name)
		}
	}
	n := 1
	if r.Chance(1, 8) {
		n = 2
	}
	seen := map[string]bool{}
	for i := 0; i < n; i++ {
		name := lib.Pick(r, order)
		if len(existing) > 0 && !r.Chance(1, 4) {
			name = lib.Pick(r, existing)
		}
		if seen[name] {
			continue
		}
		seen[name] = true
		c.Faults = append(c.Faults, faultT{Name: name, Errno: lib.Pick(r, errnoNames)})
	}
	return c
}

func generate(r *lib.Rng) *caseT {
	c := &caseT{Default: !r.Chance(1, 5), Env: genEnv(r), Path: lib.Pick(r, callerPaths)}
	scenario := lib.Pick(r, []string{"", "", "", "", "", "", "", "", "", "", "", "", "", "", "path", "path", "path", "path", "cov", "cov", "version"})
	c.Scenario = scenario
	np := lib.Pick(r, []int{0, 0, 1, 1, 1, 2})
	pp := append([]string{}, profilePool...)
	lib.Shuffle(r, pp)
	c.Profiles = pp[:np]
	if np == 2 && r.Chance(1, 10) {
		c.Profiles[1] = c.Profiles[0] // the same profile twice
	}
	if !c.Default {
		pool := []string{"a.cfg", "conf/b.cfg", "/abs/c.cfg", "a.cfg.dev", "d"}
		n := r.Range(1, 4)
		for i := 0; i < n; i++ {
			c.Names = append(c.Names, lib.Pick(r, pool)) // duplicates allowed: the file is read twice
		}
	}
	order := refOrder(c)
	adversarial := r.Chance(1, 3)
	// the options this case is about
	nfocus := r.Range(1, 4)
	focus := []*optSpec{}
	for i := 0; i < nfocus; i++ {
		o := lib.Pick(r, opts)
		if i > 0 && r.Chance(1, 3) { // keep the goroot/gotool pair together sometimes
			switch focus[0].name {
			case "go.goroot":
				o = optByName["go.gotool"]
			case "go.gotool":
				o = optByName["go.goroot"]
			case "build.path":
				o = optByName[lib.Pick(r, []string{"build.passenv", "build.passunsafeenv"})]
			case "build.passenv", "build.passunsafeenv":
				o = optByName["build.path"]
			case "cpp.coverage":
				o = optByName["test.disablecoverage"]
			case "test.disablecoverage":
				o = optByName["cpp.coverage"]
			}
		}
		focus = append(focus, o)
	}
	// which files exist: a random subset of the candidates (deduplicated, keeping first position)
	seen := map[string]bool{}
	cands := []string{}
	for _, n := range order {
		if !seen[n] {
			seen[n] = true
			cands = append(cands, n)
		}
	}
	content := map[string][]assign{}
	exists := map[string]bool{}
	var scenOvs []ovr
	if scenario != "" {
		var sc map[string][]assign
		switch scenario {
		case "path":
			sc, scenOvs = pathScenario(r, c, cands)
		case "version":
			sc, scenOvs = versionScenario(r, c, cands)
		default:
			sc, scenOvs = covScenario(r, c, cands)
		}
		for f, as := range sc {
			exists[f] = true
			content[f] = append(content[f], as...)
		}
		if r.Bool() {
			focus = focus[:1] // keep one unrelated option around
		}
	}
	for _, o := range focus {
		k := r.Range(0, 4)
		if adversarial {
			k = r.Range(2, 5)
		}
		for i := 0; i < k; i++ {
			f := lib.Pick(r, cands)
			exists[f] = true
			content[f] = append(content[f], genAssigns(r, o, adversarial)...)
		}
	}
	for _, f := range cands {
		if r.Chance(1, 12) {
			exists[f] = true // an existing file that sets nothing of interest
		}
	}
	for _, f := range cands {
		if exists[f] {
			as := content[f]
			if len(as) > 1 && r.Bool() {
				lib.Shuffle(r, as) // interleave the options inside one file
			}
			if as == nil {
				as = []assign{}
			}
			c.Files = append(c.Files, cfgFile{Name: f, Assigns: as})
		}
	}
	// a file outside the search order must never be read
	if r.Chance(1, 6) {
		o := focus[0]
		c.Files = append(c.Files, cfgFile{Name: c.Env.Root + "/.plzconfig.unused", Assigns: genAssigns(r, o, false)})
	}
	for _, o := range focus {
		odds := 4
		if adversarial {
			odds = 2
		}
		if !r.Chance(1, odds) {
			continue
		}
		if o.multi() {
			n := r.Range(0, 3)
			parts := []string{}
			for i := 0; i < n; i++ {
				v := lib.Pick(r, o.vals).text
				if v == "" || strings.Contains(v, ",") {
					v = o.vals[0].text
				}
				parts = append(parts, v)
			}
			if n == 0 && (o.typ == "[]string+options" || o.typ == "[]BuildLabel") {
				parts = []string{o.vals[0].text}
			}
			t := strings.Join(parts, ",")
			c.Overrides = append(c.Overrides, ovr{Opt: o.name, Text: t, Canon: t})
		} else if len(o.ovals) > 0 {
			v := lib.Pick(r, o.ovals)
			c.Overrides = append(c.Overrides, ovr{Opt: o.name, Text: v.text, Canon: v.canon})
		}
	}
	c.Overrides = append(scenOvs, c.Overrides...)
	// -o keys are a Go map: one entry per option
	dedup := map[string]bool{}
	ovs := []ovr{}
	for _, ov := range c.Overrides {
		if !dedup[ov.Opt] {
			dedup[ov.Opt] = true
			ovs = append(ovs, ov)
		}
	}
	c.Overrides = ovs
	if c.Overrides == nil {
		c.Overrides = []ovr{}
	}
	if c.Files == nil {
		c.Files = []cfgFile{}
	}
	return c
}

// ---------------------------------------------------------------------------------------------
// oracle

func settersOf(c *caseT, o *optSpec) int {
	n := 0
	order := map[string]bool{}
	for _, f := range refOrder(c) {
		order[f] = true
	}
	for _, f := range c.Files {
		if !order[f.Name] {
			continue
		}
		for _, a := range f.Assigns {
			if a.Opt == o.name {
				n++
				break
			}
		}
	}
	for _, ov := range c.Overrides {
		if ov.Opt == o.name {
			n++
		}
	}
	return n
}

func oracle(c *lib.Ctx, cs *caseT) {
	js := cs
	if cs.Kind == "plugin" {
		oraclePlugin(c, cs)
		return
	}
	if cs.Kind == "hostfs" {
		oracleHost(c, cs)
		return
	}
	// 0. a location that exists but cannot be opened must make the read fail: a configuration computed as if that layer
	// were not there is never the documented one
	if len(cs.Faults) > 0 {
		c.Oracle()
		inOrder := map[string]bool{}
		for _, n := range refOrder(cs) {
			inOrder[n] = true
		}
		for _, f := range cs.Faults {
			if f.Errno != "ENOENT" && inOrder[f.Name] && cs.Err == "" {
				c.Fail("unopenable-layer-silently-skipped", fmt.Sprintf("open(%s) fails with %s, but the read reports no error and returns a configuration computed without that layer", f.Name, f.Errno), js)
				return
			}
		}
		if cs.Err == "" {
			// only "does not exist" faults: those files are absent
			gone := map[string]bool{}
			for _, f := range cs.Faults {
				gone[f.Name] = true
			}
			cp := *cs
			cp.Files = nil
			for _, f := range cs.Files {
				if !gone[f.Name] {
					cp.Files = append(cp.Files, f)
				}
			}
			cp.Faults = nil
			cp.Kind = ""
			js = cs
			csNoFault := cp
			oracleValues(c, &csNoFault, js)
			return
		}
	}
	oracleValues(c, cs, js)
}

func oracleValues(c *lib.Ctx, cs *caseT, js *caseT) {
	// 1. order of the sources
	c.Oracle()
	want := refOrder(cs)
	if cs.Err == "" && !eqs(cs.Opens, want) && userConfigNamedTwice(cs) && eqs(cs.Opens, rawOrder(cs)) {
		c.Fail(readTwiceClass(cs), fmt.Sprintf("a global config location the environment names twice is opened twice: %v; every location is one source: %v", cs.Opens, want), js)
	} else if cs.Err == "" && !eqs(cs.Opens, want) {
		class := "file-order"
		if len(cs.Opens) == len(want) {
			class = "profile-file-not-right-after-its-file"
			a, b := map[string]int{}, map[string]int{}
			for i := range want {
				a[want[i]]++
				b[cs.Opens[i]]++
			}
			for k, v := range a {
				if b[k] != v {
					class = "file-order"
				}
			}
			base := refBaseFiles(cs)
			bi := 0
			for _, n := range cs.Opens { // are the base files still in the documented relative order?
				if bi < len(base) && n == base[bi] {
					bi++
				}
			}
			if bi != len(base) {
				class = "base-files-not-in-documented-order"
			}
		}
		c.Fail(class, fmt.Sprintf("files opened in order %v, documented order is %v", cs.Opens, want), js)
	}
	if cs.Err != "" {
		return
	}
	// 2. every sampled option against the documented rules
	// GoRoot as the files leave it (a -o on go.goroot is applied after GoTool was derived from it)
	noOv := *cs
	noOv.Overrides = nil
	goroot := reference(&noOv, optByName["go.goroot"]).vals[0]
	cppCoverageOff := reference(&noOv, optByName["cpp.coverage"]).vals[0] == "false"
	callerPath := strings.Split(cs.Path, ":")
	for i, o := range opts {
		c.Oracle()
		ref := reference(cs, o)
		got := cs.Result[i]
		if eqs(got, ref.vals) {
			continue
		}
		if userConfigNamedTwice(cs) {
			// the user config is one source; the search order names it twice and it is read (and accumulated) twice
			refD := referenceWith(cs, o, rawOrder(cs))
			if !eqs(refD.vals, ref.vals) && eqs(got, refD.vals) && eqs(cs.Opens, rawOrder(cs)) {
				c.Fail(readTwiceClass(cs),
					fmt.Sprintf("%s: the environment (XDG_CONFIG_HOME=%q XDG_CONFIG_DIRS=%q) names a global config location twice; its entries are accumulated twice: %q, one application gives %q", o.name, cs.Env.XdgHome, cs.Env.XdgDirs, got, ref.vals), js)
				continue
			}
		}
		class, what := "", ""
		def := docDefault(cs, o)
		switch {
		// "an option set by any source never gets a default": the sources leave a non-empty value, the
		// implementation reports a default instead (a documented literal, or build.path's computed $PATH)
		case ref.mentioned && len(ref.vals) > 0 && o.name == "build.path" && eqs(got, callerPath) && !eqs(got, o.def):
			class = "computed-path-default-overrides-explicit-build-path"
			what = fmt.Sprintf("build.path: a source sets it to %q but the $PATH of the caller %q is installed (PATH passed through: %v)", ref.vals, got, pathPassedThrough(cs))
		case ref.mentioned && len(ref.vals) > 0 && len(o.def) > 0 && eqs(got, o.def):
			class = "default-applied-to-option-set-by-a-source"
			what = fmt.Sprintf("%s: a source sets it to %q but the default %q is reported", o.name, ref.vals, got)
		case o.name == "build.path" && !ref.mentioned && !eqs(def, o.def) && eqs(got, o.def):
			class = "computed-path-default-not-applied"
			what = fmt.Sprintf("build.path: no source sets it and PATH is passed through, but %q is used, not the caller's PATH %q", got, def)
		case o.name == "build.path" && !ref.mentioned && eqs(def, o.def) && eqs(got, callerPath):
			class = "computed-path-default-applied-without-passenv"
			what = fmt.Sprintf("build.path: no source lists PATH in passenv/passunsafeenv, but the caller's PATH %q is used", got)
		case o.name == "test.disablecoverage" && !ref.byOv && cppCoverageOff && eqs(got, append(append([]string{}, ref.vals...), "cc")):
			class = "disablecoverage-cc-appended-when-cpp-coverage-off"
			what = fmt.Sprintf("test.disablecoverage: the sources give %q but cpp.coverage=false (from the files) makes ReadConfigFiles append \"cc\": %q", ref.vals, got)
		case o.multi() && ref.mentioned && !ref.byOv && len(ref.vals) == 0 && o.lateDef && len(def) > 0 && eqs(got, def):
			class = "list-default-restored-after-blank-reset"
			what = fmt.Sprintf("%s: the sources leave the list empty (last word is a blank reset) but the default %v comes back", o.name, got)
		case o.multi() && ref.mentioned && !ref.byOv && !ref.hasBlank && !o.lateDef && len(o.def) > 0 && eqs(got, append(append([]string{}, o.def...), ref.vals...)):
			class = "preset-list-default-kept-when-set"
			what = fmt.Sprintf("%s: sources set %v but the built-in default entries stay in front: %v", o.name, ref.vals, got)
		case o.name == "go.gotool" && !ref.byOv && goroot != "" && eqs(got, []string{goroot + "/bin/go"}):
			class = "gotool-overwritten-by-goroot"
			what = fmt.Sprintf("go.gotool: documented layering gives %v but GoRoot=%s overwrites it with %v", ref.vals, goroot, got)
		case !o.multi() && ref.mentioned:
			class = "scalar-not-from-highest-priority-source"
		case !o.multi():
			class = "scalar-default-wrong"
		case ref.byOv:
			class = "override-does-not-replace-list"
		case ref.mentioned && ref.hasBlank:
			class = "list-blank-reset-wrong"
		case ref.mentioned:
			class = "list-not-accumulated-in-order"
		default:
			class = "list-default-wrong"
		}
		if what == "" {
			what = fmt.Sprintf("%s: implementation gives %q, the documented layering gives %q", o.name, got, ref.vals)
		}
		c.Fail(class, what, js)
	}
}

// ---------------------------------------------------------------------------------------------
// [Plugin "x"] sections. Keys of a plugin section are case-insensitive; the value of an option is the one from the
// highest-priority file that sets it, however that file and the lower ones capitalise the key.

type passign struct {
	Plugin string `json:"plugin"`
	Key    string `json:"key"` // as written in the file
	Value  string `json:"value"`
}

type pfileT struct {
	Name    string    `json:"name"`
	Assigns []passign `json:"assigns"`
}

type pvalT struct {
	Set  bool     `json:"set"`
	Vals []string `json:"vals,omitempty"`
}

type pluginT struct {
	Files       []pfileT    `json:"files"`
	Queries     [][2]string `json:"queries"`    // (plugin, lower-case key)
	Repeatable  []string    `json:"repeatable"` // plugin.key of the options the plugin declares repeatable
	Reads       int         `json:"reads"`      // the read is repeated: Go's map iteration order varies between runs
	Results     []pvalT     `json:"results,omitempty"`
	Varied      []string    `json:"varied,omitempty"` // queries whose value was not the same on every read, with the values seen
	TwoSpelling bool        `json:"two_spellings,omitempty"`
}

var pluginNames = []string{"go", "cc", "python"}
var pluginKeys = map[string][]string{
	"go":     {"gotool", "importpath", "cgoenabled", "ldflags"},
	"cc":     {"cctool", "defaultoptcflags", "coverage"},
	"python": {"defaultinterpreter", "pipflags", "moduledir"},
}
var repeatableKeys = map[string]bool{"go.ldflags": true, "cc.defaultoptcflags": true, "python.pipflags": true}

// spellings of one lower-case key: as is, Capitalised, CamelCase-ish, UPPER
func spell(r *lib.Rng, key string) string {
	switch r.Intn(5) {
	case 0, 1:
		return key
	case 2:
		return strings.ToUpper(key[:1]) + key[1:]
	case 3:
		b := []byte(key)
		b[0] = byte(strings.ToUpper(key[:1])[0])
		k := 1 + r.Intn(len(b)-1)
		b[k] = byte(strings.ToUpper(string(b[k]))[0])
		return string(b)
	}
	return strings.ToUpper(key)
}

func renderPlugin(r *lib.Rng, as []passign) string {
	var b strings.Builder
	last := ""
	for _, a := range as {
		if a.Plugin != last || r.Chance(1, 5) {
			fmt.Fprintf(&b, "[%s \"%s\"]\n", lib.Pick(r, []string{"Plugin", "plugin", "PLUGIN"}), a.Plugin)
			last = a.Plugin
		}
		if r.Bool() {
			fmt.Fprintf(&b, "%s = %s\n", a.Key, a.Value)
		} else {
			fmt.Fprintf(&b, "%s=%s\n", a.Key, a.Value)
		}
	}
	return b.String()
}

func genPlugin(r *lib.Rng, twoSpellings bool) *caseT {
	c := &caseT{Kind: "plugin", Default: !r.Chance(1, 4), Env: genEnv0(r), Path: "/usr/bin", Overrides: []ovr{}, Files: []cfgFile{}}
	np := lib.Pick(r, []int{0, 0, 1, 1, 2})
	pp := append([]string{}, profilePool...)
	lib.Shuffle(r, pp)
	c.Profiles = pp[:np]
	if !c.Default {
		pool := []string{"a.cfg", "conf/b.cfg", "/abs/c.cfg", "d"}
		lib.Shuffle(r, pool)
		c.Names = pool[:r.Range(2, 4)]
	}
	cands := refOrder(c)
	pl := &pluginT{Reads: 24, TwoSpelling: twoSpellings}
	content := map[string][]passign{}
	nfocus := r.Range(1, 3)
	seenQ := map[string]bool{}
	serial := 0
	for i := 0; i < nfocus; i++ {
		plugin := lib.Pick(r, pluginNames)
		key := lib.Pick(r, pluginKeys[plugin])
		if seenQ[plugin+"."+key] {
			continue
		}
		seenQ[plugin+"."+key] = true
		pl.Queries = append(pl.Queries, [2]string{plugin, key})
		layers := r.Range(1, 3)
		if i == 0 {
			layers = r.Range(2, 3) // the first focus option is always layered
		}
		used := map[string]bool{}
		for l := 0; l < layers; l++ {
			f := lib.Pick(r, cands)
			if used[f] {
				continue
			}
			used[f] = true
			sp := spell(r, key)
			nv := 1
			if repeatableKeys[plugin+"."+key] && r.Chance(1, 2) {
				nv = 2
			}
			for v := 0; v < nv; v++ {
				serial++
				content[f] = append(content[f], passign{Plugin: plugin, Key: sp, Value: fmt.Sprintf("v%d-%s", serial, filepath.Base(f))})
			}
			if twoSpellings && l == 0 {
				serial++
				other := strings.ToUpper(key)
				if other == sp {
					other = key
				}
				content[f] = append(content[f], passign{Plugin: plugin, Key: other, Value: fmt.Sprintf("v%d-other-spelling", serial)})
			}
		}
		// a neighbour option of the same plugin that only one (usually a lower) layer sets: it must be kept
		if r.Chance(1, 2) {
			other := lib.Pick(r, pluginKeys[plugin])
			if !seenQ[plugin+"."+other] {
				seenQ[plugin+"."+other] = true
				pl.Queries = append(pl.Queries, [2]string{plugin, other})
				serial++
				f := lib.Pick(r, cands)
				content[f] = append(content[f], passign{Plugin: plugin, Key: spell(r, other), Value: fmt.Sprintf("v%d-only", serial)})
			}
		}
	}
	// an option nobody sets
	if r.Chance(1, 3) {
		pl.Queries = append(pl.Queries, [2]string{"go", "unsetoption"})
	}
	for _, f := range cands {
		if as, ok := content[f]; ok {
			dup := false
			for _, g := range pl.Files {
				dup = dup || g.Name == f
			}
			if !dup {
				if len(as) > 1 && r.Chance(1, 3) {
					sort.SliceStable(as, func(i, j int) bool { return as[i].Plugin < as[j].Plugin })
				}
				pl.Files = append(pl.Files, pfileT{Name: f, Assigns: as})
			}
		}
	}
	for k := range repeatableKeys {
		pl.Repeatable = append(pl.Repeatable, k)
	}
	sort.Strings(pl.Repeatable)
	c.Plugin = pl
	return c
}

func setEnv(c *caseT) {
	os.Setenv("HOME", c.Env.Home)
	if c.Env.XdgDirs == "" {
		os.Unsetenv("XDG_CONFIG_DIRS")
	} else {
		os.Setenv("XDG_CONFIG_DIRS", c.Env.XdgDirs)
	}
	if c.Env.XdgHome == "" {
		os.Unsetenv("XDG_CONFIG_HOME")
	} else {
		os.Setenv("XDG_CONFIG_HOME", c.Env.XdgHome)
	}
	core.RepoRoot = c.Env.Root
}

func runPlugin(c *caseT) {
	setEnv(c)
	pl := c.Plugin
	texts := map[string]string{}
	rr := lib.NewRng(uint64(len(pl.Files))*104729 + uint64(len(c.Profiles)))
	for _, f := range pl.Files {
		texts[f.Name] = renderPlugin(rr, f.Assigns)
	}
	pl.Results, pl.Varied = nil, nil
	c.Err = ""
	seen := make([]map[string]bool, len(pl.Queries))
	for i := range seen {
		seen[i] = map[string]bool{}
	}
	for k := 0; k < pl.Reads; k++ {
		m := &memFS{files: texts, faults: map[string]syscall.Errno{}}
		var cfg *core.Configuration
		var err error
		if c.Default {
			ps := make([]core.ConfigProfile, len(c.Profiles))
			for i, p := range c.Profiles {
				ps[i] = core.ConfigProfile(p)
			}
			cfg, err = core.ReadDefaultConfigFiles(m, ps)
		} else {
			cfg, err = core.ReadConfigFiles(m, c.Names, c.Profiles)
		}
		if k == 0 {
			c.Opens = m.opens
		}
		if err != nil {
			c.Err = err.Error()
			return
		}
		for i, q := range pl.Queries {
			v := pvalT{}
			if p, ok := cfg.Plugin[q[0]]; ok && p != nil {
				if vals, ok := p.ExtraValues[q[1]]; ok {
					v = pvalT{Set: true, Vals: strs(vals)}
				}
			}
			if k == 0 {
				pl.Results = append(pl.Results, v)
			}
			seen[i][fmt.Sprintf("%v %q", v.Set, v.Vals)] = true
		}
	}
	for i, q := range pl.Queries {
		if len(seen[i]) > 1 {
			pl.Varied = append(pl.Varied, fmt.Sprintf("%s.%s: %v", q[0], q[1], lib.SortedKeys(seen[i])))
		}
	}
}

func coqPluginCase(c *caseT) string {
	var files string
	if c.Default {
		files = lib.App("Default", coqEnv(c.Env))
	} else {
		files = lib.App("Explicit", SList(c.Names))
	}
	pl := c.Plugin
	fsItems := []string{}
	for _, f := range pl.Files {
		as := []string{}
		for _, a := range f.Assigns {
			as = append(as, lib.Pair(lib.Pair(S(a.Plugin), S(a.Key)), S(a.Value)))
		}
		fsItems = append(fsItems, lib.Pair(S(f.Name), lib.List(as)))
	}
	qs, rs := []string{}, []string{}
	for i, q := range pl.Queries {
		qs = append(qs, lib.Pair(S(q[0]), S(q[1])))
		if i < len(pl.Results) && pl.Results[i].Set {
			rs = append(rs, lib.Some(SList(pl.Results[i].Vals)))
		} else {
			rs = append(rs, "None")
		}
	}
	return lib.App("CPlugin", files, SList(c.Profiles), lib.List(fsItems), lib.List(qs), SList(c.Opens), lib.List(rs))
}

// per-layer values of one plugin option, lowest priority first (case-insensitive on the key)
type players struct {
	files [][]string // values per file that sets it, in priority order
	twoSp []bool     // that file spells the key in more than one way
}

func pluginLayers(c *caseT, q [2]string) players {
	byName := map[string][]passign{}
	for _, f := range c.Plugin.Files {
		byName[f.Name] = f.Assigns
	}
	out := players{}
	for _, n := range layerOrder(c) {
		vals := []string{}
		sp := map[string]bool{}
		for _, a := range byName[n] {
			if a.Plugin == q[0] && strings.ToLower(a.Key) == q[1] {
				vals = append(vals, a.Value)
				sp[a.Key] = true
			}
		}
		if len(sp) > 0 {
			out.files = append(out.files, vals)
			out.twoSp = append(out.twoSp, len(sp) > 1)
		}
	}
	return out
}

func oraclePlugin(c *lib.Ctx, cs *caseT) {
	pl := cs.Plugin
	c.Oracle()
	if cs.Err != "" {
		c.Fail("plugin-config-read-error", "reading well-formed plugin sections failed: "+cs.Err, cs)
		return
	}
	if want := refOrder(cs); !eqs(cs.Opens, want) {
		c.Fail("file-order", fmt.Sprintf("files opened in order %v, documented order is %v", cs.Opens, want), cs)
	}
	varied := map[string]string{}
	for _, v := range pl.Varied {
		name, _, _ := strings.Cut(v, ":")
		varied[name] = v
	}
	for i, q := range pl.Queries {
		c.Oracle()
		name := q[0] + "." + q[1]
		ls := pluginLayers(cs, q)
		got := pl.Results[i]
		topTwo := len(ls.twoSp) > 0 && ls.twoSp[len(ls.twoSp)-1]
		// documented value
		want := pvalT{}
		if len(ls.files) > 0 {
			want.Set = true
			if repeatableKeys[name] {
				for _, f := range ls.files {
					want.Vals = append(want.Vals, f...)
				}
			} else {
				want.Vals = ls.files[len(ls.files)-1]
			}
		}
		if v, ok := varied[name]; ok {
			if topTwo {
				c.Fail("plugin-key-spelled-two-ways-in-one-file-map-order", "the highest-priority file that sets the option spells its key in two ways; which spelling's values survive varies from read to read: "+v, cs)
			} else {
				c.Fail("plugin-option-value-depends-on-map-iteration-order", fmt.Sprintf("the same files read %d times give different values: %s; documented: %q", pl.Reads, v, want.Vals), cs)
			}
			continue
		}
		if got.Set == want.Set && eqs(got.Vals, want.Vals) {
			continue
		}
		top := []string{}
		if len(ls.files) > 0 {
			top = ls.files[len(ls.files)-1]
		}
		fromLower := false
		for _, f := range ls.files[:max(len(ls.files)-1, 0)] {
			fromLower = fromLower || eqs(got.Vals, f)
		}
		class := "plugin-option-wrong"
		switch {
		case topTwo:
			class = "plugin-key-spelled-two-ways-in-one-file-map-order"
		case repeatableKeys[name] && len(ls.files) > 1 && got.Set && eqs(got.Vals, top):
			class = "plugin-repeated-option-replaced-by-higher-layer"
		case got.Set && len(ls.files) > 1 && fromLower:
			class = "plugin-option-not-from-highest-priority-file"
		case want.Set && !got.Set:
			class = "plugin-option-lost"
		}
		c.Fail(class, fmt.Sprintf("plugin option %s: implementation gives %v %q, the documented layering gives %q (per-layer values, lowest priority first: %q)", name, got.Set, got.Vals, want.Vals, ls.files), cs)
	}
}

// ---------------------------------------------------------------------------------------------
// the real file system: a config location that is there but cannot be opened

type hostT struct {
	Shape string `json:"shape"` // symlink-cycle | parent-is-a-file | dangling-symlink | two-link-cycle
	Lang  string `json:"build_lang,omitempty"`
}

var hostShapes = []string{"symlink-cycle", "parent-is-a-file", "dangling-symlink", "two-link-cycle"}
var hostDir string

func runHost(c *caseT) {
	dir, err := os.MkdirTemp(hostDir, "c39host")
	if err != nil {
		panic(err)
	}
	defer os.RemoveAll(dir)
	base := filepath.Join(dir, ".plzconfig")
	local := filepath.Join(dir, ".plzconfig.local")
	names := []string{base, filepath.Join(dir, ".plzconfig_none"), local}
	os.WriteFile(base, []byte("[build]\nlang = from_plzconfig\n"), 0o644)
	switch c.Host.Shape {
	case "symlink-cycle":
		os.Symlink(".plzconfig.local", local)
	case "two-link-cycle":
		os.Symlink(".plzconfig.other", local)
		os.Symlink(".plzconfig.local", filepath.Join(dir, ".plzconfig.other"))
	case "parent-is-a-file":
		names[2] = filepath.Join(base, "local.cfg") // .plzconfig is a regular file, not a directory
	case "dangling-symlink":
		os.Symlink("nowhere", local) // open reports ENOENT: this one really is not there
	}
	cfg, err := core.ReadConfigFiles(plzfs.HostFS, names, nil)
	c.Err, c.Host.Lang = "", ""
	if err != nil {
		c.Err = strings.ReplaceAll(err.Error(), dir, "<dir>")
		return
	}
	c.Host.Lang = cfg.Build.Lang
}

func oracleHost(c *lib.Ctx, cs *caseT) {
	c.Oracle()
	switch cs.Host.Shape {
	case "dangling-symlink":
		if cs.Err != "" || cs.Host.Lang != "from_plzconfig" {
			c.Fail("missing-file-not-ignored", fmt.Sprintf("a location whose Open reports ENOENT must be skipped: error %q, build.lang %q", cs.Err, cs.Host.Lang), cs)
		}
	default:
		if cs.Err == "" {
			c.Fail("unopenable-layer-silently-skipped", fmt.Sprintf("real file system, %s: the last config location exists but cannot be opened, yet the read reports no error (build.lang = %q from the lower layer)", cs.Host.Shape, cs.Host.Lang), cs)
		}
	}
}

func main() {
	cli.InitLogging(cli.MinVerbosity)
	for i, o := range opts {
		optByName[o.name] = o
		o.index = i
	}
	lib.Main("C39", func(c *lib.Ctx) {
		defer func() { c.Model(modelHeader(), "C39.case", "C39.check") }()
		c.Rule("generated sets of config files in an in-memory io/fs.FS read by the real core.ReadDefaultConfigFiles (4/5, under generated HOME/XDG_*/RepoRoot) or " +
			"core.ReadConfigFiles with an explicit name list (1/5), 0-2 profiles (incl. 'local' and a repeated profile), 1-4 focus options out of 25 sampled " +
			"(string, cli.URL, bool, int, cli.Duration, map[string]string entries, []string, []string with options, []BuildLabel, []cli.URL; with built-in, late and no defaults), " +
			"each set in a random subset of the candidate files with repeated values, blank resets and empty values, then -o overrides through ApplyOverrides; " +
			"3/10 of the cases are aimed at the two cross-option rules: build.path / build.passenv / build.passunsafeenv with PATH listed, cleared again, or only given by -o, " +
			"build.path set explicitly or not, under a varied $PATH of the caller (computed default), and cpp.coverage with test.disablecoverage. " +
			"all 26 options are read back (the 26th is please.version, a cli.Version whose '>=' flag must not stick when a higher layer gives an exact version; 1/21 of the cases layer it). " +
			"1/10 of the environments set XDG_CONFIG_HOME to ~/.config/please, which names the user config twice, 1/8 of the XDG_CONFIG_DIRS repeat a directory (every location must be read once, at its last mention). " +
			"STREAM open-fault: a plain case in which fs.Open of one or two config locations (3/4 an existing file that sets something) fails with EACCES/EIO/EMFILE/ENFILE/ELOOP/ENOTDIR (must abort the read) or ENOENT (the file is absent). " +
			"STREAM plugin: [Plugin \"x\"] sections of 3 plugins, 1-3 focus options set in 1-3 layers (files of the search order incl. profile files), every file spelling the key in its own way (lower, Capitalised, inner capitals, UPPER), " +
			"declared-repeatable options with two values in one file, a neighbour option only one layer sets, an option nobody sets; every case is read 24 times and all reads must agree (Go map iteration order); oracle-only: one file spelling a key in two ways. " +
			"STREAM hostfs: the real file system through fs.HostFS - .plzconfig.local a symlink cycle (1 and 2 links), a location under a regular file (ENOTDIR), a dangling symlink (ENOENT, must be skipped). " +
			"distinct = distinct case JSON; non-trivial = some option has >= 2 setting sources (files in the search order or -o); fault cases always; plugin cases when an option is set in >= 2 layers")

		var replay caseT
		if c.ReadReplay(&replay) {
			run(&replay)
			if replay.Kind == "hostfs" || (replay.Kind == "plugin" && replay.Plugin.TwoSpelling) {
				c.Eval(&replay, "replay", true)
			} else {
				c.Case(coqCase(&replay), &replay, "replay", true)
			}
			oracle(c, &replay)
			return
		}
		hostDir = c.Out
		// stream 2: an Open that fails (model cases + oracle-only)
		nf, nfo := c.Scale(150, 3000), c.Scale(900, 9000)
		for i := 0; i < nf+nfo; i++ {
			cs := genFault(c.Rng.Fork())
			run(cs)
			data, _ := json.Marshal(cs)
			if i < nf {
				c.Case(coqCase(cs), cs, string(data), true)
			} else {
				c.Eval(cs, string(data), true)
			}
			oracle(c, cs)
			c.Hist("stream", "open-fault")
			for _, f := range cs.Faults {
				c.Hist("fault_errno", f.Errno)
			}
			if cs.Err != "" {
				c.Hist("fault_outcome", "error")
			} else {
				c.Hist("fault_outcome", "ok (only ENOENT faults or fault outside the order)")
			}
		}
		// stream 3: [Plugin "x"] sections in several layers with mixed-case keys, every case read 24 times
		np, npo := c.Scale(200, 4000), c.Scale(600, 6000)
		for i := 0; i < np+npo; i++ {
			r := c.Rng.Fork()
			two := i >= np && r.Chance(1, 6) // one file spelling a key in two ways: the model is not deterministic there
			cs := genPlugin(r, two)
			run(cs)
			data, _ := json.Marshal(cs)
			layered := false
			for _, q := range cs.Plugin.Queries {
				layered = layered || len(pluginLayers(cs, q).files) >= 2
			}
			if i < np {
				c.Case(coqCase(cs), cs, string(data), layered)
			} else {
				c.Eval(cs, string(data), layered)
			}
			oracle(c, cs)
			c.Hist("stream", "plugin")
			c.Hist("plugin_layered", fmt.Sprint(layered))
			c.Hist("plugin_two_spellings_in_one_file", fmt.Sprint(two))
			for _, f := range cs.Plugin.Files {
				for _, a := range f.Assigns {
					if a.Key != strings.ToLower(a.Key) {
						c.Hist("plugin_key_spelling", "has upper case")
					} else {
						c.Hist("plugin_key_spelling", "lower case")
					}
				}
			}
		}
		// stream 4: the real file system
		for i := 0; i < c.Scale(8, 40); i++ {
			cs := &caseT{Kind: "hostfs", Host: &hostT{Shape: hostShapes[i%len(hostShapes)]}, Profiles: []string{}, Files: []cfgFile{}, Overrides: []ovr{}}
			run(cs)
			c.Eval(cs, "hostfs:"+cs.Host.Shape, true)
			oracle(c, cs)
			c.Hist("stream", "hostfs:"+cs.Host.Shape)
		}
		n := c.Scale(1200, 24000)
		nOracleOnly := c.Scale(6000, 60000)
		for i := 0; i < n+nOracleOnly; i++ {
			r := c.Rng.Fork()
			cs := generate(r)
			run(cs)
			data, _ := json.Marshal(cs)
			nontrivial := false
			maxSetters := 0
			for _, o := range opts {
				k := settersOf(cs, o)
				maxSetters = max(maxSetters, k)
				if k >= 2 {
					nontrivial = true
				}
			}
			if i < n {
				c.Case(coqCase(cs), cs, string(data), nontrivial)
			} else {
				c.Eval(cs, string(data), nontrivial)
			}
			oracle(c, cs)
			c.HistN("max_sources_setting_one_option", maxSetters)
			c.HistN("profiles", len(cs.Profiles))
			c.HistN("existing_files", len(cs.Files))
			c.HistN("overrides", len(cs.Overrides))
			c.Hist("scenario", "s:"+cs.Scenario)
			c.Hist("stream", "plain")
			if userConfigNamedTwice(cs) {
				c.Hist("user_config_named_twice", "yes")
			}
			if cs.Err == "" {
				pathSet := len(layeredList(cs, "build.path")) > 0
				c.Hist("build.path", fmt.Sprintf("set_by_files=%v PATH_passed_through=%v", pathSet, pathPassedThrough(cs)))
				if pathPassedThrough(cs) && !pathSet && cs.Path != "/usr/local/bin:/usr/bin:/bin" {
					c.Hist("build.path", "computed default observable")
				}
			}
			if cs.Err != "" {
				c.Hist("outcome", "error")
			} else {
				c.Hist("outcome", "ok")
			}
			if cs.Default {
				c.Hist("entry", "ReadDefaultConfigFiles")
			} else {
				c.Hist("entry", "ReadConfigFiles")
			}
			for _, f := range cs.Files {
				for _, a := range f.Assigns {
					c.Hist("assigned_type", optByName[a.Opt].typ)
					if a.Blank {
						c.Hist("blank", optByName[a.Opt].kind)
					}
				}
			}
		}
	})
}
