// C39: configuration layering. Implementation side of the correspondence + property oracle.
//
// Every case writes a set of generated config files into an in-memory io/fs.FS (which also records
// the order of Open calls), runs the REAL core.ReadDefaultConfigFiles / core.ReadConfigFiles and
// Configuration.ApplyOverrides on it, and reads a fixed sample of options of several Go types back
// from the resulting Configuration.
package main

import (
	"bytes"
	"encoding/json"
	"fmt"
	iofs "io/fs"
	"os"
	"strconv"
	"strings"
	"time"

	"verifharness/lib"

	"github.com/thought-machine/please/src/cli"
	"github.com/thought-machine/please/src/core"
)

// ---------------------------------------------------------------------------------------------
// the file system handed to the implementation

type memFS struct {
	files map[string]string
	opens []string
}

type memFile struct {
	*bytes.Reader
	name string
}

func (f memFile) Stat() (iofs.FileInfo, error) { return nil, fmt.Errorf("stat not supported") }
func (f memFile) Close() error                 { return nil }

func (m *memFS) Open(name string) (iofs.File, error) {
	m.opens = append(m.opens, name)
	if c, ok := m.files[name]; ok {
		return memFile{bytes.NewReader([]byte(c)), name}, nil
	}
	return nil, &iofs.PathError{Op: "open", Path: name, Err: iofs.ErrNotExist}
}

// ---------------------------------------------------------------------------------------------
// the sampled options

type tv struct{ text, canon string } // what is written / the canonical text of the Go value it denotes

type optSpec struct {
	name    string // section.field, lower case: the -o key and the name used in the model
	kind    string // "str" | "bool" | "map" | "multi"   (the model's Single SStr/SBool/SMap, Multi)
	typ     string // Go type family, for the evidence histogram
	vals    []tv
	ovals   []tv // values usable with -o (ApplyOverrides parses differently from gcfg)
	get     func(c *core.Configuration) []string
	def     []string // documented default (value with no source at all)
	lateDef bool     // default is installed by setDefault after reading (repeated options)
	index   int
}

func id(xs ...string) []tv {
	out := []tv{}
	for _, x := range xs {
		out = append(out, tv{x, x})
	}
	return out
}

var boolVals = []tv{{"true", "true"}, {"false", "false"}, {"yes", "true"}, {"no", "false"}, {"on", "true"}, {"off", "false"}, {"1", "true"}, {"0", "false"}, {"True", "true"}, {"FALSE", "false"}}
var boolOv = id("true", "false")
var intVals = []tv{{"3", "3"}, {"0", "0"}, {"25", "25"}, {"7", "7"}, {"0x10", "16"}, {"100", "100"}}
var intOv = id("3", "0", "25", "64")
var durVals = []tv{{"30s", "30s"}, {"5m", "5m0s"}, {"1h", "1h0m0s"}, {"90", "1m30s"}, {"2m30s", "2m30s"}}
var strVals = id("opt", "dbg", "cover", "fast-1", "x_y.z", "", "a b c")
var urlVals = id("https://a.example/x", "http://mirror.local:8080/plz", "https://get.please.build")
var dirVals = id("BUILD", "BUILD.plz", "BUILD.bazel", "third_party", "node_modules", "/opt/bin", "/usr/sbin", "plz-out", "")
var envVals = id("HOME", "LANG", "PATH", "GOPATH", "PATH", "CI", "USER", "PATH", "path", "PATH2")
var covLabels = id("slow", "cc", "py", "integration", "manual")

// values of $PATH in the environment of the caller (build.path's computed default reads it)
var callerPaths = []string{"/caller/bin:/usr/bin", "/usr/local/bin:/usr/bin:/bin", "/opt/x/bin", "", "/a::/b", "/home/u/go/bin:/usr/local/go/bin:/usr/bin:/bin", ":/bin"}
var labelVals = id("//build_defs:go", "//third_party/go:all", "///pleasings//python:requirements", "//a/b:c", "//x:y")
var hashVals = id("sha1", "sha256", "blake3", "xxhash", "crc32", "crc64")
var pathVals = id("/usr/local/go", "/opt/go1.22", "", "/usr/lib/go")

func b2s(b bool) []string { return []string{strconv.FormatBool(b)} }
func i2s(i int) []string  { return []string{strconv.Itoa(i)} }
func strs(l []string) []string {
	return append([]string{}, l...)
}

var opts = []*optSpec{
	{name: "build.config", kind: "str", typ: "string", vals: strVals, ovals: id("opt", "dbg", "cover", ""), def: []string{"opt"},
		get: func(c *core.Configuration) []string { return []string{c.Build.Config} }},
	{name: "build.nonce", kind: "str", typ: "string", vals: strVals, ovals: id("n1", "n2"), def: []string{"1402"},
		get: func(c *core.Configuration) []string { return []string{c.Build.Nonce} }},
	{name: "please.downloadlocation", kind: "str", typ: "cli.URL", vals: urlVals, ovals: urlVals, def: []string{"https://get.please.build"},
		get: func(c *core.Configuration) []string { return []string{string(c.Please.DownloadLocation)} }},
	{name: "build.xattrs", kind: "bool", typ: "bool", vals: boolVals, ovals: boolOv, def: []string{"true"},
		get: func(c *core.Configuration) []string { return b2s(c.Build.Xattrs) }},
	{name: "parse.gitfunctions", kind: "bool", typ: "bool", vals: boolVals, ovals: boolOv, def: []string{"true"},
		get: func(c *core.Configuration) []string { return b2s(c.Parse.GitFunctions) }},
	{name: "display.updatetitle", kind: "bool", typ: "bool", vals: boolVals, ovals: boolOv, def: []string{"false"},
		get: func(c *core.Configuration) []string { return b2s(c.Display.UpdateTitle) }},
	{name: "please.numoldversions", kind: "str", typ: "int", vals: intVals, ovals: intOv, def: []string{"10"},
		get: func(c *core.Configuration) []string { return i2s(c.Please.NumOldVersions) }},
	{name: "display.maxworkers", kind: "str", typ: "int", vals: intVals, ovals: intOv, def: []string{"40"},
		get: func(c *core.Configuration) []string { return i2s(c.Display.MaxWorkers) }},
	{name: "build.timeout", kind: "str", typ: "cli.Duration", vals: durVals, ovals: durVals, def: []string{"10m0s"},
		get: func(c *core.Configuration) []string { return []string{time.Duration(c.Build.Timeout).String()} }},
	{name: "buildconfig.my-key", kind: "map", typ: "map[string]string", vals: strVals, ovals: id("o1", "o2", ""), def: []string{""},
		get: func(c *core.Configuration) []string { return []string{c.BuildConfig["my-key"]} }},
	{name: "buildenv.secret", kind: "map", typ: "map[string]string", vals: strVals, ovals: id("o1", "o2"), def: []string{""},
		get: func(c *core.Configuration) []string { return []string{c.BuildEnv["secret"]} }},
	{name: "go.goroot", kind: "str", typ: "string", vals: pathVals, ovals: id("/ov/go"), def: []string{""},
		get: func(c *core.Configuration) []string { return []string{c.Go.GoRoot} }},
	{name: "go.gotool", kind: "str", typ: "string", vals: id("go", "/usr/bin/go", "go1.22", "gotip"), ovals: id("ovgo"), def: []string{"go"},
		get: func(c *core.Configuration) []string { return []string{c.Go.GoTool} }},

	{name: "parse.buildfilename", kind: "multi", typ: "[]string", vals: dirVals, def: []string{"BUILD", "BUILD.plz"}, lateDef: true,
		get: func(c *core.Configuration) []string { return strs(c.Parse.BuildFileName) }},
	{name: "parse.blacklistdirs", kind: "multi", typ: "[]string", vals: dirVals, def: []string{},
		get: func(c *core.Configuration) []string { return strs(c.Parse.BlacklistDirs) }},
	{name: "parse.builddefsdir", kind: "multi", typ: "[]string", vals: dirVals, def: []string{"build_defs"}, lateDef: true,
		get: func(c *core.Configuration) []string { return strs(c.Parse.BuildDefsDir) }},
	{name: "build.path", kind: "multi", typ: "[]string", vals: dirVals, def: []string{"/usr/local/bin", "/usr/bin", "/bin"}, lateDef: true,
		get: func(c *core.Configuration) []string { return strs(c.Build.Path) }},
	{name: "build.passenv", kind: "multi", typ: "[]string", vals: envVals, def: []string{}, lateDef: true,
		get: func(c *core.Configuration) []string { return strs(c.Build.PassEnv) }},
	{name: "build.hashcheckers", kind: "multi", typ: "[]string+options", vals: hashVals, def: []string{"sha1", "sha256", "blake3"}, lateDef: true,
		get: func(c *core.Configuration) []string { return strs(c.Build.HashCheckers) }},
	{name: "please.pluginrepo", kind: "multi", typ: "[]string", vals: urlVals, lateDef: true,
		def: []string{"https://github.com/{owner}/{plugin}/archive/{revision}.zip", "https://github.com/{owner}/{plugin}-rules/archive/{revision}.zip"},
		get: func(c *core.Configuration) []string { return strs(c.Please.PluginRepo) }},
	{name: "parse.preloadsubincludes", kind: "multi", typ: "[]BuildLabel", vals: labelVals, def: []string{},
		get: func(c *core.Configuration) []string {
			out := []string{}
			for _, l := range c.Parse.PreloadSubincludes {
				out = append(out, l.String())
			}
			return out
		}},
	{name: "java.defaultmavenrepo", kind: "multi", typ: "[]cli.URL", vals: urlVals, def: []string{"https://repo1.maven.org/maven2", "https://jcenter.bintray.com/"},
		get: func(c *core.Configuration) []string {
			out := []string{}
			for _, l := range c.Java.DefaultMavenRepo {
				out = append(out, string(l))
			}
			return out
		}},
	{name: "build.passunsafeenv", kind: "multi", typ: "[]string", vals: envVals, def: []string{}, lateDef: true,
		get: func(c *core.Configuration) []string { return strs(c.Build.PassUnsafeEnv) }},
	{name: "cpp.coverage", kind: "bool", typ: "bool", vals: boolVals, ovals: boolOv, def: []string{"true"},
		get: func(c *core.Configuration) []string { return b2s(c.Cpp.Coverage) }},
	{name: "test.disablecoverage", kind: "multi", typ: "[]string", vals: covLabels, def: []string{},
		get: func(c *core.Configuration) []string { return strs(c.Test.DisableCoverage) }},
}

var optByName = map[string]*optSpec{}

func (o *optSpec) multi() bool { return o.kind == "multi" }

// coq names the option by its index in Model.C39.sampled (same order as opts)
func (o *optSpec) coq() string { return fmt.Sprintf("(O %d)", o.index) }

// ---------------------------------------------------------------------------------------------
// a case

type assign struct {
	Opt   string `json:"opt"`
	Blank bool   `json:"blank,omitempty"`
	Text  string `json:"text"`  // as written in the file
	Canon string `json:"canon"` // the value it denotes
}

type cfgFile struct {
	Name    string   `json:"name"`
	Assigns []assign `json:"assigns"`
}

type ovr struct {
	Opt   string `json:"opt"`
	Text  string `json:"text"`
	Canon string `json:"canon"`
}

type envT struct {
	XdgDirs string `json:"xdg_config_dirs"`
	Home    string `json:"home"`
	XdgHome string `json:"xdg_config_home"`
	Root    string `json:"repo_root"`
}

type caseT struct {
	Path      string     `json:"caller_PATH"` // $PATH of the caller
	Default   bool       `json:"default_files"`
	Env       envT       `json:"env"`
	Names     []string   `json:"names,omitempty"` // explicit file names (Default == false)
	Profiles  []string   `json:"profiles"`
	Files     []cfgFile  `json:"files"`
	Overrides []ovr      `json:"overrides"`
	Opens     []string   `json:"opens,omitempty"`
	Err       string     `json:"error,omitempty"`
	Result    [][]string `json:"result,omitempty"` // per option of `opts`, in order
	Scenario  string     `json:"scenario,omitempty"`
}

// render writes the assignments as gcfg text. Section headers are repeated freely, field names vary in
// case, and blank lines / comments are interspersed: none of that may matter.
func render(r *lib.Rng, as []assign) string {
	var b strings.Builder
	last := ""
	for _, a := range as {
		sect, field, _ := strings.Cut(a.Opt, ".")
		if sect != last || r.Chance(1, 4) {
			hdr := sect
			if r.Chance(1, 4) {
				hdr = strings.ToUpper(sect[:1]) + sect[1:]
			}
			fmt.Fprintf(&b, "[%s]\n", hdr)
			last = sect
		}
		if r.Chance(1, 8) {
			b.WriteString("; a comment\n")
		}
		if optByName[a.Opt].kind != "map" { // keys of a map section are case sensitive, field names are not
			switch r.Intn(4) {
			case 0:
				field = strings.ToUpper(field)
			case 1:
				field = strings.ToUpper(field[:1]) + field[1:]
			}
		}
		if a.Blank {
			b.WriteString(field + "\n")
		} else if strings.Contains(a.Text, " ") && r.Bool() {
			fmt.Fprintf(&b, "%s = \"%s\"\n", field, a.Text)
		} else if r.Bool() {
			fmt.Fprintf(&b, "%s = %s\n", field, a.Text)
		} else {
			fmt.Fprintf(&b, "%s=%s  \n", field, a.Text)
		}
		if r.Chance(1, 10) {
			b.WriteString("\n")
		}
	}
	return b.String()
}

// ---------------------------------------------------------------------------------------------
// reference: the documented order and the documented layering rules, written from the property text

func refGlobal(e envT) []string {
	out := []string{"/etc/please/plzconfig"}
	if e.XdgDirs != "" {
		for _, p := range strings.Split(e.XdgDirs, ":") {
			if strings.HasPrefix(p, "/") {
				out = append(out, p+"/plzconfig")
			}
		}
	}
	out = append(out, e.Home+"/.config/please/plzconfig")
	if strings.HasPrefix(e.XdgHome, "/") {
		out = append(out, e.XdgHome+"/plzconfig")
	}
	return out
}

func refBaseFiles(c *caseT) []string {
	if !c.Default {
		return c.Names
	}
	return append(refGlobal(c.Env), c.Env.Root+"/.plzconfig", c.Env.Root+"/.plzconfig_"+core.OsArch, c.Env.Root+"/.plzconfig.local")
}

// refOrder: every base file, each followed immediately by its profile files.
func refOrder(c *caseT) []string {
	out := []string{}
	for _, f := range refBaseFiles(c) {
		out = append(out, f)
		for _, p := range c.Profiles {
			out = append(out, f+"."+p)
		}
	}
	return out
}

// layeredList: what the files (no -o) leave in a repeated option - accumulated in read order, a blank clears.
func layeredList(c *caseT, name string) []string {
	files := map[string][]assign{}
	for _, f := range c.Files {
		files[f.Name] = f.Assigns
	}
	acc := []string{}
	for _, fn := range refOrder(c) {
		for _, a := range files[fn] {
			if a.Opt != name {
				continue
			}
			if a.Blank {
				acc = []string{}
			} else {
				acc = append(acc, a.Canon)
			}
		}
	}
	return acc
}

func contains(l []string, x string) bool {
	for _, y := range l {
		if x == y {
			return true
		}
	}
	return false
}

// pathPassedThrough: the files list PATH in build.passenv or build.passunsafeenv
func pathPassedThrough(c *caseT) bool {
	return contains(layeredList(c, "build.passenv"), "PATH") || contains(layeredList(c, "build.passunsafeenv"), "PATH")
}

// docDefault: the default of an option that no source sets. build.path has a computed one: the $PATH of the caller
// when PATH is passed through to the build environment, else the documented /usr/local/bin:/usr/bin:/bin.
func docDefault(c *caseT, o *optSpec) []string {
	if o.name == "build.path" && pathPassedThrough(c) {
		return strings.Split(c.Path, ":")
	}
	return o.def
}

type refResult struct {
	vals      []string
	mentioned bool // some source (file or -o) sets the option
	hasBlank  bool // a file source contains a blank reset of it
	byOv      bool
}

func reference(c *caseT, o *optSpec) refResult {
	files := map[string][]assign{}
	for _, f := range c.Files {
		files[f.Name] = f.Assigns
	}
	res := refResult{}
	for _, ov := range c.Overrides {
		if ov.Opt == o.name {
			res.mentioned, res.byOv = true, true
			if o.multi() {
				res.vals = strings.Split(ov.Text, ",")
			} else {
				res.vals = []string{ov.Canon}
			}
		}
	}
	if res.byOv {
		return res
	}
	order := refOrder(c)
	if !o.multi() {
		// highest-priority source first; inside one file the last assignment
		for i := len(order) - 1; i >= 0; i-- {
			as := files[order[i]]
			for j := len(as) - 1; j >= 0; j-- {
				if as[j].Opt == o.name {
					res.vals = []string{as[j].Canon}
					res.mentioned = true
					return res
				}
			}
		}
		res.vals = docDefault(c, o)
		return res
	}
	acc := []string{}
	fileMention := false
	for _, name := range order {
		for _, a := range files[name] {
			if a.Opt != o.name {
				continue
			}
			fileMention = true
			if a.Blank {
				acc = []string{}
				res.hasBlank = true
			} else {
				acc = append(acc, a.Canon)
			}
		}
	}
	if fileMention {
		res.mentioned = true
		res.vals = acc
	} else {
		res.vals = docDefault(c, o)
	}
	return res
}

func eqs(a, b []string) bool {
	if len(a) != len(b) {
		return false
	}
	for i := range a {
		if a[i] != b[i] {
			return false
		}
	}
	return true
}

// ---------------------------------------------------------------------------------------------
// running the implementation

func run(c *caseT) {
	os.Setenv("HOME", c.Env.Home)
	if c.Env.XdgDirs == "" {
		os.Unsetenv("XDG_CONFIG_DIRS")
	} else {
		os.Setenv("XDG_CONFIG_DIRS", c.Env.XdgDirs)
	}
	if c.Env.XdgHome == "" {
		os.Unsetenv("XDG_CONFIG_HOME")
	} else {
		os.Setenv("XDG_CONFIG_HOME", c.Env.XdgHome)
	}
	core.RepoRoot = c.Env.Root
	oldPath := os.Getenv("PATH")
	os.Setenv("PATH", c.Path)
	defer os.Setenv("PATH", oldPath)
	m := &memFS{files: map[string]string{}}
	rr := lib.NewRng(uint64(len(c.Files))*7919 + uint64(len(c.Profiles)))
	for _, f := range c.Files {
		m.files[f.Name] = render(rr, f.Assigns)
	}
	var cfg *core.Configuration
	var err error
	if c.Default {
		ps := make([]core.ConfigProfile, len(c.Profiles))
		for i, p := range c.Profiles {
			ps[i] = core.ConfigProfile(p)
		}
		cfg, err = core.ReadDefaultConfigFiles(m, ps)
	} else {
		cfg, err = core.ReadConfigFiles(m, c.Names, c.Profiles)
	}
	c.Opens = m.opens
	if err == nil {
		ov := map[string]string{}
		for _, o := range c.Overrides {
			ov[o.Opt] = o.Text
		}
		err = cfg.ApplyOverrides(ov)
	}
	c.Err, c.Result = "", nil
	if err != nil {
		c.Err = err.Error()
		return
	}
	for _, o := range opts {
		c.Result = append(c.Result, o.get(cfg))
	}
}

// ---------------------------------------------------------------------------------------------
// Coq term. Strings are interned: the case files start with one definition per distinct string
// (type-checking string literals dominates the evaluation time otherwise).

var internIdx = map[string]int{}
var internDefs []string

func S(x string) string {
	i, ok := internIdx[x]
	if !ok {
		i = len(internDefs)
		internIdx[x] = i
		internDefs = append(internDefs, fmt.Sprintf("Definition z%d : str := Eval vm_compute in %s.", i, lib.Str(x)))
	}
	return fmt.Sprintf("z%d", i)
}

func SList(xs []string) string {
	out := make([]string, len(xs))
	for i, x := range xs {
		out[i] = S(x)
	}
	return lib.List(out)
}

func modelHeader() string {
	return "From PlzV Require Import Model.C39.\n" + strings.Join(internDefs, "\n")
}

func coqEnv(e envT) string {
	return fmt.Sprintf("{| e_xdg_dirs := %s; e_home := %s; e_xdg_home := %s; e_root := %s; e_arch := %s |}",
		S(e.XdgDirs), S(e.Home), S(e.XdgHome), S(e.Root), S(core.OsArch))
}

func coqCase(c *caseT) string {
	var files string
	if c.Default {
		files = lib.App("Default", coqEnv(c.Env))
	} else {
		files = lib.App("Explicit", SList(c.Names))
	}
	fsItems := []string{}
	for _, f := range c.Files {
		as := []string{}
		for _, a := range f.Assigns {
			o := optByName[a.Opt]
			if a.Blank {
				as = append(as, lib.App("Blank", o.coq()))
			} else {
				as = append(as, lib.App("Assign", o.coq(), S(a.Canon)))
			}
		}
		fsItems = append(fsItems, lib.Pair(S(f.Name), lib.List(as)))
	}
	ovs := []string{}
	for _, ov := range c.Overrides {
		o := optByName[ov.Opt]
		v := ov.Canon
		if o.multi() {
			v = ov.Text
		}
		ovs = append(ovs, lib.Pair(o.coq(), S(v)))
	}
	result := "None"
	if c.Err == "" {
		items := []string{}
		for i := range opts {
			items = append(items, SList(c.Result[i]))
		}
		result = lib.Some(lib.List(items))
	}
	return lib.App("CRead", S(c.Path), files, SList(c.Profiles), lib.List(fsItems), lib.List(ovs), SList(c.Opens), result)
}

// ---------------------------------------------------------------------------------------------
// generator

var profilePool = []string{"dev", "remote", "ci", "local"}

func genEnv(r *lib.Rng) envT {
	return envT{
		XdgDirs: lib.Pick(r, []string{"", "", "/etc/xdg", "/etc/xdg:/opt/cfg", "rel/dir:/etc/xdg", "/opt/cfg:", "::"}),
		Home:    lib.Pick(r, []string{"/home/u", "/root", "/home/u"}),
		XdgHome: lib.Pick(r, []string{"", "", "/home/u/.xdg", "relative/.config", "/home/u/.config"}),
		Root:    lib.Pick(r, []string{"/work/repo", "/r"}),
	}
}

func genAssigns(r *lib.Rng, o *optSpec, adversarial bool) []assign {
	n := 1
	if o.multi() {
		n = r.Range(1, 3)
	} else if r.Chance(1, 6) {
		n = 2
	}
	out := []assign{}
	for i := 0; i < n; i++ {
		blankOdds := 0
		switch o.kind {
		case "multi":
			blankOdds = 25
			if adversarial {
				blankOdds = 45
			}
		case "bool", "map":
			blankOdds = 15
		case "str":
			if adversarial {
				blankOdds = 3 // fatal error in gcfg: the whole read fails
			}
		}
		if r.Intn(100) < blankOdds {
			a := assign{Opt: o.name, Blank: true}
			if o.kind == "bool" {
				a.Canon = "true" // documented: a bool named without a value is switched on
			}
			out = append(out, a)
			continue
		}
		v := lib.Pick(r, o.vals)
		if v.text == "" && (o.typ == "[]string+options" || o.typ == "[]BuildLabel") {
			v = o.vals[0]
		}
		out = append(out, assign{Opt: o.name, Text: v.text, Canon: v.canon})
	}
	return out
}

// pathScenario: the stream aimed at the computed default of build.path. build.path, build.passenv and
// build.passunsafeenv are the focus; PATH is listed (and sometimes cleared again by a blank reset, or only named in
// a file outside the search order / a -o) in one of the two lists, build.path is set explicitly in 0-2 files.
func pathScenario(r *lib.Rng, c *caseT, cands []string) (map[string][]assign, []ovr) {
	content := map[string][]assign{}
	add := func(f string, a assign) { content[f] = append(content[f], a) }
	pe := lib.Pick(r, []string{"build.passenv", "build.passunsafeenv"})
	val := func(name string) assign {
		v := lib.Pick(r, optByName[name].vals)
		return assign{Opt: name, Text: v.text, Canon: v.canon}
	}
	// PATH passed through (4/5), by one or both lists
	if !r.Chance(1, 5) {
		add(lib.Pick(r, cands), assign{Opt: pe, Text: "PATH", Canon: "PATH"})
		if r.Chance(1, 4) {
			add(lib.Pick(r, cands), assign{Opt: "build.passunsafeenv", Text: "PATH", Canon: "PATH"})
		}
	}
	for i, n := 0, r.Range(0, 2); i < n; i++ { // other variables around it
		add(lib.Pick(r, cands), val(lib.Pick(r, []string{"build.passenv", "build.passunsafeenv"})))
	}
	if r.Chance(1, 4) { // ... cleared again somewhere (takes effect only if read later)
		add(lib.Pick(r, cands), assign{Opt: pe, Blank: true})
	}
	// build.path set explicitly by 0-2 files (2/3), sometimes ending in a blank reset
	if !r.Chance(1, 3) {
		for i, n := 0, r.Range(1, 2); i < n; i++ {
			add(lib.Pick(r, cands), val("build.path"))
		}
		if r.Chance(1, 6) {
			add(lib.Pick(r, cands), assign{Opt: "build.path", Blank: true})
		}
	}
	ovs := []ovr{}
	if r.Chance(1, 8) {
		ovs = append(ovs, ovr{Opt: "build.path", Text: "/ov/bin,/bin", Canon: "/ov/bin,/bin"})
	}
	if r.Chance(1, 8) { // -o is applied after the computed default was installed
		ovs = append(ovs, ovr{Opt: pe, Text: "PATH", Canon: "PATH"})
	}
	return content, ovs
}

// covScenario: cpp.coverage and test.disablecoverage together
func covScenario(r *lib.Rng, c *caseT, cands []string) (map[string][]assign, []ovr) {
	content := map[string][]assign{}
	add := func(f string, a assign) { content[f] = append(content[f], a) }
	for i, n := 0, r.Range(1, 2); i < n; i++ {
		v := lib.Pick(r, []tv{{"false", "false"}, {"false", "false"}, {"no", "false"}, {"true", "true"}, {"off", "false"}})
		add(lib.Pick(r, cands), assign{Opt: "cpp.coverage", Text: v.text, Canon: v.canon})
	}
	for i, n := 0, r.Range(0, 2); i < n; i++ {
		v := lib.Pick(r, covLabels)
		add(lib.Pick(r, cands), assign{Opt: "test.disablecoverage", Text: v.text, Canon: v.canon})
	}
	if r.Chance(1, 6) {
		add(lib.Pick(r, cands), assign{Opt: "test.disablecoverage", Blank: true})
	}
	ovs := []ovr{}
	if r.Chance(1, 8) {
		ovs = append(ovs, ovr{Opt: "test.disablecoverage", Text: "manual", Canon: "manual"})
	}
	if r.Chance(1, 8) {
		v := lib.Pick(r, boolOv)
		ovs = append(ovs, ovr{Opt: "cpp.coverage", Text: v.text, Canon: v.canon})
	}
	return content, ovs
}

func generate(r *lib.Rng) *caseT {
	c := &caseT{Default: !r.Chance(1, 5), Env: genEnv(r), Path: lib.Pick(r, callerPaths)}
	scenario := lib.Pick(r, []string{"", "", "", "", "", "", "", "path", "path", "cov"})
	c.Scenario = scenario
	np := lib.Pick(r, []int{0, 0, 1, 1, 1, 2})
	pp := append([]string{}, profilePool...)
	lib.Shuffle(r, pp)
	c.Profiles = pp[:np]
	if np == 2 && r.Chance(1, 10) {
		c.Profiles[1] = c.Profiles[0] // the same profile twice
	}
	if !c.Default {
		pool := []string{"a.cfg", "conf/b.cfg", "/abs/c.cfg", "a.cfg.dev", "d"}
		n := r.Range(1, 4)
		for i := 0; i < n; i++ {
			c.Names = append(c.Names, lib.Pick(r, pool)) // duplicates allowed: the file is read twice
		}
	}
	order := refOrder(c)
	adversarial := r.Chance(1, 3)
	// the options this case is about
	nfocus := r.Range(1, 4)
	focus := []*optSpec{}
	for i := 0; i < nfocus; i++ {
		o := lib.Pick(r, opts)
		if i > 0 && r.Chance(1, 3) { // keep the goroot/gotool pair together sometimes
			switch focus[0].name {
			case "go.goroot":
				o = optByName["go.gotool"]
			case "go.gotool":
				o = optByName["go.goroot"]
			case "build.path":
				o = optByName[lib.Pick(r, []string{"build.passenv", "build.passunsafeenv"})]
			case "build.passenv", "build.passunsafeenv":
				o = optByName["build.path"]
			case "cpp.coverage":
				o = optByName["test.disablecoverage"]
			case "test.disablecoverage":
				o = optByName["cpp.coverage"]
			}
		}
		focus = append(focus, o)
	}
	// which files exist: a random subset of the candidates (deduplicated, keeping first position)
	seen := map[string]bool{}
	cands := []string{}
	for _, n := range order {
		if !seen[n] {
			seen[n] = true
			cands = append(cands, n)
		}
	}
	content := map[string][]assign{}
	exists := map[string]bool{}
	var scenOvs []ovr
	if scenario != "" {
		var sc map[string][]assign
		if scenario == "path" {
			sc, scenOvs = pathScenario(r, c, cands)
		} else {
			sc, scenOvs = covScenario(r, c, cands)
		}
		for f, as := range sc {
			exists[f] = true
			content[f] = append(content[f], as...)
		}
		if r.Bool() {
			focus = focus[:1] // keep one unrelated option around
		}
	}
	for _, o := range focus {
		k := r.Range(0, 4)
		if adversarial {
			k = r.Range(2, 5)
		}
		for i := 0; i < k; i++ {
			f := lib.Pick(r, cands)
			exists[f] = true
			content[f] = append(content[f], genAssigns(r, o, adversarial)...)
		}
	}
	for _, f := range cands {
		if r.Chance(1, 12) {
			exists[f] = true // an existing file that sets nothing of interest
		}
	}
	for _, f := range cands {
		if exists[f] {
			as := content[f]
			if len(as) > 1 && r.Bool() {
				lib.Shuffle(r, as) // interleave the options inside one file
			}
			if as == nil {
				as = []assign{}
			}
			c.Files = append(c.Files, cfgFile{Name: f, Assigns: as})
		}
	}
	// a file outside the search order must never be read
	if r.Chance(1, 6) {
		o := focus[0]
		c.Files = append(c.Files, cfgFile{Name: c.Env.Root + "/.plzconfig.unused", Assigns: genAssigns(r, o, false)})
	}
	for _, o := range focus {
		odds := 4
		if adversarial {
			odds = 2
		}
		if !r.Chance(1, odds) {
			continue
		}
		if o.multi() {
			n := r.Range(0, 3)
			parts := []string{}
			for i := 0; i < n; i++ {
				v := lib.Pick(r, o.vals).text
				if v == "" || strings.Contains(v, ",") {
					v = o.vals[0].text
				}
				parts = append(parts, v)
			}
			if n == 0 && (o.typ == "[]string+options" || o.typ == "[]BuildLabel") {
				parts = []string{o.vals[0].text}
			}
			t := strings.Join(parts, ",")
			c.Overrides = append(c.Overrides, ovr{Opt: o.name, Text: t, Canon: t})
		} else {
			v := lib.Pick(r, o.ovals)
			c.Overrides = append(c.Overrides, ovr{Opt: o.name, Text: v.text, Canon: v.canon})
		}
	}
	c.Overrides = append(scenOvs, c.Overrides...)
	// -o keys are a Go map: one entry per option
	dedup := map[string]bool{}
	ovs := []ovr{}
	for _, ov := range c.Overrides {
		if !dedup[ov.Opt] {
			dedup[ov.Opt] = true
			ovs = append(ovs, ov)
		}
	}
	c.Overrides = ovs
	if c.Overrides == nil {
		c.Overrides = []ovr{}
	}
	if c.Files == nil {
		c.Files = []cfgFile{}
	}
	return c
}

// ---------------------------------------------------------------------------------------------
// oracle

func settersOf(c *caseT, o *optSpec) int {
	n := 0
	order := map[string]bool{}
	for _, f := range refOrder(c) {
		order[f] = true
	}
	for _, f := range c.Files {
		if !order[f.Name] {
			continue
		}
		for _, a := range f.Assigns {
			if a.Opt == o.name {
				n++
				break
			}
		}
	}
	for _, ov := range c.Overrides {
		if ov.Opt == o.name {
			n++
		}
	}
	return n
}

func oracle(c *lib.Ctx, cs *caseT) {
	js := cs
	// 1. order of the sources
	c.Oracle()
	want := refOrder(cs)
	if cs.Err == "" && !eqs(cs.Opens, want) {
		class := "file-order"
		if len(cs.Opens) == len(want) {
			class = "profile-file-not-right-after-its-file"
			a, b := map[string]int{}, map[string]int{}
			for i := range want {
				a[want[i]]++
				b[cs.Opens[i]]++
			}
			for k, v := range a {
				if b[k] != v {
					class = "file-order"
				}
			}
			base := refBaseFiles(cs)
			bi := 0
			for _, n := range cs.Opens { // are the base files still in the documented relative order?
				if bi < len(base) && n == base[bi] {
					bi++
				}
			}
			if bi != len(base) {
				class = "base-files-not-in-documented-order"
			}
		}
		c.Fail(class, fmt.Sprintf("files opened in order %v, documented order is %v", cs.Opens, want), js)
	}
	if cs.Err != "" {
		return
	}
	// 2. every sampled option against the documented rules
	// GoRoot as the files leave it (a -o on go.goroot is applied after GoTool was derived from it)
	noOv := *cs
	noOv.Overrides = nil
	goroot := reference(&noOv, optByName["go.goroot"]).vals[0]
	cppCoverageOff := reference(&noOv, optByName["cpp.coverage"]).vals[0] == "false"
	callerPath := strings.Split(cs.Path, ":")
	for i, o := range opts {
		c.Oracle()
		ref := reference(cs, o)
		got := cs.Result[i]
		if eqs(got, ref.vals) {
			continue
		}
		class, what := "", ""
		def := docDefault(cs, o)
		switch {
		// "an option set by any source never gets a default": the sources leave a non-empty value, the
		// implementation reports a default instead (a documented literal, or build.path's computed $PATH)
		case ref.mentioned && len(ref.vals) > 0 && o.name == "build.path" && eqs(got, callerPath) && !eqs(got, o.def):
			class = "computed-path-default-overrides-explicit-build-path"
			what = fmt.Sprintf("build.path: a source sets it to %q but the $PATH of the caller %q is installed (PATH passed through: %v)", ref.vals, got, pathPassedThrough(cs))
		case ref.mentioned && len(ref.vals) > 0 && len(o.def) > 0 && eqs(got, o.def):
			class = "default-applied-to-option-set-by-a-source"
			what = fmt.Sprintf("%s: a source sets it to %q but the default %q is reported", o.name, ref.vals, got)
		case o.name == "build.path" && !ref.mentioned && !eqs(def, o.def) && eqs(got, o.def):
			class = "computed-path-default-not-applied"
			what = fmt.Sprintf("build.path: no source sets it and PATH is passed through, but %q is used, not the caller's PATH %q", got, def)
		case o.name == "build.path" && !ref.mentioned && eqs(def, o.def) && eqs(got, callerPath):
			class = "computed-path-default-applied-without-passenv"
			what = fmt.Sprintf("build.path: no source lists PATH in passenv/passunsafeenv, but the caller's PATH %q is used", got)
		case o.name == "test.disablecoverage" && !ref.byOv && cppCoverageOff && eqs(got, append(append([]string{}, ref.vals...), "cc")):
			class = "disablecoverage-cc-appended-when-cpp-coverage-off"
			what = fmt.Sprintf("test.disablecoverage: the sources give %q but cpp.coverage=false (from the files) makes ReadConfigFiles append \"cc\": %q", ref.vals, got)
		case o.multi() && ref.mentioned && !ref.byOv && len(ref.vals) == 0 && o.lateDef && len(def) > 0 && eqs(got, def):
			class = "list-default-restored-after-blank-reset"
			what = fmt.Sprintf("%s: the sources leave the list empty (last word is a blank reset) but the default %v comes back", o.name, got)
		case o.multi() && ref.mentioned && !ref.byOv && !ref.hasBlank && !o.lateDef && len(o.def) > 0 && eqs(got, append(append([]string{}, o.def...), ref.vals...)):
			class = "preset-list-default-kept-when-set"
			what = fmt.Sprintf("%s: sources set %v but the built-in default entries stay in front: %v", o.name, ref.vals, got)
		case o.name == "go.gotool" && !ref.byOv && goroot != "" && eqs(got, []string{goroot + "/bin/go"}):
			class = "gotool-overwritten-by-goroot"
			what = fmt.Sprintf("go.gotool: documented layering gives %v but GoRoot=%s overwrites it with %v", ref.vals, goroot, got)
		case !o.multi() && ref.mentioned:
			class = "scalar-not-from-highest-priority-source"
		case !o.multi():
			class = "scalar-default-wrong"
		case ref.byOv:
			class = "override-does-not-replace-list"
		case ref.mentioned && ref.hasBlank:
			class = "list-blank-reset-wrong"
		case ref.mentioned:
			class = "list-not-accumulated-in-order"
		default:
			class = "list-default-wrong"
		}
		if what == "" {
			what = fmt.Sprintf("%s: implementation gives %q, the documented layering gives %q", o.name, got, ref.vals)
		}
		c.Fail(class, what, js)
	}
}

func main() {
	cli.InitLogging(cli.MinVerbosity)
	for i, o := range opts {
		optByName[o.name] = o
		o.index = i
	}
	lib.Main("C39", func(c *lib.Ctx) {
		defer func() { c.Model(modelHeader(), "C39.case", "C39.check") }()
		c.Rule("generated sets of config files in an in-memory io/fs.FS read by the real core.ReadDefaultConfigFiles (4/5, under generated HOME/XDG_*/RepoRoot) or " +
			"core.ReadConfigFiles with an explicit name list (1/5), 0-2 profiles (incl. 'local' and a repeated profile), 1-4 focus options out of 25 sampled " +
			"(string, cli.URL, bool, int, cli.Duration, map[string]string entries, []string, []string with options, []BuildLabel, []cli.URL; with built-in, late and no defaults), " +
			"each set in a random subset of the candidate files with repeated values, blank resets and empty values, then -o overrides through ApplyOverrides; " +
			"3/10 of the cases are aimed at the two cross-option rules: build.path / build.passenv / build.passunsafeenv with PATH listed, cleared again, or only given by -o, " +
			"build.path set explicitly or not, under a varied $PATH of the caller (computed default), and cpp.coverage with test.disablecoverage. " +
			"all 25 options are read back. distinct = distinct case JSON; non-trivial = some option has >= 2 setting sources (files in the search order or -o)")

		var replay caseT
		if c.ReadReplay(&replay) {
			run(&replay)
			c.Case(coqCase(&replay), &replay, "replay", true)
			oracle(c, &replay)
			return
		}
		n := c.Scale(1200, 24000)
		nOracleOnly := c.Scale(6000, 60000)
		for i := 0; i < n+nOracleOnly; i++ {
			r := c.Rng.Fork()
			cs := generate(r)
			run(cs)
			data, _ := json.Marshal(cs)
			nontrivial := false
			maxSetters := 0
			for _, o := range opts {
				k := settersOf(cs, o)
				maxSetters = max(maxSetters, k)
				if k >= 2 {
					nontrivial = true
				}
			}
			if i < n {
				c.Case(coqCase(cs), cs, string(data), nontrivial)
			} else {
				c.Eval(cs, string(data), nontrivial)
			}
			oracle(c, cs)
			c.HistN("max_sources_setting_one_option", maxSetters)
			c.HistN("profiles", len(cs.Profiles))
			c.HistN("existing_files", len(cs.Files))
			c.HistN("overrides", len(cs.Overrides))
			c.Hist("scenario", "s:"+cs.Scenario)
			if cs.Err == "" {
				pathSet := len(layeredList(cs, "build.path")) > 0
				c.Hist("build.path", fmt.Sprintf("set_by_files=%v PATH_passed_through=%v", pathSet, pathPassedThrough(cs)))
				if pathPassedThrough(cs) && !pathSet && cs.Path != "/usr/local/bin:/usr/bin:/bin" {
					c.Hist("build.path", "computed default observable")
				}
			}
			if cs.Err != "" {
				c.Hist("outcome", "error")
			} else {
				c.Hist("outcome", "ok")
			}
			if cs.Default {
				c.Hist("entry", "ReadDefaultConfigFiles")
			} else {
				c.Hist("entry", "ReadConfigFiles")
			}
			for _, f := range cs.Files {
				for _, a := range f.Assigns {
					c.Hist("assigned_type", optByName[a.Opt].typ)
					if a.Blank {
						c.Hist("blank", optByName[a.Opt].kind)
					}
				}
			}
		}
	})
}
