// C20: build labels round-trip and target patterns select exactly their targets.
// Implementation side of the correspondence + the property oracle.
package main

import (
	"fmt"
	"sort"
	"strings"

	"verifharness/lib"

	gologging "gopkg.in/op/go-logging.v1"

	"github.com/thought-machine/please/src/core"
	"github.com/thought-machine/please/src/parse/asp"
)

// newState is core.NewBuildState without its watchdog: NewBuildState starts forwardResults, which dumps all goroutine
// stacks after 5 idle seconds; one active (never finished) result parks it on a plain channel receive instead.
func newState(cfg *core.Configuration) *core.BuildState {
	st := core.NewBuildState(cfg)
	st.LogTestRunning(core.NewBuildTarget(core.BuildLabel{PackageName: "verif", Name: "park"}), 1, core.TargetTesting, "")
	return st
}

// ------------------------------------------------------------------------------------------------
// Coq printers

func coqLabel(l core.BuildLabel) string {
	return lib.App("L", lib.Str(l.PackageName), lib.Str(l.Name), lib.Str(l.Subrepo))
}

func coqLabels(ls []core.BuildLabel) string {
	out := make([]string, len(ls))
	for i, l := range ls {
		out[i] = coqLabel(l)
	}
	return lib.List(out)
}

func coqBools(bs []bool) string {
	out := make([]string, len(bs))
	for i, b := range bs {
		out[i] = lib.Bool(b)
	}
	return lib.List(out)
}

type jsLabel struct {
	Pkg     string `json:"pkg"`
	Name    string `json:"name"`
	Subrepo string `json:"subrepo"`
}

func js(l core.BuildLabel) jsLabel { return jsLabel{l.PackageName, l.Name, l.Subrepo} }
func jsl(ls []core.BuildLabel) []jsLabel {
	out := []jsLabel{}
	for _, l := range ls {
		out = append(out, js(l))
	}
	return out
}

// ------------------------------------------------------------------------------------------------
// The property oracle, written from the documentation, not from the code.

// A target name as the documentation describes it: non-empty, none of the reserved characters, not
// hidden-file-like (leading dot) except the pseudo-name "...", and not one of the reserved suffixes.
func docValidName(n string) bool {
	if n == "" {
		return false
	}
	for i := 0; i < len(n); i++ {
		switch n[i] {
		case '|', '$', '*', '?', '[', ']', '{', '}', ':', '(', ')', '&', '/', '\\':
			return false
		}
	}
	if n[0] == '.' && n != "..." {
		return false
	}
	return !strings.HasSuffix(n, "._build") && !strings.HasSuffix(n, "._test")
}

// components of a package path; the root package has none.
func comps(p string) []string {
	if p == "" {
		return nil
	}
	return strings.Split(p, "/")
}

// under: q is package p or a package in a directory below p (component-wise, never by string prefix).
func under(p, q string) bool {
	cp, cq := comps(p), comps(q)
	if len(cp) > len(cq) {
		return false
	}
	for i := range cp {
		if cp[i] != cq[i] {
			return false
		}
	}
	return true
}

// docSelects: does pattern pat select the package/target `other`?  rootAlias: names that also denote the
// repository root for this use (Matches accepts "." = PackageDir of the root).  exact decides a plain label.
func docSelects(pat, other core.BuildLabel, rootAlias string, exact func() bool) bool {
	switch pat.Name {
	case "...":
		return (rootAlias != "" && pat.PackageName == rootAlias) || under(pat.PackageName, other.PackageName)
	case "all":
		return pat.PackageName == other.PackageName
	}
	return exact()
}

func docIncludes(pat, other core.BuildLabel) bool {
	return docSelects(pat, other, "", func() bool { return pat.PackageName == other.PackageName && pat.Name == other.Name })
}

func docMatches(pat, other core.BuildLabel) bool {
	return docSelects(pat, other, ".", func() bool { return pat == other.Parent() })
}

func sharesStringPrefix(p, q string) bool { return p != "" && strings.HasPrefix(q, p) }

// ------------------------------------------------------------------------------------------------
// 1. parse / print

const alphabet = "/:a.@#_-"

type rtResult struct {
	ok      bool
	class   string
	what    string
	printed string
	re      *jsLabel
}

// roundTrip is the repository's own FuzzParseBuildLabel assertion: an accepted string parses to a label whose
// String() parses back to an equal label.  Failures get a narrow class.
func roundTrip(target, cur string, l core.BuildLabel) rtResult {
	p := l.String()
	l2, err := core.TryParseBuildLabel(p, cur, "")
	if err == nil && l2 == l {
		return rtResult{ok: true, printed: p}
	}
	r := rtResult{printed: p}
	if err == nil {
		j := js(l2)
		r.re = &j
	}
	switch {
	case l.PackageName == "" && l.Name == "_ORIGINAL" && l.Subrepo == "" && p == "command-line targets":
		r.class = "original-target-sentinel"
	case err != nil && !strings.Contains(target, ":") && !docValidName(l.Name):
		r.class = "implied-name-unvalidated"
	case strings.HasSuffix(l.Subrepo, "/") && docValidName(l.Name):
		// the slash can only come from the string: the subrepo arguments the harness passes never end in one
		r.class = "subrepo-trailing-slash"
	default:
		r.class = "label-roundtrip-other"
	}
	if err != nil {
		r.what = fmt.Sprintf("%q (in package %q) parses to %+v, printed %q, which does not parse: %v", target, cur, l, p, err)
	} else {
		r.what = fmt.Sprintf("%q (in package %q) parses to %+v, printed %q, which parses to the different label %+v", target, cur, l, p, l2)
	}
	return r
}

func rtInput(target, cur string, l core.BuildLabel, r rtResult) map[string]any {
	return map[string]any{"target": target, "current_path": cur, "label": js(l), "printed": r.printed, "reparsed": r.re}
}

// Small cases are collected into CBatch cases: the per-case overhead inside Coq (and the number of case files, each of
// which loads the Coq libraries) dominates otherwise.  Every inner case still counts as an evaluation.
type batch struct {
	terms []string
	js    []any
	key   string
	nontr bool
}

var openBatches = map[string]*batch{}

func emit(c *lib.Ctx, kind string, size int, term string, j any, key string, nontrivial bool) {
	b := openBatches[kind]
	if b == nil {
		b = &batch{}
		openBatches[kind] = b
	}
	if len(b.terms) > 0 {
		c.Eval(j, key, nontrivial) // the first inner case is counted by c.Case below
	} else {
		b.key, b.nontr = key, nontrivial
	}
	b.terms, b.js = append(b.terms, term), append(b.js, j)
	if len(b.terms) >= size {
		closeBatch(c, kind)
	}
}

func closeBatch(c *lib.Ctx, kind string) {
	b := openBatches[kind]
	if b == nil || len(b.terms) == 0 {
		return
	}
	c.Case(lib.App("CBatch", lib.List(b.terms)), map[string]any{"kind": "batch of " + kind, "cases": b.js}, b.key, b.nontr)
	delete(openBatches, kind)
	flush(false)
}

// flush(false) is called after every cheap case: every 8th call emits one pending enumeration group.
var flush = func(all bool) {}

type enumStats struct{ strings, accepted, failing int }

// enumGroup enumerates prefix++w, |w| <= depth, in pre-order through the real parser.
// With explicit the model is compared entry by entry; otherwise by (count, 60-bit digest of the encoded entries).
// Oracle and statistics are only evaluated when st != nil (a string is round-tripped once, not once per grouping).
func enumGroup(c *lib.Ctx, prefix string, depth int, cur string, explicit bool, st *enumStats, labels map[core.BuildLabel]bool) func() {
	var blob strings.Builder
	items := []string{}
	nitems := 0
	var rec func(x []byte, d int)
	rec = func(x []byte, d int) {
		t := string(x)
		if st != nil {
			st.strings++
		}
		if l, err := core.TryParseBuildLabel(t, cur, ""); err == nil {
			if explicit {
				items = append(items, lib.Pair(lib.Str(t), coqLabel(l)))
			}
			// one entry of Model/C20.v encode_accepted; neither separator is in the alphabet or in cur
			blob.WriteString(t + " " + l.PackageName + " " + l.Name + " " + l.Subrepo + "|")
			nitems++
			if st != nil {
				st.accepted++
				labels[l] = true
				c.Oracle()
				if r := roundTrip(t, cur, l); !r.ok {
					st.failing++
					c.Fail(r.class, r.what, rtInput(t, cur, l, r))
				}
			}
		}
		if d == 0 {
			return
		}
		for i := 0; i < len(alphabet); i++ {
			rec(append(append([]byte{}, x...), alphabet[i]), d-1)
		}
	}
	rec([]byte(prefix), depth)
	injs := map[string]any{"kind": "enum", "prefix": prefix, "depth": depth, "current_path": cur, "accepted": nitems}
	if explicit {
		return func() {
			c.Case(lib.App("CEnum", lib.Str(alphabet), lib.Nat(depth), lib.Str(prefix), lib.Str(cur), lib.List(items)), injs, "enum "+prefix, nitems > 0)
		}
	}
	var h uint64
	for _, b := range []byte(blob.String()) {
		h = ((h << 8) + h + uint64(b) + 1) & (1<<60 - 1) // Model/C20.v digest_step
	}
	injs["digest"] = h
	c.HistN("enum_accepted_per_group_log2", log2(nitems))
	return func() {
		c.Case(lib.App("CEnumDigest", lib.Str(alphabet), lib.Nat(depth), lib.Str(prefix), lib.Str(cur), lib.Nat(nitems), lib.N(h)), injs, "enumd "+prefix, nitems > 0)
	}
}

func log2(n int) int {
	k := 0
	for n > 0 {
		n >>= 1
		k++
	}
	return k
}

func allStrings(n int) []string {
	out := []string{""}
	for i := 0; i < n; i++ {
		next := []string{}
		for _, p := range out {
			for j := 0; j < len(alphabet); j++ {
				next = append(next, p+string(alphabet[j]))
			}
		}
		out = next
	}
	return out
}

// --- structured and fuzzed label strings

var segPool = []string{"a", "b", "p", "pfoo", "p-x", "src", "core", "third_party", ".x", "..", ".", "x._build", "y._test", "...", "all", "_a", "a.b", "é", "a b"}
var namePool = []string{"a", "t", "core", "all", "...", "_t#x", "__t#a#b", "t#x", "#", "_#", ".hidden", "x._build", "x._test", "_ORIGINAL", "_STDIN", "a|b", "a$", "n-1", "é", "a b", "x.y"}
var subPool = []string{"", "", "sub", "third_party/go", "s@linux_amd64", "a/", "/", "/a", ".s", "s:t", "pleasings"}
var subArgPool = []string{"sub", "third_party/go", "s@linux_amd64", "pleasings"}
var mutBytes = []byte("/:@#._-|$*?[]{}()&\\ a\x00\xff\xc3")

func genPkg(r *lib.Rng) string {
	n := r.Range(0, 3)
	segs := []string{}
	for i := 0; i < n; i++ {
		segs = append(segs, lib.Pick(r, segPool))
	}
	return strings.Join(segs, "/")
}

func genValidPkg(r *lib.Rng) string {
	for {
		p := genPkg(r)
		if docValidPkg(p) {
			return p
		}
	}
}

func docValidPkg(p string) bool {
	if p == "" {
		return true
	}
	if p[0] == '/' || p[len(p)-1] == '/' || strings.Contains(p, "//") {
		return false
	}
	return !strings.ContainsAny(p, "|$*?[]{}:()&\\")
}

func genLabelString(r *lib.Rng) string {
	pkg, name, sub := genPkg(r), lib.Pick(r, namePool), lib.Pick(r, subPool)
	var t string
	switch r.Intn(12) {
	case 0:
		t = "//" + pkg + ":" + name
	case 1:
		t = "//" + pkg
	case 2:
		t = ":" + name
	case 3:
		t = "@" + sub + "//" + pkg + ":" + name
	case 4:
		t = "///" + sub + "//" + pkg + ":" + name
	case 5:
		t = "@" + sub
	case 6:
		t = "@" + sub + ":" + name
	case 7:
		t = "//" + pkg + "/..."
	case 8:
		t = "///" + sub + "//" + pkg + "/..."
	case 9:
		t = "///" + sub + "//" + pkg
	case 10:
		t = core.BuildLabel{PackageName: pkg, Name: name, Subrepo: sub}.String()
	default:
		t = "//" + pkg + ":" + name
	}
	// mutate
	b := []byte(t)
	for k := r.Intn(3); k > 0 && r.Chance(1, 2); k-- {
		switch r.Intn(3) {
		case 0:
			if len(b) > 0 {
				b[r.Intn(len(b))] = lib.Pick(r, mutBytes)
			}
		case 1:
			i := r.Intn(len(b) + 1)
			b = append(b[:i], append([]byte{lib.Pick(r, mutBytes)}, b[i:]...)...)
		case 2:
			if len(b) > 0 {
				i := r.Intn(len(b))
				b = append(b[:i], b[i+1:]...)
			}
		}
	}
	return string(b)
}

func parseCase(c *lib.Ctx, target, cur, sub string, labels map[core.BuildLabel]bool) {
	l, err := core.TryParseBuildLabel(target, cur, sub)
	in := map[string]any{"kind": "parse", "target": target, "current_path": cur, "subrepo_arg": sub}
	if err == nil {
		in["label"] = js(l)
		labels[l] = true
	}
	emit(c, "parse", 10, lib.App("CParse", lib.Str(target), lib.Str(cur), lib.Str(sub), lib.Opt(err == nil, coqLabel(l))), in,
		"parse "+target+"\x00"+cur+"\x00"+sub, err == nil)
	if err == nil {
		c.Hist("parse", "accepted")
		c.Oracle()
		if r := roundTrip(target, cur, l); !r.ok {
			// with a subrepo argument the label carries the caller's subrepo; String() must still re-parse to it
			c.Fail(r.class, r.what, rtInput(target, cur, l, r))
		}
	} else {
		c.Hist("parse", "rejected")
	}
}

// ------------------------------------------------------------------------------------------------
// 2. package trees

var treeSegs = []string{"p", "pfoo", "p-x", "pf", "q", "sub", "exp", "expo", "a", "ab", "third_party", "_please", "x.y"}

// genTree returns a set of package names with shared-prefix siblings: for a package q also q+"foo", q+"/sub",
// q minus its last byte, and the parents of everything.
func genTree(r *lib.Rng, dirs []string) []string {
	set := map[string]bool{}
	for _, d := range dirs {
		// the experimental directories, a sibling sharing the name as a prefix, and a package below
		set[d] = true
		set[d+lib.Pick(r, []string{"o", "foo", "-x", "_"})] = true
		if r.Chance(2, 3) {
			set[d+"/"+lib.Pick(r, treeSegs)] = true
		}
	}
	n := r.Range(2, 5)
	for i := 0; i < n; i++ {
		d := r.Range(1, 3)
		segs := []string{}
		for j := 0; j < d; j++ {
			segs = append(segs, lib.Pick(r, treeSegs))
		}
		q := strings.Join(segs, "/")
		set[q] = true
		if r.Chance(2, 3) {
			set[q+lib.Pick(r, []string{"foo", "o", "-x", "_", "0"})] = true
		}
		if r.Chance(1, 2) {
			set[q+"/"+lib.Pick(r, treeSegs)] = true
		}
		if len(q) > 1 && q[len(q)-2] != '/' && r.Chance(1, 2) {
			set[q[:len(q)-1]] = true
		}
		if r.Chance(1, 2) && d > 1 {
			set[strings.Join(segs[:d-1], "/")] = true
		}
	}
	if r.Chance(1, 2) {
		set[""] = true
	}
	if r.Chance(1, 8) {
		set["."] = true
	}
	out := []string{}
	for q := range set {
		out = append(out, q)
	}
	sort.Strings(out)
	return out
}

var targetNames = []string{"t", "u", "_t#x", "__u#a", "all", "lib"}
var treeSubs = []string{"", "", "", "s"}

func genPatterns(r *lib.Rng, tree []string) []core.BuildLabel {
	pats := []core.BuildLabel{}
	for _, q := range tree {
		if r.Chance(3, 4) {
			pats = append(pats, core.BuildLabel{PackageName: q, Name: "...", Subrepo: lib.Pick(r, treeSubs)})
		}
		if r.Chance(1, 2) {
			pats = append(pats, core.BuildLabel{PackageName: q, Name: "all", Subrepo: lib.Pick(r, treeSubs)})
		}
		if r.Chance(1, 3) {
			pats = append(pats, core.BuildLabel{PackageName: q, Name: lib.Pick(r, targetNames), Subrepo: lib.Pick(r, treeSubs)})
		}
	}
	// a pattern for a directory that is not itself a package, and the root aliases
	pats = append(pats, core.BuildLabel{PackageName: lib.Pick(r, treeSegs), Name: "..."})
	if r.Chance(1, 3) {
		pats = append(pats, core.BuildLabel{PackageName: lib.Pick(r, []string{"", "."}), Name: "..."})
	}
	return pats
}

func genOthers(r *lib.Rng, tree []string) []core.BuildLabel {
	out := []core.BuildLabel{}
	for _, q := range tree {
		out = append(out, core.BuildLabel{PackageName: q, Name: lib.Pick(r, targetNames), Subrepo: lib.Pick(r, treeSubs)})
		if r.Chance(1, 3) {
			out = append(out, core.BuildLabel{PackageName: q, Name: lib.Pick(r, targetNames)})
		}
	}
	return out
}

func selectCase(c *lib.Ctx, pats, others []core.BuildLabel) {
	defer flush(false)
	incRows, matRows := []string{}, []string{}
	nontrivial := false
	for _, p := range pats {
		inc, mat := make([]bool, len(others)), make([]bool, len(others))
		for i, o := range others {
			inc[i], mat[i] = p.Includes(o), p.Matches(o)
			in := map[string]any{"pattern": js(p), "other": js(o)}
			sib := p.PackageName != o.PackageName && sharesStringPrefix(p.PackageName, o.PackageName) && !under(p.PackageName, o.PackageName)
			if sib && p.Name == "..." {
				nontrivial = true
				c.Hist("pairs", "shared-prefix-sibling")
			} else if inc[i] {
				c.Hist("pairs", "selected")
			} else {
				c.Hist("pairs", "not-selected")
			}
			c.Oracle()
			if want := docIncludes(p, o); inc[i] != want {
				cls := "includes-misses-selected-package"
				if inc[i] {
					cls = "includes-selects-unrelated-package"
					if sib {
						cls = "includes-selects-sibling-by-prefix"
					}
				}
				c.Fail(cls, fmt.Sprintf("%v.Includes(%v) = %v, the documented rule says %v", p, o, inc[i], want), in)
			}
			c.Oracle()
			if want := docMatches(p, o); mat[i] != want {
				cls := "matches-misses-selected-package"
				if mat[i] {
					cls = "matches-selects-unrelated-package"
					if sib {
						cls = "matches-selects-sibling-by-prefix"
					}
				}
				c.Fail(cls, fmt.Sprintf("%v.Matches(%v) = %v, the documented rule says %v", p, o, mat[i], want), in)
			}
		}
		incRows = append(incRows, coqBools(inc))
		matRows = append(matRows, coqBools(mat))
	}
	c.Case(lib.App("CSelect", coqLabels(pats), coqLabels(others), lib.List(incRows), lib.List(matRows)),
		map[string]any{"kind": "select", "patterns": jsl(pats), "others": jsl(others)},
		fmt.Sprint("sel", pats, others), nontrivial)
}

// --- validateSandbox

type sbxTarget struct {
	Label     core.BuildLabel
	Filegroup bool
	Remote    bool
	Sandbox   bool
	HasTest   bool
	TestSbx   bool
}

func sandboxState(whitelist []core.BuildLabel, dirs []string) *core.BuildState {
	cfg := core.DefaultConfiguration()
	cfg.Sandbox.ExcludeableTargets = whitelist
	cfg.Parse.ExperimentalDir = dirs
	return &core.BuildState{Config: cfg}
}

func sandboxCase(c *lib.Ctx, state *core.BuildState, t sbxTarget) {
	whitelist, dirs := state.Config.Sandbox.ExcludeableTargets, state.Config.Parse.ExperimentalDir
	bt := core.NewBuildTarget(t.Label)
	bt.IsFilegroup, bt.IsRemoteFile, bt.Sandbox = t.Filegroup, t.Remote, t.Sandbox
	if t.HasTest {
		bt.Test = &core.TestFields{Sandbox: t.TestSbx}
	}
	ok := asp.VerifC20ValidateSandbox(state, bt) == nil
	in := map[string]any{"kind": "sandbox", "whitelist": jsl(whitelist), "experimental_dirs": dirs, "target_label": js(t.Label),
		"filegroup": t.Filegroup, "remote_file": t.Remote, "sandbox": t.Sandbox, "has_test": t.HasTest, "test_sandbox": t.TestSbx, "accepted": ok}
	test := "None"
	if t.HasTest {
		test = lib.Some(lib.Bool(t.TestSbx))
	}
	optsOut := !(!t.Remote && t.Sandbox && (!t.HasTest || t.TestSbx))
	emit(c, "sandbox", 10, lib.App("CSandbox", coqLabels(whitelist), lib.StrList(dirs),
		lib.App("T", coqLabel(t.Label), lib.Bool(t.Filegroup), lib.Bool(t.Remote), lib.Bool(t.Sandbox), test), lib.Bool(ok)),
		in, fmt.Sprint("sbx", whitelist, dirs, t), optsOut && len(whitelist) > 0 && !t.Filegroup)
	// oracle: an opt-out is accepted exactly when the target is selected by a whitelist entry or lies in an experimental directory
	c.Oracle()
	byWhitelist, byDir, sibW, sibD := false, false, false, false
	for _, w := range whitelist {
		if docMatches(w, t.Label) {
			byWhitelist = true
		}
		if w.Name == "..." && sharesStringPrefix(w.PackageName, t.Label.PackageName) {
			sibW = true
		}
	}
	for _, d := range dirs {
		if under(d, t.Label.PackageName) {
			byDir = true
		}
		if sharesStringPrefix(d, t.Label.PackageName) {
			sibD = true
		}
	}
	want := t.Filegroup || len(whitelist) == 0 || !optsOut || t.Label.PackageName == "_please" || byWhitelist || byDir
	if ok != want {
		cls := "sandbox-optout-rejected-for-whitelisted-target"
		if ok {
			cls = "sandbox-optout-accepted-outside-whitelist"
			if sibW {
				cls = "sandbox-whitelist-selects-sibling-by-prefix"
			} else if sibD {
				cls = "sandbox-experimental-dir-selects-sibling-by-prefix"
			}
		}
		c.Fail(cls, fmt.Sprintf("validateSandbox accepted=%v for %v with whitelist %v and experimental dirs %v; the documented rule says %v", ok, t.Label, whitelist, dirs, want), in)
	}
	if optsOut && len(whitelist) > 0 && !t.Filegroup {
		c.Hist("sandbox", fmt.Sprintf("optout accepted=%v", ok))
	} else {
		c.Hist("sandbox", "not an opt-out")
	}
}

// --- CanSee (visibility + experimental tree)

func docExperimental(dirs []string, l core.BuildLabel) bool {
	if l.Subrepo != "" {
		return false
	}
	for _, d := range dirs {
		if under(d, l.PackageName) {
			return true
		}
	}
	return false
}

func canSeeCase(c *lib.Ctx, state *core.BuildState, dirs []string, l, dep core.BuildLabel, vis []core.BuildLabel) {
	dt := core.NewBuildTarget(dep)
	dt.Visibility = vis
	got := l.CanSee(state, dt)
	in := map[string]any{"kind": "cansee", "experimental_dirs": dirs, "label": js(l), "dep": js(dep), "visibility": jsl(vis), "visible": got}
	emit(c, "cansee", 6, lib.App("CCanSee", lib.StrList(dirs), coqLabel(l), coqLabel(dep), coqLabels(vis), lib.Bool(got)), in,
		fmt.Sprint("cs", dirs, l, dep, vis), l.PackageName != dep.PackageName)
	c.Oracle()
	expL, expD := docExperimental(dirs, l), docExperimental(dirs, dep)
	p := l.Parent()
	want := false
	switch {
	case l.PackageName == dep.PackageName:
		want = true
	case expD && !expL:
		want = false
	default:
		for _, v := range vis {
			if docIncludes(v, p) {
				want = true
			}
		}
		want = want || dep.PackageName == p.PackageName || expL
	}
	if got != want {
		cls := "visibility-hides-selected-package"
		if got {
			cls = "visibility-admits-unselected-package"
		}
		c.Fail(cls, fmt.Sprintf("%v.CanSee(%v with visibility %v, experimental dirs %v) = %v, the documented rule says %v", l, dep, vis, dirs, got, want), in)
	}
	c.Hist("cansee", fmt.Sprintf("visible=%v", got))
}

// --- expansion of an original pseudo-target over a graph, with --exclude labels

func expandCase(c *lib.Ctx, state *core.BuildState, tree []string, r *lib.Rng) {
	defer flush(false)
	state.Graph = core.NewGraph() // NewBuildState costs ~70 ms: one state, a fresh graph per case
	graph := [][2]any{}
	coqGraph := []string{}
	all := []core.BuildLabel{}
	for _, q := range tree {
		pkg := core.NewPackage(q)
		names := []string{}
		for _, n := range []string{"t", "u", "_t#x"} {
			if r.Chance(2, 3) {
				names = append(names, n)
				t := core.NewBuildTarget(core.BuildLabel{PackageName: q, Name: n})
				pkg.AddTarget(t)
				state.Graph.AddTarget(t)
				all = append(all, t.Label)
			}
		}
		state.Graph.AddPackage(pkg)
		graph = append(graph, [2]any{q, names})
		coqGraph = append(coqGraph, lib.Pair(lib.Str(q), lib.StrList(names)))
	}
	pat := core.BuildLabel{PackageName: lib.Pick(r, tree), Name: lib.Pick(r, []string{"...", "...", "all"})}
	if r.Chance(1, 5) {
		pat.PackageName = lib.Pick(r, treeSegs)
	}
	excl := []core.BuildLabel{}
	for k := r.Intn(3); k > 0; k-- {
		excl = append(excl, core.BuildLabel{PackageName: lib.Pick(r, tree), Name: lib.Pick(r, []string{"...", "all", "t", "_t#x"})})
	}
	state.ExcludeTargets = excl
	got := state.ExpandLabels([]core.BuildLabel{pat})
	in := map[string]any{"kind": "expand", "graph": graph, "pattern": js(pat), "exclude": jsl(excl), "expanded": jsl(got)}
	c.Case(lib.App("CExpand", coqLabels(excl), coqLabel(pat), lib.List(coqGraph), coqLabels(got)), in,
		fmt.Sprint("ex", graph, pat, excl), len(got) > 0)
	// oracle: exactly the targets of the selected packages that no exclusion selects
	c.Oracle()
	want := map[core.BuildLabel]bool{}
	for _, l := range all {
		sel := docIncludes(pat, core.BuildLabel{PackageName: l.PackageName})
		if pat.Name == "all" {
			sel = l.PackageName == pat.PackageName
		}
		for _, e := range excl {
			if docIncludes(e, l) {
				sel = false
			}
		}
		if sel {
			want[l] = true
		}
	}
	bad := len(want) != len(got)
	for _, l := range got {
		if !want[l] {
			bad = true
		}
	}
	if bad {
		over := false
		for _, l := range got {
			if !want[l] {
				over = true
			}
		}
		cls := "expansion-misses-selected-target"
		if over {
			cls = "expansion-selects-unselected-target"
		}
		c.Fail(cls, fmt.Sprintf("expanding %v (exclude %v) over packages %v gave %v", pat, excl, tree, got), in)
	}
	c.HistN("expanded_targets", len(got))
}

// --- one process: the exclude option slice, appended to and handed to a fresh state per build (follow-up, seeded r2-m1)

// sessOp is one step of a plz process as src/please.go runs it: `opts.BuildFlags.Exclude = append(opts.BuildFlags.Exclude, ...)`
// (query changes, runBuild) or a build (Please(): a fresh state, state.SetIncludeAndExclude(.., opts.BuildFlags.Exclude)).
type sessOp struct {
	Append []string `json:"append,omitempty"`
	Build  bool     `json:"build,omitempty"`
}

type sessInput struct {
	Kind     string    `json:"kind"`
	User     []string  `json:"exclude_flags"`
	ExtraCap int       `json:"extra_capacity"`
	Ops      []sessOp  `json:"ops"`
	Probes   []jsLabel `json:"probes"`
	Builds   []any     `json:"builds,omitempty"`
}

// docLabelShaped: what the documentation of --exclude calls a build label (as opposed to a label of a target):
// //..., :name, or @subrepo with a package or a name.
func docLabelShaped(e string) bool {
	return strings.HasPrefix(e, "//") || strings.HasPrefix(e, ":") || (strings.HasPrefix(e, "@") && (strings.Contains(e, ":") || strings.Contains(e, "//")))
}

func sessionCase(c *lib.Ctx, user []string, extraCap int, ops []sessOp, probes []core.BuildLabel) {
	defer flush(false)
	// the process's option slice (with spare capacity or without: the caller's own appends then write in place or move)
	opts := make([]string, len(user), len(user)+extraCap)
	copy(opts, user)
	// what the user asked for, kept by value: the oracle never looks at the slice the implementation was given
	logical := append([]string{}, user...)
	in := sessInput{Kind: "session", User: append([]string{}, user...), ExtraCap: extraCap, Ops: ops, Probes: jsl(probes)}
	coqOps, coqObs := []string{}, []string{}
	nbuilds, labelBeforePlain := 0, false
	failed := map[string]bool{} // one report per class and session
	fail := func(class, what string) {
		if !failed[class] {
			failed[class] = true
			c.Fail(class, what, in)
		}
	}
	for _, op := range ops {
		if !op.Build {
			opts = append(opts, op.Append...)
			logical = append(logical, op.Append...)
			coqOps = append(coqOps, lib.App("OAppend", lib.StrList(op.Append)))
			continue
		}
		coqOps = append(coqOps, "OBuild")
		seenLabel := false
		for _, e := range logical {
			if docLabelShaped(e) {
				seenLabel = true
			} else if seenLabel {
				labelBeforePlain = true
			}
		}
		state := &core.BuildState{}
		state.SetIncludeAndExclude(nil, opts)
		after := append([]string{}, opts...)
		excl := append([]string{}, state.Exclude...)
		et := append([]core.BuildLabel{}, state.ExcludeTargets...)
		row := make([]bool, len(probes))
		for i, p := range probes {
			row[i] = !state.ShouldInclude(core.NewBuildTarget(p)) // the probes carry no labels: only ExcludeTargets can drop them
		}
		coqObs = append(coqObs, lib.Pair(lib.Pair(lib.Pair(lib.StrList(after), lib.StrList(excl)), coqLabels(et)), coqBools(row)))
		in.Builds = append(in.Builds, map[string]any{"option_slice_after": after, "state_exclude": excl, "state_exclude_targets": jsl(et), "excluded": row})

		// oracle, per build: the option slice is what the user gave plus what was appended, and a probe is dropped exactly
		// when some label-shaped entry of THAT list selects it
		c.Oracle()
		same := len(after) == len(logical)
		for i := 0; same && i < len(after); i++ {
			same = after[i] == logical[i]
		}
		if !same {
			fail("exclude-list-argument-modified", fmt.Sprintf("build %d: SetIncludeAndExclude was given the exclude options %q and left the caller's slice as %q", nbuilds+1, logical, after))
			// the process goes on with what is in its slice now; the oracle keeps judging against what the user asked for
		}
		for i, p := range probes {
			c.Oracle()
			want, by := false, ""
			for _, e := range logical {
				if !docLabelShaped(e) {
					continue
				}
				if l, err := core.TryParseBuildLabel(e, "", ""); err == nil && docIncludes(l, p) {
					want, by = true, e
				}
			}
			if row[i] != want {
				switch {
				case want && nbuilds > 0:
					fail("exclude-pattern-lost-on-repeated-setup", fmt.Sprintf("build %d of one process: --exclude %s selects %v but the target is no longer excluded (exclude options %q)", nbuilds+1, by, p, logical))
				case want:
					fail("exclude-pattern-not-applied", fmt.Sprintf("--exclude %s selects %v but the target is not excluded (exclude options %q)", by, p, logical))
				default:
					fail("exclude-applied-without-pattern", fmt.Sprintf("build %d: %v is excluded but no entry of the exclude options %q selects it", nbuilds+1, p, logical))
				}
			}
		}
		nbuilds++
	}
	c.Case(lib.App("CSession", lib.StrList(user), lib.List(coqOps), coqLabels(probes), lib.List(coqObs)), in,
		fmt.Sprint("sess", user, ops, probes), nbuilds >= 2 && labelBeforePlain)
	c.HistN("session_builds", nbuilds)
	if labelBeforePlain {
		c.Hist("session", "pattern before a plain exclude")
	} else {
		c.Hist("session", "no pattern before a plain exclude")
	}
}

var plainExcludes = []string{"manual", "py", "go,test", "foo*", "e2e", "@foo", "/x", "a//b", "manual:" + core.OsArch, "", "x:y"}

// genSession: a package tree with shared-prefix siblings, 1-4 --exclude values (patterns of the tree in their printed
// or @-spelling, and plain label expressions), one of the operation sequences of src/please.go or a random one.
func genSession(r *lib.Rng) ([]string, int, []sessOp, []core.BuildLabel) {
	tree := genTree(r, nil)
	pats := genPatterns(r, tree)
	manual := []string{"manual", "manual:" + core.OsArch}
	spell := func(p core.BuildLabel) string {
		s := p.String()
		if p.Subrepo != "" && r.Chance(1, 2) {
			s = "@" + strings.TrimPrefix(s, "///")
		}
		return s
	}
	usable := func(e string) bool {
		if !docLabelShaped(e) {
			return true
		}
		// SetIncludeAndExclude calls log.Fatalf on a label-shaped exclude that does not parse, and looks for the repository
		// root for a relative one: neither can be run in the harness process
		_, err := core.TryParseBuildLabel(e, "", "")
		return err == nil && !strings.HasPrefix(e, ":")
	}
	pick := func(labelChance int) string {
		for {
			e := lib.Pick(r, plainExcludes)
			if r.Chance(labelChance, 4) {
				e = spell(lib.Pick(r, pats))
			}
			if usable(e) {
				return e
			}
		}
	}
	user := []string{}
	for k := r.Range(1, 4); k > 0; k-- {
		user = append(user, pick(2))
	}
	if r.Chance(2, 3) {
		user[0] = pick(4) // the shape of the command line that matters most: a pattern first
	}
	var ops []sessOp
	switch r.Intn(5) {
	case 0: // plz build / test: runBuild appends, one build
		ops = []sessOp{{Append: manual}, {Build: true}}
	case 1: // plz query changes --since: its own append, then runBuild twice
		ops = []sessOp{{Append: manual}, {Append: manual}, {Build: true}, {Append: manual}, {Build: true}}
	case 2: // plz watch: a build per change
		ops = []sessOp{{Append: manual}, {Build: true}}
		for k := r.Range(1, 3); k > 0; k-- {
			ops = append(ops, sessOp{Append: manual}, sessOp{Build: true})
		}
	default:
		for k := r.Range(2, 6); k > 0; k-- {
			if r.Chance(1, 2) {
				xs := []string{}
				for j := r.Range(0, 2); j > 0; j-- {
					xs = append(xs, pick(1))
				}
				ops = append(ops, sessOp{Append: xs})
			} else {
				ops = append(ops, sessOp{Build: true})
			}
		}
		ops = append(ops, sessOp{Build: true})
	}
	probes := genOthers(r, tree)
	if len(probes) > 8 {
		lib.Shuffle(r, probes)
		probes = probes[:8]
	}
	return user, r.Intn(4), ops, probes
}

// ------------------------------------------------------------------------------------------------

func main() {
	lib.Main("C20", func(c *lib.Ctx) {
		gologging.SetLevel(gologging.CRITICAL, "plz") // CanSee logs every refusal / suppression
		c.Model("From PlzV Require Import Model.C20.", "C20.case", "C20.check")
		maxLen := c.Scale(6, 7)
		c.Rule(fmt.Sprintf("parse/print: EVERY string of length <= %d over the 8 symbols %q through core.TryParseBuildLabel in package a/a "+
			"(one case per prefix group: the model must accept exactly the same strings with the same labels), plus structured label strings in 12 "+
			"syntactic forms with 0-2 byte mutations, random current package and subrepo argument; every accepted string is round-tripped through String(). "+
			"selection: random package trees of 2-5 seeds over 13 segment names, each with shared-prefix siblings (q+foo, q minus a byte), children and parents; "+
			"all (pattern, label) pairs of a tree through Includes and Matches; validateSandbox (hook) on every tree package under a whitelist and experimental "+
			"dirs drawn from the tree; CanSee with experimental dirs and visibility patterns; ExpandLabels over a graph of the tree with exclusions. "+
			"process sessions: one exclude option slice (1-4 --exclude values: patterns of a tree in printed or @ spelling and plain label expressions, "+
			"0-3 spare capacity) taken through the append/build sequences of src/please.go (build, query changes, watch) or a random one of 3-7 steps; every "+
			"build calls SetIncludeAndExclude on a fresh state with the SAME slice and observes the slice, Exclude, ExcludeTargets and ShouldInclude of <= 8 tree labels. "+
			"distinct = distinct inputs; non-trivial = accepted string / tree with a shared-prefix sibling pair under a `...` pattern / an actual sandbox opt-out "+
			"/ different packages / non-empty expansion / a session with >= 2 builds whose slice has a pattern before a plain exclude", maxLen, alphabet))

		labels := map[core.BuildLabel]bool{}

		// --- replay of one failing input (the shapes the oracle reports): only that input is run
		var rp struct {
			Target  *string   `json:"target"`
			Cur     string    `json:"current_path"`
			Pattern *jsLabel  `json:"pattern"`
			Other   *jsLabel  `json:"other"`
			Kind    string    `json:"kind"`
			WL      []jsLabel `json:"whitelist"`
			Dirs    []string  `json:"experimental_dirs"`
			Tgt     *jsLabel  `json:"target_label"`
			FG      bool      `json:"filegroup"`
			Remote  bool      `json:"remote_file"`
			Sbx     bool      `json:"sandbox"`
			HasTest bool      `json:"has_test"`
			TestSbx bool      `json:"test_sandbox"`
			Label   *jsLabel  `json:"label"`
			Dep     *jsLabel  `json:"dep"`
			Vis     []jsLabel `json:"visibility"`
			User    []string  `json:"exclude_flags"`
			Extra   int       `json:"extra_capacity"`
			Ops     []sessOp  `json:"ops"`
			Probes  []jsLabel `json:"probes"`
		}
		unjs := func(j jsLabel) core.BuildLabel {
			return core.BuildLabel{PackageName: j.Pkg, Name: j.Name, Subrepo: j.Subrepo}
		}
		unjsl := func(js []jsLabel) []core.BuildLabel {
			out := []core.BuildLabel{}
			for _, j := range js {
				out = append(out, unjs(j))
			}
			return out
		}
		if c.Replay != "" {
			replayed := false
			func() {
				defer func() { recover() }() // a replay of another shape (e.g. a tie-broken file): fall through to the full run
				if !c.ReadReplay(&rp) {
					return
				}
				switch {
				case rp.Kind == "session" && len(rp.Ops) > 0:
					sessionCase(c, rp.User, rp.Extra, rp.Ops, unjsl(rp.Probes))
					replayed = true
				case rp.Kind == "sandbox" && rp.Tgt != nil:
					sandboxCase(c, sandboxState(unjsl(rp.WL), rp.Dirs), sbxTarget{unjs(*rp.Tgt), rp.FG, rp.Remote, rp.Sbx, rp.HasTest, rp.TestSbx})
					replayed = true
				case rp.Kind == "cansee" && rp.Label != nil && rp.Dep != nil:
					cfg := core.DefaultConfiguration()
					cfg.Parse.ExperimentalDir = rp.Dirs
					canSeeCase(c, newState(cfg), rp.Dirs, unjs(*rp.Label), unjs(*rp.Dep), unjsl(rp.Vis))
					replayed = true
				case rp.Pattern != nil && rp.Other != nil:
					selectCase(c, []core.BuildLabel{unjs(*rp.Pattern)}, []core.BuildLabel{unjs(*rp.Other)})
					replayed = true
				case rp.Target != nil:
					parseCase(c, *rp.Target, rp.Cur, "", labels)
					replayed = true
				}
			}()
			if replayed {
				for _, k := range []string{"parse", "sandbox", "cansee", "print"} {
					closeBatch(c, k)
				}
				return
			}
		}

		// --- 1a. exhaustive strings
		// groups of prefix length 3 compared by digest (every string once), and again entry by entry for all strings up to
		// length 4 (groups of prefix length 1).  The group cases are expensive for Coq, so they are interleaved with the
		// cheap cases below to spread them over the case files.
		const plen = 3
		st := &enumStats{}
		pending := []func(){enumGroup(c, "", plen-1, "a/a", false, st, labels)}
		for _, p := range allStrings(plen) {
			pending = append(pending, enumGroup(c, p, maxLen-plen, "a/a", false, st, labels))
		}
		pending = append(pending, enumGroup(c, "", 0, "a/a", true, nil, labels))
		for _, p := range allStrings(1) {
			pending = append(pending, enumGroup(c, p, 3, "a/a", true, nil, labels))
		}
		ncheap := 0
		flush = func(all bool) {
			ncheap++
			if (all || ncheap%2 == 0) && len(pending) > 0 {
				n := 1
				if all {
					n = len(pending)
				}
				for _, f := range pending[:n] {
					f()
				}
				pending = pending[n:]
			}
		}
		c.Exhaustive(true)
		c.Note("parse/print: exhaustive over all %d strings of length <= %d over %q: %d accepted, %d of them fail the round trip (known classes)", st.strings, maxLen, alphabet, st.accepted, st.failing)

		// --- 1b. adversarial stream: the known witnesses first, then structured + mutated strings
		for _, w := range [][3]string{{"//.a", "", ""}, {"@a/:a", "", ""}, {"//:_ORIGINAL", "", ""}, {"@.a", "", ""}, {"///a/:a", "x", ""},
			{"//x._build", "", ""}, {"//a/...", "", "sub"}, {"//a:b", "", "sub"}, {"//a", "", "sub"}, {":b", "x/y", "sub"}, {"@//a:b", "", ""},
			{"///a///b///c//d:e", "", ""}, {"@@a", "", ""}, {"//...", "", ""}, {"///...", "", ""}, {"//a/.../...", "", ""}, {"//a:...", "", ""},
			{":...", "", ""}, {"//a//...", "", ""}, {"//", "", ""}, {"", "", ""}, {":", "", ""}, {"@", "", ""}, {"@:", "", ""}, {"@a:", "", ""}} {
			parseCase(c, w[0], w[1], w[2], labels)
		}
		nfuzz := c.Scale(700, 12000)
		for i := 0; i < nfuzz; i++ {
			r := c.Rng.Fork()
			sub := ""
			if r.Chance(1, 4) {
				sub = lib.Pick(r, subArgPool) // what a caller passes: the name of an existing subrepo
			}
			parseCase(c, genLabelString(r), genValidPkg(r), sub, labels)
		}

		// --- 1c. String() of every label seen (capped), plus constructed ones
		labels[core.BuildLabel{}] = true
		labels[core.OriginalTarget] = true
		labels[core.BuildLabelStdin] = true
		labels[core.BuildLabel{Name: "..."}] = true
		labels[core.BuildLabel{PackageName: "a", Name: "...", Subrepo: "s"}] = true
		labels[core.BuildLabel{Name: "...", Subrepo: "s"}] = true
		labels[core.BuildLabel{PackageName: "a", Subrepo: "s"}] = true
		labels[core.BuildLabel{Subrepo: "s"}] = true
		ls := []core.BuildLabel{}
		for l := range labels {
			ls = append(ls, l)
		}
		sort.Slice(ls, func(i, j int) bool { return ls[i].Less(ls[j]) })
		lib.Shuffle(c.Rng, ls)
		if n := c.Scale(600, 6000); len(ls) > n {
			ls = ls[:n]
		}
		ls = append(ls, core.BuildLabel{}, core.OriginalTarget)
		for _, l := range ls {
			p := l.String()
			emit(c, "print", 20, lib.App("CPrint", coqLabel(l), lib.Str(p)), map[string]any{"kind": "print", "label": js(l), "printed": p}, "print "+fmt.Sprintf("%q", l), l.Subrepo != "" || l.Name == "...")
			pl := l.Parent()
			emit(c, "print", 20, lib.App("CParent", coqLabel(l), coqLabel(pl)), map[string]any{"kind": "parent", "label": js(l), "parent": js(pl)}, "parent "+fmt.Sprintf("%q", l), pl != l)
		}

		// --- 2. selection over package trees
		// the pre-fix witness (corpus/C20/sandbox_whitelist_prefix_repo.tar): whitelist //p/..., experimental dir exp
		wl := []core.BuildLabel{{PackageName: "p", Name: "..."}}
		wst := sandboxState(wl, []string{"exp"})
		for _, q := range []string{"p", "p/sub", "pfoo", "exp", "expo", "exp/x", "q", "_please", ""} {
			sandboxCase(c, wst, sbxTarget{Label: core.BuildLabel{PackageName: q, Name: "t"}})
		}
		selectCase(c, []core.BuildLabel{{PackageName: "p", Name: "..."}, {PackageName: "p", Name: "all"}, {PackageName: "", Name: "..."}, {PackageName: ".", Name: "..."},
			{PackageName: "exp", Name: "..."}, {PackageName: "p", Name: "t"}},
			[]core.BuildLabel{{PackageName: "p", Name: "t"}, {PackageName: "p/sub", Name: "t"}, {PackageName: "pfoo", Name: "t"}, {PackageName: "p", Name: "_t#x"},
				{PackageName: "expo", Name: "t"}, {PackageName: "", Name: "t"}, {PackageName: "pfoo/p", Name: "t"}})

		// NewBuildState fixes experimentalLabels from the configuration and costs ~70 ms: a pool of states, each with its own
		// experimental directories; every tree is grown around the directories of the state it is checked with
		type expState struct {
			dirs  []string
			state *core.BuildState
		}
		pool := []expState{}
		for k := c.Scale(10, 40); k > 0; k-- {
			r := c.Rng.Fork()
			dirs := []string{}
			for j := r.Range(0, 2); j > 0; j-- {
				d := lib.Pick(r, treeSegs)
				if r.Chance(1, 3) {
					d += "/" + lib.Pick(r, treeSegs)
				}
				dirs = append(dirs, d)
			}
			cfg := core.DefaultConfiguration()
			cfg.Parse.ExperimentalDir = dirs
			pool = append(pool, expState{dirs, newState(cfg)})
		}
		expandState := newState(core.DefaultConfiguration())
		ntrees := c.Scale(120, 2500)
		for i := 0; i < ntrees; i++ {
			r := c.Rng.Fork()
			es := pool[i%len(pool)]
			dirs, state := es.dirs, es.state
			tree := genTree(r, dirs)
			c.HistN("tree_packages", len(tree))
			pats, others := genPatterns(r, tree), genOthers(r, tree)
			selectCase(c, pats, others)

			// sandbox: whitelist and experimental dirs from the tree
			whitelist := []core.BuildLabel{}
			for k := r.Range(0, 2); k > 0; k-- {
				whitelist = append(whitelist, lib.Pick(r, pats))
			}
			c.HistN("experimental_dirs", len(dirs))
			sst := sandboxState(whitelist, dirs)
			for _, o := range others {
				t := sbxTarget{Label: o, Filegroup: r.Chance(1, 12), Remote: r.Chance(1, 8), Sandbox: r.Chance(1, 4), HasTest: r.Chance(1, 3), TestSbx: r.Bool()}
				sandboxCase(c, sst, t)
			}

			// visibility / experimental tree
			for k := 0; k < 6; k++ {
				vis := []core.BuildLabel{}
				for j := r.Range(0, 2); j > 0; j-- {
					vis = append(vis, lib.Pick(r, pats))
				}
				canSeeCase(c, state, dirs, lib.Pick(r, others), lib.Pick(r, others), vis)
			}

			expandCase(c, expandState, tree, r)
		}
		// --- 3. one process, several builds: the exclude option slice over its life (SetIncludeAndExclude)
		// the seeded witness first: plz query changes --exclude //p/... (demo of seeded/C20/r2-m1)
		manual := []string{"manual", "manual:" + core.OsArch}
		wprobes := []core.BuildLabel{{PackageName: "p", Name: "a"}, {PackageName: "p/q", Name: "b"}, {PackageName: "pfoo", Name: "c"}, {PackageName: "other", Name: "d"}, {Name: "root"}}
		qchanges := []sessOp{{Append: manual}, {Append: manual}, {Build: true}, {Append: manual}, {Build: true}}
		sessionCase(c, []string{"//p/..."}, 0, qchanges, wprobes)
		sessionCase(c, []string{"//p:all", "//p/q:all"}, 1, qchanges, wprobes)
		sessionCase(c, []string{"//pfoo/...", "py", "//p/..."}, 0, qchanges, wprobes)
		nsess := c.Scale(150, 3000)
		for i := 0; i < nsess; i++ {
			r := c.Rng.Fork()
			user, extra, ops, probes := genSession(r)
			sessionCase(c, user, extra, ops, probes)
		}

		for _, k := range []string{"parse", "sandbox", "cansee", "print"} {
			closeBatch(c, k)
		}
		flush(true)
	})
}
