package main

import (
	"fmt"

	"github.com/thought-machine/please/src/core"
)

func main() {
	alpha := []byte("/:a.@#_-")
	total, acc, fails := 0, 0, 0
	classes := map[string]int{}
	ex := map[string]string{}
	var rec func(prefix []byte, n int)
	rec = func(prefix []byte, n int) {
		s := string(prefix)
		total++
		for _, cur := range []string{"", "a/a"} {
			l, err := core.TryParseBuildLabel(s, cur, "")
			if err == nil {
				acc++
				p := l.String()
				l2, err2 := core.TryParseBuildLabel(p, cur, "")
				if err2 != nil || l2 != l {
					fails++
					k := fmt.Sprintf("%q->%+v", "", "")
					_ = k
					cls := "other"
					_, e3 := core.TryNewBuildLabel(l.PackageName, l.Name)
					if e3 != nil {
						cls = "name-invalid"
					} else if len(l.Subrepo) > 0 && l.Subrepo[len(l.Subrepo)-1] == '/' {
						cls = "subrepo-slash"
					}
					if cls == "other" { fmt.Printf("OTHER %q cur=%q -> %+v print %q -> %+v %v\n", s, cur, l, p, l2, err2) }
					classes[cls]++
					if false {
						fmt.Printf("%q cur=%q -> %+v print %q -> %+v %v\n", s, cur, l, p, l2, err2)
					}
					_ = ex
				}
			}
		}
		if n == 0 {
			return
		}
		for _, c := range alpha {
			rec(append(prefix, c), n-1)
		}
	}
	rec(nil, 6)
	fmt.Println(total, acc, fails, classes)
}
