// C17: packages cannot observe or mutate each other's values.
// Generated build_defs files export nested lists and dicts, functions returning list literals and functions with
// list defaults; two generated packages import them and index / alias / mutate / sort / reverse / + / += what they
// imported (including the two shapes repaired in /repo 7aeabfa, FROZEN + [x] into spare capacity and FROZEN + [],
// which stay as regression streams). All of it runs on ONE real interpreter per scenario run (shared subinclude cache): package B alone,
// A then B, B then A, and A and B concurrently. Oracle: B's globals do not depend on A, and nothing a package
// computed changes when the other package runs afterwards.
// Follow-up streams (followup.go): fresh-making operations on imports followed by a write, private (underscore) names
// of a build_defs file, and a direct probe of scope.Freeze's coverage over name spellings.
package main

import (
	"fmt"
	"sort"
	"strings"

	"verifharness/aspgen"
	"verifharness/lib"

	"github.com/thought-machine/please/src/parse/asp"
	gologging "gopkg.in/op/go-logging.v1"
)

type action struct {
	tag   string // "" = must not interfere; otherwise the known leak this action opens
	stmts []*aspgen.Stmt
	fails bool // raises (only ever the last action of the package that runs last)
}

var (
	E, Bin, IdE, IntE, StrE = aspgen.E, aspgen.Bin, aspgen.IdE, aspgen.IntE, aspgen.StrE
)

func ints(xs ...int) *aspgen.Val {
	es := []*aspgen.Expr{}
	for _, x := range xs {
		es = append(es, IntE(x))
	}
	return aspgen.List(es...)
}

const (
	tagNested = "nested-list-mutable-through-frozen-parent"
	tagConst  = "function-constant-list-shared"
	tagDflt   = "function-default-list-shared"
	// the two classes repaired in /repo 7aeabfa (pyList.Operator(Add) = l.concat(l2): always a new array). The
	// scenarios stay as regression streams: they must not interfere any more; if the behaviour returns, the
	// interference is reported under these class names (which are not known findings).
	tagSpare     = "frozen-list-spare-capacity-shared"
	tagPlusEmpty = "frozen-list-plus-empty-aliases-array"
)

func genDefs(r *lib.Rng) aspgen.Prog {
	x := IdE("x")
	n1, n2 := r.Range(1, 3), r.Range(1, 2)
	inner := func(n int) *aspgen.Expr {
		xs := []int{}
		for i := 0; i < n; i++ {
			xs = append(xs, r.Range(0, 9))
		}
		return E(ints(xs...))
	}
	return aspgen.Prog{
		aspgen.Assign("NESTED", E(aspgen.List(inner(n1), inner(n2)))),
		aspgen.Assign("FLAT", E(ints(r.Range(0, 9), r.Range(0, 9), r.Range(0, 9)))),
		aspgen.Assign("FILT", E(aspgen.Comp(x, []string{"x"}, E(ints(1, 2, 3, 4)), E(aspgen.Ident("x"), Bin("<", aspgen.Int(r.Range(2, 4))))))),
		aspgen.Assign("D", E(aspgen.Dict([]string{"k", "n"}, []*aspgen.Expr{inner(2), E(aspgen.Dict([]string{"m"}, []*aspgen.Expr{inner(1)}))}))),
		aspgen.Def("mk", nil, aspgen.Return(E(ints(r.Range(0, 9), 2, 3)))),
		aspgen.Def("dflt", []aspgen.Arg{{Name: "q", E: E(ints(7, 8))}}, aspgen.Return(IdE("q"))),
		aspgen.Def("ext", []aspgen.Arg{{Name: "l"}, {Name: "x"}}, aspgen.Return(E(aspgen.Ident("l"), Bin("+", aspgen.List(IdE("x")))))),
		aspgen.Assign("N", IntE(r.Range(0, 9))),
	}
}

func genAction(r *lib.Rng, pkg string, k int) action {
	v := func(s string) string { return fmt.Sprintf("%s_%s%d", pkg, s, k) }
	val := IntE(r.Range(10, 99))
	switch r.Intn(27) {
	case 20, 21:
		// FROZEN + [] must be a new list: writing to it must not show in the exported one
		src := lib.Pick(r, []*aspgen.Val{aspgen.Ident("FLAT"), aspgen.Ident("FILT"), aspgen.Index(aspgen.Ident("D"), StrE("k"))})
		return action{tagPlusEmpty, []*aspgen.Stmt{aspgen.Assign(v("e"), E(src, Bin("+", aspgen.List()))), aspgen.IdxAssign(v("e"), IntE(0), val)}, false}
	case 22:
		// FLAT += [] rebinds the package's own name to FLAT + []
		return action{tagPlusEmpty, []*aspgen.Stmt{aspgen.Aug("FLAT", E(aspgen.List())), aspgen.IdxAssign("FLAT", IntE(0), val)}, false}
	case 23:
		// + of two frozen lists, and a frozen list inside a list of the package's own
		return action{"", []*aspgen.Stmt{aspgen.Assign(v("u"), E(aspgen.Ident("FLAT"), Bin("+", aspgen.Ident("FLAT")))), aspgen.IdxAssign(v("u"), IntE(0), val),
			aspgen.Assign(v("t"), E(aspgen.List(IdE("FLAT"), IdE("D")))), aspgen.IdxAssign(v("t"), IntE(0), val)}, false}
	case 24:
		// through a function of the subincluded file that adds to its argument
		return action{"", []*aspgen.Stmt{aspgen.Assign(v("h"), E(aspgen.Call("ext", IdE("FLAT"), val))), aspgen.IdxAssign(v("h"), IntE(0), val)}, false}
	case 25:
		// a comprehension over the nested export that adds to every inner list: new lists, the inner ones stay
		return action{"", []*aspgen.Stmt{aspgen.Assign(v("cc"), E(aspgen.Comp(E(aspgen.Ident("e"), Bin("+", aspgen.List(val))), []string{"e"}, IdE("NESTED"), nil)))}, false}
	case 26:
		// + [] of an inner (unfrozen) list of the nested export and a write to the result: a copy since the fix
		return action{tagPlusEmpty, []*aspgen.Stmt{aspgen.Assign(v("ie"), E(aspgen.Index(aspgen.Ident("NESTED"), IntE(r.Range(0, 1))), Bin("+", aspgen.List()))), aspgen.IdxAssign(v("ie"), IntE(0), val)}, false}
	case 0, 1:
		return action{tagNested, []*aspgen.Stmt{aspgen.Assign(v("i"), E(aspgen.Index(aspgen.Ident("NESTED"), IntE(r.Range(0, 1))))), aspgen.IdxAssign(v("i"), IntE(0), val)}, false}
	case 2:
		return action{tagNested, []*aspgen.Stmt{aspgen.For([]string{v("e")}, IdE("NESTED"), aspgen.IdxAssign(v("e"), IntE(0), val))}, false}
	case 3, 4:
		return action{tagConst, []*aspgen.Stmt{aspgen.Assign(v("m"), E(aspgen.Call("mk"))), aspgen.IdxAssign(v("m"), IntE(r.Range(0, 2)), val)}, false}
	case 5:
		return action{tagDflt, []*aspgen.Stmt{aspgen.Assign(v("q"), E(aspgen.Call("dflt"))), aspgen.IdxAssign(v("q"), IntE(0), val)}, false}
	case 6, 7:
		return action{tagSpare, []*aspgen.Stmt{aspgen.Assign(v("f"), E(aspgen.Ident("FILT"), Bin("+", aspgen.List(val))))}, false}
	case 8:
		return action{"", []*aspgen.Stmt{aspgen.Assign(v("p"), E(aspgen.Ident("FLAT"), Bin("+", aspgen.List(val)))), aspgen.IdxAssign(v("p"), IntE(0), val)}, false}
	case 9:
		return action{"", []*aspgen.Stmt{aspgen.Assign(v("c"), E(aspgen.Comp(E(aspgen.Ident("e"), Bin("*", aspgen.Int(2))), []string{"e"}, IdE("FLAT"), nil)))}, false}
	case 10:
		// sorted / reversed of an (unfrozen) inner list: a copy since the fix; writing to the copy must not show
		f := lib.Pick(r, []string{"sorted", "reversed"})
		return action{"", []*aspgen.Stmt{aspgen.Assign(v("s"), E(aspgen.Call(f, E(aspgen.Index(aspgen.Ident("NESTED"), IntE(r.Range(0, 1))))))), aspgen.IdxAssign(v("s"), IntE(0), val)}, false}
	case 11:
		return action{"", []*aspgen.Stmt{aspgen.Assign(v("n"), E(aspgen.Index(aspgen.Ident("NESTED"), IntE(0)), Bin("+", aspgen.List(val)))), aspgen.IdxAssign(v("n"), IntE(0), val)}, false}
	case 12:
		return action{"", []*aspgen.Stmt{aspgen.Aug("FLAT", E(aspgen.List(val)))}, false}
	case 13:
		return action{"", []*aspgen.Stmt{aspgen.Assign(v("k"), E(aspgen.Index(aspgen.Ident("D"), StrE("k")), Bin("+", aspgen.List(val)))), aspgen.IdxAssign(v("k"), IntE(0), val)}, false}
	case 14:
		return action{"", []*aspgen.Stmt{aspgen.Assign(v("dm"), E(aspgen.Index(aspgen.Index(aspgen.Ident("D"), StrE("n")), StrE("m"))))}, false}
	case 15:
		return action{"", []*aspgen.Stmt{aspgen.Assign(v("w"), E(aspgen.Ident("NESTED"), Bin("+", aspgen.List(E(aspgen.List(val)))))), aspgen.IdxAssign(v("w"), IntE(0), val)}, false}
	case 16:
		return action{"", []*aspgen.Stmt{aspgen.Assign(v("g"), E(aspgen.Call("mk"), Bin("+", aspgen.List(val)))), aspgen.IdxAssign(v("g"), IntE(0), val)}, false}
	case 17:
		return action{"", []*aspgen.Stmt{aspgen.Assign("N", E(aspgen.Ident("N"), Bin("+", aspgen.Int(1))))}, false}
	case 18:
		return action{"", []*aspgen.Stmt{aspgen.Assign(v("u"), E(aspgen.Index(aspgen.Ident("D"), StrE("k")))), aspgen.IdxAssign(v("u"), IntE(0), val)}, true}
	default:
		return action{"", []*aspgen.Stmt{aspgen.IdxAssign(lib.Pick(r, []string{"FLAT", "D", "NESTED"}), lib.Pick(r, []*aspgen.Expr{IntE(0), StrE("k")}), val)}, true}
	}
}

func observer(pkg string) []*aspgen.Stmt {
	return []*aspgen.Stmt{
		aspgen.Assign(pkg+"_o_mk", E(aspgen.Call("mk"))),
		aspgen.Assign(pkg+"_o_dflt", E(aspgen.Call("dflt"))),
		aspgen.Assign(pkg+"_o_in", E(aspgen.Index(aspgen.Ident("NESTED"), IntE(0)))),
	}
}

func build(acts []action, skip map[int]bool, pkg string) aspgen.Prog {
	p := aspgen.Prog{aspgen.CallStmt("subinclude", StrE("//defs:d"))}
	var tail []*aspgen.Stmt
	for i, a := range acts {
		if skip[i] {
			continue
		}
		if a.fails {
			tail = append(tail, a.stmts...)
			continue
		}
		p = append(p, a.stmts...)
	}
	p = append(p, observer(pkg)...)
	return append(p, tail...)
}

func canonGlobals(g map[string]any) string {
	if g == nil {
		return "<raised>"
	}
	keys := lib.SortedKeys(g)
	parts := []string{}
	for _, k := range keys {
		b := fmt.Sprint(g[k])
		parts = append(parts, k+"="+b)
	}
	return strings.Join(parts, ";")
}

// observable part of a package outcome: its globals as the hook rendered them (the failing package: what it raised is not compared)
func diffKeys(a, b map[string]any) []string {
	out := []string{}
	if (a == nil) != (b == nil) {
		return []string{"<raised>"}
	}
	names := map[string]bool{}
	for k := range a {
		names[k] = true
	}
	for k := range b {
		names[k] = true
	}
	for k := range names {
		if fmt.Sprint(a[k]) != fmt.Sprint(b[k]) {
			out = append(out, k)
		}
	}
	sort.Strings(out)
	return out
}

func coqOutcome(res aspgen.Result) string {
	if res.Err != "" {
		return "OErr"
	}
	return "(OGlobals " + aspgen.CoqGlobals(res.After) + " " + aspgen.CoqGlobals(res.Final) + ")"
}

func main() {
	gologging.SetLevel(gologging.CRITICAL, "plz")
	lib.Main("C17", func(c *lib.Ctx) {
		// (Model/C18.v used to alias C16.case; since 2a87b84 it wraps it, and C17 never needed more than C16's cases)
		// follow-up 2: Model/C17_Config.v wraps C16's case type (CBase) and adds the CONFIG scenarios (CCfg)
		c.Model("From PlzV Require Import Model.C16_Syntax Model.C16_Eval Model.C16 Model.C17_Config.", "C17_Config.case", "C17_Config.check")
		c.Rule("scenarios = a generated build_defs file (nested list, flat list, filtered comprehension, dict with list and dict members, a function returning a list " +
			"literal, a function with a list default) and two generated packages of 1-5 actions each on what they import (alias + index assignment, loops over nested " +
			"lists, sorted/reversed of inner lists, +, +=, + [] and += [] followed by a write, + through a function of the defs file, dict members, direct assignment that must fail), each followed by reads of everything; run on the real " +
			"interpreter as B alone, A then B, B then A, and concurrently. distinct = distinct scenario texts; non-trivial = package A contains a write")
		n := c.Scale(45, 1200)
		for i := 0; i < n; i++ {
			r := c.Rng.Fork()
			defs := genDefs(r)
			mk := func(pkg string, last bool) []action {
				acts := []action{}
				for k := 0; k < r.Range(1, 5); k++ {
					a := genAction(r, pkg, k)
					if a.fails && !last {
						a = action{"", []*aspgen.Stmt{aspgen.Assign(fmt.Sprintf("%s_z%d", pkg, k), IdE("N"))}, false}
					}
					acts = append(acts, a)
				}
				return acts
			}
			A, B := mk("a", false), mk("b", true)
			if i < 5 {
				// the three known leaks and the two repaired ones, once each in their smallest form, so that every run exercises them
				val := IntE(90 + i)
				forced := func(pkg string) action {
					v := pkg + "_w"
					switch i {
					case 0:
						return action{tagNested, []*aspgen.Stmt{aspgen.Assign(v, E(aspgen.Index(aspgen.Ident("NESTED"), IntE(0)))), aspgen.IdxAssign(v, IntE(0), val)}, false}
					case 1:
						return action{tagSpare, []*aspgen.Stmt{aspgen.Assign(v, E(aspgen.Ident("FILT"), Bin("+", aspgen.List(IntE(90+len(pkg)+int(pkg[0]))))))}, false}
					case 2:
						return action{tagConst, []*aspgen.Stmt{aspgen.Assign(v, E(aspgen.Call("mk"))), aspgen.IdxAssign(v, IntE(0), val)}, false}
					case 4:
						return action{tagPlusEmpty, []*aspgen.Stmt{aspgen.Assign(v, E(aspgen.Ident("FLAT"), Bin("+", aspgen.List()))), aspgen.IdxAssign(v, IntE(0), val)}, false}
					default:
						return action{tagDflt, []*aspgen.Stmt{aspgen.Assign(v, E(aspgen.Call("dflt"))), aspgen.IdxAssign(v, IntE(0), val)}, false}
					}
				}
				A, B = []action{forced("a")}, []action{forced("b")}
				if i != 1 {
					B = []action{{"", []*aspgen.Stmt{aspgen.Assign("b_z", IdE("N"))}, false}}
				}
			}
			df := aspgen.NewFile("//defs:d", defs, true)
			run := func(order string, skipA, skipB map[int]bool, conc bool) map[string]aspgen.Result {
				files := []aspgen.File{df}
				fa, fb := aspgen.NewFile("a", build(A, skipA, "a"), false), aspgen.NewFile("b", build(B, skipB, "b"), false)
				switch order {
				case "B":
					files = append(files, fb)
				case "A":
					files = append(files, fa)
				case "AB":
					files = append(files, fa, fb)
				default:
					files = append(files, fb, fa)
				}
				out := map[string]aspgen.Result{}
				for _, res := range aspgen.Eval(files, conc) {
					out[res.Name] = res
				}
				return out
			}
			alone := run("B", nil, nil, false)["b"]
			aloneA := run("A", nil, nil, false)["a"]
			ab := run("AB", nil, nil, false)
			srcs := map[string]any{"defs": df.Src, "a": aspgen.Source(build(A, nil, "a")), "b": aspgen.Source(build(B, nil, "b"))}
			c.HistN("actions_in_A", len(A))

			// attribute an interference to a 1-minimal set of actions of the other package that still produces it:
			// drop actions one by one as long as some difference remains
			classify := func(what string, baseDiff []string, who string, rerun func(skip map[int]bool) []string) {
				acts := A
				if who == "b" {
					acts = B
				}
				skip := map[int]bool{}
				for k := range acts {
					skip[k] = true
					if len(rerun(skip)) == 0 {
						delete(skip, k)
					}
				}
				n := 0
				for k, a := range acts {
					if skip[k] {
						continue
					}
					n++
					if a.tag == "" {
						c.Fail("unexplained-interference", fmt.Sprintf("%s: differs on %v; the action %q of package %s is needed for it and is not a known leak", what, baseDiff, aspgen.Source(a.stmts), who), srcs)
					} else {
						c.Fail(a.tag, fmt.Sprintf("%s: differs on %v because of %q in package %s", what, baseDiff, firstLine(aspgen.Source(a.stmts)), who), srcs)
					}
				}
				if n == 0 {
					c.Fail("unexplained-interference", fmt.Sprintf("%s: differs on %v although package %s does nothing", what, baseDiff, who), srcs)
				}
			}

			// (1) B after A == B alone
			c.Oracle()
			if d := diffKeys(ab["b"].After, alone.After); len(d) > 0 {
				classify("package b parsed after package a vs alone", d, "a", func(skip map[int]bool) []string {
					return diffKeys(run("AB", skip, nil, false)["b"].After, alone.After)
				})
				c.Hist("outcome", "b-depends-on-a")
			} else {
				c.Hist("outcome", "b-independent")
			}
			// (2) what A computed is unchanged by B running afterwards
			c.Oracle()
			if d := diffKeys(ab["a"].After, ab["a"].Final); len(d) > 0 {
				classify("package a's values after package b ran", d, "b", func(skip map[int]bool) []string {
					x := run("AB", nil, skip, false)["a"]
					return diffKeys(x.After, x.Final)
				})
			}
			// (3) the other order
			c.Oracle()
			ba := run("BA", nil, nil, false)
			if ba["b"].Err == "" {
				if d := diffKeys(ba["b"].After, ba["b"].Final); len(d) > 0 {
					classify("package b's values after package a ran", d, "a", func(skip map[int]bool) []string {
						x := run("BA", skip, nil, false)["b"]
						return diffKeys(x.After, x.Final)
					})
				}
				if d := diffKeys(ba["a"].After, aloneA.After); len(d) > 0 {
					classify("package a parsed after package b vs alone", d, "b", func(skip map[int]bool) []string {
						return diffKeys(run("BA", nil, skip, false)["a"].After, aloneA.After)
					})
				}
			}
			// (4) concurrently: whatever the schedule, each package must end with what it has in one of the sequential
			// runs (which were checked above against the package parsed alone)
			for k := 0; k < c.Scale(2, 6); k++ {
				c.Oracle()
				cc := run("AB", nil, nil, true)
				okB := map[string]bool{canonGlobals(alone.After): true, canonGlobals(ab["b"].Final): true, canonGlobals(ba["b"].Final): true, canonGlobals(ba["b"].After): true}
				okA := map[string]bool{canonGlobals(aloneA.After): true, canonGlobals(ab["a"].Final): true, canonGlobals(ab["a"].After): true, canonGlobals(ba["a"].Final): true}
				if !okB[canonGlobals(cc["b"].Final)] || !okA[canonGlobals(cc["a"].Final)] {
					// packages that write through a KNOWN leak race on the leaked object (a copy taken between two writes of the
					// other package is in neither sequential order): that outcome is explained by the leak, and reported under its class
					cls := "concurrent-parse-not-serialisable"
					for _, a := range append(append([]action{}, A...), B...) {
						if a.tag != "" && a.tag != tagSpare && a.tag != tagPlusEmpty {
							cls = a.tag
							break
						}
					}
					c.Fail(cls, "parsed concurrently, a package ends with values it has in neither sequential order",
						map[string]any{"files": srcs, "a": cc["a"].Final, "b": cc["b"].Final})
					c.Hist("outcome", "concurrent-not-serialisable")
				}
			}

			// correspondence: the sequential runs
			key := df.Src + "|" + fmt.Sprint(srcs["a"]) + "|" + fmt.Sprint(srcs["b"])
			hasWrite := strings.Contains(fmt.Sprint(srcs["a"]), "] = ")
			coqDefs := lib.List([]string{lib.Pair(lib.Str("//defs:d"), aspgen.CoqProg(defs))})
			pa, pb := build(A, nil, "a"), build(B, nil, "b")
			c.Case(cbase("CAsp", "false", coqDefs, lib.List([]string{aspgen.CoqProg(pa), aspgen.CoqProg(pb)}), lib.List([]string{coqOutcome(ab["a"]), coqOutcome(ab["b"])})),
				map[string]any{"order": "a,b", "files": srcs, "a": ab["a"].Final, "b": ab["b"].Final, "errs": []string{ab["a"].Err, ab["b"].Err}}, "ab:"+key, hasWrite)
			c.Case(cbase("CAsp", "false", coqDefs, lib.List([]string{aspgen.CoqProg(pb)}), lib.List([]string{coqOutcome(alone)})),
				map[string]any{"order": "b", "files": srcs, "b": alone.Final, "errs": []string{alone.Err}}, "b:"+key, false)
		}
		preloadStream(c)
		freshStream(c)
		privateStream(c)
		spellingStream(c)
		configStream(c)
	})
}

// tagPreload: the public globals of the files loaded through Parser.LoadBuiltins (the built-in rules and the files of
// `[parse] preloadbuilddefs`) reach the root scope UNFROZEN: interpreter.LoadBuiltins does `defer i.scope.SetAll(s.Freeze(), true)`,
// whose argument is evaluated when the defer statement runs, i.e. on the still empty scope; Freeze returns the locals map itself,
// so SetAll later copies the populated, never frozen values. Every package sees the root scope.
const tagPreload = "loadbuiltins-globals-not-frozen"

// preloadStream: a generated build_defs file is loaded the way `[parse] preloadbuilddefs` loads one (verif hook
// VerifC17EvalPreloaded = the same Parser.LoadBuiltins call); package a attacks one of its globals, or the built-in `log`
// dict; package b reads all of them. Oracle: b after a == b alone. (Outside the Coq model: oracle only.)
func preloadStream(c *lib.Ctx) {
	c.Note("%s", "preload stream: a generated build_defs file (list, dict with a list member, function returning the list) loaded through Parser.LoadBuiltins; "+
		"package a writes to one of its globals or to the built-in `log` dict directly, by alias or through a member; package b reads them all; b alone vs b after a (oracle only, outside the Coq model)")
	n := c.Scale(8, 80)
	for i := 0; i < n; i++ {
		r := c.Rng.Fork()
		v1, v2, v3, w := r.Range(1, 9), r.Range(1, 9), r.Range(1, 9), r.Range(10, 99)
		pre := fmt.Sprintf("PRE_LIST = [%d, %d, %d]\nPRE_DICT = {\"k\": [%d, %d]}\ndef pre_get():\n    return PRE_LIST\n", v1, v2, v3, v2, v3)
		attacks := []string{
			fmt.Sprintf("PRE_LIST[0] = %d\n", w),
			fmt.Sprintf("PRE_DICT[\"z\"] = %d\n", w),
			fmt.Sprintf("a_x = PRE_LIST\na_x[%d] = %d\n", r.Range(0, 2), w),
			fmt.Sprintf("a_k = PRE_DICT[\"k\"]\na_k[0] = %d\n", w),
			fmt.Sprintf("a_g = pre_get()\na_g[1] = %d\n", w),
			fmt.Sprintf("log[\"zzz\"] = %d\n", w),
		}
		k := i % len(attacks)
		if i >= len(attacks) {
			k = r.Intn(len(attacks))
		}
		a := attacks[k] + "a_done = 1\n"
		b := "b_l = PRE_LIST\nb_d = PRE_DICT\nb_g = pre_get()\nb_log = sorted(log.keys())\n"
		run := func(builds ...asp.VerifC16File) map[string]asp.VerifC16Result {
			out, err := asp.VerifC17EvalPreloaded([]asp.VerifC16File{{Name: "pre.build_defs", Src: pre, Defs: true}}, builds, false)
			if err != nil {
				panic(err)
			}
			m := map[string]asp.VerifC16Result{}
			for _, o := range out {
				m[o.Name] = o
			}
			return m
		}
		alone := run(asp.VerifC16File{Name: "b", Src: b})["b"]
		after := run(asp.VerifC16File{Name: "a", Src: a}, asp.VerifC16File{Name: "b", Src: b})
		c.Oracle()
		c.Hist("preload_attack", fmt.Sprint(k))
		if alone.Err != "" || after["b"].Err != "" {
			c.Fail("unexplained-interference", "preload stream: the observing package raised: "+alone.Err+after["b"].Err, map[string]any{"pre": pre, "a": a, "b": b})
			continue
		}
		if string(alone.After) != string(after["b"].After) {
			c.Fail(tagPreload, fmt.Sprintf("package b parsed after package a vs alone differs because of %q in package a (a raised: %q)", firstLine(a), after["a"].Err),
				map[string]any{"pre": pre, "a": a, "b": b, "b_alone": string(alone.After), "b_after_a": string(after["b"].After)})
			c.Hist("outcome", "preload-b-depends-on-a")
		} else {
			c.Hist("outcome", "preload-b-independent")
		}
	}
}

// cbase wraps a case of Model/C16.v into the case type of Model/C17_Config.v.
func cbase(ctor string, args ...string) string { return lib.App("CBase", lib.App(ctor, args...)) }

func firstLine(s string) string {
	if i := strings.IndexByte(s, '\n'); i >= 0 {
		return s[:i]
	}
	return s
}
