// C17 follow-up streams (seeded mutations m1 dict-union fast path, m3 scope.Freeze skipping private names).
//
// Both streams are written as SOURCE TEXT; the Coq terms of the correspondence cases are obtained from the REAL parser
// (asp.VerifC16Parse dumps the AST in the JSON shape of aspgen.Prog), so a scenario whose text stays inside the
// modelled fragment (no dict comprehension, no .copy()/.setdefault()) is also a correspondence case of the model.
//
//   - freshStream ("the result is fresh"): every operator / builtin / copy idiom that could return one of its operands
//     (d | e with an operand that is empty at run time on either side - {} literal, empty variable, parameter defaulting
//     to {}, dict comprehension yielding nothing, inline-if choosing {}, a defs function with such a default -, l + [],
//     [] + l, l * 1, l[:], comprehension identity, sorted / reversed of 0/1-element lists, d.copy(), ...) is applied
//     to a value imported from the subinclude, the result is WRITTEN (index assignment, new key, augmented index assignment), and
//     then (F) the package with the write and the package without it may differ on the result variable only, and
//     the cross-package oracles (b alone vs b after a, a's values after b, both orders, concurrently) must hold.
//   - privateStream: a build_defs file keeps state in underscore-prefixed top-level lists / dicts / nested containers
//     read by its exported functions (subinclude imports private names too: SetAll(publicOnly=false)); package a
//     writes to them directly, by alias, by index, through a nested container, through a function of the file,
//     through a for loop variable, through a parameter, with an augmented index assignment; all of it
//     must raise ("immutable") and package b must see what it sees alone.
package main

import (
	"encoding/json"
	"fmt"
	"strings"

	"verifharness/aspgen"
	"verifharness/lib"

	"github.com/thought-machine/please/src/parse/asp"
)

// tact is one action of a package, as text.
type tact struct {
	tag   string // "" = must not interfere; otherwise the known leak this action opens
	bind  string // statements that compute something (may be empty)
	write string // the statement(s) that write to what `bind` computed
	res   string // the variable(s) the write is allowed to change in the package itself ("" = no F oracle)
	tail  bool   // expected to raise on the unchanged tree: goes after the observer, at most one per package
	model bool   // inside the fragment of Model/C16_Eval.v
	kind  string // histogram bucket
}

func (a tact) src(withWrite bool) string {
	if withWrite {
		return a.bind + a.write
	}
	return a.bind
}

type tscen struct {
	stream   string
	defs     string
	A, B     []tact
	observer func(pkg string) string
	forced   bool // one of the enumerated single-action scenarios: no concurrent run, one correspondence case
}

const subLine = "subinclude(\"//defs:d\")\n"

// pkgText prints a package: subinclude, the non-tail actions, the observer, the tail actions. nowrite = index of the
// action whose write is left out (-1: none).
func (sc *tscen) pkgText(acts []tact, skip map[int]bool, nowrite int, pkg string) string {
	var b, tail strings.Builder
	b.WriteString(subLine)
	for i, a := range acts {
		if skip[i] {
			continue
		}
		if a.tail {
			tail.WriteString(a.src(i != nowrite))
		} else {
			b.WriteString(a.src(i != nowrite))
		}
	}
	b.WriteString(sc.observer(pkg))
	return b.String() + tail.String()
}

// parseProg turns source text into the AST the REAL parser builds from it; ok = false when the text leaves the dumped fragment.
func parseProg(src string) (aspgen.Prog, bool) {
	dump, err := aspgen.ParseDump(src)
	if err != nil {
		panic("c17 follow-up: generated text does not parse: " + err.Error() + "\n" + src)
	}
	if strings.Contains(dump, `"k":"?"`) || strings.Contains(dump, `"op":"?"`) {
		return nil, false
	}
	var p aspgen.Prog
	if err := json.Unmarshal([]byte(dump), &p); err != nil {
		panic("c17 follow-up: cannot decode the parser dump: " + err.Error())
	}
	return p, true
}

func allModel(acts []tact) bool {
	for _, a := range acts {
		if !a.model {
			return false
		}
	}
	return true
}

// runText evaluates one text scenario: the oracles of the main stream (b alone vs after a; a's values after b; the other
// order; concurrently), the F oracle of the fresh probes, and the correspondence cases.
func runText(c *lib.Ctx, sc *tscen) {
	df := aspgen.File{Name: "//defs:d", Src: sc.defs, Defs: true}
	run := func(order string, skipA, skipB map[int]bool, conc bool) map[string]aspgen.Result {
		fa := aspgen.File{Name: "a", Src: sc.pkgText(sc.A, skipA, -1, "a")}
		fb := aspgen.File{Name: "b", Src: sc.pkgText(sc.B, skipB, -1, "b")}
		files := []aspgen.File{df}
		switch order {
		case "B":
			files = append(files, fb)
		case "A":
			files = append(files, fa)
		case "AB":
			files = append(files, fa, fb)
		default:
			files = append(files, fb, fa)
		}
		out := map[string]aspgen.Result{}
		for _, res := range aspgen.Eval(files, conc) {
			out[res.Name] = res
		}
		return out
	}
	srcA, srcB := sc.pkgText(sc.A, nil, -1, "a"), sc.pkgText(sc.B, nil, -1, "b")
	srcs := map[string]any{"stream": sc.stream, "defs": sc.defs, "a": srcA, "b": srcB}
	alone := run("B", nil, nil, false)["b"]
	aloneA := run("A", nil, nil, false)["a"]
	ab := run("AB", nil, nil, false)
	for _, a := range sc.A {
		c.Hist(sc.stream+"_action", a.kind)
	}

	classify := func(what string, baseDiff []string, who string, rerun func(skip map[int]bool) []string) {
		acts := sc.A
		if who == "b" {
			acts = sc.B
		}
		skip := map[int]bool{}
		for k := range acts {
			skip[k] = true
			if len(rerun(skip)) == 0 {
				delete(skip, k)
			}
		}
		n := 0
		for k, a := range acts {
			if skip[k] {
				continue
			}
			n++
			if a.tag == "" {
				c.Fail("unexplained-interference", fmt.Sprintf("%s stream, %s: differs on %v; the action %q of package %s is needed for it and is not a known leak", sc.stream, what, baseDiff, a.src(true), who), srcs)
			} else {
				c.Fail(a.tag, fmt.Sprintf("%s stream, %s: differs on %v because of %q in package %s", sc.stream, what, baseDiff, firstLine(a.src(true)), who), srcs)
			}
		}
		if n == 0 {
			c.Fail("unexplained-interference", fmt.Sprintf("%s stream, %s: differs on %v although package %s does nothing", sc.stream, what, baseDiff, who), srcs)
		}
	}

	// the observer itself must run (alone, b never raises: its tail actions are none)
	c.Oracle()
	if alone.Err != "" {
		c.Fail("unexplained-interference", sc.stream+" stream: the observing package raised when parsed alone: "+alone.Err, srcs)
		return
	}
	// (F) a write to the result of a fresh-making operation changes nothing but the result variable (package a alone,
	// without the actions that are expected to raise)
	noTail := map[int]bool{}
	for k, a := range sc.A {
		if a.tail {
			noTail[k] = true
		}
	}
	evalA := func(nowrite int) aspgen.Result {
		fa := aspgen.File{Name: "a", Src: sc.pkgText(sc.A, noTail, nowrite, "a")}
		var out aspgen.Result
		for _, res := range aspgen.Eval([]aspgen.File{df, fa}, false) {
			out = res
		}
		return out
	}
	var withAll *aspgen.Result
	for k, a := range sc.A {
		if a.res == "" || a.write == "" || a.tail {
			continue
		}
		if withAll == nil {
			x := aloneA
			if len(noTail) > 0 {
				x = evalA(-1)
			}
			withAll = &x
		}
		c.Oracle()
		without := evalA(k)
		if withAll.Err != "" || without.Err != "" {
			c.Fail("unexplained-interference", fmt.Sprintf("%s stream: package a without its raising actions raised: %s %s", sc.stream, withAll.Err, without.Err), srcs)
			continue
		}
		allowed := map[string]bool{}
		for _, n := range strings.Fields(a.res) {
			allowed[n] = true
		}
		bad := []string{}
		for _, n := range diffKeys(withAll.After, without.After) {
			if !allowed[n] {
				bad = append(bad, n)
			}
		}
		if len(bad) > 0 {
			cls := "result-not-fresh"
			if a.tag != "" {
				cls = a.tag
			}
			c.Fail(cls, fmt.Sprintf("%s stream: the write %q to the result of %q also changes %v of the same package: the result is not a new object", sc.stream, strings.TrimSpace(a.write), strings.TrimSpace(a.bind), bad),
				map[string]any{"stream": sc.stream, "defs": sc.defs, "a": sc.pkgText(sc.A, noTail, -1, "a"), "a_without_the_write": sc.pkgText(sc.A, noTail, k, "a")})
			c.Hist("outcome", sc.stream+"-result-not-fresh")
		}
	}
	// (1) b after a == b alone
	c.Oracle()
	if d := diffKeys(ab["b"].After, alone.After); len(d) > 0 {
		classify("package b parsed after package a vs alone", d, "a", func(skip map[int]bool) []string {
			return diffKeys(run("AB", skip, nil, false)["b"].After, alone.After)
		})
		c.Hist("outcome", sc.stream+"-b-depends-on-a")
	} else {
		c.Hist("outcome", sc.stream+"-b-independent")
	}
	// (2) what a computed is unchanged by b running afterwards
	c.Oracle()
	if d := diffKeys(ab["a"].After, ab["a"].Final); len(d) > 0 {
		classify("package a's values after package b ran", d, "b", func(skip map[int]bool) []string {
			x := run("AB", nil, skip, false)["a"]
			return diffKeys(x.After, x.Final)
		})
	}
	// (3) the other order (not for the enumerated single-action scenarios: their package b is the observer only)
	ba := ab
	if !sc.forced {
		c.Oracle()
		ba = run("BA", nil, nil, false)
		if d := diffKeys(ba["b"].After, ba["b"].Final); len(d) > 0 {
			classify("package b's values after package a ran", d, "a", func(skip map[int]bool) []string {
				x := run("BA", skip, nil, false)["b"]
				return diffKeys(x.After, x.Final)
			})
		}
		if d := diffKeys(ba["a"].After, aloneA.After); len(d) > 0 {
			classify("package a parsed after package b vs alone", d, "b", func(skip map[int]bool) []string {
				return diffKeys(run("BA", nil, skip, false)["a"].After, aloneA.After)
			})
		}
	}
	// (4) concurrently
	for k := 0; k < c.Scale(1, 4) && !sc.forced; k++ {
		c.Oracle()
		cc := run("AB", nil, nil, true)
		okB := map[string]bool{canonGlobals(alone.After): true, canonGlobals(ab["b"].Final): true, canonGlobals(ba["b"].Final): true, canonGlobals(ba["b"].After): true}
		okA := map[string]bool{canonGlobals(aloneA.After): true, canonGlobals(ab["a"].Final): true, canonGlobals(ab["a"].After): true, canonGlobals(ba["a"].Final): true}
		if !okB[canonGlobals(cc["b"].Final)] || !okA[canonGlobals(cc["a"].Final)] {
			// a package that writes through a KNOWN leak races with the other one: the outcome is explained by that leak
			cls := "concurrent-parse-not-serialisable"
			for _, a := range append(append([]tact{}, sc.A...), sc.B...) {
				if a.tag != "" {
					cls = a.tag
					break
				}
			}
			c.Fail(cls, sc.stream+" stream: parsed concurrently, a package ends with values it has in neither sequential order",
				map[string]any{"files": srcs, "a": cc["a"].Final, "b": cc["b"].Final})
		}
	}

	// correspondence: the sequential runs, when the whole scenario is inside the modelled fragment
	key := sc.stream + "|" + sc.defs + "|" + srcA + "|" + srcB
	if !allModel(sc.A) || !allModel(sc.B) {
		c.Eval(map[string]any{"files": srcs}, "oracle-only:"+key, true)
		c.Hist(sc.stream+"_case", "oracle-only")
		return
	}
	pd, ok1 := parseProg(sc.defs)
	pa, ok2 := parseProg(srcA)
	pb, ok3 := parseProg(srcB)
	if !ok1 || !ok2 || !ok3 {
		panic("c17 follow-up: a scenario marked as modelled leaves the dumped fragment:\n" + sc.defs + srcA + srcB)
	}
	c.Hist(sc.stream+"_case", "model+oracle")
	coqDefs := lib.List([]string{lib.Pair(lib.Str("//defs:d"), aspgen.CoqProg(pd))})
	c.Case(cbase("CAsp", "false", coqDefs, lib.List([]string{aspgen.CoqProg(pa), aspgen.CoqProg(pb)}), lib.List([]string{coqOutcome(ab["a"]), coqOutcome(ab["b"])})),
		map[string]any{"order": "a,b", "files": srcs, "a": ab["a"].Final, "b": ab["b"].Final, "errs": []string{ab["a"].Err, ab["b"].Err}}, "ab:"+key, true)
	if sc.forced {
		return
	}
	c.Case(cbase("CAsp", "false", coqDefs, lib.List([]string{aspgen.CoqProg(pb), aspgen.CoqProg(pa)}), lib.List([]string{coqOutcome(ba["b"]), coqOutcome(ba["a"])})),
		map[string]any{"order": "b,a", "files": srcs, "a": ba["a"].Final, "b": ba["b"].Final, "errs": []string{ba["b"].Err, ba["a"].Err}}, "ba:"+key, true)
}

// ---------------------------------------------------------------------------------------------
// (a) the result is fresh

func freshDefs(r *lib.Rng) string {
	return fmt.Sprintf("OPTS = {\"opt\": \"-O2\", \"n\": %d}\n", r.Range(1, 9)) +
		fmt.Sprintf("DL = {\"k\": [%d, %d], \"s\": \"x\"}\n", r.Range(1, 9), r.Range(1, 9)) +
		"EMPTY = {}\n" +
		fmt.Sprintf("FLAT = [%d, %d, %d]\n", r.Range(1, 9), r.Range(1, 9), r.Range(1, 9)) +
		fmt.Sprintf("ONE = [[%d], [], [%d, %d]]\n", r.Range(1, 9), r.Range(1, 9), r.Range(1, 9)) +
		"def get_opts():\n    return OPTS\n" +
		"def opt(k):\n    return OPTS[k]\n" +
		"def merged(over={}):\n    return OPTS | over\n" +
		"def merged2(over):\n    return EMPTY | over\n" +
		"def dl_k():\n    return DL[\"k\"]\n"
}

func freshObserver(p string) string {
	return p + "_o_opts = get_opts()\n" + p + "_o_opt = opt(\"opt\")\n" + p + "_o_m = merged()\n" + p + "_o_m2 = merged2({})\n" +
		p + "_o_k = dl_k()\n" + p + "_o_one = ONE[0]\n" + p + "_o_len = [len(EMPTY), len(OPTS), len(DL), len(ONE[1])]\n"
}

// the number of fresh probes (freshAction enumerates them by index so that the first scenarios cover every one)
const nFresh = 40

func freshAction(r *lib.Rng, pkg string, k, which int) tact {
	v := fmt.Sprintf("%s_r%d", pkg, k)
	h := fmt.Sprintf("%s_h%d", pkg, k)
	w := r.Range(10, 99)
	// writes to a dict result / to a list result
	dictWrite := func(model *bool) string {
		// (d.setdefault(k, v) is not among the writes: in this /repo the method is declared `self:config` and raises on every dict)
		switch r.Intn(5) {
		case 0:
			return fmt.Sprintf("%s[\"opt\"] = \"-O%d\"\n", v, w)
		case 1:
			return fmt.Sprintf("%s[\"zz\"] = %d\n", v, w)
		case 2:
			return fmt.Sprintf("%s[\"zz\"] = %d\n%s[\"zz\"] += 1\n", v, w, v)
		case 3:
			return fmt.Sprintf("%s[\"n\"] = %d\n%s[\"zz\"] = [%d]\n", v, w, v, w)
		default:
			return fmt.Sprintf("%s[\"k\"] = [%d]\n", v, w)
		}
	}
	listWrite := fmt.Sprintf("%s[0] = %d\n", v, w)
	d := func(kind, bind string, model bool) tact {
		m := model
		wr := dictWrite(&m)
		return tact{bind: bind, write: wr, res: v, model: m, kind: kind}
	}
	l := func(kind, bind string, model, tail bool, tag string) tact {
		return tact{bind: bind, write: listWrite, res: v, model: model, tail: tail, kind: kind, tag: tag}
	}
	switch which {
	// ---- dict union with an operand that is empty at run time
	case 0:
		return d("union-empty-literal-right", fmt.Sprintf("%s = OPTS | {}\n", v), true)
	case 1:
		return d("union-empty-variable-right", fmt.Sprintf("%s = {}\n%s = OPTS | %s\n", h, v, h), true)
	case 2:
		return d("union-empty-default-param", fmt.Sprintf("def %s(over={}):\n    return OPTS | over\n%s = %s()\n", h, v, h), true)
	case 3:
		return d("union-empty-dictcomp", fmt.Sprintf("%s = OPTS | {k: x for k, x in OPTS.items() if k == \"zz\"}\n", v), false)
	case 4:
		return d("union-defs-function-default", fmt.Sprintf("%s = merged()\n", v), true)
	case 5:
		return d("union-defs-function-empty-arg", fmt.Sprintf("%s = merged({})\n", v), true)
	case 6:
		return d("union-both-empty", fmt.Sprintf("%s = EMPTY | {}\n", v), true)
	case 7:
		return d("union-inline-if-empty", fmt.Sprintf("%s = OPTS | ({\"x\": 1} if len(FLAT) > 100 else {})\n", v), true)
	case 8:
		// the LEFT operand is empty: the result must not be the right operand (the package's own dict)
		t := d("union-empty-left-own-right", fmt.Sprintf("%s = {\"p\": %d}\n%s = EMPTY | %s\n", h, w, v, h), true)
		return t
	case 9:
		return d("union-empty-literal-left-own-right", fmt.Sprintf("%s = {\"p\": %d}\n%s = {} | %s\n", h, w, v, h), true)
	case 10:
		return d("union-dict-with-list-member", fmt.Sprintf("%s = DL | {}\n", v), true)
	case 11:
		return d("union-of-function-result", fmt.Sprintf("%s = get_opts() | {}\n", v), true)
	case 12:
		return d("union-chain", fmt.Sprintf("%s = OPTS | {} | {}\n", v), true)
	case 13:
		return d("union-nonempty", fmt.Sprintf("%s = OPTS | {\"opt\": \"-O1\"}\n", v), true)
	case 14:
		// the LEFT operand (frozen, empty) is in a function of the defs file, the right one is the package's own dict
		return d("union-empty-left-in-defs-function", fmt.Sprintf("%s = {\"p\": %d}\n%s = merged2(%s)\n", h, w, v, h), true)
	case 15:
		return d("union-empty-filtered-own", fmt.Sprintf("%s = {\"q\": 1}\n%s = OPTS | {k: x for k, x in %s.items() if x > 5}\n", h, v, h), false)
	case 16:
		return d("union-aug", fmt.Sprintf("%s = OPTS\n%s = %s | {}\n", v, v, v), true)
	case 17:
		return d("union-empty-loop-built", fmt.Sprintf("%s = {}\nfor %s_x in []:\n    %s[%s_x] = 1\n%s = OPTS | %s\n", h, h, h, h, v, h), true)
	// ---- other dict copy idioms
	case 18:
		return d("dict-copy-method", fmt.Sprintf("%s = OPTS.copy()\n", v), false)
	case 19:
		return d("dictcomp-identity", fmt.Sprintf("%s = {k: x for k, x in OPTS.items()}\n", v), false)
	case 20:
		return d("dict-copy-of-empty", fmt.Sprintf("%s = EMPTY.copy()\n", v), false)
	// ---- lists: operators and builtins that could return an operand
	case 21:
		return l("list-plus-empty", fmt.Sprintf("%s = FLAT + []\n", v), true, false, "")
	case 22:
		return l("empty-plus-list", fmt.Sprintf("%s = [] + FLAT\n", v), true, false, "")
	case 23:
		return l("list-times-one", fmt.Sprintf("%s = FLAT * 1\n", v), true, false, "")
	case 24:
		return l("comprehension-identity", fmt.Sprintf("%s = [x for x in FLAT]\n", v), true, false, "")
	case 25:
		// slicing a frozen list raises on the unchanged tree ("Unsliceable type list")
		return l("slice-copy-of-frozen", fmt.Sprintf("%s = FLAT[:]\n", v), true, true, "")
	case 26:
		return l("sorted-of-frozen", fmt.Sprintf("%s = sorted(FLAT)\n", v), true, true, "")
	case 27:
		return l("sorted-one-element", fmt.Sprintf("%s = sorted(ONE[0])\n", v), true, false, "")
	case 28:
		return l("reversed-one-element", fmt.Sprintf("%s = reversed(ONE[0])\n", v), true, false, "")
	case 29:
		return l("inner-plus-empty", fmt.Sprintf("%s = ONE[0] + []\n", v), true, false, "")
	case 30:
		return l("inner-times-one", fmt.Sprintf("%s = ONE[2] * 1\n", v), true, false, "")
	case 31:
		return l("sorted-inner", fmt.Sprintf("%s = sorted(ONE[2])\n", v), true, false, "")
	case 32:
		return l("map-identity-inner", fmt.Sprintf("def %s(x):\n    return x\n%s = map(%s, ONE[2])\n", h, v, h), true, false, "")
	case 33:
		return l("filter-all-inner", fmt.Sprintf("def %s(x):\n    return True\n%s = filter(%s, ONE[2])\n", h, v, h), true, false, "")
	case 34:
		return l("dict-values-list", fmt.Sprintf("%s = OPTS.values()\n", v), true, false, "")
	case 35:
		return l("dict-keys-list", fmt.Sprintf("%s = DL.keys()\n", v), true, false, "")
	case 36:
		// a Go sub-slice of an (unfrozen, shared) inner list aliases it: the known nested-list class
		return l("slice-copy-of-inner", fmt.Sprintf("%s = ONE[2][:]\n", v), true, false, tagNested)
	case 37:
		return l("empty-inner-plus-list", fmt.Sprintf("%s = ONE[1] + ONE[0]\n", v), true, false, "")
	case 38:
		return l("list-plus-empty-inner", fmt.Sprintf("%s = ONE[0] + ONE[1]\n", v), true, false, "")
	default:
		// += on an alias rebinds the package's own name
		return tact{bind: fmt.Sprintf("%s = FLAT\n%s += []\n", v, v), write: listWrite, res: v, model: true, kind: "aug-empty"}
	}
}

func freshStream(c *lib.Ctx) {
	c.Note("%s", "fresh stream: a build_defs file exporting flat dicts, a dict with a list member, an empty dict, a flat list, a list of 1/0/2-element lists and functions returning unions; "+
		"package a applies one of "+fmt.Sprint(nFresh)+" fresh-making operations (dict | with an operand empty at run time on either side in 18 spellings, .copy(), dict comprehension, + [], [] +, * 1, [:], comprehension identity, "+
		"sorted/reversed/map/filter of 0/1/2-element lists, .values()/.keys(), +=) to what it imported and WRITES to the result; oracle F: with and without the write the package differs on the result only; "+
		"cross-package oracles as in the main stream; correspondence cases (a,b; for the random scenarios also b,a) for the scenarios inside the modelled fragment, Coq terms from the real parser's AST")
	n := c.Scale(nFresh+6, 600)
	for i := 0; i < n; i++ {
		r := c.Rng.Fork()
		sc := &tscen{stream: "fresh", defs: freshDefs(r), observer: freshObserver}
		pick := func() int {
			if r.Chance(1, 2) {
				return r.Intn(18) // the union family
			}
			return r.Intn(nFresh)
		}
		mk := func(pkg string, first int, count int) []tact {
			acts := []tact{}
			tails := 0
			for k := 0; k < count; k++ {
				which := pick()
				if k == 0 && first >= 0 {
					which = first
				}
				a := freshAction(r, pkg, k, which)
				if a.tail {
					if tails > 0 || pkg == "b" {
						continue
					}
					tails++
				}
				acts = append(acts, a)
			}
			return acts
		}
		if i < nFresh {
			sc.forced = true
			sc.A = mk("a", i, 1)
			sc.B = nil
		} else {
			sc.A = mk("a", -1, r.Range(1, 4))
			sc.B = mk("b", -1, r.Range(0, 2))
		}
		runText(c, sc)
	}
}

// ---------------------------------------------------------------------------------------------
// (b) private (underscore-prefixed) names of a build_defs file

func privateDefs(r *lib.Rng) string {
	return fmt.Sprintf("_PL = [%d, %d, %d]\n", r.Range(1, 9), r.Range(1, 9), r.Range(1, 9)) +
		fmt.Sprintf("_PD = {\"opt\": \"-O2\", \"w\": {\"flags\": [%d, %d]}, \"l\": [%d, %d]}\n", r.Range(1, 9), r.Range(1, 9), r.Range(1, 9), r.Range(1, 9)) +
		fmt.Sprintf("_PN = [[%d, %d], [%d]]\n", r.Range(1, 9), r.Range(1, 9), r.Range(1, 9)) +
		"_PE = {}\n" +
		fmt.Sprintf("__PP = [%d]\n", r.Range(1, 9)) +
		fmt.Sprintf("PUB = [%d, %d]\n", r.Range(1, 9), r.Range(1, 9)) +
		"def pl():\n    return _PL\n" +
		"def pd(k):\n    return _PD[k]\n" +
		"def pflags():\n    return _PD[\"w\"][\"flags\"]\n" +
		"def pcount():\n    return len(_PL) + len(_PD) + len(_PE) + len(__PP)\n" +
		"def _phelp():\n    return _PL\n" +
		"def psum():\n    return [x for x in _PL] + [len(_PN[0])] + __PP\n"
}

func privateObserver(p string) string {
	return p + "_o_pl = pl()\n" + p + "_o_opt = pd(\"opt\")\n" + p + "_o_w = pd(\"w\")\n" + p + "_o_fl = pflags()\n" +
		p + "_o_cnt = pcount()\n" + p + "_o_sum = psum()\n" + p + "_o_h = _phelp()\n" + p + "_o_keys = sorted(_PD.keys()) + sorted(_PE.keys())\n"
}

const nPrivate = 26

func privateAction(r *lib.Rng, pkg string, k, which int) tact {
	v := fmt.Sprintf("%s_x%d", pkg, k)
	w := r.Range(10, 99)
	att := func(kind, bind, write string, model bool) tact {
		return tact{bind: bind, write: write, tail: true, model: model, kind: kind}
	}
	ok := func(kind, bind, write, res string) tact {
		return tact{bind: bind, write: write, res: res, model: true, kind: kind}
	}
	switch which {
	// ---- writes that must raise: the private names are frozen like the public ones
	case 0:
		return att("private-list-index", "", fmt.Sprintf("_PL[%d] = %d\n", r.Range(0, 2), w), true)
	case 1:
		return att("private-dict-key", "", fmt.Sprintf("_PD[\"opt\"] = \"-O%d\"\n", w), true)
	case 2:
		return att("private-dict-new-key", "", fmt.Sprintf("_PD[\"zz\"] = %d\n", w), true)
	case 3:
		return att("private-list-alias", fmt.Sprintf("%s = _PL\n", v), fmt.Sprintf("%s[1] = %d\n", v, w), true)
	case 4:
		return att("private-nested-dict-member", fmt.Sprintf("%s = _PD[\"w\"]\n", v), fmt.Sprintf("%s[\"flags\"] = [%d]\n", v, w), true)
	case 5:
		return att("private-dict-list-member", fmt.Sprintf("%s = _PD[\"l\"]\n", v), fmt.Sprintf("%s[0] = %d\n", v, w), true)
	case 6:
		return att("private-nested-nested-list", fmt.Sprintf("%s = _PD[\"w\"][\"flags\"]\n", v), fmt.Sprintf("%s[0] = %d\n", v, w), true)
	case 7:
		return att("private-through-function", fmt.Sprintf("%s = pl()\n", v), fmt.Sprintf("%s[0] = %d\n", v, w), true)
	case 8:
		return att("private-through-private-function", fmt.Sprintf("%s = _phelp()\n", v), fmt.Sprintf("%s[2] = %d\n", v, w), true)
	case 9:
		return att("private-list-index-aug", "", fmt.Sprintf("_PL[1] += %d\n", w), true)
	case 10:
		return att("private-empty-dict-key", "", fmt.Sprintf("_PE[\"k\"] = %d\n", w), true)
	case 11:
		return att("private-dict-key-aug", "", fmt.Sprintf("_PD[\"opt\"] += \"%d\"\n", w), true)
	case 12:
		return att("private-nested-list-replace-inner", "", fmt.Sprintf("_PN[0] = [%d]\n", w), true)
	case 13:
		return att("private-through-loop-variable", "", fmt.Sprintf("for %s in [_PL]:\n    %s[0] = %d\n", v, v, w), true)
	case 14:
		return att("private-through-parameter", fmt.Sprintf("def %s_set(l):\n    l[0] = %d\n", v, w), fmt.Sprintf("%s_set(_PL)\n", v), true)
	case 15:
		return att("private-through-dict-get", fmt.Sprintf("%s = _PD.get(\"l\")\n", v), fmt.Sprintf("%s[1] = %d\n", v, w), true)
	case 16:
		return att("double-underscore-list-index", "", fmt.Sprintf("__PP[0] = %d\n", w), true)
	case 17:
		return att("private-through-values", fmt.Sprintf("%s = _PD.values()\n", v), fmt.Sprintf("%s_i = %s[0]\n%s_i[0] = %d\n", v, v, v, w), true)
	case 18:
		return att("private-dict-in-list", fmt.Sprintf("%s = [_PD, _PE]\n", v), fmt.Sprintf("%s_d = %s[1]\n%s_d[\"k\"] = %d\n", v, v, v, w), true)
	// ---- the same values through fresh-making operations: allowed, and must not show
	case 19:
		return ok("private-union-empty", fmt.Sprintf("%s = _PD | {}\n", v), fmt.Sprintf("%s[\"opt\"] = \"-O%d\"\n", v, w), v)
	case 20:
		return ok("private-empty-union-empty", fmt.Sprintf("%s = _PE | {}\n", v), fmt.Sprintf("%s[\"k\"] = %d\n", v, w), v)
	case 21:
		return ok("private-plus-empty", fmt.Sprintf("%s = _PL + []\n", v), fmt.Sprintf("%s[0] = %d\n", v, w), v)
	case 22:
		// (rebinding the package's own name: later actions and the observer of the SAME package legitimately see it: no F oracle)
		return ok("private-rebind-aug", "", fmt.Sprintf("_PL += [%d]\n", w), "")
	case 23:
		return ok("private-rebind", "", fmt.Sprintf("_PD = {\"opt\": %d}\n", w), "")
	case 24:
		return ok("private-comprehension", fmt.Sprintf("%s = [x for x in _PL]\n", v), fmt.Sprintf("%s[0] = %d\n", v, w), v)
	default:
		// the inner lists of a nested PRIVATE list are ordinary mutable lists, like those of a public one: the known class
		return tact{tag: tagNested, bind: fmt.Sprintf("%s = _PN[0]\n", v), write: fmt.Sprintf("%s[0] = %d\n", v, w), model: true, kind: "private-nested-inner-list"}
	}
}

func privateStream(c *lib.Ctx) {
	c.Note("%s", "private stream: a build_defs file with underscore-prefixed top-level list, dict (with a nested dict holding a list, and a list member), nested list, empty dict, "+
		"a double-underscore list, exported and private functions reading them; package a writes to them directly, by alias, by index, through a nested container, through the file's functions, "+
		"a loop variable, a parameter, .get(), .values(), a list holding the dicts, += (19 attack shapes, each must raise) or through fresh-making operations / rebinding (6 shapes, allowed); "+
		"package b calls every function and reads every private name; same oracles; correspondence cases (a,b; for the random scenarios also b,a) inside the modelled fragment")
	n := c.Scale(nPrivate+4, 400)
	for i := 0; i < n; i++ {
		r := c.Rng.Fork()
		sc := &tscen{stream: "private", defs: privateDefs(r), observer: privateObserver}
		if i < nPrivate {
			sc.forced = true
			sc.A = []tact{privateAction(r, "a", 0, i)}
		} else {
			// some allowed actions first, then one attack
			for k := 0; k < r.Range(0, 2); k++ {
				sc.A = append(sc.A, privateAction(r, "a", k, 19+r.Intn(nPrivate-19)))
			}
			sc.A = append(sc.A, privateAction(r, "a", len(sc.A), r.Intn(19)))
			if r.Chance(1, 3) {
				sc.B = []tact{privateAction(r, "b", 0, 19+r.Intn(6))}
			}
		}
		runText(c, sc)
	}
}

// ---------------------------------------------------------------------------------------------
// (c) scope.Freeze covers every name: a direct probe through the hook VerifC17MutableExports (the real
// interpreter.Subinclude on a generated build_defs text): whatever a top-level name is called and however its
// list / dict value was made, the package must receive it as a frozen wrapper. Oracle only.

const tagExport = "export-not-frozen"

func spellingStream(c *lib.Ctx) {
	c.Note("%s", "spelling stream: build_defs files binding lists and dicts (literals, empty ones, comprehensions, +, *, |, sorted, function results, aliases of other names) to 4-9 top-level names of many spellings "+
		"(upper / lower case, one or two leading underscores, trailing underscore, a lone _, digits, long names); through the hook VerifC17MutableExports the globals interpreter.Subinclude returns are inspected directly: "+
		"no name may hold a pyList / pyDict (oracle only)")
	spell := []string{"X", "x", "_x", "__x", "_X1", "x_", "X_Y", "_", "__", "_0", "a_b_", "Tmp", "tmp_", "zz9", "_private_list", "PUBLIC", "_Priv", "___t", "l", "_l", "O_o", "_CONFIG_LIKE", "config_", "k", "_k"}
	n := c.Scale(30, 600)
	for i := 0; i < n; i++ {
		r := c.Rng.Fork()
		names := append([]string{}, spell...)
		lib.Shuffle(r, names)
		names = names[:r.Range(4, 9)]
		var b strings.Builder
		b.WriteString("def mk_l():\n    return [1, 2]\ndef mk_d(over={}):\n    return {\"a\": 1} | over\n")
		made := []string{}
		for _, nm := range names {
			var rhs string
			switch r.Intn(14) {
			case 0:
				rhs = fmt.Sprintf("[%d, %d]", r.Range(0, 9), r.Range(0, 9))
			case 1:
				rhs = fmt.Sprintf("{\"k\": %d}", r.Range(0, 9))
			case 2:
				rhs = "[]"
			case 3:
				rhs = "{}"
			case 4:
				rhs = fmt.Sprintf("[y for y in [1, 2, 3] if y > %d]", r.Range(0, 3))
			case 5:
				rhs = fmt.Sprintf("{\"l\": [%d], \"d\": {\"m\": []}}", r.Range(0, 9))
			case 6:
				rhs = "mk_l()"
			case 7:
				rhs = "mk_d()"
			case 8:
				rhs = "[1] + [2]"
			case 9:
				rhs = "[0] * 3"
			case 10:
				rhs = "{\"a\": 1} | {}"
			case 11:
				rhs = "sorted([3, 1, 2])"
			case 12:
				rhs = "{k: 1 for k in [\"p\", \"q\"]}"
			default:
				if len(made) > 0 {
					rhs = lib.Pick(r, made) // an alias of an earlier name: both names must come out frozen
				} else {
					rhs = "[[1], [2]]"
				}
			}
			b.WriteString(nm + " = " + rhs + "\n")
			made = append(made, nm)
			c.Hist("spelling_first_byte", map[bool]string{true: "underscore", false: "other"}[nm[0] == '_'])
		}
		src := b.String()
		mutable, all, err := asp.VerifC17MutableExports(src)
		c.Oracle()
		c.Eval(map[string]any{"defs": src}, "spelling:"+src, true)
		if err != nil {
			c.Fail("unexplained-interference", "spelling stream: the generated build_defs file does not load: "+err.Error(), map[string]any{"defs": src})
			continue
		}
		missing := []string{}
		have := map[string]bool{}
		for _, k := range all {
			have[k] = true
		}
		for _, nm := range names {
			if !have[nm] {
				missing = append(missing, nm)
			}
		}
		if len(missing) > 0 {
			c.Fail("unexplained-interference", fmt.Sprintf("spelling stream: subinclude does not export %v", missing), map[string]any{"defs": src, "exports": all})
		}
		if len(mutable) > 0 {
			c.Fail(tagExport, fmt.Sprintf("the names %v of a subincluded file reach the package as ordinary mutable lists / dicts (scope.Freeze did not freeze them): every package shares them", mutable),
				map[string]any{"defs": src, "mutable_exports": mutable})
			c.Hist("outcome", "spelling-mutable-export")
		} else {
			c.Hist("outcome", "spelling-all-frozen")
		}
	}
}
