// C17 follow-up 2: the CONFIG object (seeded mutations r2-m1 pyConfig.Merge adopting the subinclude's overlay map,
// r2-m3 package() writing dict overrides into the existing config dict).
//
// configStream generates scenarios in the small closed language of Model/C17_Config.v: one or two build_defs files that
// set config at top level (CONFIG.setdefault / CONFIG[..] = with string and dict values) and two packages whose
// statements are subinclude, CONFIG[..] = .., CONFIG.setdefault(..), package(k = "v"), package(k = {"nk": "v"}) and a
// write through a dict-valued entry (x = CONFIG.K; x["NK"] = v), in any order (config changed before / after /
// between subincludes, the same file subincluded twice, a second config-setting file). They are printed as source text
// and run on ONE real parser per run through the hook asp.VerifC17EvalCfg, which renders every package's own
// s.config over the keys of interest right after the package and after all packages. Oracle (model independent):
// b alone vs b after a, a alone vs a after b, what a package's CONFIG reads does not change when the other package runs
// afterwards, and the concurrent run ends in one of the sequential outcomes. The runs a,b and b are also
// correspondence cases (CCfg) of the model, whose Merge and package() are interpreted from the translated Go statements.
package main

import (
	"encoding/json"
	"fmt"
	"strings"

	"verifharness/lib"

	"github.com/thought-machine/please/src/parse/asp"
)

// the dict-valued CONFIG entry a subincluded file sets is the same ordinary mutable pyDict in every including package
// (pyConfig.Freeze freezes none of the overlay's values): a write through it is seen by every package.
const tagCfgDict = "config-dict-value-mutable-through-subinclude"

var (
	cfgScalarKeys = []string{"C17K0", "C17K1", "C17K2"}
	cfgDictKeys   = []string{"C17D0", "C17D1"}
	cfgKeys       = []string{"C17K0", "C17K1", "C17K2", "C17D0", "C17D1", "OS"}
	cfgNKeys      = []string{"OPT", "WARN", "EXTRA"}
)

type cfgLit struct {
	s string
	d [][2]string // nil = string literal
}

type cfgOp struct {
	kind  string // defs: setdefault assign; package: sub assign setdefault pkgscalar pkgdict nested
	k, nk string
	v     cfgLit
}

func (l cfgLit) text() string {
	if l.d == nil {
		return fmt.Sprintf("%q", l.s)
	}
	parts := []string{}
	for _, kv := range l.d {
		parts = append(parts, fmt.Sprintf("%q: %q", kv[0], kv[1]))
	}
	return "{" + strings.Join(parts, ", ") + "}"
}

func (l cfgLit) coq() string {
	if l.d == nil {
		return lib.App("LStr", lib.Str(l.s))
	}
	parts := []string{}
	for _, kv := range l.d {
		parts = append(parts, lib.Pair(lib.Str(kv[0]), lib.Str(kv[1])))
	}
	return lib.App("LDict", lib.List(parts))
}

func (o cfgOp) text(pkg string, i int) string {
	switch o.kind {
	case "setdefault":
		return fmt.Sprintf("CONFIG.setdefault(%q, %s)\n", o.k, o.v.text())
	case "assign":
		return fmt.Sprintf("CONFIG[%q] = %s\n", o.k, o.v.text())
	case "sub":
		return fmt.Sprintf("subinclude(%q)\n", o.k)
	case "pkgscalar":
		return fmt.Sprintf("package(%s = %q)\n", strings.ToLower(o.k), o.v.s)
	case "pkgdict":
		return fmt.Sprintf("package(%s = {%q: %q})\n", strings.ToLower(o.k), strings.ToLower(o.nk), o.v.s)
	case "nested":
		return fmt.Sprintf("%s_x%d = CONFIG.%s\n%s_x%d[%q] = %q\n", pkg, i, o.k, pkg, i, o.nk, o.v.s)
	}
	panic("cfgOp kind " + o.kind)
}

func (o cfgOp) coq(defs bool) string {
	switch o.kind {
	case "setdefault":
		if defs {
			return lib.App("DSetDefault", lib.Str(o.k), o.v.coq())
		}
		return lib.App("PSetDefault", lib.Str(o.k), o.v.coq())
	case "assign":
		if defs {
			return lib.App("DAssign", lib.Str(o.k), o.v.coq())
		}
		return lib.App("PAssign", lib.Str(o.k), o.v.coq())
	case "sub":
		return lib.App("PSub", lib.Str(o.k))
	case "pkgscalar":
		return lib.App("PPkgScalar", lib.Str(o.k), lib.Str(o.v.s))
	case "pkgdict":
		return lib.App("PPkgDict", lib.Str(o.k), lib.Str(o.nk), lib.Str(o.v.s))
	case "nested":
		return lib.App("PNested", lib.Str(o.k), lib.Str(o.nk), lib.Str(o.v.s))
	}
	panic("cfgOp kind " + o.kind)
}

func cfgText(ops []cfgOp, skip map[int]bool, pkg string) string {
	var b strings.Builder
	for i, o := range ops {
		if !skip[i] {
			b.WriteString(o.text(pkg, i))
		}
	}
	if pkg != "" {
		b.WriteString(pkg + "_done = 1\n")
	}
	return b.String()
}

func cfgCoqOps(ops []cfgOp, defs bool) string {
	parts := []string{}
	for _, o := range ops {
		parts = append(parts, o.coq(defs))
	}
	return lib.List(parts)
}

// cfgRender turns the hook's rendering of a config into the model's `list rv` (ok = false: a value outside the language)
func cfgRender(raw json.RawMessage) (string, bool) {
	var m map[string]json.RawMessage
	if err := json.Unmarshal(raw, &m); err != nil {
		return "", false
	}
	parts := []string{}
	for _, k := range cfgKeys {
		v := m[k]
		var s string
		var obj map[string]json.RawMessage
		if json.Unmarshal(v, &s) == nil {
			parts = append(parts, lib.App("RVStr", lib.Str(s)))
		} else if json.Unmarshal(v, &obj) == nil {
			if t, ok := obj["T"]; ok && string(t) == `"go-nil"` {
				parts = append(parts, "RVNone")
			} else if d, ok := obj["D"]; ok {
				var dm map[string]string
				if json.Unmarshal(d, &dm) != nil {
					return "", false
				}
				es := []string{}
				for _, nk := range cfgNKeys {
					if x, ok := dm[nk]; ok {
						es = append(es, lib.App("Some", lib.Str(x)))
					} else {
						es = append(es, "None")
					}
				}
				parts = append(parts, lib.App("RVDict", lib.List(es)))
			} else {
				return "", false
			}
		} else {
			return "", false
		}
	}
	return lib.List(parts), true
}

type cfgScen struct {
	defs map[string][]cfgOp // "//defs:d", "//defs:e"
	A, B []cfgOp
}

var cfgDefNames = []string{"//defs:d", "//defs:e"}

func cfgGenLit(r *lib.Rng, dict bool) cfgLit {
	if !dict {
		return cfgLit{s: fmt.Sprintf("v%d", r.Range(0, 99))}
	}
	d := [][2]string{}
	for _, nk := range cfgNKeys {
		if nk != "EXTRA" || r.Chance(1, 3) {
			d = append(d, [2]string{nk, fmt.Sprintf("-%s%d", strings.ToLower(nk[:1]), r.Range(0, 9))})
		}
	}
	return cfgLit{d: d}
}

func cfgGenDefs(r *lib.Rng, first bool) []cfgOp {
	ops := []cfgOp{}
	kind := func() string {
		if r.Chance(1, 4) {
			return "assign"
		}
		return "setdefault"
	}
	if first || r.Chance(1, 2) {
		ops = append(ops, cfgOp{kind: kind(), k: lib.Pick(r, cfgScalarKeys[:2]), v: cfgGenLit(r, false)})
	}
	if first || r.Chance(1, 2) {
		ops = append(ops, cfgOp{kind: kind(), k: lib.Pick(r, cfgDictKeys), v: cfgGenLit(r, true)})
	}
	for r.Chance(1, 3) {
		if r.Bool() {
			ops = append(ops, cfgOp{kind: kind(), k: lib.Pick(r, append([]string{"OS"}, cfgScalarKeys...)), v: cfgGenLit(r, false)})
		} else {
			ops = append(ops, cfgOp{kind: kind(), k: lib.Pick(r, cfgDictKeys), v: cfgGenLit(r, true)})
		}
	}
	if !first && r.Chance(1, 6) {
		return nil // a file that does not touch CONFIG: nothing exported
	}
	return ops
}

func cfgGenPkgOp(r *lib.Rng) cfgOp {
	anyKey := func() string {
		if r.Chance(1, 8) {
			return "OS"
		}
		if r.Chance(1, 3) {
			return lib.Pick(r, cfgDictKeys)
		}
		return lib.Pick(r, cfgScalarKeys)
	}
	switch r.Intn(12) {
	case 0, 1:
		return cfgOp{kind: "assign", k: anyKey(), v: cfgGenLit(r, r.Chance(1, 4))}
	case 2, 3:
		return cfgOp{kind: "setdefault", k: anyKey(), v: cfgGenLit(r, r.Chance(1, 4))}
	case 4:
		return cfgOp{kind: "pkgscalar", k: anyKey(), v: cfgGenLit(r, false)}
	case 5, 6, 7:
		return cfgOp{kind: "pkgdict", k: lib.Pick(r, cfgDictKeys), nk: lib.Pick(r, cfgNKeys), v: cfgGenLit(r, false)}
	case 8:
		return cfgOp{kind: "nested", k: lib.Pick(r, cfgDictKeys), nk: lib.Pick(r, cfgNKeys), v: cfgGenLit(r, false)}
	case 9:
		return cfgOp{kind: "sub", k: "//defs:e"}
	case 10:
		return cfgOp{kind: "sub", k: "//defs:d"}
	default:
		return cfgOp{kind: "pkgdict", k: lib.Pick(r, cfgDictKeys), nk: lib.Pick(r, cfgNKeys[:2]), v: cfgGenLit(r, false)}
	}
}

func cfgGenPkg(r *lib.Rng, writer bool) []cfgOp {
	ops := []cfgOp{}
	if r.Chance(1, 5) {
		ops = append(ops, cfgGenPkgOp(r)) // something before the first subinclude: the package has an overlay of its own already
	}
	ops = append(ops, cfgOp{kind: "sub", k: "//defs:d"})
	n := r.Range(0, 2)
	if writer {
		n = r.Range(1, 4)
	}
	for i := 0; i < n; i++ {
		ops = append(ops, cfgGenPkgOp(r))
	}
	return ops
}

func cfgForced(i int) *cfgScen {
	str := func(s string) cfgLit { return cfgLit{s: s} }
	d := []cfgOp{{kind: "setdefault", k: "C17K0", v: str("-O2")}, {kind: "setdefault", k: "C17D0", v: cfgLit{d: [][2]string{{"OPT", "-O2"}, {"WARN", "-Wall"}}}}}
	e := []cfgOp{{kind: "setdefault", k: "C17K1", v: str("-from-other-defs")}}
	sub := cfgOp{kind: "sub", k: "//defs:d"}
	B := []cfgOp{sub}
	var A []cfgOp
	switch i {
	case 0:
		A = []cfgOp{sub, {kind: "assign", k: "C17K0", v: str("-O0")}}
	case 1:
		A = []cfgOp{sub, {kind: "setdefault", k: "C17K1", v: str("-leaked")}}
	case 2:
		A = []cfgOp{sub, {kind: "sub", k: "//defs:e"}}
	case 3:
		A = []cfgOp{sub, {kind: "pkgdict", k: "C17D0", nk: "OPT", v: str("-O0")}}
	case 4:
		A = []cfgOp{sub, {kind: "pkgdict", k: "C17D0", nk: "WARN", v: str("-Werror")}}
	case 5:
		A = []cfgOp{sub, {kind: "nested", k: "C17D0", nk: "OPT", v: str("-O0")}}
	case 6:
		A = []cfgOp{sub, {kind: "pkgscalar", k: "C17K0", v: str("-Os")}}
	case 7:
		A = []cfgOp{{kind: "assign", k: "C17K2", v: str("own")}, sub, {kind: "assign", k: "C17K0", v: str("-O0")}}
	case 8:
		A = []cfgOp{sub, {kind: "pkgdict", k: "C17D0", nk: "OPT", v: str("-O0")}, {kind: "nested", k: "C17D0", nk: "WARN", v: str("-w")}}
	case 9:
		A = []cfgOp{sub, {kind: "assign", k: "C17K0", v: str("-O0")}, sub}
	case 10:
		A = []cfgOp{sub, {kind: "pkgdict", k: "C17D0", nk: "EXTRA", v: str("x")}} // raises: not a known config value
	case 11:
		A = []cfgOp{sub, {kind: "pkgdict", k: "C17K0", nk: "OPT", v: str("x")}} // raises: not a dict
	default:
		return nil
	}
	return &cfgScen{defs: map[string][]cfgOp{"//defs:d": d, "//defs:e": e}, A: A, B: B}
}

func configStream(c *lib.Ctx) {
	c.Note("%s", "config stream: build_defs files that set CONFIG at top level (string and dict values; setdefault / assignment), package a = subinclude + 1-4 of "+
		"CONFIG[k] = v, CONFIG.setdefault, package(k = \"v\"), package(k = {\"nk\": \"v\"}), x = CONFIG.K; x[\"NK\"] = v, a second / repeated subinclude (also before the first subinclude), "+
		"package b = subinclude + 0-2 of the same; every package's own s.config rendered by the hook after it ran and after all ran; "+
		"oracle: b alone vs after a, a alone vs after b, nothing a package reads changes afterwards, concurrent run serialisable; 12 enumerated shapes first; runs a,b and b are CCfg correspondence cases")
	// the entries of the real base config the scenarios can touch
	probe, err := asp.VerifC17EvalCfg([]asp.VerifC16File{{Name: "probe", Src: "x = 1\n"}}, cfgKeys, false)
	if err != nil || len(probe) != 1 || probe[0].Err != "" {
		panic(fmt.Sprint("config stream: probe failed: ", err, probe))
	}
	var pm map[string]json.RawMessage
	if err := json.Unmarshal(probe[0].CfgAfter, &pm); err != nil {
		panic(err)
	}
	baseParts := []string{}
	for _, k := range cfgKeys {
		var s string
		if json.Unmarshal(pm[k], &s) == nil {
			baseParts = append(baseParts, lib.Pair(lib.Str(k), lib.Str(s)))
		} else if string(pm[k]) != `{"T":"go-nil"}` {
			panic("config stream: base config entry " + k + " is not a string: " + string(pm[k]))
		}
	}
	coqBase := lib.List(baseParts)

	n := c.Scale(70, 1500)
	for i := 0; i < n; i++ {
		r := c.Rng.Fork()
		sc := cfgForced(i)
		if sc == nil {
			sc = &cfgScen{defs: map[string][]cfgOp{"//defs:d": cfgGenDefs(r, true), "//defs:e": cfgGenDefs(r, false)}, A: cfgGenPkg(r, true), B: cfgGenPkg(r, false)}
		}
		files := func(skipA, skipB map[int]bool, order string) []asp.VerifC16File {
			fs := []asp.VerifC16File{}
			for _, dn := range cfgDefNames {
				fs = append(fs, asp.VerifC16File{Name: dn, Src: cfgText(sc.defs[dn], nil, ""), Defs: true})
			}
			fa, fb := asp.VerifC16File{Name: "a", Src: cfgText(sc.A, skipA, "a")}, asp.VerifC16File{Name: "b", Src: cfgText(sc.B, skipB, "b")}
			switch order {
			case "A":
				return append(fs, fa)
			case "B":
				return append(fs, fb)
			case "AB":
				return append(fs, fa, fb)
			}
			return append(fs, fb, fa)
		}
		run := func(skipA, skipB map[int]bool, order string, conc bool) map[string]asp.VerifC17CfgResult {
			out, err := asp.VerifC17EvalCfg(files(skipA, skipB, order), cfgKeys, conc)
			if err != nil {
				panic(err)
			}
			m := map[string]asp.VerifC17CfgResult{}
			for _, o := range out {
				m[o.Name] = o
			}
			return m
		}
		srcs := map[string]any{"defs_d": cfgText(sc.defs["//defs:d"], nil, ""), "defs_e": cfgText(sc.defs["//defs:e"], nil, ""), "a": cfgText(sc.A, nil, "a"), "b": cfgText(sc.B, nil, "b")}
		// what a package observably ends with: whether it raised, its globals, its CONFIG
		obs := func(x asp.VerifC17CfgResult) string {
			if x.Err != "" {
				return "<raised>"
			}
			return string(x.After) + "|" + string(x.CfgAfter)
		}
		later := func(x asp.VerifC17CfgResult) string {
			if x.Err != "" {
				return "<raised>"
			}
			return string(x.Final) + "|" + string(x.CfgFinal)
		}
		aloneB, aloneA := run(nil, nil, "B", false)["b"], run(nil, nil, "A", false)["a"]
		ab, ba := run(nil, nil, "AB", false), run(nil, nil, "BA", false)
		hasNested := false
		for _, o := range append(append([]cfgOp{}, sc.A...), sc.B...) {
			c.Hist("cfg_op", o.kind)
			if o.kind == "nested" {
				hasNested = true
			}
		}
		interfered := false
		// attribute a difference to a 1-minimal set of statements of the other package that still produces it
		classify := func(what, who string, differs func(skip map[int]bool) bool, got, want string) {
			interfered = true
			ops := sc.A
			if who == "b" {
				ops = sc.B
			}
			skip := map[int]bool{}
			for k := range ops {
				skip[k] = true
				if !differs(skip) {
					delete(skip, k)
				}
			}
			needed, cls := []string{}, "unexplained-interference"
			for k, o := range ops {
				if !skip[k] {
					needed = append(needed, strings.TrimSpace(o.text(who, k)))
					if o.kind == "nested" {
						cls = tagCfgDict
					}
				}
			}
			in := map[string]any{"files": srcs, "got": got, "want": want, "needed": needed}
			if cls == tagCfgDict {
				c.Fail(cls, fmt.Sprintf("config stream, %s: differs because of the write through a dict-valued CONFIG entry in package %s (%q)", what, who, needed), in)
			} else {
				c.Fail(cls, fmt.Sprintf("config stream, %s: differs; the statements %q of package %s are needed for it and none is a known leak", what, needed, who), in)
			}
			c.Hist("cfg_outcome", cls)
		}
		c.Oracle()
		if obs(ab["b"]) != obs(aloneB) {
			classify("package b parsed after package a vs alone", "a", func(skip map[int]bool) bool { return obs(run(skip, nil, "AB", false)["b"]) != obs(aloneB) }, obs(ab["b"]), obs(aloneB))
		}
		c.Oracle()
		if obs(ba["a"]) != obs(aloneA) {
			classify("package a parsed after package b vs alone", "b", func(skip map[int]bool) bool { return obs(run(nil, skip, "BA", false)["a"]) != obs(aloneA) }, obs(ba["a"]), obs(aloneA))
		}
		c.Oracle()
		if ab["a"].Err == "" && obs(ab["a"]) != later(ab["a"]) {
			classify("what package a has after package b ran", "b", func(skip map[int]bool) bool { x := run(nil, skip, "AB", false)["a"]; return obs(x) != later(x) }, later(ab["a"]), obs(ab["a"]))
		}
		c.Oracle()
		if ba["b"].Err == "" && obs(ba["b"]) != later(ba["b"]) {
			classify("what package b has after package a ran", "a", func(skip map[int]bool) bool { x := run(skip, nil, "BA", false)["b"]; return obs(x) != later(x) }, later(ba["b"]), obs(ba["b"]))
		}
		if !interfered {
			c.Hist("cfg_outcome", "independent")
		}
		// concurrently (not when a package writes through the shared dict, or after an interference: unsynchronised map writes abort the process)
		if !interfered && !hasNested {
			for k := 0; k < c.Scale(1, 4); k++ {
				c.Oracle()
				cc := run(nil, nil, "AB", true)
				if later(cc["a"]) != later(ab["a"]) || later(cc["b"]) != later(ab["b"]) {
					c.Fail("concurrent-parse-not-serialisable", "config stream: parsed concurrently, a package ends with a CONFIG it has in neither sequential order",
						map[string]any{"files": srcs, "a": later(cc["a"]), "b": later(cc["b"])})
				}
			}
		}

		// correspondence
		coqDefs := []string{}
		for _, dn := range cfgDefNames {
			coqDefs = append(coqDefs, lib.Pair(lib.Str(dn), cfgCoqOps(sc.defs[dn], true)))
		}
		outcome := func(x asp.VerifC17CfgResult) (string, bool) {
			if x.Err != "" {
				return "COErr", true
			}
			a, ok1 := cfgRender(x.CfgAfter)
			f, ok2 := cfgRender(x.CfgFinal)
			return lib.App("COOk", a, f), ok1 && ok2
		}
		emit := func(tag string, pkgs [][]cfgOp, res []asp.VerifC17CfgResult) {
			outs, progs := []string{}, []string{}
			for j, x := range res {
				o, ok := outcome(x)
				if !ok {
					c.Fail("unexplained-interference", "config stream: a CONFIG value outside the scenario language was rendered", map[string]any{"files": srcs, "cfg": string(x.CfgFinal)})
					return
				}
				outs = append(outs, o)
				progs = append(progs, cfgCoqOps(pkgs[j], false))
			}
			key := fmt.Sprint(tag, srcs)
			c.Case(lib.App("CCfg", coqBase, lib.List(coqDefs), lib.StrList(cfgKeys), lib.StrList(cfgNKeys), lib.List(progs), lib.List(outs)),
				map[string]any{"order": tag, "files": srcs, "results": res}, "cfg:"+key, tag == "a,b" && len(sc.A) > 1)
		}
		emit("a,b", [][]cfgOp{sc.A, sc.B}, []asp.VerifC17CfgResult{ab["a"], ab["b"]})
		emit("b", [][]cfgOp{sc.B}, []asp.VerifC17CfgResult{aloneB})
	}
}
