// C30: timed-out actions are killed with all their children.
// Implementation side of the correspondence (process.ExecWithTimeout on generated process trees)
// and the model-independent property oracle (return time, reported error, survivors found in /proc).
package main

import (
	"context"
	"errors"
	"fmt"
	"os"
	osexec "os/exec"
	"path/filepath"
	"regexp"
	"sort"
	"strconv"
	"strings"
	"sync"
	"syscall"
	"time"

	"verifharness/lib"

	"github.com/thought-machine/please/src/process"
	logging "gopkg.in/op/go-logging.v1"
)

// ---------------------------------------------------------------------------------------------
// the executor's own log, captured: "Sending signal <name> to -<pid>" with the time of the call

type sigEvent struct {
	sig int
	at  time.Time
}

type capture struct {
	mu     sync.Mutex
	byPid  map[int][]sigEvent
	failed int // "Failed to kill inferior process"
}

var sigRe = regexp.MustCompile(`^Sending signal (.+) to (-?)(\d+)$`)

func (c *capture) Log(level logging.Level, depth int, rec *logging.Record) error {
	msg := rec.Message()
	c.mu.Lock()
	defer c.mu.Unlock()
	if m := sigRe.FindStringSubmatch(msg); m != nil {
		pid, _ := strconv.Atoi(m[3])
		sig := 0
		switch m[1] {
		case syscall.SIGTERM.String():
			sig = 15
		case syscall.SIGKILL.String():
			sig = 9
		case syscall.SIGINT.String():
			sig = 2
		case syscall.SIGHUP.String():
			sig = 1
		case syscall.SIGQUIT.String():
			sig = 3
		}
		c.byPid[pid] = append(c.byPid[pid], sigEvent{sig, rec.Time})
	} else if strings.HasPrefix(msg, "Failed to kill") {
		c.failed++
	}
	return nil
}

func (c *capture) events(pid int) []sigEvent {
	c.mu.Lock()
	defer c.mu.Unlock()
	return append([]sigEvent{}, c.byPid[pid]...)
}

var logcap = &capture{byPid: map[int][]sigEvent{}}

// ---------------------------------------------------------------------------------------------
// a generated command: a tree of processes

type Proc struct {
	Parent   int  `json:"parent"`
	Ign      bool `json:"ign"`      // trap '' TERM in effect (own or inherited)
	Detached bool `json:"detached"` // exec >/dev/null 2>&1 in effect (own or inherited)
	Setsid   bool `json:"setsid"`   // started through setsid(1): a session and process group of its own
	Pgrp     bool `json:"pgrp"`     // started through setpgrp(0,0): a process group of its own inside the same session (nested group)
	LifeMs   int  `json:"life_ms"`  // exec sleep <life>; for a waiting main: the longest life of its children
}

type Scenario struct {
	Name      string `json:"name"`
	TimeoutMs int    `json:"timeout_ms"`
	MainWait  bool   `json:"main_wait"` // process 0 ends with `wait` instead of `exec sleep`
	// "" = NoSandbox; "tool" = sandbox != NoSandbox through an external sandbox tool (a two-line `exec "$@"` script),
	// namespace policy never; "builtin" = sandbox != NoSandbox through the builtin sandbox (re-exec of the running
	// binary as `<exe> sandbox cmd...` inside new user/pid/net/mount namespaces)
	Sandbox string `json:"sandbox"`
	Procs   []Proc `json:"procs"`
}

// coqMode is the configuration ExecCommand runs under, as a Model.C30.mode
func (s *Scenario) coqMode() string {
	switch s.Sandbox {
	case "tool":
		return lib.App("mkMode", "NsNever", "false", "true")
	case "builtin":
		return lib.App("mkMode", "NsSandbox", "true", "true")
	}
	return lib.App("mkMode", "NsNever", "false", "false")
}

// normalise makes the flags the effective ones (a child inherits an ignored SIGTERM and redirected output; a
// descendant of a setsid'ed process does not call setsid again) and computes the life of a waiting main.
func (s *Scenario) normalise() {
	escaped := make([]bool, len(s.Procs))
	for i := range s.Procs {
		p := &s.Procs[i]
		if i == 0 {
			p.Parent, p.Setsid = 0, false
			continue
		}
		if p.Parent < 0 || p.Parent >= i {
			p.Parent = 0
		}
		par := s.Procs[p.Parent]
		p.Ign = p.Ign || par.Ign
		p.Detached = p.Detached || par.Detached
		if escaped[p.Parent] {
			p.Setsid, p.Pgrp = false, false
		}
		if p.Setsid {
			p.Pgrp = false
		}
		escaped[i] = escaped[p.Parent] || p.Setsid || p.Pgrp
	}
	if s.MainWait {
		life := 0
		for i := 1; i < len(s.Procs); i++ {
			if s.Procs[i].Parent == 0 {
				life = max(life, s.Procs[i].LifeMs)
			}
		}
		s.Procs[0].LifeMs = life
	}
}

// body is the shell text process i runs: set-up, a ready marker holding its pid, its children in the
// background (subshells; a setsid'ed child is a script of its own started through setsid(1)), then sleep or wait.
func (s *Scenario) body(dir string, i int, files map[string]string) string {
	p := s.Procs[i]
	var b strings.Builder
	if p.Ign {
		b.WriteString("trap '' TERM\n")
	}
	if p.Detached {
		b.WriteString("exec >/dev/null 2>&1\n")
	}
	fmt.Fprintf(&b, "echo $BASHPID > %s/ready_%d\n", dir, i)
	for j := i + 1; j < len(s.Procs); j++ {
		if s.Procs[j].Parent != i {
			continue
		}
		if s.Procs[j].Setsid {
			name := fmt.Sprintf("%s/p_%d.sh", dir, j)
			files[name] = s.body(dir, j, files)
			fmt.Fprintf(&b, "setsid bash %s &\n", name)
		} else if s.Procs[j].Pgrp {
			name := fmt.Sprintf("%s/p_%d.sh", dir, j)
			files[name] = s.body(dir, j, files)
			fmt.Fprintf(&b, "perl -e 'setpgrp(0,0); exec @ARGV' bash %s &\n", name)
		} else {
			fmt.Fprintf(&b, "(\n%s) &\n", s.body(dir, j, files))
		}
	}
	if i == 0 && s.MainWait {
		b.WriteString("wait\n")
	} else {
		fmt.Fprintf(&b, "exec sleep %d.%03d\n", p.LifeMs/1000, p.LifeMs%1000)
	}
	return b.String()
}

func (s *Scenario) writeScripts(dir string) {
	files := map[string]string{}
	files[dir+"/p_0.sh"] = s.body(dir, 0, files)
	for name, text := range files {
		if err := os.WriteFile(name, []byte(text), 0o644); err != nil {
			panic(err)
		}
	}
}

// coqSpecs describes the tree to the model. A process's life is counted from the start of the call: its own life plus the
// time at which it had finished its set-up (its ready file), so that a slow start of a shell under load does not look like a
// process outliving its life. (A life of 30 s stays what it is: it never ends within a scenario.)
func (s *Scenario) coqSpecs(readyMs []int64) string {
	end := make([]int64, len(s.Procs))
	for i, p := range s.Procs {
		end[i] = int64(p.LifeMs)
		if i < len(readyMs) && p.LifeMs < 30000 && readyMs[i] > 0 {
			end[i] += readyMs[i]
		}
	}
	if s.MainWait {
		end[0] = 0
		for i := 1; i < len(s.Procs); i++ {
			if s.Procs[i].Parent == 0 {
				end[0] = max(end[0], end[i])
			}
		}
	}
	items := make([]string, len(s.Procs))
	for i, p := range s.Procs {
		items[i] = lib.App("mkSpec", lib.Nat(p.Parent), lib.Bool(p.Ign), lib.Bool(p.Detached), lib.Bool(p.Setsid || p.Pgrp), lib.N(uint64(end[i])))
	}
	return lib.List(items)
}

func (s *Scenario) key() string {
	return fmt.Sprint(s.TimeoutMs, s.MainWait, s.Sandbox, s.Procs)
}

// ---------------------------------------------------------------------------------------------
// /proc

type survivor struct {
	Pid      int    `json:"pid"`
	Pgid     int    `json:"pgid"`
	Sid      int    `json:"sid"`
	State    string `json:"state"`
	Cmd      string `json:"cmd"`
	Dying    bool   `json:"dying"`    // zombie, or SIGKILL pending
	Detached bool   `json:"detached"` // neither fd 1 nor fd 2 is a pipe
}

func procStat(pid int) (state string, pgid, sid int, ok bool) {
	b, err := os.ReadFile(fmt.Sprintf("/proc/%d/stat", pid))
	if err != nil {
		return "", 0, 0, false
	}
	st := string(b)
	k := strings.LastIndexByte(st, ')')
	if k < 0 {
		return "", 0, 0, false
	}
	f := strings.Fields(st[k+1:])
	if len(f) < 4 {
		return "", 0, 0, false
	}
	pgid, _ = strconv.Atoi(f[2])
	sid, _ = strconv.Atoi(f[3])
	return f[0], pgid, sid, true
}

func sigkillPending(pid int) bool {
	b, err := os.ReadFile(fmt.Sprintf("/proc/%d/status", pid))
	if err != nil {
		return true // gone
	}
	for _, line := range strings.Split(string(b), "\n") {
		if strings.HasPrefix(line, "SigPnd:") || strings.HasPrefix(line, "ShdPnd:") {
			v, err := strconv.ParseUint(strings.TrimSpace(line[7:]), 16, 64)
			if err == nil && v&(1<<(9-1)) != 0 {
				return true
			}
		}
	}
	return false
}

// One pass over /proc serves every scenario that is waiting for a scan: scan returns the result of a pass that
// started after the call.
var scanner = struct {
	mu      sync.Mutex
	cond    *sync.Cond
	done    int // completed passes
	running bool
	result  map[string][]survivor
}{}

var markPrefix string

func scan(mark string) []survivor {
	sc := &scanner
	sc.mu.Lock()
	defer sc.mu.Unlock()
	if sc.cond == nil {
		sc.cond = sync.NewCond(&sc.mu)
	}
	want := sc.done + 1
	if sc.running {
		want = sc.done + 2
	}
	for sc.done < want {
		if sc.running {
			sc.cond.Wait()
			continue
		}
		sc.running = true
		sc.mu.Unlock()
		res := fullScan()
		sc.mu.Lock()
		sc.result, sc.running = res, false
		sc.done++
		sc.cond.Broadcast()
	}
	return sc.result[mark]
}

func fullScan() map[string][]survivor {
	out := map[string][]survivor{}
	ents, _ := filepath.Glob("/proc/[0-9]*")
	needle := "VERIF_MARK=" + markPrefix
	for _, e := range ents {
		b, err := os.ReadFile(e + "/environ")
		if err != nil || len(b) == 0 {
			continue
		}
		k := strings.Index(string(b), needle)
		if k < 0 || (k > 0 && b[k-1] != 0) {
			continue
		}
		mark := string(b[k+len("VERIF_MARK="):])
		if z := strings.IndexByte(mark, 0); z >= 0 {
			mark = mark[:z]
		}
		pid, _ := strconv.Atoi(filepath.Base(e))
		state, pgid, sid, ok := procStat(pid)
		if !ok {
			continue
		}
		cl, _ := os.ReadFile(e + "/cmdline")
		l1, _ := os.Readlink(e + "/fd/1")
		l2, _ := os.Readlink(e + "/fd/2")
		out[mark] = append(out[mark], survivor{Pid: pid, Pgid: pgid, Sid: sid, State: state,
			Cmd:      strings.TrimSpace(strings.ReplaceAll(string(cl), "\x00", " ")),
			Dying:    state == "Z" || state == "X" || sigkillPending(pid),
			Detached: !strings.HasPrefix(l1, "pipe:") && !strings.HasPrefix(l2, "pipe:")})
	}
	for _, l := range out {
		sort.Slice(l, func(i, j int) bool { return l[i].Pid < l[j].Pid })
	}
	return out
}

// ---------------------------------------------------------------------------------------------

type Result struct {
	Err       string     `json:"err"`
	TimedOut  bool       `json:"timed_out"`
	Sigs      []int      `json:"signals"`
	TTermMs   int64      `json:"t_term_ms"`
	Gap1Ms    int64      `json:"gap1_ms"`
	Gap2Ms    int64      `json:"gap2_ms"`
	ElapsedMs int64      `json:"elapsed_ms"`
	ScanMs    int64      `json:"scan_ms"`
	InSess    []survivor `json:"survivors_in_session"`
	OutSess   []survivor `json:"survivors_other_session"`
	SetupLate bool       `json:"setup_late"`
	// the executor had not returned when the watchdog gave up (ElapsedMs is then the time the watchdog waited); the
	// harness then killed every process of the action to get the call back
	NotReported bool    `json:"not_reported"`
	LostMs      int64   `json:"machine_stall_ms"` // time the canary lost while the call ran
	ReadyMs     []int64 `json:"ready_ms"`         // per process: when it had finished its set-up, from the start of the call
	Panic       string  `json:"panic,omitempty"`
	MainPid     int     `json:"-"`
}

var mySid, myPgid int
var executors = map[string]*process.Executor{}
var userNS bool

// ---- how much the machine disturbed us: a canary goroutine sleeps 5 ms at a time and records by how much each sleep
// overshot. The executor's timers live in the same Go runtime and the same process, so the time the canary lost in a
// window is the time the executor's timers may have lost too. ----
type stall struct {
	at   time.Time
	late time.Duration
}

var stalls struct {
	mu   sync.Mutex
	recs []stall
}

func canary() {
	for {
		t := time.Now()
		time.Sleep(5 * time.Millisecond)
		if late := time.Since(t) - 5*time.Millisecond; late > 5*time.Millisecond {
			stalls.mu.Lock()
			stalls.recs = append(stalls.recs, stall{t, late})
			stalls.mu.Unlock()
		}
	}
}

// lostIn is the total time the canary lost between a and b
func lostIn(a, b time.Time) time.Duration {
	stalls.mu.Lock()
	defer stalls.mu.Unlock()
	var sum time.Duration
	for _, r := range stalls.recs {
		if r.at.Add(r.late).After(a) && r.at.Before(b) {
			sum += r.late
		}
	}
	return sum
}

// directChild finds the process the executor started for this scenario: the one carrying the mark whose parent is
// this process (needed inside a pid namespace, where $BASHPID is the pid as seen from inside)
func directChild(mark string) int {
	me := os.Getpid()
	for _, f := range scan(mark) {
		b, err := os.ReadFile(fmt.Sprintf("/proc/%d/stat", f.Pid))
		if err != nil {
			continue
		}
		st := string(b)
		if k := strings.LastIndexByte(st, ')'); k >= 0 {
			fl := strings.Fields(st[k+1:])
			if len(fl) > 1 {
				if ppid, _ := strconv.Atoi(fl[1]); ppid == me {
					return f.Pid
				}
			}
		}
	}
	return 0
}

var markSeq int64
var markMu sync.Mutex

func runScenario(s *Scenario, base string) Result {
	markMu.Lock()
	markSeq++
	mark := fmt.Sprintf("%s%d", markPrefix, markSeq)
	markMu.Unlock()
	dir := filepath.Join(base, mark)
	if err := os.MkdirAll(dir, 0o755); err != nil {
		panic(err)
	}
	defer os.RemoveAll(dir)
	s.writeScripts(dir)
	env := []string{"PATH=/usr/local/bin:/usr/bin:/bin", "VERIF_MARK=" + mark}
	argv := process.BashCommand("bash", ". "+dir+"/p_0.sh", true)
	timeout := time.Duration(s.TimeoutMs) * time.Millisecond

	sandbox := process.NoSandbox
	if s.Sandbox != "" {
		sandbox = process.NewSandboxConfig(true, true)
	}
	var r Result
	type ret struct {
		err error
		at  time.Time
		pan string
	}
	done := make(chan ret, 1)
	t0 := time.Now()
	go func() {
		defer func() {
			if p := recover(); p != nil {
				done <- ret{nil, time.Now(), fmt.Sprint(p)}
			}
		}()
		_, _, err := executors[s.Sandbox].ExecWithTimeout(context.Background(), nil, dir, env, timeout, false, false, false, false, sandbox, argv)
		done <- ret{err, time.Now(), ""}
	}()
	nsPid := make(chan int, 1)
	stopLook := make(chan struct{})
	if s.Sandbox == "builtin" {
		go func() {
			for {
				if pid := directChild(mark); pid != 0 {
					nsPid <- pid
					return
				}
				select {
				case <-stopLook:
					nsPid <- 0
					return
				case <-time.After(20 * time.Millisecond):
				}
			}
		}()
	}
	// the watchdog: the report is due by timeout + 1030 ms; well after that the call is given up, the action's
	// processes are killed (whoever still holds the pipes included) and the call is collected
	var got ret
	select {
	case got = <-done:
	case <-time.After(timeout + watchdogExtra):
	}
	// a stalled machine stalls the executor's timers: give the call as much again as the canary lost (at most 6 s more)
	for waited := time.Duration(0); got.at.IsZero() && waited < 6*time.Second; {
		more := lostIn(t0, time.Now()) - waited
		if more < 50*time.Millisecond {
			break
		}
		waited += more
		select {
		case got = <-done:
		case <-time.After(more):
		}
	}
	if got.at.IsZero() {
		r.NotReported = true
		giveUp := time.Now()
		for k := 0; k < 3; k++ {
			for _, f := range scan(mark) {
				syscall.Kill(f.Pid, syscall.SIGKILL)
			}
			select {
			case got = <-done:
				k = 3
			case <-time.After(3 * time.Second):
			}
		}
		got.at = giveUp
	}
	close(stopLook)
	err, t1 := got.err, got.at
	r.Panic = got.pan
	r.LostMs = lostIn(t0, t1).Milliseconds()
	r.ElapsedMs = t1.Sub(t0).Milliseconds()
	r.TimedOut = errors.Is(err, context.DeadlineExceeded)
	if err != nil {
		r.Err = err.Error()
	}
	// survivors: poll for up to 100 ms; processes that are visibly dying (zombie, SIGKILL pending) get up to 2 s more
	var found []survivor
	if r.Panic != "" {
		r.Err = "panic: " + r.Panic
	}
	deadline := t1.Add(100 * time.Millisecond)
	hard := t1.Add(2 * time.Second)
	empties := 0
	for {
		found = scan(mark)
		r.ScanMs = time.Since(t0).Milliseconds()
		if len(found) == 0 {
			// a process in the middle of an execve shows an empty environ: nothing there counts only when seen twice
			if empties++; empties >= 2 {
				break
			}
			time.Sleep(15 * time.Millisecond)
			continue
		}
		empties = 0
		now := time.Now()
		if now.After(hard) {
			break
		}
		if now.After(deadline) {
			dying := false
			for _, f := range found {
				dying = dying || f.Dying
			}
			if !dying {
				break
			}
		}
		time.Sleep(20 * time.Millisecond)
	}
	// main pid, readiness of every process before the first observation point
	if s.Sandbox == "builtin" {
		r.MainPid = <-nsPid
	} else if b, err := os.ReadFile(filepath.Join(dir, "ready_0")); err == nil {
		r.MainPid, _ = strconv.Atoi(strings.TrimSpace(string(b)))
	}
	for _, f := range found {
		// escaped = in another session (setsid), or in a process group that is neither the action's nor ours (setpgrp)
		if f.Sid != mySid || (r.MainPid != 0 && f.Pgid != r.MainPid && f.Pgid != myPgid) {
			r.OutSess = append(r.OutSess, f)
		} else {
			r.InSess = append(r.InSess, f)
		}
	}
	evs := logcap.events(r.MainPid)
	for _, e := range evs {
		r.Sigs = append(r.Sigs, e.sig)
	}
	cutoff := t1
	if len(evs) >= 1 {
		r.TTermMs = evs[0].at.Sub(t0).Milliseconds()
		cutoff = evs[0].at
	}
	if len(evs) >= 2 {
		r.Gap1Ms = evs[1].at.Sub(evs[0].at).Milliseconds()
		r.Gap2Ms = t1.Sub(evs[1].at).Milliseconds()
	}
	if r.NotReported {
		cutoff = t1
	}
	for i := range s.Procs {
		fi, err := os.Stat(filepath.Join(dir, fmt.Sprintf("ready_%d", i)))
		if err != nil || !fi.ModTime().Before(cutoff) {
			r.SetupLate = true
		}
		if err == nil {
			r.ReadyMs = append(r.ReadyMs, max(fi.ModTime().Sub(t0).Milliseconds(), 0))
		} else {
			r.ReadyMs = append(r.ReadyMs, 0)
		}
	}
	// leave nothing behind
	for _, f := range scan(mark) {
		syscall.Kill(f.Pid, syscall.SIGKILL)
	}
	return r
}

// ---------------------------------------------------------------------------------------------

func fixedScenarios(T int) []Scenario {
	long := 30000
	p := func(parent int, ign, det, setsid bool, life int) Proc {
		return Proc{Parent: parent, Ign: ign, Detached: det, Setsid: setsid, LifeMs: life}
	}
	g := func(parent int, ign, det bool, life int) Proc { // a nested process group
		return Proc{Parent: parent, Ign: ign, Detached: det, Pgrp: true, LifeMs: life}
	}
	tree := []Proc{p(0, false, false, false, 0),
		p(0, false, false, false, long), p(0, true, false, false, long), p(1, false, false, false, long), p(1, false, true, false, long),
		p(2, true, false, false, long), p(2, true, true, false, long), p(3, true, false, false, long), p(5, true, false, false, T)}
	out := []Scenario{
		// ---- sandboxed actions: ExecCommand replaces the command by the sandbox tool / the re-exec'ed binary ----
		{Name: "tool-sleep", Sandbox: "tool", Procs: []Proc{p(0, false, false, false, long)}},
		{Name: "tool-ignore-term-children-wait", Sandbox: "tool", MainWait: true, Procs: []Proc{p(0, true, false, false, 0), p(0, true, false, false, long), p(0, true, false, false, long)}},
		{Name: "tool-background-child-wait", Sandbox: "tool", MainWait: true, Procs: []Proc{p(0, false, false, false, 0), p(0, false, false, false, long)}},
		{Name: "tool-detached-child-ignores-term", Sandbox: "tool", Procs: []Proc{p(0, false, false, false, long), p(0, true, true, false, long)}},
		{Name: "tool-setsid-child-holding-pipes", Sandbox: "tool", Procs: []Proc{p(0, false, false, false, long), p(0, false, false, true, long)}},
		{Name: "tool-small-fork-bomb", Sandbox: "tool", MainWait: true, Procs: tree},
		{Name: "tool-exit-at-deadline", Sandbox: "tool", Procs: []Proc{p(0, false, false, false, T)}},
		// ---- processes that leave the group and keep (or give up) the pipes ----
		{Name: "daemonised-grandchild-holding-pipes", Procs: []Proc{p(0, false, false, false, long), p(0, false, false, false, 0), p(1, false, false, true, long)}},
		{Name: "daemonised-grandchild-ignores-term-holding-pipes", Procs: []Proc{p(0, true, false, false, long), p(0, true, false, false, 0), p(1, true, false, true, long)}},
		{Name: "exit-leaving-setsid-child-holding-pipes", Procs: []Proc{p(0, false, false, false, T/3), p(0, false, false, true, long)}},
		{Name: "nested-group-holding-pipes", Procs: []Proc{p(0, false, false, false, long), g(0, false, false, long)}},
		{Name: "nested-group-detached-ignores-term", Procs: []Proc{p(0, false, false, false, long), g(0, true, true, long), p(1, true, true, false, long)}},
		{Name: "nested-group-inside-waiting-main", MainWait: true, Procs: []Proc{p(0, false, false, false, 0), p(0, true, true, false, long), g(0, false, false, T/2), p(2, false, false, false, long)}},
	}
	if userNS {
		out = append(out,
			Scenario{Name: "builtin-sleep", Sandbox: "builtin", Procs: []Proc{p(0, false, false, false, long)}},
			Scenario{Name: "builtin-ignore-term-children-wait", Sandbox: "builtin", MainWait: true, Procs: []Proc{p(0, true, false, false, 0), p(0, true, false, false, long), p(0, true, true, false, long)}},
			Scenario{Name: "builtin-setsid-child-holding-pipes", Sandbox: "builtin", Procs: []Proc{p(0, false, false, false, long), p(0, false, false, true, long)}})
	}
	return append(out, []Scenario{
		{Name: "sleep", Procs: []Proc{p(0, false, false, false, long)}},
		{Name: "ignore-term", Procs: []Proc{p(0, true, false, false, long)}},
		{Name: "ignore-term-children-wait", MainWait: true, Procs: []Proc{p(0, true, false, false, 0), p(0, true, false, false, long), p(0, true, false, false, long)}},
		{Name: "detached-child-ignores-term", Procs: []Proc{p(0, false, false, false, long), p(0, true, true, false, long)}},
		{Name: "exit-at-once-leaving-detached-child", Procs: []Proc{p(0, false, false, false, 0), p(0, false, true, false, long)}},
		{Name: "exit-leaving-detached-child", Procs: []Proc{p(0, false, false, false, T/2), p(0, false, true, false, long)}},
		{Name: "exit-leaving-child-holding-pipes", Procs: []Proc{p(0, false, false, false, T/3), p(0, false, false, false, long)}},
		{Name: "setsid-child-holding-pipes", Procs: []Proc{p(0, false, false, false, long), p(0, false, false, true, long)}},
		{Name: "setsid-child-detached", Procs: []Proc{p(0, false, false, false, long), p(0, false, true, true, long)}},
		{Name: "exit-at-deadline", Procs: []Proc{p(0, false, false, false, T)}},
		{Name: "ignore-term-exit-just-after-deadline", Procs: []Proc{p(0, true, false, false, T+15), p(0, true, false, false, T-10)}},
		{Name: "grandchild-ignores-term-holding-pipes", Procs: []Proc{p(0, false, false, false, long), p(0, false, false, false, 0), p(1, true, false, false, long)}},
		{Name: "small-fork-bomb", MainWait: true, Procs: tree},
	}...)
}

func randomScenario(r *lib.Rng, T int) Scenario {
	n := r.Range(1, 7)
	lives := []int{0, T / 2, T - 10, T, T + 15, 30000, 30000, 30000}
	s := Scenario{Name: "random", MainWait: r.Chance(1, 4)}
	for i := 0; i < n; i++ {
		s.Procs = append(s.Procs, Proc{Parent: r.Intn(max(i, 1)), Ign: r.Chance(1, 3), Detached: r.Chance(1, 4) && i > 0,
			Setsid: i > 0 && r.Chance(1, 6), LifeMs: lib.Pick(r, lives)})
	}
	// drawn after everything else, so that the trees of a seed are the ones they were before these were added
	if r.Chance(1, 3) {
		s.Sandbox = "tool"
	}
	for i := 1; i < n; i++ {
		if !s.Procs[i].Setsid && r.Chance(1, 8) {
			s.Procs[i].Pgrp = true
		}
	}
	return s
}

// how long after the timeout the watchdog gives the call up: the bound, the slack of the oracle, and a second more
const watchdogExtra = (1030 + 500 + 1000) * time.Millisecond

func main() {
	// the builtin sandbox re-executes the running binary as `<exe> sandbox <command> <args>...` inside the new
	// namespaces; the real `plz sandbox` sets up mounts and the network and then execs the command - this one only execs
	if len(os.Args) >= 3 && os.Args[1] == "sandbox" {
		path, err := osexec.LookPath(os.Args[2])
		if err != nil {
			fmt.Fprintln(os.Stderr, "sandbox:", err)
			os.Exit(127)
		}
		err = syscall.Exec(path, os.Args[2:], os.Environ())
		fmt.Fprintln(os.Stderr, "sandbox: exec:", err)
		os.Exit(126)
	}
	lib.Main("C30", func(c *lib.Ctx) {
		c.Model("From PlzV Require Import Model.C30_deadline Model.C30.", "C30.case", "C30.check")
		c.Rule("process trees run as real bash/sleep processes through process.ExecWithTimeout: 13 fixed shapes unsandboxed (plain sleep, SIGTERM ignored, " +
			"background children and grandchildren, children holding or detached from the output pipes, setsid escapes, exits at/around the deadline, a 9-process tree), " +
			"7 shapes run as sandboxed actions through an external sandbox tool (a two-line exec \"$@\" script; sandbox != NoSandbox), 3 through the builtin sandbox " +
			"(re-exec of the harness binary inside new user/pid/net/mount namespaces, when user namespaces are available; oracle only), 6 shapes with daemonised (fork, setsid, parent exits) " +
			"or setpgrp'ed (nested process group) children that keep or give up the output pipes, " +
			"plus random trees of 1-7 processes (parent, trap '' TERM, exec >/dev/null, setsid, setpgrp, life in {0, T/2, T-10, T, T+15, 30 s}, main sleeping or waiting, one in three through the sandbox tool), each with every timeout of the tier. " +
			"A watchdog gives a call up 2.53 s after its timeout. " +
			"distinct = distinct (tree, timeout); non-trivial = more than one process, or SIGTERM ignored, or a life within 20 ms of the deadline")
		// second stream (deadline.go): where the deadline comes from
		var drp struct {
			Deadline *DeadlineInput `json:"deadline"`
		}
		if c.ReadReplay(&drp) && drp.Deadline != nil {
			logging.SetBackend(logcap)
			deadlineStream(c, drp.Deadline)
			return
		}
		logging.SetBackend(logcap)
		if c.Replay == "" {
			deadlineStream(c, nil)
		}
		go canary()
		markPrefix = fmt.Sprintf("c30_%d_", os.Getpid())
		_, myPgid, mySid, _ = procStat(os.Getpid())
		base, err := os.MkdirTemp(c.Out, "c30-")
		if err != nil {
			panic(err)
		}
		defer os.RemoveAll(base)
		tool := filepath.Join(base, "fake_sandbox")
		if err := os.WriteFile(tool, []byte("#!/bin/sh\nexec \"$@\"\n"), 0o755); err != nil {
			panic(err)
		}
		executors[""] = process.New()
		executors["tool"] = process.NewSandboxingExecutor(false, process.NamespaceNever, tool)
		executors["builtin"] = process.NewSandboxingExecutor(true, process.NamespaceSandbox, "")
		// are user namespaces available? (the builtin sandbox clones into new user/pid/net/mount namespaces)
		probe := osexec.Command("/bin/true")
		probe.SysProcAttr = &syscall.SysProcAttr{Cloneflags: syscall.CLONE_NEWUSER | syscall.CLONE_NEWPID | syscall.CLONE_NEWNET | syscall.CLONE_NEWNS | syscall.CLONE_NEWUTS | syscall.CLONE_NEWIPC,
			UidMappings: []syscall.SysProcIDMap{{HostID: os.Getuid(), Size: 1, ContainerID: 0}}, GidMappings: []syscall.SysProcIDMap{{HostID: os.Getgid(), Size: 1, ContainerID: 0}}}
		userNS = probe.Run() == nil
		if !userNS {
			c.Note("user namespaces are not available here: no builtin-sandbox scenarios")
		}

		var scenarios []Scenario
		var replay Scenario
		if c.ReadReplay(&replay) {
			scenarios = []Scenario{replay}
		} else {
			timeouts := []int{300, 1000}
			nrand := 6
			if c.Thor {
				timeouts = []int{300, 500, 1000, 2000}
				nrand = 188
			}
			for _, T := range timeouts {
				for _, s := range fixedScenarios(T) {
					s.TimeoutMs = T
					scenarios = append(scenarios, s)
				}
			}
			for i := 0; i < nrand; i++ {
				r := c.Rng.Fork()
				for _, T := range timeouts {
					s := randomScenario(lib.NewRng(r.U64()), T)
					s.TimeoutMs = T
					scenarios = append(scenarios, s)
				}
			}
		}
		for i := range scenarios {
			scenarios[i].normalise()
		}

		// First pass: all scenarios in parallel (they mostly sleep). The machine may be so loaded that a command is
		// not even started within its timeout, or that a timer is hundreds of milliseconds late: a scenario whose
		// processes had not finished their set-up when the first signal was sent, or whose timing was off, is run
		// again (once; twice in the thorough tier) with little else going on, and the LAST attempt is the one that is judged for timing.
		// Survivors, missing SIGKILLs and wrong errors count on EVERY attempt.
		const boundMs, slackMs, modelLatMs = 1030, 500, 400
		noisy := func(s *Scenario, r Result) bool {
			T := int64(s.TimeoutMs)
			if r.SetupLate || r.MainPid == 0 || r.NotReported {
				return true
			}
			if r.LostMs > 300 {
				return true
			}
			if r.TimedOut {
				return r.ElapsedMs > T+boundMs+slackMs || r.TTermMs > T+modelLatMs || (r.Gap1Ms >= 30 && r.Gap1Ms > 30+modelLatMs) || (r.Gap2Ms >= 1000 && r.Gap2Ms > 1000+modelLatMs)
			}
			return r.ElapsedMs > T+slackMs
		}
		attempts := make([][]Result, len(scenarios))
		pass := func(idx []int, par int) {
			sem := make(chan struct{}, par)
			var wg sync.WaitGroup
			var mu sync.Mutex
			for _, i := range idx {
				wg.Add(1)
				go func(i int) {
					defer wg.Done()
					sem <- struct{}{}
					defer func() { <-sem }()
					r := runScenario(&scenarios[i], base)
					mu.Lock()
					attempts[i] = append(attempts[i], r)
					mu.Unlock()
				}(i)
			}
			wg.Wait()
		}
		all := make([]int, len(scenarios))
		for i := range all {
			all[i] = i
		}
		pass(all, 8)
		reruns := 0
		for round := 0; round < c.Scale(1, 2); round++ {
			var again []int
			for i := range scenarios {
				if noisy(&scenarios[i], attempts[i][len(attempts[i])-1]) {
					again = append(again, i)
				}
			}
			if len(again) == 0 {
				break
			}
			reruns += len(again)
			pass(again, 4)
		}
		if reruns > 0 {
			c.Note("%d re-runs of scenarios whose first attempt was disturbed by machine load (set-up of the process tree unfinished at the first signal, or timers more than %d ms late)", reruns, modelLatMs)
		}

		if os.Getenv("C30_DEBUG") != "" {
			for i := range scenarios {
				for _, r := range attempts[i] {
					fmt.Fprintf(os.Stderr, "%-40s T=%-5d %+v\n", scenarios[i].Name, scenarios[i].TimeoutMs, r)
				}
			}
		}
		escapedSurvivors, quirk := 0, 0
		for i := range scenarios {
			s := &scenarios[i]
			T := int64(s.TimeoutMs)
			nontrivial := len(s.Procs) > 1 || s.Procs[0].Ign || (s.Procs[0].LifeMs >= s.TimeoutMs-20 && s.Procs[0].LifeMs <= s.TimeoutMs+20)
			var r Result
			var js map[string]any
			for k, att := range attempts[i] {
				r = att
				last := k == len(attempts[i])-1
				js = map[string]any{"name": s.Name, "timeout_ms": s.TimeoutMs, "main_wait": s.MainWait, "sandbox": s.Sandbox, "procs": s.Procs, "observed": r, "attempt": k + 1}

				// ---- the property oracle: nothing below uses the model ----
				c.Oracle()
				if r.Panic != "" {
					c.Fail("executor-panicked", fmt.Sprintf("timeout %d ms, sandbox %q: the executor panicked: %s", T, s.Sandbox, r.Panic), js)
				}
				if last {
					c.Oracle()
					if r.NotReported {
						c.Fail("timeout-not-reported", fmt.Sprintf("timeout %d ms: the action had not been reported finished %d ms after its start (deadline + %d ms); "+
							"the call only came back after the harness killed the action's remaining processes (attempt %d)", T, r.ElapsedMs, r.ElapsedMs-T, k+1), js)
					}
				}
				if last && !r.NotReported {
					c.Oracle()
					if r.TimedOut && r.ElapsedMs > T+boundMs+slackMs+r.LostMs {
						c.Fail("timeout-reported-late", fmt.Sprintf("timeout %d ms: returned after %d ms, more than %d+%d ms after the deadline (+%d ms the machine stalled) (attempt %d)", T, r.ElapsedMs, boundMs, slackMs, r.LostMs, k+1), js)
					}
					c.Oracle()
					if !r.TimedOut && r.ElapsedMs > T+slackMs+r.LostMs {
						c.Fail("exceeded-timeout-not-reported-failed", fmt.Sprintf("timeout %d ms: returned after %d ms with error %q instead of a timeout (attempt %d)", T, r.ElapsedMs, r.Err, k+1), js)
					}
				}
				c.Oracle()
				if r.TimedOut && r.ElapsedMs < T {
					c.Fail("timeout-reported-before-deadline", fmt.Sprintf("timeout %d ms: reported timed out after %d ms", T, r.ElapsedMs), js)
				}
				c.Oracle()
				if r.TimedOut && r.MainPid != 0 {
					killed := false
					for _, sg := range r.Sigs {
						killed = killed || sg == 9
					}
					if !killed {
						c.Fail("no-sigkill-to-group-before-return", fmt.Sprintf("timeout %d ms: the executor returned without having sent SIGKILL to -%d (signals sent: %v)", T, r.MainPid, r.Sigs), js)
					}
				}
				c.Oracle()
				if len(r.InSess) > 0 {
					f := r.InSess[0]
					what := fmt.Sprintf("timeout %d ms, returned %q after %d ms: pid %d (%s, pgid %d, state %s) still runs %d ms after the start", T, r.Err, r.ElapsedMs, f.Pid, f.Cmd, f.Pgid, f.State, r.ScanMs)
					allDetached := true
					for _, f := range r.InSess {
						allDetached = allDetached && f.Detached
					}
					switch {
					case r.TimedOut:
						c.Fail("group-member-survives-timeout", what, js)
					case allDetached:
						c.Fail("detached-child-survives-normal-exit", what, js)
					default:
						c.Fail("child-survives-normal-exit", what, js)
					}
				}
				escapedSurvivors += len(r.OutSess)
			}
			if r.TimedOut && r.Gap1Ms < 30 && r.Gap2Ms >= 1000 {
				quirk++
			}

			// ---- the case for the model: the last attempt ----
			c.Hist("timeout_ms", strconv.Itoa(s.TimeoutMs))
			c.HistN("processes", len(s.Procs))
			c.HistN("attempts", len(attempts[i]))
			c.Hist("sandbox", map[string]string{"": "none", "tool": "external tool", "builtin": "builtin (namespaces)"}[s.Sandbox])
			switch {
			case r.NotReported:
				c.Hist("outcome", "not reported before the watchdog gave up")
				c.Hist("model case", "none: not reported")
				c.Eval(js, s.key(), nontrivial)
				continue
			case r.Err != "" && !r.TimedOut:
				c.Hist("outcome", "other-error")
				c.Note("scenario %s/%d returned an unexpected error %q; no model case", s.Name, s.TimeoutMs, r.Err)
				c.Eval(js, s.key(), nontrivial)
				continue
			case r.TimedOut && r.MainPid != 0 && r.Gap1Ms < 30:
				c.Hist("outcome", "timeout: exited on SIGTERM, then waited out the SIGKILL wait")
			case r.TimedOut && r.MainPid != 0 && r.Gap2Ms >= 1000:
				c.Hist("outcome", "timeout: both waits expired")
			case r.TimedOut && r.MainPid != 0:
				c.Hist("outcome", "timeout: exited on SIGKILL")
			case r.TimedOut:
				c.Hist("outcome", "timeout: command not up before the deadline")
			default:
				c.Hist("outcome", "finished before the deadline")
			}
			if noisy(s, r) {
				// still disturbed after the re-runs: the tree did not have the described shape at the first signal, or
				// a timer was later than the model's tolerance; the oracle above still applied
				c.Hist("model case", "none: set-up late or timers too late")
				c.Eval(js, s.key(), nontrivial)
				continue
			}
			if s.Sandbox == "builtin" {
				// inside a pid namespace the kernel ends every process when the first one dies, and drops a SIGTERM sent
				// to it unless it has a handler: not in the model; the oracle above applied
				c.Hist("model case", "none: pid namespace")
				c.Eval(js, s.key(), nontrivial)
				continue
			}
			c.Hist("model case", "yes")
			sigs := make([]uint64, len(r.Sigs))
			for k, sg := range r.Sigs {
				sigs[k] = uint64(sg)
			}
			c.Case(lib.App("Case", s.coqMode(), s.coqSpecs(r.ReadyMs), lib.N(uint64(s.TimeoutMs)), lib.Bool(r.TimedOut), lib.NList(sigs),
				lib.N(uint64(r.TTermMs)), lib.N(uint64(r.Gap1Ms)), lib.N(uint64(r.Gap2Ms)), lib.N(uint64(r.ElapsedMs)), lib.N(uint64(r.ScanMs)),
				lib.N(uint64(len(r.InSess))), lib.N(uint64(len(r.OutSess)))), js, s.key(), nontrivial)
		}
		if escapedSurvivors > 0 {
			c.Note("%d processes that had left the process group through setsid or setpgrp survived their action; the property speaks of the processes in the group, so this is not counted as a violation", escapedSurvivors)
		}
		if quirk > 0 {
			c.Note("%d timed-out commands exited on SIGTERM within 30 ms and the executor still waited the full second of the SIGKILL wait (the second sendSignal waits on a channel the first one drained): within the bound, not a violation", quirk)
		}
	})
}
