package main

// Second stream of C30: where the deadline of an action comes from. Generated build_rule / genrule / gentest calls
// (size x build_timeout x test_timeout x test) are interpreted IN PROCESS by the real asp interpreter with all built-in rules loaded
// (parse.InitParser: the same initialisation plz performs), under generated configurations ([size] tables, [build] timeout,
// [test] timeout); the observable is target.BuildTimeout / target.Test.Timeout of the target the call produced - the very
// fields build_step.go / test_step.go hand to process.ExecWithTimeout - or the failure of the call.

import (
	"fmt"
	"sort"
	"strconv"
	"strings"
	"time"

	"github.com/thought-machine/please/src/cli"
	"github.com/thought-machine/please/src/core"
	"github.com/thought-machine/please/src/parse"

	"verifharness/lib"
)

// TArg is the value given for a timeout argument.
type TArg struct {
	Kind string `json:"kind"` // "absent" (the rule's default, 0), "int", "str"
	Int  int64  `json:"int,omitempty"`
	Str  string `json:"str,omitempty"`
}

// DeadlineDecl is one rule call.
type DeadlineDecl struct {
	Rule   string `json:"rule"` // build_rule | genrule | gentest
	Size   string `json:"size"` // "" = no size argument
	Build  TArg   `json:"build_timeout"`
	Test   TArg   `json:"test_timeout"`
	IsTest bool   `json:"test"`
}

// DeadlineCfg is the part of the configuration deadlines depend on (durations in nanoseconds).
type DeadlineCfg struct {
	Sizes        map[string]int64 `json:"sizes"` // [size "name"] timeout, plus the timeout names
	BuildDefault int64            `json:"build_timeout"`
	TestDefault  int64            `json:"test_timeout"`
}

// DeadlineObs is what the real interpreter produced.
type DeadlineObs struct {
	Err     string `json:"err,omitempty"`
	BuildNs int64  `json:"build_ns"`
	TestNs  *int64 `json:"test_ns,omitempty"`
}

type DeadlineInput struct {
	Cfg  DeadlineCfg  `json:"cfg"`
	Decl DeadlineDecl `json:"decl"`
	Obs  DeadlineObs  `json:"observed"`
}

// c30NewState is core.NewBuildState without its watchdog (forwardResults dumps all goroutine stacks after 5 idle
// seconds; one active result parks it on a plain channel receive instead).
func c30NewState(cfg *core.Configuration) *core.BuildState {
	st := core.NewBuildState(cfg)
	st.LogTestRunning(core.NewBuildTarget(core.BuildLabel{PackageName: "verif", Name: "park"}), 1, core.TargetTesting, "")
	return st
}

type deadlineWorld struct {
	cfg   DeadlineCfg
	state *core.BuildState
	n     int
}

func newDeadlineWorld(cfg DeadlineCfg) *deadlineWorld {
	conf := core.DefaultConfiguration()
	conf.Size = map[string]*core.Size{}
	for name, ns := range cfg.Sizes {
		conf.Size[name] = &core.Size{Timeout: cli.Duration(ns)}
	}
	conf.Build.Timeout = cli.Duration(cfg.BuildDefault)
	conf.Test.Timeout = cli.Duration(cfg.TestDefault)
	st := c30NewState(conf)
	parse.InitParser(st)
	return &deadlineWorld{cfg: cfg, state: st}
}

func (a TArg) src() string {
	switch a.Kind {
	case "int":
		return strconv.FormatInt(a.Int, 10)
	case "str":
		return strconv.Quote(a.Str)
	}
	return ""
}

func (d *DeadlineDecl) src() string {
	var b strings.Builder
	arg := func(k, v string) {
		if v != "" {
			fmt.Fprintf(&b, "    %s = %s,\n", k, v)
		}
	}
	switch d.Rule {
	case "build_rule":
		b.WriteString("build_rule(\n    name = \"t\",\n    cmd = \"sleep 47.11\",\n    outs = [\"t.out\"],\n")
		if d.IsTest {
			b.WriteString("    test = True,\n    test_cmd = \"sleep 47.11\",\n    no_test_output = True,\n")
		}
		arg("build_timeout", d.Build.src())
		arg("test_timeout", d.Test.src())
	case "genrule":
		b.WriteString("genrule(\n    name = \"t\",\n    cmd = \"sleep 47.11\",\n    outs = [\"t.out\"],\n")
		arg("timeout", d.Build.src())
	case "gentest":
		b.WriteString("gentest(\n    name = \"t\",\n    test_cmd = \"sleep 47.11\",\n    no_test_output = True,\n")
		arg("timeout", d.Test.src())
	}
	if d.Size != "" {
		arg("size", strconv.Quote(d.Size))
	}
	b.WriteString(")\n")
	return b.String()
}

// run interprets the call in a fresh package of the world's state.
func (w *deadlineWorld) run(d *DeadlineDecl) (obs DeadlineObs) {
	defer func() {
		if r := recover(); r != nil {
			obs = DeadlineObs{Err: fmt.Sprint("panic: ", r)}
		}
	}()
	w.n++
	pkg := core.NewPackage(fmt.Sprintf("c30pkg%d", w.n))
	pkg.Filename = pkg.Name + "/BUILD"
	if err := w.state.Parser.ParseReader(pkg, strings.NewReader(d.src()), nil, nil, core.ParseModeNormal); err != nil {
		msg := err.Error()
		if i := strings.Index(msg, "Unknown size"); i >= 0 {
			msg = "unknown size"
		}
		return DeadlineObs{Err: msg}
	}
	t := pkg.Target("t")
	if t == nil {
		return DeadlineObs{Err: "no target"}
	}
	obs.BuildNs = int64(t.BuildTimeout)
	if t.Test != nil {
		ns := int64(t.Test.Timeout)
		obs.TestNs = &ns
	}
	return obs
}

func coqZ(v int64) string { return lib.Z(v) }

func (a TArg) coq() string {
	switch a.Kind {
	case "int":
		return lib.App("TInt", coqZ(a.Int))
	case "str":
		return lib.App("TStr", lib.Str(a.Str))
	}
	return lib.App("TInt", coqZ(0)) // the rules' default value
}

func (c DeadlineCfg) coq() string {
	items := []string{}
	for _, k := range lib.SortedKeys(c.Sizes) {
		items = append(items, lib.Pair(lib.Str(k), coqZ(c.Sizes[k])))
	}
	return lib.App("mkDconfig", lib.List(items), coqZ(c.BuildDefault), coqZ(c.TestDefault))
}

func (d *DeadlineDecl) coq() string {
	size := "None"
	if d.Size != "" {
		size = "(Some " + lib.Str(d.Size) + ")"
	}
	return lib.App("mkDecl", size, d.Build.coq(), d.Test.coq(), lib.Bool(d.IsTest))
}

func (o DeadlineObs) coq() string {
	if o.Err != "" {
		return "TFail"
	}
	t := "None"
	if o.TestNs != nil {
		t = "(Some " + coqZ(*o.TestNs) + ")"
	}
	return lib.App("TOk", coqZ(o.BuildNs), t)
}

// deadlineOracle is the model-independent reading of the documentation: an explicit positive timeout (seconds) or a named
// timeout is the deadline; otherwise the declared size's timeout; otherwise the configured default.
func deadlineOracle(c *lib.Ctx, input DeadlineInput) {
	cfg, d, o := input.Cfg, input.Decl, input.Obs
	in := map[string]any{"deadline": input} // the replay file: main() recognises the key
	sizeNs, sizeKnown := int64(0), false
	if d.Size != "" {
		sizeNs, sizeKnown = cfg.Sizes[d.Size]
	}
	one := func(what string, a TArg, dflt int64, got int64) {
		c.Oracle()
		switch {
		case a.Kind == "int" && a.Int > 0:
			want := a.Int * int64(time.Second)
			if got != want {
				cls := "explicit-timeout-not-the-deadline"
				if d.Size != "" && got == sizeNs {
					cls = "size-overrides-explicit-timeout"
				}
				c.Fail(cls, fmt.Sprintf("%s: declared timeout %d s (size %q): the action's deadline is %v, so an overrunning command is not stopped at its declared deadline", what, a.Int, d.Size, time.Duration(got)), in)
			}
		case a.Kind == "str":
			if want, ok := cfg.Sizes[a.Str]; ok && got != want {
				c.Fail("named-timeout-not-the-deadline", fmt.Sprintf("%s: declared timeout %q (%v, size %q): the action's deadline is %v", what, a.Str, time.Duration(want), d.Size, time.Duration(got)), in)
			}
		case d.Size != "":
			if got != sizeNs {
				c.Fail("size-timeout-not-the-deadline", fmt.Sprintf("%s: size %q (%v) and no explicit timeout: the action's deadline is %v", what, d.Size, time.Duration(sizeNs), time.Duration(got)), in)
			}
		default:
			if got != dflt {
				c.Fail("default-timeout-not-the-deadline", fmt.Sprintf("%s: neither size nor timeout, configured default %v: the action's deadline is %v", what, time.Duration(dflt), time.Duration(got)), in)
			}
		}
	}
	unknown := (d.Size != "" && !sizeKnown)
	for _, a := range []TArg{d.Build, d.Test} {
		if a.Kind == "str" && (a == d.Build || d.IsTest) {
			if _, ok := cfg.Sizes[a.Str]; !ok {
				unknown = true
			}
		}
	}
	c.Oracle()
	if o.Err != "" {
		if !unknown || o.Err != "unknown size" {
			c.Fail("deadline-rule-call-fails", fmt.Sprintf("the rule call failed: %s", o.Err), in)
		}
		return
	}
	if unknown {
		c.Fail("unknown-size-accepted", fmt.Sprintf("a size or timeout name that is not configured was accepted (deadline %v)", time.Duration(o.BuildNs)), in)
		return
	}
	one("build action", d.Build, cfg.BuildDefault, o.BuildNs)
	c.Oracle()
	if d.IsTest != (o.TestNs != nil) {
		c.Fail("deadline-test-fields-mismatch", fmt.Sprintf("test = %v but target.Test present = %v", d.IsTest, o.TestNs != nil), in)
	} else if d.IsTest {
		one("test action", d.Test, cfg.TestDefault, *o.TestNs)
	}
}

func deadlineConfigs(r *lib.Rng, n int) []DeadlineCfg {
	min := int64(time.Minute)
	std := func() map[string]int64 {
		m := map[string]int64{"small": min, "medium": 5 * min, "large": 15 * min, "enormous": 0}
		for k, v := range map[string]string{"small": "short", "medium": "moderate", "large": "long", "enormous": "eternal"} {
			m[v] = m[k]
		}
		return m
	}
	out := []DeadlineCfg{{Sizes: std(), BuildDefault: 10 * min, TestDefault: 10 * min}}
	for len(out) < n {
		m := std()
		for _, k := range []string{"small", "medium", "large"} {
			if r.Chance(1, 2) {
				m[k] = int64(r.Range(1, 2000)) * int64(time.Second)
			}
		}
		if r.Chance(1, 2) {
			m["tiny"] = int64(r.Range(1, 30)) * int64(time.Second)
		}
		if r.Chance(1, 3) {
			delete(m, "eternal")
		}
		out = append(out, DeadlineCfg{Sizes: m, BuildDefault: int64(r.Range(0, 1200)) * int64(time.Second), TestDefault: int64(r.Range(0, 1200)) * int64(time.Second)})
	}
	return out
}

func deadlineDecl(r *lib.Rng, cfg DeadlineCfg) DeadlineDecl {
	names := lib.SortedKeys(cfg.Sizes)
	sort.Strings(names)
	size := func() string {
		switch r.Intn(8) {
		case 0, 1:
			return ""
		case 2:
			return lib.Pick(r, []string{"huge", "Small", "smal"})
		}
		return lib.Pick(r, names)
	}
	targ := func(sz string) TArg {
		switch r.Intn(10) {
		case 0, 1:
			return TArg{Kind: "absent"}
		case 2:
			return TArg{Kind: "int", Int: 0}
		case 3:
			return TArg{Kind: "int", Int: -int64(r.Range(1, 100))}
		case 4:
			if r.Chance(1, 4) {
				return TArg{Kind: "str", Str: lib.Pick(r, []string{"huge", "shor", ""})}
			}
			return TArg{Kind: "str", Str: lib.Pick(r, names)}
		case 5:
			// just below / at / above the timeout of the declared size
			if ns, ok := cfg.Sizes[sz]; ok && ns >= int64(2*time.Second) {
				return TArg{Kind: "int", Int: ns/int64(time.Second) + int64(r.Range(-1, 1))}
			}
		}
		return TArg{Kind: "int", Int: int64(lib.Pick(r, []int{1, 2, 3, 5, 30, 59, 60, 61, 299, 300, 900, 3600, 100000}))}
	}
	d := DeadlineDecl{Rule: lib.Pick(r, []string{"build_rule", "build_rule", "build_rule", "genrule", "gentest"})}
	switch d.Rule {
	case "build_rule":
		d.Size = size()
		d.IsTest = r.Chance(1, 2)
		d.Build = targ(d.Size)
		d.Test = targ(d.Size)
	case "genrule":
		d.Build = targ("")
		for d.Build.Kind == "str" {
			d.Build = targ("")
		}
		d.Test = TArg{Kind: "absent"}
	case "gentest":
		d.Size = size()
		d.IsTest = true
		d.Test = targ(d.Size)
		for d.Test.Kind == "str" {
			d.Test = targ(d.Size)
		}
		d.Build = TArg{Kind: "absent"}
	}
	return d
}

func (d *DeadlineDecl) key() string {
	return fmt.Sprintf("deadline/%s/%s/%v/%v/%v", d.Rule, d.Size, d.Build, d.Test, d.IsTest)
}

// deadlineStream runs the stream (or the one replayed input).
func deadlineStream(c *lib.Ctx, replay *DeadlineInput) {
	emit := func(w *deadlineWorld, d DeadlineDecl, cfgIdx int) DeadlineInput {
		in := DeadlineInput{Cfg: w.cfg, Decl: d, Obs: w.run(&d)}
		js := map[string]any{"deadline": in}
		deadlineOracle(c, in)
		explicit := (d.Build.Kind == "int" && d.Build.Int > 0) || (d.IsTest && d.Test.Kind == "int" && d.Test.Int > 0)
		nontrivial := d.Size != "" && (explicit || d.Build.Kind == "str" || d.Test.Kind == "str")
		c.Case(lib.App("DeadlineCase", w.cfg.coq(), d.coq(), in.Obs.coq()), js, fmt.Sprintf("cfg%d/%s", cfgIdx, d.key()), nontrivial)
		c.Hist("deadline rule", d.Rule)
		switch {
		case in.Obs.Err != "":
			c.Hist("deadline shape", "rule call fails (unknown size)")
		case d.Size != "" && explicit:
			c.Hist("deadline shape", "size AND explicit timeout")
		case d.Size != "":
			c.Hist("deadline shape", "size only / named timeout")
		case explicit:
			c.Hist("deadline shape", "explicit timeout only")
		default:
			c.Hist("deadline shape", "neither: configured default")
		}
		return in
	}
	if replay != nil {
		emit(newDeadlineWorld(replay.Cfg), replay.Decl, 0)
		return
	}
	cfgs := deadlineConfigs(c.Rng.Fork(), c.Scale(4, 12))
	per := c.Scale(60, 400)
	for ci, cfg := range cfgs {
		w := newDeadlineWorld(cfg)
		// the fixed corner first: a size together with an explicit timeout shorter / longer than the size's, for both actions
		names := lib.SortedKeys(cfg.Sizes)
		for _, sz := range names {
			for _, secs := range []int64{2, 100000} {
				emit(w, DeadlineDecl{Rule: "gentest", Size: sz, IsTest: true, Build: TArg{Kind: "absent"}, Test: TArg{Kind: "int", Int: secs}}, ci)
				emit(w, DeadlineDecl{Rule: "build_rule", Size: sz, IsTest: true, Build: TArg{Kind: "int", Int: secs}, Test: TArg{Kind: "str", Str: "short"}}, ci)
			}
		}
		for i := 0; i < per; i++ {
			emit(w, deadlineDecl(c.Rng.Fork(), cfg), ci)
		}
	}
}
