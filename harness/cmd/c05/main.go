// C05: builds always terminate and report failure faithfully (trace validation on the real plz).
// Shares generator, runs, oracle and model with C04: harness/e2e/c04_sched.go.
package main

import (
	"verifharness/e2e"
	"verifharness/lib"
)

func main() {
	lib.Main("C05", func(c *lib.Ctx) { e2e.RunSchedProperty(c, "C05") })
}
