// C16: the ENLARGED pure fragment (Model/C16_Pure2.v).
// inPure2Subset mirrors the Coq predicate in_pure2_subset on the Go AST (the correspondence compares the two verdicts on
// every generated program); Pure2Program generates programs aimed at the constructs the enlarged fragment adds: user
// functions (positional / keyword / scalar-default arguments, recursion, calls as statements), comprehensions with and
// without filter over lists and range(), for over range() and with several loop names, the builtins len str bool any all
// reversed sorted min max enumerate zip, dict literals (keys in ascending order, sometimes not), indexing, `in` on lists and
// dicts, get / keys / values / items, join / split / startswith / endswith / upper / lower; and (third deepening) % formatting on
// scalars, slices of lists and strings, unpacking assignment, dict |, sorted(reverse=) by keyword.
package main

import (
	"fmt"

	"verifharness/aspgen"
	"verifharness/lib"
)

var pure2Builtins = map[string]bool{"len": true, "str": true, "bool": true, "any": true, "all": true, "reversed": true, "sorted": true,
	"min": true, "max": true, "enumerate": true, "zip": true}
var pure2Methods = map[string]bool{"join": true, "split": true, "startswith": true, "endswith": true, "upper": true, "lower": true,
	"get": true, "keys": true, "values": true, "items": true}

func positionalArgs(as []aspgen.Arg) bool {
	for _, a := range as {
		if a.Name != "" {
			return false
		}
	}
	return true
}

// qkwok: the keyword arguments of a builtin that CPython knows under the same name
func kwArgsOK(name string, as []aspgen.Arg) bool {
	for _, a := range as {
		if a.Name != "" && !(name == "sorted" && a.Name == "reverse") {
			return false
		}
	}
	return true
}

func pure2Args(k int, as []aspgen.Arg) bool {
	for _, a := range as {
		if !pure2Expr(k, a.E) {
			return false
		}
	}
	return true
}

func pure2Expr(n int, e *aspgen.Expr) bool {
	if n == 0 || e == nil {
		return false
	}
	k := n - 1
	if !pure2Val(k, e.Val) {
		return false
	}
	for _, o := range e.Ops {
		if o.Val == nil {
			continue
		}
		if !pure2Val(k, o.Val) {
			return false
		}
		switch o.Op {
		case "is", "is not", "/":
			return false
		}
	}
	if aspgen.ChainClass(e.Ops) != "" {
		return false
	}
	if e.If != nil {
		return pure2Expr(k, e.If) && pure2Expr(k, e.Els)
	}
	return true
}

// is_range_call: the expression is exactly range(args)
func rangeCall(e *aspgen.Expr) ([]aspgen.Arg, bool) {
	if e == nil || e.Val == nil || len(e.Ops) > 0 || e.If != nil {
		return nil, false
	}
	v := e.Val
	if v.K == "ident" && v.Call && v.Name == "range" && v.Meth == "" && len(v.Slices) == 0 && v.PMeth == "" {
		return v.Args, true
	}
	return nil, false
}

func pure2Iter(k int, it *aspgen.Expr) bool {
	if args, ok := rangeCall(it); ok {
		return positionalArgs(args) && pure2Args(k, args)
	}
	return pure2Expr(k, it)
}

// one wrapper of the Coq term of a value, outermost first: XMeth (value-level), XIndex / XSlice, XMeth (on the identifier)
type vlayer struct {
	kind string // meth index slice
	name string
	args []aspgen.Arg
	idx  *aspgen.Expr
	lo   *aspgen.Expr
	hi   *aspgen.Expr
}

func layersOf(v *aspgen.Val) []vlayer {
	var ls []vlayer
	if v.PMeth != "" {
		ls = append(ls, vlayer{kind: "meth", name: v.PMeth, args: v.PMArgs})
	}
	for i := len(v.Slices) - 1; i >= 0; i-- {
		if v.Slices[i].Colon {
			ls = append(ls, vlayer{kind: "slice", lo: v.Slices[i].Lo, hi: v.Slices[i].Hi})
		} else {
			ls = append(ls, vlayer{kind: "index", idx: v.Slices[i].Lo})
		}
	}
	if v.K == "ident" && v.Meth != "" {
		ls = append(ls, vlayer{kind: "meth", name: v.Meth, args: v.MArgs})
	}
	return ls
}

func pure2Val(n int, v *aspgen.Val) bool {
	if v == nil {
		return false
	}
	return pure2Layers(n, v, layersOf(v))
}

func pure2Layers(n int, v *aspgen.Val, ls []vlayer) bool {
	if n == 0 {
		return false
	}
	k := n - 1
	if len(ls) == 0 {
		return pure2Base(n, v)
	}
	l := ls[0]
	switch l.kind {
	case "meth":
		return pure2Layers(k, v, ls[1:]) && pure2Methods[l.name] && positionalArgs(l.args) && pure2Args(k, l.args)
	case "index":
		return pure2Layers(k, v, ls[1:]) && pure2Expr(k, l.idx)
	case "slice":
		return pure2Layers(k, v, ls[1:]) && (l.lo == nil || pure2Expr(k, l.lo)) && (l.hi == nil || pure2Expr(k, l.hi))
	}
	return false
}

func pure2Base(n int, v *aspgen.Val) bool {
	if n == 0 {
		return false
	}
	k := n - 1
	switch v.K {
	case "int", "str", "true", "false", "none":
		return true
	case "ident":
		if !v.Call {
			return plainName(v.Name)
		}
		if !pure2Args(k, v.Args) {
			return false
		}
		if plainName(v.Name) {
			return true
		}
		return pure2Builtins[v.Name] && kwArgsOK(v.Name, v.Args)
	case "paren":
		return pure2Expr(k, v.Items[0])
	case "list":
		for _, e := range v.Items {
			if !pure2Expr(k, e) {
				return false
			}
		}
		return true
	case "dict":
		for i := range v.Keys {
			if !pure2Expr(k, v.Keys[i]) || !pure2Expr(k, v.Items[i]) {
				return false
			}
		}
		return true
	case "comp":
		if len(v.Names) == 0 {
			return false
		}
		for _, nm := range v.Names {
			if !plainName(nm) {
				return false
			}
		}
		if !pure2Expr(k, v.Items[0]) || !pure2Iter(k, v.Iter) {
			return false
		}
		return v.Cond == nil || pure2Expr(k, v.Cond)
	}
	return false
}

func scalarDefault(e *aspgen.Expr) bool {
	if e == nil {
		return true
	}
	if len(e.Ops) > 0 || e.If != nil || e.Val == nil {
		return false
	}
	v := e.Val
	if v.Meth != "" || v.PMeth != "" || len(v.Slices) > 0 {
		return false
	}
	switch v.K {
	case "int", "str", "true", "false", "none":
		return true
	}
	return false
}

func pure2Block(n int, inloop, infn bool, ss []*aspgen.Stmt) bool {
	for _, s := range ss {
		if !pure2Stmt(n, inloop, infn, s) {
			return false
		}
	}
	return true
}

func pure2Stmt(n int, inloop, infn bool, s *aspgen.Stmt) bool {
	if n == 0 {
		return false
	}
	k := n - 1
	switch s.K {
	case "pass":
		return true
	case "break", "continue":
		return inloop
	case "assign", "aug":
		return plainName(s.Name) && pure2Expr(k, s.E)
	case "assert":
		return pure2Expr(k, s.E)
	case "unpack":
		for _, nm := range s.Names {
			if !plainName(nm) {
				return false
			}
		}
		return len(s.Names) >= 2 && pure2Expr(k, s.E)
	case "return":
		return infn && (s.E == nil || pure2Expr(k, s.E))
	case "if":
		if !pure2Expr(k, s.E) || !pure2Block(k, inloop, infn, s.Body) {
			return false
		}
		for _, el := range s.Elif {
			if !pure2Expr(k, el.E) || !pure2Block(k, inloop, infn, el.Body) {
				return false
			}
		}
		return pure2Block(k, inloop, infn, s.Else)
	case "for":
		if len(s.Names) == 0 {
			return false
		}
		for _, nm := range s.Names {
			if !plainName(nm) {
				return false
			}
		}
		return pure2Iter(k, s.E) && pure2Block(k, true, infn, s.Body)
	case "def":
		if infn || !plainName(s.Name) {
			return false
		}
		for _, a := range s.Args {
			if !plainName(a.Name) || !scalarDefault(a.E) {
				return false
			}
		}
		return pure2Block(k, false, true, s.Body)
	case "call":
		return plainName(s.Name) && pure2Args(k, s.Args)
	}
	return false
}

func inPure2Subset(p aspgen.Prog) bool { return pure2Block(pureDepth, false, false, p) }

// ---------------------------------------------------------------------------------------------

type pure2Gen struct {
	*pureGen
	ascii []string // string variables known to hold ASCII only (join / format / slice results of ASCII material)
	dicts []string
	funcs []pure2Fn
	used  map[string]int
}

type pure2Fn struct {
	name   string
	params []string
	ndef   int // how many trailing parameters have a default
	kind   string
}

func (g *pure2Gen) note(k string) { g.used[k]++ }

func call(name string, args ...aspgen.Arg) *aspgen.Val {
	return &aspgen.Val{K: "ident", Name: name, Call: true, Args: args}
}
func pos(e *aspgen.Expr) aspgen.Arg          { return aspgen.Arg{E: e} }
func kw(n string, e *aspgen.Expr) aspgen.Arg { return aspgen.Arg{Name: n, E: e} }

func (g *pure2Gen) smallInt() *aspgen.Expr { return aspgen.IntE(g.r.Range(0, 9)) }

// an int-valued expression that may use x
func (g *pure2Gen) intOver(x string) *aspgen.Expr {
	r := g.r
	switch r.Intn(4) {
	case 0:
		return aspgen.IdE(x)
	case 1:
		return aspgen.E(aspgen.Ident(x), aspgen.Bin(lib.Pick(r, []string{"+", "*", "-"}), aspgen.Int(r.Range(1, 5))))
	case 2:
		return aspgen.E(aspgen.Ident(x), aspgen.Bin("%", aspgen.Int(r.Range(2, 4))))
	}
	return aspgen.E(aspgen.Ident(x), aspgen.Bin("*", aspgen.Ident(x)))
}

func (g *pure2Gen) condOver(x string) *aspgen.Expr {
	r := g.r
	switch r.Intn(4) {
	case 0:
		return aspgen.E(aspgen.Ident(x), aspgen.Bin(lib.Pick(r, []string{">", "<", ">=", "!="}), aspgen.Int(r.Range(0, 5))))
	case 1:
		return aspgen.E(aspgen.Ident(x), aspgen.Bin("%", aspgen.Int(2)), aspgen.Bin("==", aspgen.Int(r.Range(0, 1))))
	case 2:
		return aspgen.E(aspgen.Ident(x), aspgen.Bin("in", aspgen.List(g.smallInt(), g.smallInt(), g.smallInt())))
	}
	return aspgen.IdE(x)
}

func (g *pure2Gen) rangeExpr() *aspgen.Expr {
	r := g.r
	switch r.Intn(5) {
	case 0:
		return aspgen.E(call("range", pos(aspgen.IntE(r.Range(0, 3))), pos(aspgen.IntE(r.Range(2, 9)))))
	case 1:
		// a step that does not divide stop - start: pyRange.Len() rounds up since /repo 3ce4752
		g.note("range-step")
		return aspgen.E(call("range", pos(aspgen.IntE(r.Range(0, 3))), pos(aspgen.IntE(r.Range(2, 12))), pos(aspgen.IntE(r.Range(1, 3)))))
	case 2:
		if len(g.lists) > 0 {
			return aspgen.E(call("range", pos(aspgen.E(call("len", pos(aspgen.IdE(lib.Pick(r, g.lists))))))))
		}
	}
	return aspgen.E(call("range", pos(aspgen.IntE(r.Range(0, 7)))))
}

func (g *pure2Gen) intListExpr() *aspgen.Expr {
	if len(g.lists) > 0 && g.r.Bool() {
		return aspgen.IdE(lib.Pick(g.r, g.lists))
	}
	es := []*aspgen.Expr{}
	for k := g.r.Range(0, 5); k > 0; k-- {
		es = append(es, g.smallInt())
	}
	return aspgen.E(aspgen.List(es...))
}

func (g *pure2Gen) iterExpr() *aspgen.Expr {
	if g.r.Bool() {
		g.note("range")
		return g.rangeExpr()
	}
	return g.intListExpr()
}

func (g *pure2Gen) comp() *aspgen.Expr {
	x := "c" + fmt.Sprint(g.r.Range(0, 3))
	var cond *aspgen.Expr
	if g.r.Bool() {
		cond = g.condOver(x)
		g.note("comp-filtered")
	} else {
		g.note("comp")
	}
	return aspgen.E(aspgen.Comp(g.intOver(x), []string{x}, g.iterExpr(), cond))
}

func (g *pure2Gen) strListExpr() *aspgen.Expr {
	r := g.r
	switch r.Intn(3) {
	case 0:
		x := "c" + fmt.Sprint(r.Range(0, 3))
		g.note("comp")
		return aspgen.E(aspgen.Comp(aspgen.E(call("str", pos(g.intOver(x)))), []string{x}, g.iterExpr(), nil))
	case 1:
		g.note("split")
		return aspgen.E(aspgen.Method(aspgen.Str(lib.Pick(r, []string{"a,b,c", "x", "lib,,core", "", "a, b"})), "split", aspgen.StrE(lib.Pick(r, []string{",", ", ", "b"}))))
	}
	es := []*aspgen.Expr{}
	for k := r.Range(0, 4); k > 0; k-- {
		es = append(es, aspgen.StrE(lib.Pick(r, []string{"a", "b", "lib", "x-1", "Zed", "", "10"})))
	}
	return aspgen.E(aspgen.List(es...))
}

func (g *pure2Gen) dictLit() *aspgen.Val {
	r := g.r
	keys := []string{"a", "b", "c", "d", "k"}
	n := r.Range(0, 4)
	ks := append([]string{}, keys[:n]...)
	if n >= 2 && r.Chance(1, 6) {
		ks[0], ks[1] = ks[1], ks[0] // not ascending: the reference run refuses
	}
	vals := []*aspgen.Expr{}
	for range ks {
		if r.Chance(1, 4) {
			vals = append(vals, aspgen.StrE(lib.Pick(r, []string{"x", "y", ""})))
		} else {
			vals = append(vals, g.smallInt())
		}
	}
	return aspgen.Dict(ks, vals)
}

// one assignment exercising a construct of the enlarged fragment
func (g *pure2Gen) stmt2() []*aspgen.Stmt {
	r := g.r
	one := func(s *aspgen.Stmt) []*aspgen.Stmt { return []*aspgen.Stmt{s} }
	switch r.Intn(24) {
	case 0, 1:
		e := g.comp()
		return one(aspgen.Assign(g.fresh("l"), e))
	case 2:
		b := lib.Pick(r, []string{"len", "any", "all", "reversed", "sorted", "min", "max", "bool", "str"})
		g.note(b)
		arg := g.intListExpr()
		if b == "str" {
			arg = g.intExpr(1)
		}
		name := "v"
		switch b {
		case "len", "min", "max":
			name = "i"
		case "reversed", "sorted":
			name = "l"
		case "str":
			name = "s"
		}
		e := aspgen.E(call(b, pos(arg)))
		return one(aspgen.Assign(g.fresh(name), e))
	case 3:
		g.note("join")
		e := aspgen.E(aspgen.Method(aspgen.Str(lib.Pick(r, []string{"-", ", ", ""})), "join", g.strListExpr()))
		name := g.fresh("s")
		g.ascii = append(g.ascii, name)
		return one(aspgen.Assign(name, e))
	case 4:
		m := lib.Pick(r, []string{"startswith", "endswith", "upper", "lower"})
		g.note(m)
		var recv *aspgen.Val = aspgen.Str(lib.Pick(r, []string{"lib/core", "Abc", "x.go", ""}))
		if len(g.strs) > 0 && r.Bool() {
			recv = aspgen.Ident(lib.Pick(r, g.strs))
		}
		if m == "upper" || m == "lower" {
			e := aspgen.E(aspgen.Method(recv, m))
			return one(aspgen.Assign(g.fresh("s"), e))
		}
		e := aspgen.E(aspgen.Method(recv, m, aspgen.StrE(lib.Pick(r, []string{"lib", ".go", "A", ""}))))
		return one(aspgen.Assign(g.fresh("b"), e))
	case 5:
		g.note("dict")
		d := g.fresh("d")
		g.dicts = append(g.dicts, d)
		return one(aspgen.Assign(d, aspgen.E(g.dictLit())))
	case 6, 22, 23:
		{
			var pre []*aspgen.Stmt
			if len(g.dicts) == 0 {
				d0 := g.fresh("d")
				g.dicts = append(g.dicts, d0)
				pre = one(aspgen.Assign(d0, aspgen.E(g.dictLit())))
			}
			d := lib.Pick(r, g.dicts)
			k := lib.Pick(r, []string{"a", "b", "c", "zz"})
			switch r.Intn(5) {
			case 0:
				g.note("dict-index")
				return append(pre, aspgen.Assign(g.fresh("v"), aspgen.E(aspgen.Index(aspgen.Ident(d), aspgen.StrE(k)))))
			case 1:
				g.note("get")
				args := []*aspgen.Expr{aspgen.StrE(k)}
				if r.Bool() {
					args = append(args, g.smallInt())
				}
				return append(pre, aspgen.Assign(g.fresh("v"), aspgen.E(aspgen.Method(aspgen.Ident(d), "get", args...))))
			case 2:
				m := lib.Pick(r, []string{"keys", "values", "items", "items"})
				g.note(m)
				if m == "items" && r.Bool() {
					// for k, v in d.items(): two loop names over the freshly allocated pairs
					acc := g.fresh("s")
					g.ascii = append(g.ascii, acc)
					return append(pre, aspgen.Assign(acc, aspgen.StrE("")),
						aspgen.For([]string{"p", "q"}, aspgen.E(aspgen.Method(aspgen.Ident(d), m)), aspgen.Aug(acc, aspgen.E(aspgen.Ident("p"), aspgen.Bin("+", call("str", pos(aspgen.IdE("q"))))))))
				}
				return append(pre, aspgen.Assign(g.fresh("v"), aspgen.E(aspgen.Method(aspgen.Ident(d), m))))
			case 3:
				g.note("dict-in")
				return append(pre, aspgen.Assign(g.fresh("b"), aspgen.E(aspgen.Str(k), aspgen.Bin(lib.Pick(r, []string{"in", "not in"}), aspgen.Ident(d)))))
			}
			g.note("len")
			return append(pre, aspgen.Assign(g.fresh("i"), aspgen.E(call("len", pos(aspgen.IdE(d))))))
		}
	case 7:
		{
			g.note("list-index")
			es := []*aspgen.Expr{}
			for k := r.Range(2, 4); k > 0; k-- {
				es = append(es, g.smallInt())
			}
			idx := aspgen.IntE(r.Range(-2, 1))
			if len(g.lists) > 0 && r.Chance(1, 4) {
				// may be out of range: both raise
				return one(aspgen.Assign(g.fresh("v"), aspgen.E(aspgen.Index(aspgen.Ident(lib.Pick(r, g.lists)), aspgen.IntE(0)))))
			}
			return one(aspgen.Assign(g.fresh("v"), aspgen.E(aspgen.Index(aspgen.List(es...), idx))))
		}
	case 8:
		g.note("for-range")
		acc := g.fresh("i")
		x := g.fresh("i")
		body := []*aspgen.Stmt{aspgen.Aug(acc, g.intOver(x))}
		if r.Chance(1, 3) {
			body = append([]*aspgen.Stmt{aspgen.If(g.condOver(x), []*aspgen.Stmt{{K: lib.Pick(r, []string{"break", "continue"})}}, nil)}, body...)
		}
		g.ints = g.ints[:len(g.ints)-1] // the loop variable may stay unbound
		return []*aspgen.Stmt{aspgen.Assign(acc, g.smallInt()), aspgen.For([]string{x}, g.rangeExpr(), body...)}
	case 9:
		b := lib.Pick(r, []string{"enumerate", "zip"})
		g.note(b)
		it := aspgen.E(call("enumerate", pos(g.intListExpr())))
		if b == "zip" {
			n := r.Range(0, 4)
			mk := func() *aspgen.Expr {
				es := []*aspgen.Expr{}
				for k := 0; k < n; k++ {
					es = append(es, g.smallInt())
				}
				return aspgen.E(aspgen.List(es...))
			}
			it = aspgen.E(call("zip", pos(mk()), pos(mk())))
		}
		switch r.Intn(3) {
		case 0:
			return one(aspgen.Assign(g.fresh("l"), aspgen.E(aspgen.Comp(aspgen.E(aspgen.Ident("p"), aspgen.Bin("+", aspgen.Ident("q"))), []string{"p", "q"}, it, nil))))
		case 1:
			// the list of pairs itself
			return one(aspgen.Assign(g.fresh("v"), it))
		}
		acc := g.fresh("i")
		return []*aspgen.Stmt{aspgen.Assign(acc, aspgen.IntE(0)),
			aspgen.For([]string{"p", "q"}, it, aspgen.Aug(acc, aspgen.E(aspgen.Ident("p"), aspgen.Bin("*", aspgen.Ident("q")))))}
	case 10, 11, 12:
		if len(g.funcs) > 0 {
			return g.callFn()
		}
	case 16:
		// "fmt" % scalar: %s / %d / %% with one value; one time in six a verb too many / too few, %d on a string, a bool or None
		// on the right (the reference run refuses; asp raises or is a known finding)
		g.note("percent-format")
		intArg := func() *aspgen.Val {
			if len(g.ints) > 0 && r.Bool() {
				return aspgen.Ident(lib.Pick(r, g.ints))
			}
			return aspgen.Int(r.Range(-3, 40))
		}
		strArg := func() *aspgen.Val {
			if len(g.ascii) > 0 && r.Bool() {
				return aspgen.Ident(lib.Pick(r, g.ascii))
			}
			return aspgen.Str(lib.Pick(r, []string{"lib", "", "a b", "50%"}))
		}
		var f string
		var arg *aspgen.Val
		switch r.Intn(6) {
		case 0, 1:
			f, arg = lib.Pick(r, []string{"%d items", "100%% of %d", "%d%%", "%d", "n=%d."}), intArg()
		case 2:
			f, arg = lib.Pick(r, []string{"v=%s", "<%s>", "%s", "%s%%"}), intArg()
		case 3, 4:
			f, arg = lib.Pick(r, []string{"v=%s", "<%s>", "%s", "//%s:all"}), strArg()
		default:
			g.note("percent-format-mismatch")
			f = lib.Pick(r, []string{"%s and %s", "no verb", "%d", "%s"})
			arg = lib.Pick(r, []*aspgen.Val{aspgen.True(), aspgen.None(), aspgen.Str("x"), aspgen.Int(3)})
			if f == "%d" && arg.K == "true" {
				arg = aspgen.None() // ("%d" % True is "1" in CPython; the CPython dialect of the shared evaluator does not model it)
			}
		}
		name := g.fresh("s")
		g.ascii = append(g.ascii, name)
		return one(aspgen.Assign(name, aspgen.E(aspgen.Str(f), aspgen.Bin("%", arg))))
	case 17, 18:
		// slices of lists and of ASCII strings: open bounds, negative bounds, bounds beyond the end; one time in eight lo > hi
		// (asp raises, CPython clamps: the reference run refuses)
		g.note("slice")
		bounds := func(n int) (lo, hi *aspgen.Expr) {
			// n: the length when it is known, else -1
			if r.Chance(1, 8) {
				g.note("slice-lo-above-hi")
				return aspgen.IntE(r.Range(2, 3)), aspgen.IntE(r.Range(0, 1))
			}
			a, b := r.Range(0, 2), r.Range(2, 6)
			switch r.Intn(4) {
			case 0:
				lo = nil
			case 1:
				if n >= 0 && a > 0 && a < n {
					lo = aspgen.IntE(a - n) // the same position counted from the end
				} else {
					lo = aspgen.IntE(a)
				}
			default:
				lo = aspgen.IntE(a)
			}
			switch r.Intn(4) {
			case 0:
				hi = nil
			case 1:
				if n >= b+1 {
					hi = aspgen.IntE(b - n) // negative
				} else {
					hi = aspgen.IntE(b)
				}
			default:
				hi = aspgen.IntE(b)
			}
			return
		}
		if r.Bool() {
			var recv *aspgen.Val
			n := -1
			if len(g.lists) > 0 && r.Bool() {
				recv = aspgen.Ident(lib.Pick(r, g.lists))
			} else {
				n = r.Range(2, 7)
				es := []*aspgen.Expr{}
				for k := 0; k < n; k++ {
					es = append(es, g.smallInt())
				}
				recv = aspgen.List(es...)
			}
			lo, hi := bounds(n)
			sl := aspgen.SliceOf(recv, lo, hi)
			if r.Chance(1, 3) {
				// the slice shares the array in asp: + must still build a new list
				return one(aspgen.Assign(g.fresh("l"), aspgen.E(sl, aspgen.Bin("+", aspgen.List(g.smallInt())))))
			}
			return one(aspgen.Assign(g.fresh("l"), aspgen.E(sl)))
		}
		var recv *aspgen.Val
		n := -1
		if len(g.ascii) > 0 && r.Bool() {
			recv = aspgen.Ident(lib.Pick(r, g.ascii))
		} else {
			w := lib.Pick(r, []string{"lib/core", "Abc", "x.go", "go_test.go", "//pkg:target"})
			recv, n = aspgen.Str(w), len(w)
		}
		lo, hi := bounds(n)
		name := g.fresh("s")
		g.ascii = append(g.ascii, name)
		return one(aspgen.Assign(name, aspgen.E(aspgen.SliceOf(recv, lo, hi))))
	case 19:
		// unpacking assignment from a literal (sometimes of the wrong length), from an element of enumerate, from sorted
		g.note("unpack")
		n := r.Range(2, 3)
		mk := func(m int) []*aspgen.Expr {
			es := []*aspgen.Expr{}
			for k := 0; k < m; k++ {
				es = append(es, g.smallInt())
			}
			return es
		}
		var e *aspgen.Expr
		switch r.Intn(3) {
		case 0:
			m := n
			if r.Chance(1, 8) {
				m = n + 1
			}
			e = aspgen.E(aspgen.List(mk(m)...))
		case 1:
			n = 2
			e = aspgen.E(aspgen.Index(call("enumerate", pos(aspgen.E(aspgen.List(mk(2)...)))), aspgen.IntE(r.Range(0, 1))))
		default:
			e = aspgen.E(call("sorted", pos(aspgen.E(aspgen.List(mk(n)...)))))
		}
		names := []string{}
		for k := 0; k < n; k++ {
			names = append(names, g.fresh("u")) // not registered as ints: the statement may raise
		}
		return one(&aspgen.Stmt{K: "unpack", Names: names, E: e})
	case 20:
		// dict | dict: ascending merged keys (in the fragment) or not
		g.note("dict-union")
		var left *aspgen.Val
		if len(g.dicts) > 0 && r.Bool() {
			left = aspgen.Ident(lib.Pick(r, g.dicts))
		} else {
			left = g.dictLit()
		}
		var right *aspgen.Val
		switch r.Intn(3) {
		case 0:
			right = aspgen.Dict([]string{"k", "z"}, []*aspgen.Expr{g.smallInt(), g.smallInt()})
		case 1:
			right = aspgen.Dict([]string{"a"}, []*aspgen.Expr{g.smallInt()})
		default:
			right = g.dictLit()
		}
		d := g.fresh("d")
		g.dicts = append(g.dicts, d)
		return one(aspgen.Assign(d, aspgen.E(left, aspgen.Bin("|", right))))
	case 21:
		// a keyword argument of a builtin: sorted(l, reverse=...)
		g.note("sorted-reverse-kw")
		return one(aspgen.Assign(g.fresh("l"), aspgen.E(call("sorted", pos(g.intListExpr()), kw("reverse", aspgen.E(lib.Pick(r, []*aspgen.Val{aspgen.True(), aspgen.False()})))))))
	case 13:
		g.note("in-list")
		return one(aspgen.Assign(g.fresh("b"), aspgen.E(aspgen.Int(r.Range(0, 5)), aspgen.Bin(lib.Pick(r, []string{"in", "not in"}), g.intListExpr().Val))))
	}
	return []*aspgen.Stmt{g.stmt(1, false)}
}

func (g *pure2Gen) defFn() *aspgen.Stmt {
	r := g.r
	name := fmt.Sprintf("f%d", len(g.funcs))
	fn := pure2Fn{name: name}
	var body []*aspgen.Stmt
	var args []aspgen.Arg
	switch r.Intn(5) {
	case 0: // arithmetic with a default
		fn.kind, fn.params, fn.ndef = "arith", []string{"a", "b"}, 1
		args = []aspgen.Arg{{Name: "a"}, {Name: "b", E: g.smallInt()}}
		body = []*aspgen.Stmt{aspgen.Return(aspgen.E(aspgen.Ident("a"), aspgen.Bin(lib.Pick(r, []string{"+", "*", "-"}), aspgen.Ident("b"))))}
	case 1: // recursion
		fn.kind, fn.params = "rec", []string{"n"}
		args = []aspgen.Arg{{Name: "n"}}
		body = []*aspgen.Stmt{
			aspgen.If(aspgen.E(aspgen.Ident("n"), aspgen.Bin("<=", aspgen.Int(1))), []*aspgen.Stmt{aspgen.Return(aspgen.IntE(1))}, nil),
			aspgen.Return(aspgen.E(aspgen.Ident("n"), aspgen.Bin(lib.Pick(r, []string{"*", "+"}),
				call(name, pos(aspgen.E(aspgen.Ident("n"), aspgen.Bin("-", aspgen.Int(1)))))))),
		}
	case 2: // a loop with an early return, a string default
		fn.kind, fn.params, fn.ndef = "loop", []string{"l", "sep"}, 1
		args = []aspgen.Arg{{Name: "l"}, {Name: "sep", E: aspgen.StrE(lib.Pick(r, []string{"-", "", "+"}))}}
		body = []*aspgen.Stmt{
			aspgen.Assign("out", aspgen.StrE("")),
			aspgen.For([]string{"x"}, aspgen.IdE("l"),
				aspgen.If(aspgen.E(aspgen.Ident("x"), aspgen.Bin(">", aspgen.Int(7))), []*aspgen.Stmt{aspgen.Return(aspgen.IdE("out"))}, nil),
				aspgen.Aug("out", aspgen.E(call("str", pos(aspgen.IdE("x"))), aspgen.Bin("+", aspgen.Ident("sep"))))),
			aspgen.Return(aspgen.IdE("out")),
		}
	case 3: // a comprehension inside, a None / bool default
		fn.kind, fn.params, fn.ndef = "comp", []string{"l", "k", "flag"}, 2
		args = []aspgen.Arg{{Name: "l"}, {Name: "k", E: aspgen.IntE(r.Range(1, 3))}, {Name: "flag", E: aspgen.E(lib.Pick(r, []*aspgen.Val{aspgen.None(), aspgen.True(), aspgen.False()}))}}
		body = []*aspgen.Stmt{
			aspgen.If(aspgen.IdE("flag"), []*aspgen.Stmt{aspgen.Return(aspgen.E(aspgen.Comp(aspgen.E(aspgen.Ident("x"), aspgen.Bin("*", aspgen.Ident("k"))), []string{"x"}, aspgen.IdE("l"), nil)))}, nil),
			aspgen.Return(aspgen.E(aspgen.Comp(aspgen.IdE("x"), []string{"x"}, aspgen.IdE("l"), aspgen.E(aspgen.Ident("x"), aspgen.Bin(">=", aspgen.Ident("k")))))),
		}
	default: // no return value, an assert
		fn.kind, fn.params = "check", []string{"a"}
		args = []aspgen.Arg{{Name: "a"}}
		body = []*aspgen.Stmt{{K: "assert", E: aspgen.E(aspgen.Ident("a"), aspgen.Bin(">=", aspgen.Int(0)))}}
		if r.Bool() {
			body = append(body, &aspgen.Stmt{K: "return"})
		}
	}
	g.note("def-" + fn.kind)
	g.funcs = append(g.funcs, fn)
	return aspgen.Def(name, args, body...)
}

func (g *pure2Gen) callFn() []*aspgen.Stmt {
	r := g.r
	fn := lib.Pick(r, g.funcs)
	var args []aspgen.Arg
	first := func() *aspgen.Expr {
		switch fn.kind {
		case "loop", "comp":
			return g.intListExpr()
		case "rec":
			return aspgen.IntE(r.Range(0, 6))
		}
		return g.smallInt()
	}
	args = append(args, pos(first()))
	for i := 1; i < len(fn.params); i++ {
		p := fn.params[i]
		var e *aspgen.Expr
		switch p {
		case "sep":
			e = aspgen.StrE(lib.Pick(r, []string{",", ":"}))
		case "flag":
			e = aspgen.E(lib.Pick(r, []*aspgen.Val{aspgen.True(), aspgen.False()}))
		default:
			e = aspgen.IntE(r.Range(1, 4))
		}
		switch r.Intn(3) {
		case 0: // leave it to the default
		case 1:
			if i == len(args) && positionalArgs(args) {
				args = append(args, pos(e))
			} else {
				args = append(args, kw(p, e))
			}
			g.note("call-positional")
		default:
			args = append(args, kw(p, e))
			g.note("call-keyword")
		}
	}
	v := &aspgen.Val{K: "ident", Name: fn.name, Call: true, Args: args}
	if fn.kind == "check" {
		g.note("call-stmt")
		return []*aspgen.Stmt{{K: "call", Name: fn.name, Args: args}}
	}
	kind := "i"
	switch fn.kind {
	case "loop":
		kind = "s"
	case "comp":
		kind = "l"
	}
	return []*aspgen.Stmt{aspgen.Assign(g.fresh(kind), aspgen.E(v))}
}

// Pure2Program generates one program aimed at the enlarged fragment; the second result lists the constructs it uses.
func Pure2Program(r *lib.Rng) (aspgen.Prog, map[string]int) {
	g := &pure2Gen{pureGen: &pureGen{r: r}, used: map[string]int{}}
	// (three times in four the two leading assignments stay clear of the integer side conditions - % and // on negative
	// operands, 64-bit overflow - so that the reference run gets as far as the constructs this stream is about)
	e0, l0 := g.intExpr(1), aspgen.E(g.listLit())
	if r.Chance(3, 4) {
		e0 = aspgen.E(aspgen.Int(r.Range(0, 9)), aspgen.Bin(lib.Pick(r, []string{"+", "*"}), aspgen.Int(r.Range(1, 50))))
		es := []*aspgen.Expr{}
		for k := r.Range(0, 4); k > 0; k-- {
			es = append(es, g.smallInt())
		}
		l0 = aspgen.E(aspgen.List(es...))
	}
	g.out = append(g.out, aspgen.Assign(g.fresh("i"), e0))
	g.out = append(g.out, aspgen.Assign(g.fresh("l"), l0))
	for n := r.Range(1, 3); n > 0; n-- {
		g.out = append(g.out, g.defFn())
	}
	for n := r.Range(3, 8); n > 0; n-- {
		g.out = append(g.out, g.stmt2()...)
	}
	return g.out, g.used
}

// RangeLenRegressions: comprehensions and loops over ranges whose Len() the old formula (Stop - Start) / Step got wrong.
func RangeLenRegressions() []aspgen.Prog {
	rng := func(args ...int) *aspgen.Expr {
		as := []aspgen.Arg{}
		for _, a := range args {
			as = append(as, pos(aspgen.IntE(a)))
		}
		return aspgen.E(call("range", as...))
	}
	x := aspgen.IdE("x")
	var out []aspgen.Prog
	for _, r := range [][]int{{3, 2}, {1, 3, 3}, {5, 0}, {0, 10, 3}, {2, 3, 7}, {0, 0}, {4, 4, 2}, {0, 7, 2}, {9, 1, 2}} {
		out = append(out, aspgen.Prog{
			aspgen.Assign("l", aspgen.E(aspgen.Comp(x, []string{"x"}, rng(r...), nil))),
			aspgen.Assign("m", aspgen.E(aspgen.Comp(aspgen.E(aspgen.Ident("x"), aspgen.Bin("*", aspgen.Int(5))), []string{"x"}, rng(r...),
				aspgen.E(aspgen.Ident("x"), aspgen.Bin("!=", aspgen.Int(1)))))),
			aspgen.Assign("n", aspgen.E(call("len", pos(aspgen.IdE("l"))))),
			aspgen.Assign("t", aspgen.IntE(0)),
			aspgen.For([]string{"x"}, rng(r...), aspgen.Aug("t", x)),
		})
	}
	return out
}

// Pure3Regressions: FIXED programs, one construct of the third deepening after the other and the boundary cases of each. They
// are P2Must cases: the reference run has to SUCCEED on them (checked inside Coq), so every run exercises every construct under
// the hypothesis of pure2_run_agrees against the real interpreter and python3, whatever the seed generates.
func Pure3Regressions() []aspgen.Prog {
	I, S, id := aspgen.IntE, aspgen.StrE, aspgen.IdE
	ints := func(xs ...int) *aspgen.Val {
		es := []*aspgen.Expr{}
		for _, x := range xs {
			es = append(es, I(x))
		}
		return aspgen.List(es...)
	}
	as := aspgen.Assign
	ev := func(v *aspgen.Val) *aspgen.Expr { return aspgen.E(v) }
	sl := func(v *aspgen.Val, lo, hi *aspgen.Expr) *aspgen.Expr { return aspgen.E(aspgen.SliceOf(v, lo, hi)) }
	unpack := func(e *aspgen.Expr, names ...string) *aspgen.Stmt {
		return &aspgen.Stmt{K: "unpack", Names: names, E: e}
	}
	dict := func(kvs ...any) *aspgen.Val {
		ks, vs := []string{}, []*aspgen.Expr{}
		for i := 0; i+1 < len(kvs); i += 2 {
			ks = append(ks, kvs[i].(string))
			vs = append(vs, I(kvs[i+1].(int)))
		}
		return aspgen.Dict(ks, vs)
	}
	// 1. the third-deepening part of the non-vacuity example of Props/C16.v
	example := aspgen.Prog{
		as("so", ev(call("sorted", pos(ev(ints(3, 1, 2)))))),
		as("r", ev(call("reversed", pos(id("so"))))),
		as("d", ev(dict("a", 1, "b", 2))),
		as("l", ev(ints(2, 4, 6))),
		as("u", S("2-4-6")),
		as("sp", ev(aspgen.Method(aspgen.Str("a,b"), "split", S(",")))),
		as("en", ev(call("enumerate", pos(id("so"))))),
		as("zp", ev(call("zip", pos(id("so")), pos(id("r"))))),
		as("it", ev(aspgen.Method(aspgen.Ident("d"), "items"))),
		as("fm", aspgen.E(aspgen.Str("n=%d%%"), aspgen.Bin("%", aspgen.Int(3)))),
		as("fs", aspgen.E(aspgen.Str("<%s>"), aspgen.Bin("%", aspgen.Ident("u")))),
		as("sl", sl(aspgen.Ident("l"), I(1), nil)),
		as("ss", sl(aspgen.Ident("u"), nil, I(-2))),
		unpack(id("sp"), "p", "q"),
		as("du", aspgen.E(aspgen.Ident("d"), aspgen.Bin("|", dict("b", 9, "c", 3)))),
		as("sr", ev(call("sorted", pos(ev(ints(3, 1, 2))), kw("reverse", ev(aspgen.True()))))),
		as("t2", I(0)),
		aspgen.For([]string{"j", "k"}, ev(call("enumerate", pos(id("l")))), aspgen.Aug("t2", aspgen.E(aspgen.Ident("j"), aspgen.Bin("*", aspgen.Ident("k"))))),
	}
	// 2. slices at the boundaries: empty windows, open bounds, bounds beyond the end, negative bounds, an empty receiver,
	//    a slice (spare capacity in asp) as the left operand of +
	slices := aspgen.Prog{
		as("l", ev(ints(5, 6, 7))),
		as("e", ev(ints())),
		as("a", sl(aspgen.Ident("l"), I(0), I(0))),
		as("b", sl(aspgen.Ident("l"), I(-1), nil)),
		as("c", sl(aspgen.Ident("l"), nil, I(10))),
		as("c2", sl(aspgen.Ident("l"), I(3), nil)),
		as("c3", sl(aspgen.Ident("l"), I(-3), I(-1))),
		as("c4", sl(aspgen.Ident("e"), I(1), nil)),
		as("c5", aspgen.E(aspgen.SliceOf(aspgen.Ident("l"), I(1), I(2)), aspgen.Bin("+", ints(9)))),
		as("c6", sl(aspgen.Ident("l"), nil, nil)),
		as("n", ev(call("len", pos(sl(aspgen.Ident("l"), I(1), nil))))),
		as("s", S("abc")),
		as("sa", sl(aspgen.Ident("s"), I(1), I(1))),
		as("sb", sl(aspgen.Ident("s"), I(-2), nil)),
		as("sc", sl(aspgen.Ident("s"), nil, I(9))),
		as("sd", sl(aspgen.Str(""), I(0), nil)),
		as("se", aspgen.E(aspgen.SliceOf(aspgen.Ident("s"), I(1), nil), aspgen.Bin("+", aspgen.SliceOf(aspgen.Ident("s"), nil, I(1))))),
	}
	// 3. lists of fresh lists: empty inputs, one argument, nesting, iteration with two names, unpacking an element
	rows := aspgen.Prog{
		as("d0", ev(dict())),
		as("d", ev(dict("a", 1, "k", 2, "z", 3))),
		as("z0", ev(call("zip", pos(ev(ints())), pos(ev(ints()))))),
		as("z1", ev(call("zip", pos(ev(ints(1, 2)))))),
		as("z3", ev(call("zip", pos(ev(ints(1, 2))), pos(ev(ints(3, 4))), pos(ev(ints(5, 6)))))),
		as("e0", ev(call("enumerate", pos(ev(ints()))))),
		as("e1", ev(call("enumerate", pos(ev(call("enumerate", pos(ev(ints(7, 8))))))))),
		as("i0", ev(aspgen.Method(aspgen.Ident("d0"), "items"))),
		as("i1", ev(aspgen.Method(aspgen.Ident("d"), "items"))),
		as("acc", S("")),
		aspgen.For([]string{"k", "v"}, ev(aspgen.Method(aspgen.Ident("d"), "items")), aspgen.Aug("acc", aspgen.E(aspgen.Ident("k"), aspgen.Bin("+", call("str", pos(id("v"))))))),
		unpack(ev(aspgen.Index(call("zip", pos(ev(ints(1))), pos(ev(ints(2)))), I(0))), "x2", "y2"),
		unpack(ev(aspgen.List(I(1), ev(ints(2)), S("s"))), "x", "y", "z"),
		as("m", ev(aspgen.Comp(aspgen.E(aspgen.Ident("p"), aspgen.Bin("*", aspgen.Ident("q"))), []string{"p", "q"}, ev(call("zip", pos(ev(ints(1, 2, 3))), pos(ev(ints(4, 5, 6))))), nil))),
	}
	// 4. % formatting, dict |, sorted(reverse=)
	misc := aspgen.Prog{
		as("d0", ev(dict())),
		as("d", ev(dict("a", 1, "b", 2))),
		as("f0", aspgen.E(aspgen.Str("%s"), aspgen.Bin("%", aspgen.Str("")))),
		as("f1", aspgen.E(aspgen.Str("%s"), aspgen.Bin("%", aspgen.Int(-5)))),
		as("f2", aspgen.E(aspgen.Str("%d"), aspgen.Bin("%", aspgen.Int(-5)))),
		as("f3", aspgen.E(aspgen.Str("100%% of %s."), aspgen.Bin("%", aspgen.Str("a%b")))),
		as("f4", aspgen.E(aspgen.Str("//%s:%%"), aspgen.Bin("%", aspgen.Ident("f3")))),
		as("u0", aspgen.E(aspgen.Ident("d0"), aspgen.Bin("|", aspgen.Ident("d0")))),
		as("u1", aspgen.E(aspgen.Ident("d0"), aspgen.Bin("|", aspgen.Ident("d")))),
		as("u2", aspgen.E(aspgen.Ident("d"), aspgen.Bin("|", aspgen.Ident("d0")))),
		as("u3", aspgen.E(aspgen.Ident("d"), aspgen.Bin("|", dict("a", 7)))),
		as("u4", aspgen.E(aspgen.Ident("d"), aspgen.Bin("|", dict("c", 3)), aspgen.Bin("|", dict("d", 4)))),
		as("k4", ev(aspgen.Method(aspgen.Ident("u4"), "keys"))),
		as("s0", ev(call("sorted", pos(ev(ints())), kw("reverse", ev(aspgen.True()))))),
		as("s1", ev(call("sorted", pos(ev(aspgen.List(S("b"), S("a"), S("c")))), kw("reverse", ev(aspgen.False()))))),
		as("s2", ev(call("sorted", pos(ev(ints(2, 9, 4))), kw("reverse", aspgen.E(aspgen.Ident("s0"), aspgen.Un("not")))))),
	}
	return []aspgen.Prog{example, slices, rows, misc}
}
