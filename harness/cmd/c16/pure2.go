// C16: the ENLARGED pure fragment (Model/C16_Pure2.v).
// inPure2Subset mirrors the Coq predicate in_pure2_subset on the Go AST (the correspondence compares the two verdicts on
// every generated program); Pure2Program generates programs aimed at the constructs the enlarged fragment adds: user
// functions (positional / keyword / scalar-default arguments, recursion, calls as statements), comprehensions with and
// without filter over lists and range(), for over range() and with several loop names, the builtins len str bool any all
// reversed sorted min max enumerate zip, dict literals (keys in ascending order, sometimes not), indexing, `in` on lists and
// dicts, get / keys / values / items, join / split / startswith / endswith / upper / lower.
package main

import (
	"fmt"

	"verifharness/aspgen"
	"verifharness/lib"
)

var pure2Builtins = map[string]bool{"len": true, "str": true, "bool": true, "any": true, "all": true, "reversed": true, "sorted": true,
	"min": true, "max": true, "enumerate": true, "zip": true}
var pure2Methods = map[string]bool{"join": true, "split": true, "startswith": true, "endswith": true, "upper": true, "lower": true,
	"get": true, "keys": true, "values": true, "items": true}

func positionalArgs(as []aspgen.Arg) bool {
	for _, a := range as {
		if a.Name != "" {
			return false
		}
	}
	return true
}

func pure2Args(k int, as []aspgen.Arg) bool {
	for _, a := range as {
		if !pure2Expr(k, a.E) {
			return false
		}
	}
	return true
}

func pure2Expr(n int, e *aspgen.Expr) bool {
	if n == 0 || e == nil {
		return false
	}
	k := n - 1
	if !pure2Val(k, e.Val) {
		return false
	}
	for _, o := range e.Ops {
		if o.Val == nil {
			continue
		}
		if !pure2Val(k, o.Val) {
			return false
		}
		switch o.Op {
		case "is", "is not", "|", "/":
			return false
		}
	}
	if aspgen.ChainClass(e.Ops) != "" {
		return false
	}
	if e.If != nil {
		return pure2Expr(k, e.If) && pure2Expr(k, e.Els)
	}
	return true
}

// is_range_call: the expression is exactly range(args)
func rangeCall(e *aspgen.Expr) ([]aspgen.Arg, bool) {
	if e == nil || e.Val == nil || len(e.Ops) > 0 || e.If != nil {
		return nil, false
	}
	v := e.Val
	if v.K == "ident" && v.Call && v.Name == "range" && v.Meth == "" && len(v.Slices) == 0 && v.PMeth == "" {
		return v.Args, true
	}
	return nil, false
}

func pure2Iter(k int, it *aspgen.Expr) bool {
	if args, ok := rangeCall(it); ok {
		return positionalArgs(args) && pure2Args(k, args)
	}
	return pure2Expr(k, it)
}

// one wrapper of the Coq term of a value, outermost first: XMeth (value-level), XIndex / XSlice, XMeth (on the identifier)
type vlayer struct {
	kind string // meth index slice
	name string
	args []aspgen.Arg
	idx  *aspgen.Expr
}

func layersOf(v *aspgen.Val) []vlayer {
	var ls []vlayer
	if v.PMeth != "" {
		ls = append(ls, vlayer{kind: "meth", name: v.PMeth, args: v.PMArgs})
	}
	for i := len(v.Slices) - 1; i >= 0; i-- {
		if v.Slices[i].Colon {
			ls = append(ls, vlayer{kind: "slice"})
		} else {
			ls = append(ls, vlayer{kind: "index", idx: v.Slices[i].Lo})
		}
	}
	if v.K == "ident" && v.Meth != "" {
		ls = append(ls, vlayer{kind: "meth", name: v.Meth, args: v.MArgs})
	}
	return ls
}

func pure2Val(n int, v *aspgen.Val) bool {
	if v == nil {
		return false
	}
	return pure2Layers(n, v, layersOf(v))
}

func pure2Layers(n int, v *aspgen.Val, ls []vlayer) bool {
	if n == 0 {
		return false
	}
	k := n - 1
	if len(ls) == 0 {
		return pure2Base(n, v)
	}
	l := ls[0]
	switch l.kind {
	case "meth":
		return pure2Layers(k, v, ls[1:]) && pure2Methods[l.name] && positionalArgs(l.args) && pure2Args(k, l.args)
	case "index":
		return pure2Layers(k, v, ls[1:]) && pure2Expr(k, l.idx)
	}
	return false
}

func pure2Base(n int, v *aspgen.Val) bool {
	if n == 0 {
		return false
	}
	k := n - 1
	switch v.K {
	case "int", "str", "true", "false", "none":
		return true
	case "ident":
		if !v.Call {
			return plainName(v.Name)
		}
		if !pure2Args(k, v.Args) {
			return false
		}
		if plainName(v.Name) {
			return true
		}
		return pure2Builtins[v.Name] && positionalArgs(v.Args)
	case "paren":
		return pure2Expr(k, v.Items[0])
	case "list":
		for _, e := range v.Items {
			if !pure2Expr(k, e) {
				return false
			}
		}
		return true
	case "dict":
		for i := range v.Keys {
			if !pure2Expr(k, v.Keys[i]) || !pure2Expr(k, v.Items[i]) {
				return false
			}
		}
		return true
	case "comp":
		if len(v.Names) == 0 {
			return false
		}
		for _, nm := range v.Names {
			if !plainName(nm) {
				return false
			}
		}
		if !pure2Expr(k, v.Items[0]) || !pure2Iter(k, v.Iter) {
			return false
		}
		return v.Cond == nil || pure2Expr(k, v.Cond)
	}
	return false
}

func scalarDefault(e *aspgen.Expr) bool {
	if e == nil {
		return true
	}
	if len(e.Ops) > 0 || e.If != nil || e.Val == nil {
		return false
	}
	v := e.Val
	if v.Meth != "" || v.PMeth != "" || len(v.Slices) > 0 {
		return false
	}
	switch v.K {
	case "int", "str", "true", "false", "none":
		return true
	}
	return false
}

func pure2Block(n int, inloop, infn bool, ss []*aspgen.Stmt) bool {
	for _, s := range ss {
		if !pure2Stmt(n, inloop, infn, s) {
			return false
		}
	}
	return true
}

func pure2Stmt(n int, inloop, infn bool, s *aspgen.Stmt) bool {
	if n == 0 {
		return false
	}
	k := n - 1
	switch s.K {
	case "pass":
		return true
	case "break", "continue":
		return inloop
	case "assign", "aug":
		return plainName(s.Name) && pure2Expr(k, s.E)
	case "assert":
		return pure2Expr(k, s.E)
	case "return":
		return infn && (s.E == nil || pure2Expr(k, s.E))
	case "if":
		if !pure2Expr(k, s.E) || !pure2Block(k, inloop, infn, s.Body) {
			return false
		}
		for _, el := range s.Elif {
			if !pure2Expr(k, el.E) || !pure2Block(k, inloop, infn, el.Body) {
				return false
			}
		}
		return pure2Block(k, inloop, infn, s.Else)
	case "for":
		if len(s.Names) == 0 {
			return false
		}
		for _, nm := range s.Names {
			if !plainName(nm) {
				return false
			}
		}
		return pure2Iter(k, s.E) && pure2Block(k, true, infn, s.Body)
	case "def":
		if infn || !plainName(s.Name) {
			return false
		}
		for _, a := range s.Args {
			if !plainName(a.Name) || !scalarDefault(a.E) {
				return false
			}
		}
		return pure2Block(k, false, true, s.Body)
	case "call":
		return plainName(s.Name) && pure2Args(k, s.Args)
	}
	return false
}

func inPure2Subset(p aspgen.Prog) bool { return pure2Block(pureDepth, false, false, p) }

// ---------------------------------------------------------------------------------------------

type pure2Gen struct {
	*pureGen
	dicts []string
	funcs []pure2Fn
	used  map[string]int
}

type pure2Fn struct {
	name   string
	params []string
	ndef   int // how many trailing parameters have a default
	kind   string
}

func (g *pure2Gen) note(k string) { g.used[k]++ }

func call(name string, args ...aspgen.Arg) *aspgen.Val {
	return &aspgen.Val{K: "ident", Name: name, Call: true, Args: args}
}
func pos(e *aspgen.Expr) aspgen.Arg         { return aspgen.Arg{E: e} }
func kw(n string, e *aspgen.Expr) aspgen.Arg { return aspgen.Arg{Name: n, E: e} }

func (g *pure2Gen) smallInt() *aspgen.Expr { return aspgen.IntE(g.r.Range(0, 9)) }

// an int-valued expression that may use x
func (g *pure2Gen) intOver(x string) *aspgen.Expr {
	r := g.r
	switch r.Intn(4) {
	case 0:
		return aspgen.IdE(x)
	case 1:
		return aspgen.E(aspgen.Ident(x), aspgen.Bin(lib.Pick(r, []string{"+", "*", "-"}), aspgen.Int(r.Range(1, 5))))
	case 2:
		return aspgen.E(aspgen.Ident(x), aspgen.Bin("%", aspgen.Int(r.Range(2, 4))))
	}
	return aspgen.E(aspgen.Ident(x), aspgen.Bin("*", aspgen.Ident(x)))
}

func (g *pure2Gen) condOver(x string) *aspgen.Expr {
	r := g.r
	switch r.Intn(4) {
	case 0:
		return aspgen.E(aspgen.Ident(x), aspgen.Bin(lib.Pick(r, []string{">", "<", ">=", "!="}), aspgen.Int(r.Range(0, 5))))
	case 1:
		return aspgen.E(aspgen.Ident(x), aspgen.Bin("%", aspgen.Int(2)), aspgen.Bin("==", aspgen.Int(r.Range(0, 1))))
	case 2:
		return aspgen.E(aspgen.Ident(x), aspgen.Bin("in", aspgen.List(g.smallInt(), g.smallInt(), g.smallInt())))
	}
	return aspgen.IdE(x)
}

func (g *pure2Gen) rangeExpr() *aspgen.Expr {
	r := g.r
	switch r.Intn(5) {
	case 0:
		return aspgen.E(call("range", pos(aspgen.IntE(r.Range(0, 3))), pos(aspgen.IntE(r.Range(2, 9)))))
	case 1:
		// a step that does not divide stop - start: pyRange.Len() rounds up since /repo 3ce4752
		g.note("range-step")
		return aspgen.E(call("range", pos(aspgen.IntE(r.Range(0, 3))), pos(aspgen.IntE(r.Range(2, 12))), pos(aspgen.IntE(r.Range(1, 3)))))
	case 2:
		if len(g.lists) > 0 {
			return aspgen.E(call("range", pos(aspgen.E(call("len", pos(aspgen.IdE(lib.Pick(r, g.lists))))))))
		}
	}
	return aspgen.E(call("range", pos(aspgen.IntE(r.Range(0, 7)))))
}

func (g *pure2Gen) intListExpr() *aspgen.Expr {
	if len(g.lists) > 0 && g.r.Bool() {
		return aspgen.IdE(lib.Pick(g.r, g.lists))
	}
	es := []*aspgen.Expr{}
	for k := g.r.Range(0, 5); k > 0; k-- {
		es = append(es, g.smallInt())
	}
	return aspgen.E(aspgen.List(es...))
}

func (g *pure2Gen) iterExpr() *aspgen.Expr {
	if g.r.Bool() {
		g.note("range")
		return g.rangeExpr()
	}
	return g.intListExpr()
}

func (g *pure2Gen) comp() *aspgen.Expr {
	x := "c" + fmt.Sprint(g.r.Range(0, 3))
	var cond *aspgen.Expr
	if g.r.Bool() {
		cond = g.condOver(x)
		g.note("comp-filtered")
	} else {
		g.note("comp")
	}
	return aspgen.E(aspgen.Comp(g.intOver(x), []string{x}, g.iterExpr(), cond))
}

func (g *pure2Gen) strListExpr() *aspgen.Expr {
	r := g.r
	switch r.Intn(3) {
	case 0:
		x := "c" + fmt.Sprint(r.Range(0, 3))
		g.note("comp")
		return aspgen.E(aspgen.Comp(aspgen.E(call("str", pos(g.intOver(x)))), []string{x}, g.iterExpr(), nil))
	case 1:
		g.note("split")
		return aspgen.E(aspgen.Method(aspgen.Str(lib.Pick(r, []string{"a,b,c", "x", "lib,,core", "", "a, b"})), "split", aspgen.StrE(lib.Pick(r, []string{",", ", ", "b"}))))
	}
	es := []*aspgen.Expr{}
	for k := r.Range(0, 4); k > 0; k-- {
		es = append(es, aspgen.StrE(lib.Pick(r, []string{"a", "b", "lib", "x-1", "Zed", "", "10"})))
	}
	return aspgen.E(aspgen.List(es...))
}

func (g *pure2Gen) dictLit() *aspgen.Val {
	r := g.r
	keys := []string{"a", "b", "c", "d", "k"}
	n := r.Range(0, 4)
	ks := append([]string{}, keys[:n]...)
	if n >= 2 && r.Chance(1, 6) {
		ks[0], ks[1] = ks[1], ks[0] // not ascending: the reference run refuses
	}
	vals := []*aspgen.Expr{}
	for range ks {
		if r.Chance(1, 4) {
			vals = append(vals, aspgen.StrE(lib.Pick(r, []string{"x", "y", ""})))
		} else {
			vals = append(vals, g.smallInt())
		}
	}
	return aspgen.Dict(ks, vals)
}

// one assignment exercising a construct of the enlarged fragment
func (g *pure2Gen) stmt2() []*aspgen.Stmt {
	r := g.r
	one := func(s *aspgen.Stmt) []*aspgen.Stmt { return []*aspgen.Stmt{s} }
	switch r.Intn(16) {
	case 0, 1:
		e := g.comp()
		return one(aspgen.Assign(g.fresh("l"), e))
	case 2:
		b := lib.Pick(r, []string{"len", "any", "all", "reversed", "sorted", "min", "max", "bool", "str"})
		g.note(b)
		arg := g.intListExpr()
		if b == "str" {
			arg = g.intExpr(1)
		}
		name := "v"
		switch b {
		case "len", "min", "max":
			name = "i"
		case "reversed", "sorted":
			name = "l"
		case "str":
			name = "s"
		}
		e := aspgen.E(call(b, pos(arg)))
		return one(aspgen.Assign(g.fresh(name), e))
	case 3:
		g.note("join")
		e := aspgen.E(aspgen.Method(aspgen.Str(lib.Pick(r, []string{"-", ", ", ""})), "join", g.strListExpr()))
		return one(aspgen.Assign(g.fresh("s"), e))
	case 4:
		m := lib.Pick(r, []string{"startswith", "endswith", "upper", "lower"})
		g.note(m)
		var recv *aspgen.Val = aspgen.Str(lib.Pick(r, []string{"lib/core", "Abc", "x.go", ""}))
		if len(g.strs) > 0 && r.Bool() {
			recv = aspgen.Ident(lib.Pick(r, g.strs))
		}
		if m == "upper" || m == "lower" {
			e := aspgen.E(aspgen.Method(recv, m))
			return one(aspgen.Assign(g.fresh("s"), e))
		}
		e := aspgen.E(aspgen.Method(recv, m, aspgen.StrE(lib.Pick(r, []string{"lib", ".go", "A", ""}))))
		return one(aspgen.Assign(g.fresh("b"), e))
	case 5:
		g.note("dict")
		d := g.fresh("d")
		g.dicts = append(g.dicts, d)
		return one(aspgen.Assign(d, aspgen.E(g.dictLit())))
	case 6:
		if len(g.dicts) > 0 {
			d := lib.Pick(r, g.dicts)
			k := lib.Pick(r, []string{"a", "b", "c", "zz"})
			switch r.Intn(5) {
			case 0:
				g.note("dict-index")
				return one(aspgen.Assign(g.fresh("v"), aspgen.E(aspgen.Index(aspgen.Ident(d), aspgen.StrE(k)))))
			case 1:
				g.note("get")
				args := []*aspgen.Expr{aspgen.StrE(k)}
				if r.Bool() {
					args = append(args, g.smallInt())
				}
				return one(aspgen.Assign(g.fresh("v"), aspgen.E(aspgen.Method(aspgen.Ident(d), "get", args...))))
			case 2:
				m := lib.Pick(r, []string{"keys", "values", "items"})
				g.note(m)
				return one(aspgen.Assign(g.fresh("v"), aspgen.E(aspgen.Method(aspgen.Ident(d), m))))
			case 3:
				g.note("dict-in")
				return one(aspgen.Assign(g.fresh("b"), aspgen.E(aspgen.Str(k), aspgen.Bin(lib.Pick(r, []string{"in", "not in"}), aspgen.Ident(d)))))
			}
			g.note("len")
			return one(aspgen.Assign(g.fresh("i"), aspgen.E(call("len", pos(aspgen.IdE(d))))))
		}
	case 7:
		{
			g.note("list-index")
			es := []*aspgen.Expr{}
			for k := r.Range(2, 4); k > 0; k-- {
				es = append(es, g.smallInt())
			}
			idx := aspgen.IntE(r.Range(-2, 1))
			if len(g.lists) > 0 && r.Chance(1, 4) {
				// may be out of range: both raise
				return one(aspgen.Assign(g.fresh("v"), aspgen.E(aspgen.Index(aspgen.Ident(lib.Pick(r, g.lists)), aspgen.IntE(0)))))
			}
			return one(aspgen.Assign(g.fresh("v"), aspgen.E(aspgen.Index(aspgen.List(es...), idx))))
		}
	case 8:
		g.note("for-range")
		acc := g.fresh("i")
		x := g.fresh("i")
		body := []*aspgen.Stmt{aspgen.Aug(acc, g.intOver(x))}
		if r.Chance(1, 3) {
			body = append([]*aspgen.Stmt{aspgen.If(g.condOver(x), []*aspgen.Stmt{{K: lib.Pick(r, []string{"break", "continue"})}}, nil)}, body...)
		}
		g.ints = g.ints[:len(g.ints)-1] // the loop variable may stay unbound
		return []*aspgen.Stmt{aspgen.Assign(acc, g.smallInt()), aspgen.For([]string{x}, g.rangeExpr(), body...)}
	case 9:
		b := lib.Pick(r, []string{"enumerate", "zip"})
		g.note(b)
		it := aspgen.E(call("enumerate", pos(g.intListExpr())))
		if b == "zip" {
			n := r.Range(0, 4)
			mk := func() *aspgen.Expr {
				es := []*aspgen.Expr{}
				for k := 0; k < n; k++ {
					es = append(es, g.smallInt())
				}
				return aspgen.E(aspgen.List(es...))
			}
			it = aspgen.E(call("zip", pos(mk()), pos(mk())))
		}
		if r.Bool() {
			return one(aspgen.Assign(g.fresh("l"), aspgen.E(aspgen.Comp(aspgen.E(aspgen.Ident("p"), aspgen.Bin("+", aspgen.Ident("q"))), []string{"p", "q"}, it, nil))))
		}
		acc := g.fresh("i")
		return []*aspgen.Stmt{aspgen.Assign(acc, aspgen.IntE(0)),
			aspgen.For([]string{"p", "q"}, it, aspgen.Aug(acc, aspgen.E(aspgen.Ident("p"), aspgen.Bin("*", aspgen.Ident("q")))))}
	case 10, 11, 12:
		if len(g.funcs) > 0 {
			return g.callFn()
		}
	case 13:
		g.note("in-list")
		return one(aspgen.Assign(g.fresh("b"), aspgen.E(aspgen.Int(r.Range(0, 5)), aspgen.Bin(lib.Pick(r, []string{"in", "not in"}), g.intListExpr().Val))))
	}
	return []*aspgen.Stmt{g.stmt(1, false)}
}

func (g *pure2Gen) defFn() *aspgen.Stmt {
	r := g.r
	name := fmt.Sprintf("f%d", len(g.funcs))
	fn := pure2Fn{name: name}
	var body []*aspgen.Stmt
	var args []aspgen.Arg
	switch r.Intn(5) {
	case 0: // arithmetic with a default
		fn.kind, fn.params, fn.ndef = "arith", []string{"a", "b"}, 1
		args = []aspgen.Arg{{Name: "a"}, {Name: "b", E: g.smallInt()}}
		body = []*aspgen.Stmt{aspgen.Return(aspgen.E(aspgen.Ident("a"), aspgen.Bin(lib.Pick(r, []string{"+", "*", "-"}), aspgen.Ident("b"))))}
	case 1: // recursion
		fn.kind, fn.params = "rec", []string{"n"}
		args = []aspgen.Arg{{Name: "n"}}
		body = []*aspgen.Stmt{
			aspgen.If(aspgen.E(aspgen.Ident("n"), aspgen.Bin("<=", aspgen.Int(1))), []*aspgen.Stmt{aspgen.Return(aspgen.IntE(1))}, nil),
			aspgen.Return(aspgen.E(aspgen.Ident("n"), aspgen.Bin(lib.Pick(r, []string{"*", "+"}),
				call(name, pos(aspgen.E(aspgen.Ident("n"), aspgen.Bin("-", aspgen.Int(1)))))))),
		}
	case 2: // a loop with an early return, a string default
		fn.kind, fn.params, fn.ndef = "loop", []string{"l", "sep"}, 1
		args = []aspgen.Arg{{Name: "l"}, {Name: "sep", E: aspgen.StrE(lib.Pick(r, []string{"-", "", "+"}))}}
		body = []*aspgen.Stmt{
			aspgen.Assign("out", aspgen.StrE("")),
			aspgen.For([]string{"x"}, aspgen.IdE("l"),
				aspgen.If(aspgen.E(aspgen.Ident("x"), aspgen.Bin(">", aspgen.Int(7))), []*aspgen.Stmt{aspgen.Return(aspgen.IdE("out"))}, nil),
				aspgen.Aug("out", aspgen.E(call("str", pos(aspgen.IdE("x"))), aspgen.Bin("+", aspgen.Ident("sep"))))),
			aspgen.Return(aspgen.IdE("out")),
		}
	case 3: // a comprehension inside, a None / bool default
		fn.kind, fn.params, fn.ndef = "comp", []string{"l", "k", "flag"}, 2
		args = []aspgen.Arg{{Name: "l"}, {Name: "k", E: aspgen.IntE(r.Range(1, 3))}, {Name: "flag", E: aspgen.E(lib.Pick(r, []*aspgen.Val{aspgen.None(), aspgen.True(), aspgen.False()}))}}
		body = []*aspgen.Stmt{
			aspgen.If(aspgen.IdE("flag"), []*aspgen.Stmt{aspgen.Return(aspgen.E(aspgen.Comp(aspgen.E(aspgen.Ident("x"), aspgen.Bin("*", aspgen.Ident("k"))), []string{"x"}, aspgen.IdE("l"), nil)))}, nil),
			aspgen.Return(aspgen.E(aspgen.Comp(aspgen.IdE("x"), []string{"x"}, aspgen.IdE("l"), aspgen.E(aspgen.Ident("x"), aspgen.Bin(">=", aspgen.Ident("k")))))),
		}
	default: // no return value, an assert
		fn.kind, fn.params = "check", []string{"a"}
		args = []aspgen.Arg{{Name: "a"}}
		body = []*aspgen.Stmt{{K: "assert", E: aspgen.E(aspgen.Ident("a"), aspgen.Bin(">=", aspgen.Int(0)))}}
		if r.Bool() {
			body = append(body, &aspgen.Stmt{K: "return"})
		}
	}
	g.note("def-" + fn.kind)
	g.funcs = append(g.funcs, fn)
	return aspgen.Def(name, args, body...)
}

func (g *pure2Gen) callFn() []*aspgen.Stmt {
	r := g.r
	fn := lib.Pick(r, g.funcs)
	var args []aspgen.Arg
	first := func() *aspgen.Expr {
		switch fn.kind {
		case "loop", "comp":
			return g.intListExpr()
		case "rec":
			return aspgen.IntE(r.Range(0, 6))
		}
		return g.smallInt()
	}
	args = append(args, pos(first()))
	for i := 1; i < len(fn.params); i++ {
		p := fn.params[i]
		var e *aspgen.Expr
		switch p {
		case "sep":
			e = aspgen.StrE(lib.Pick(r, []string{",", ":"}))
		case "flag":
			e = aspgen.E(lib.Pick(r, []*aspgen.Val{aspgen.True(), aspgen.False()}))
		default:
			e = aspgen.IntE(r.Range(1, 4))
		}
		switch r.Intn(3) {
		case 0: // leave it to the default
		case 1:
			if i == len(args) && positionalArgs(args) {
				args = append(args, pos(e))
			} else {
				args = append(args, kw(p, e))
			}
			g.note("call-positional")
		default:
			args = append(args, kw(p, e))
			g.note("call-keyword")
		}
	}
	v := &aspgen.Val{K: "ident", Name: fn.name, Call: true, Args: args}
	if fn.kind == "check" {
		g.note("call-stmt")
		return []*aspgen.Stmt{{K: "call", Name: fn.name, Args: args}}
	}
	kind := "i"
	switch fn.kind {
	case "loop":
		kind = "s"
	case "comp":
		kind = "l"
	}
	return []*aspgen.Stmt{aspgen.Assign(g.fresh(kind), aspgen.E(v))}
}

// Pure2Program generates one program aimed at the enlarged fragment; the second result lists the constructs it uses.
func Pure2Program(r *lib.Rng) (aspgen.Prog, map[string]int) {
	g := &pure2Gen{pureGen: &pureGen{r: r}, used: map[string]int{}}
	e0 := g.intExpr(1)
	g.out = append(g.out, aspgen.Assign(g.fresh("i"), e0))
	l0 := aspgen.E(g.listLit())
	g.out = append(g.out, aspgen.Assign(g.fresh("l"), l0))
	for n := r.Range(1, 3); n > 0; n-- {
		g.out = append(g.out, g.defFn())
	}
	for n := r.Range(3, 8); n > 0; n-- {
		g.out = append(g.out, g.stmt2()...)
	}
	return g.out, g.used
}

// RangeLenRegressions: comprehensions and loops over ranges whose Len() the old formula (Stop - Start) / Step got wrong.
func RangeLenRegressions() []aspgen.Prog {
	rng := func(args ...int) *aspgen.Expr {
		as := []aspgen.Arg{}
		for _, a := range args {
			as = append(as, pos(aspgen.IntE(a)))
		}
		return aspgen.E(call("range", as...))
	}
	x := aspgen.IdE("x")
	var out []aspgen.Prog
	for _, r := range [][]int{{3, 2}, {1, 3, 3}, {5, 0}, {0, 10, 3}, {2, 3, 7}, {0, 0}, {4, 4, 2}, {0, 7, 2}, {9, 1, 2}} {
		out = append(out, aspgen.Prog{
			aspgen.Assign("l", aspgen.E(aspgen.Comp(x, []string{"x"}, rng(r...), nil))),
			aspgen.Assign("m", aspgen.E(aspgen.Comp(aspgen.E(aspgen.Ident("x"), aspgen.Bin("*", aspgen.Int(5))), []string{"x"}, rng(r...),
				aspgen.E(aspgen.Ident("x"), aspgen.Bin("!=", aspgen.Int(1)))))),
			aspgen.Assign("n", aspgen.E(call("len", pos(aspgen.IdE("l"))))),
			aspgen.Assign("t", aspgen.IntE(0)),
			aspgen.For([]string{"x"}, rng(r...), aspgen.Aug("t", x)),
		})
	}
	return out
}
