// C16 follow-up 2: two streams aimed at WHAT IS EVALUATED (side effects, scopes) rather than at the value of one expression.
//
// LazyProbe (stream "lazy"): `lhs and rhs <op> ...` / `lhs or rhs <op> ...` where <op> binds tighter than and / or (so that
// interpretOps takes its mixed-precedence branch), rhs calls a function that WRITES INTO A GLOBAL DICT, and the dict is read back
// afterwards (the dict itself, its length, its sorted keys). CPython never evaluates rhs when lhs decides; every chain generated is
// in ops_safe (ChainClass == ""), so asp's grouping is CPython's and the only thing under test is whether the operand is evaluated.
//
// JoinProbe (stream "joincomp"): 'sep'.join([e for x in l]) where x is ALSO a global / a parameter / the variable of the enclosing
// for loop and is read after the join - on the optimised path (a subincluded file: parser.optimise rewrites a string-LITERAL
// receiver with ONE literal list comprehension into optimisedJoin -> scope.interpretJoin) and on the generic path (a BUILD file;
// a variable as receiver; sorted([...]); the list held by a variable). CPython: a comprehension has a scope of its own.
package main

import (
	"fmt"
	"sort"
	"strings"

	"verifharness/aspgen"
	"verifharness/lib"
)

type lazyProbe struct {
	prog    aspgen.Prog
	effects map[string]bool // the globals that only record which operands were evaluated
	decided int             // number of chains whose left operand decides the result
}

var tightOps = []string{"==", "!=", "+", "<", ">=", "in", "*", "-"}

// LazyProbe generates one program of the stream "lazy".
func LazyProbe(r *lib.Rng) *lazyProbe {
	p := &lazyProbe{effects: map[string]bool{"seen": true, "n": true, "ks": true}}
	add := func(s ...*aspgen.Stmt) { p.prog = append(p.prog, s...) }
	ret := r.Range(1, 3)
	add(aspgen.Assign("seen", aspgen.E(aspgen.Dict(nil, nil))))
	body := []*aspgen.Stmt{aspgen.IdxAssign("seen", aspgen.IdE("k"), aspgen.IntE(1))}
	if r.Bool() {
		// count the evaluations: seen[k] = seen.get(k, 0) + 1
		body = []*aspgen.Stmt{aspgen.IdxAssign("seen", aspgen.IdE("k"),
			aspgen.E(aspgen.Method(aspgen.Ident("seen"), "get", aspgen.IdE("k"), aspgen.IntE(0)), aspgen.Bin("+", aspgen.Int(1))))}
	}
	add(aspgen.Def("mark", []aspgen.Arg{{Name: "k"}}, append(body, aspgen.Return(aspgen.IntE(ret)))...))
	add(aspgen.Assign("e", aspgen.E(aspgen.List())), aspgen.Assign("f", aspgen.E(aspgen.List(aspgen.StrE("x")))))
	falsy := []*aspgen.Val{aspgen.False(), aspgen.Int(0), aspgen.Str(""), aspgen.None(), aspgen.Ident("e"), aspgen.List()}
	truthy := []*aspgen.Val{aspgen.True(), aspgen.Int(ret), aspgen.Str("yes"), aspgen.Ident("f"), aspgen.List(aspgen.IntE(7))}
	// the operators that follow mark(k): all tighter than and / or
	tail := func() []aspgen.Op {
		ops := []aspgen.Op{}
		switch op := lib.Pick(r, tightOps); op {
		case "in":
			ops = append(ops, aspgen.Bin("in", aspgen.List(aspgen.IntE(ret), aspgen.IntE(9))))
		case "+", "-", "*":
			ops = append(ops, aspgen.Bin(op, aspgen.Int(r.Range(1, 4))))
			if r.Bool() {
				ops = append(ops, aspgen.Bin(lib.Pick(r, []string{"==", "!=", "<"}), aspgen.Int(r.Range(0, 5))))
			}
		default:
			ops = append(ops, aspgen.Bin(op, aspgen.Int(r.Range(0, 3))))
		}
		return ops
	}
	mark := func(k string) *aspgen.Val { return aspgen.Call("mark", aspgen.StrE(k)) }
	nChains := r.Range(2, 5)
	for i := 0; i < nChains; i++ {
		k := fmt.Sprintf("k%d", i)
		lazy := lib.Pick(r, []string{"and", "or"})
		decides := r.Chance(3, 4)
		var lhs *aspgen.Val
		if decides == (lazy == "and") {
			lhs = lib.Pick(r, falsy)
		} else {
			lhs = lib.Pick(r, truthy)
		}
		var ops []aspgen.Op
		switch r.Intn(6) {
		case 0:
			// a single lazy operator: the one-operator short cut of interpretOps
			ops = []aspgen.Op{aspgen.Bin(lazy, mark(k))}
		case 1:
			if lazy == "or" {
				// lhs or "kX" in seen and mark(k) == c   (or < in, and < ==: every operator after `or` is tighter than it)
				ops = append([]aspgen.Op{aspgen.Bin("or", aspgen.Str(k)), aspgen.Bin("in", aspgen.Ident("seen")), aspgen.Bin("and", mark(k))},
					aspgen.Bin("==", aspgen.Int(ret)))
				break
			}
			fallthrough
		default:
			ops = append([]aspgen.Op{aspgen.Bin(lazy, mark(k))}, tail()...)
		}
		if aspgen.ChainClass(ops) != "" {
			ops = []aspgen.Op{aspgen.Bin(lazy, mark(k)), aspgen.Bin("==", aspgen.Int(ret))}
		}
		if decides {
			p.decided++
		}
		add(aspgen.Assign(fmt.Sprintf("r%d", i), aspgen.E(lhs, ops...)))
	}
	if r.Chance(2, 3) {
		// the typical guard inside a function: only do the work when there is something in l
		add(aspgen.Def("check", []aspgen.Arg{{Name: "l"}, {Name: "k"}},
			aspgen.Return(aspgen.E(aspgen.Ident("l"), aspgen.Bin("and", aspgen.Call("mark", aspgen.IdE("k"))), aspgen.Bin("==", aspgen.Int(ret))))))
		add(aspgen.Assign("g0", aspgen.E(aspgen.Call("check", aspgen.IdE("e"), aspgen.StrE("g0")))))
		add(aspgen.Assign("g1", aspgen.E(aspgen.Call("check", aspgen.IdE("f"), aspgen.StrE("g1")))))
		p.decided++
	}
	if r.Chance(1, 3) {
		// inside a comprehension: the chain is evaluated once per element, in the comprehension's scope
		add(aspgen.Assign("c0", aspgen.E(aspgen.Comp(aspgen.E(aspgen.Ident("x"), aspgen.Bin("and", aspgen.Call("mark", aspgen.IdE("x"))), aspgen.Bin("+", aspgen.Int(1))),
			[]string{"x"}, aspgen.E(aspgen.List(aspgen.StrE(""), aspgen.StrE("c"), aspgen.StrE(""))), nil))))
		p.decided++
	}
	add(aspgen.Assign("n", aspgen.E(aspgen.Call("len", aspgen.IdE("seen")))))
	add(aspgen.Assign("ks", aspgen.E(aspgen.Call("sorted", aspgen.E(aspgen.Method(aspgen.Ident("seen"), "keys"))))))
	return p
}

// LazyRegressions: the fixed programs of the stream (the shapes of the seeded change's demonstration).
func LazyRegressions() []*lazyProbe {
	S, I := aspgen.StrE, aspgen.IntE
	mark := func(k string) *aspgen.Val { return aspgen.Call("mark", S(k)) }
	pre := aspgen.Prog{
		aspgen.Assign("seen", aspgen.E(aspgen.Dict(nil, nil))),
		aspgen.Def("mark", []aspgen.Arg{{Name: "k"}}, aspgen.IdxAssign("seen", aspgen.IdE("k"), I(1)), aspgen.Return(I(1))),
	}
	post := aspgen.Prog{
		aspgen.Assign("n", aspgen.E(aspgen.Call("len", aspgen.IdE("seen")))),
		aspgen.Assign("ks", aspgen.E(aspgen.Call("sorted", aspgen.E(aspgen.Method(aspgen.Ident("seen"), "keys"))))),
	}
	mk := func(decided int, mid ...*aspgen.Stmt) *lazyProbe {
		p := &lazyProbe{effects: map[string]bool{"seen": true, "n": true, "ks": true}, decided: decided}
		p.prog = append(append(append(aspgen.Prog{}, pre...), mid...), post...)
		return p
	}
	return []*lazyProbe{
		mk(4,
			aspgen.Assign("r0", aspgen.E(aspgen.False(), aspgen.Bin("and", mark("never")))),
			aspgen.Assign("r1", aspgen.E(aspgen.False(), aspgen.Bin("and", mark("a")), aspgen.Bin("==", aspgen.Int(1)))),
			aspgen.Assign("r2", aspgen.E(aspgen.Str("yes"), aspgen.Bin("or", mark("b")), aspgen.Bin("==", aspgen.Int(1)))),
			aspgen.Assign("r3", aspgen.E(aspgen.Int(0), aspgen.Bin("and", mark("c")), aspgen.Bin("+", aspgen.Int(1)))),
			aspgen.Assign("r4", aspgen.E(aspgen.True(), aspgen.Bin("or", aspgen.Str("k")), aspgen.Bin("in", aspgen.Ident("seen")), aspgen.Bin("and", mark("d")), aspgen.Bin("==", aspgen.Int(1))))),
		mk(1,
			aspgen.Def("check", []aspgen.Arg{{Name: "l"}, {Name: "k"}},
				aspgen.Return(aspgen.E(aspgen.Ident("l"), aspgen.Bin("and", aspgen.Call("mark", aspgen.IdE("k"))), aspgen.Bin("==", aspgen.Int(1))))),
			aspgen.Assign("r5", aspgen.E(aspgen.Call("check", aspgen.E(aspgen.List(S("x"))), S("c")))),
			aspgen.Assign("r6", aspgen.E(aspgen.Call("check", aspgen.E(aspgen.List()), S("z"))))),
		// nothing decides: the operand IS evaluated, exactly once
		mk(0,
			aspgen.Assign("r7", aspgen.E(aspgen.True(), aspgen.Bin("and", mark("t")), aspgen.Bin("==", aspgen.Int(1)))),
			aspgen.Assign("r8", aspgen.E(aspgen.Int(0), aspgen.Bin("or", mark("u")), aspgen.Bin("+", aspgen.Int(2)), aspgen.Bin("<", aspgen.Int(9))))),
	}
}

// lazyClass: asp and CPython differ ONLY on the effect record, and asp recorded more evaluations than CPython.
func lazyClass(p *lazyProbe, bad []string, asp, py map[string]any) bool {
	if len(bad) == 0 {
		return false
	}
	for _, b := range bad {
		if !p.effects[b] {
			return false
		}
	}
	a, ok1 := asp["seen"].(map[string]any)
	q, ok2 := py["seen"].(map[string]any)
	if !ok1 || !ok2 || len(a) <= len(q) {
		return false
	}
	for k := range q {
		if _, in := a[k]; !in {
			return false
		}
	}
	return true
}

// ---------------------------------------------------------------------------------------------------------------------------

type joinProbe struct {
	defs, build aspgen.Prog
	readBack    map[string]bool // the globals whose value depends on the shadowed variable after the join
	kind        string
	optimised   bool // the program contains a join that parser.optimise rewrites AND it is in a subincluded file
}

var joinSeps = []string{" ", ",", "-", ", ", ""}
var joinWords = []string{"a.go", "b.go", "x.c", "y.c", "lib", "m", "zz", "-I"}

func strList(r *lib.Rng, n int) *aspgen.Val {
	es := []*aspgen.Expr{}
	for i := 0; i < n; i++ {
		es = append(es, aspgen.StrE(lib.Pick(r, joinWords)))
	}
	return aspgen.List(es...)
}

// JoinProbe generates one program of the stream "joincomp". With inDefs the text is a subincluded file (the only place where
// parser.optimise runs for user code), imported by a BUILD file that calls the functions again.
func JoinProbe(r *lib.Rng, inDefs bool) *joinProbe {
	p := &joinProbe{readBack: map[string]bool{}}
	var prog aspgen.Prog
	add := func(s ...*aspgen.Stmt) { prog = append(prog, s...) }
	v := lib.Pick(r, []string{"name", "x", "d", "src"})
	sep := lib.Pick(r, joinSeps)
	// the expression of the comprehension: the variable itself, or something computed from it
	elem := func() *aspgen.Expr {
		switch r.Intn(4) {
		case 0:
			return aspgen.E(aspgen.Str("-I"), aspgen.Bin("+", aspgen.Ident(v)))
		case 1:
			return aspgen.E(aspgen.Method(aspgen.Ident(v), "upper"))
		default:
			return aspgen.IdE(v)
		}
	}
	cond := func() *aspgen.Expr {
		if r.Chance(1, 3) {
			return aspgen.E(aspgen.Ident(v), aspgen.Bin("!=", aspgen.Str(lib.Pick(r, joinWords))))
		}
		return nil
	}
	// how the join is written: 0 = 'lit'.join([comp]) (optimised in a subincluded file), the others never are
	form := r.Intn(5)
	if r.Chance(1, 2) {
		form = 0
	}
	join := func(list *aspgen.Expr) (pre []*aspgen.Stmt, e *aspgen.Expr) {
		comp := aspgen.E(aspgen.Comp(elem(), []string{v}, list, cond()))
		switch form {
		case 0:
			p.optimised = inDefs
			return nil, aspgen.E(aspgen.Method(aspgen.Str(sep), "join", comp))
		case 1:
			return nil, aspgen.E(aspgen.Method(aspgen.Str(sep), "join", aspgen.E(aspgen.Call("sorted", comp))))
		case 2:
			return []*aspgen.Stmt{aspgen.Assign("tmp", comp)}, aspgen.E(aspgen.Method(aspgen.Str(sep), "join", aspgen.IdE("tmp")))
		case 3:
			return []*aspgen.Stmt{aspgen.Assign("sep", aspgen.StrE(sep))}, aspgen.E(aspgen.Method(aspgen.Ident("sep"), "join", comp))
		default:
			// two joins in one expression: neither is the whole expression, but optimise walks into the operands
			p.optimised = inDefs
			return nil, aspgen.E(aspgen.Method(aspgen.Str(sep), "join", comp), aspgen.Bin("+", aspgen.Method(aspgen.Str(sep), "join", aspgen.E(aspgen.Comp(elem(), []string{v}, list, nil)))))
		}
	}
	switch shape := r.Intn(4); shape {
	case 0:
		// a global of the same name, read after the join
		p.kind = "global"
		add(aspgen.Assign(v, aspgen.StrE("outer")), aspgen.Assign("srcs", aspgen.E(strList(r, r.Range(0, 3)))))
		pre, e := join(aspgen.IdE("srcs"))
		add(pre...)
		add(aspgen.Assign("joined", e), aspgen.Assign("after", aspgen.E(aspgen.Ident(v), aspgen.Bin("+", aspgen.Str("!")))))
		p.readBack[v], p.readBack["after"] = true, true
	case 1:
		// a parameter of the same name, used after the join inside the function
		p.kind = "parameter"
		pre, e := join(aspgen.IdE("srcs"))
		body := append(append([]*aspgen.Stmt{}, pre...), aspgen.Assign("files", e),
			aspgen.Return(aspgen.E(aspgen.Ident(v), aspgen.Bin("+", aspgen.Str(": ")), aspgen.Bin("+", aspgen.Ident("files")))))
		add(aspgen.Def("describe", []aspgen.Arg{{Name: v}, {Name: "srcs"}}, body...))
		add(aspgen.Assign("described", aspgen.E(aspgen.Call("describe", aspgen.StrE("lib"), aspgen.E(strList(r, r.Range(1, 3)))))))
		add(aspgen.Assign("none", aspgen.E(aspgen.Call("describe", aspgen.StrE("bin"), aspgen.E(aspgen.List())))))
		p.readBack["described"], p.readBack["none"] = true, true
	case 2:
		// the variable of the enclosing for loop, used after the join in the loop body and after the loop
		p.kind = "loop-variable"
		add(aspgen.Assign("lines", aspgen.E(aspgen.List())))
		groups := []*aspgen.Expr{}
		for i, n := 0, r.Range(1, 3); i < n; i++ {
			groups = append(groups, aspgen.E(aspgen.List(aspgen.StrE(fmt.Sprintf("g%d", i)), aspgen.E(strList(r, r.Range(0, 3))))))
		}
		pre, e := join(aspgen.IdE("parts"))
		body := append(append([]*aspgen.Stmt{}, pre...), aspgen.Assign("s", e),
			aspgen.Aug("lines", aspgen.E(aspgen.List(aspgen.E(aspgen.Ident(v), aspgen.Bin("+", aspgen.Str(":")), aspgen.Bin("+", aspgen.Ident("s")))))))
		add(aspgen.For([]string{v, "parts"}, aspgen.E(aspgen.List(groups...)), body...))
		add(aspgen.Assign("last", aspgen.IdE(v)))
		p.readBack["lines"], p.readBack["last"], p.readBack[v] = true, true, true
	default:
		// two loop names, one of them a global
		p.kind = "two-names"
		add(aspgen.Assign(v, aspgen.StrE("outer")), aspgen.Assign("w", aspgen.IntE(5)))
		pairs := []*aspgen.Expr{}
		for i, n := 0, r.Range(1, 3); i < n; i++ {
			pairs = append(pairs, aspgen.E(aspgen.List(aspgen.StrE(lib.Pick(r, joinWords)), aspgen.StrE(lib.Pick(r, joinWords)))))
		}
		add(aspgen.Assign("pairs", aspgen.E(aspgen.List(pairs...))))
		comp := aspgen.E(aspgen.Comp(aspgen.E(aspgen.Ident(v), aspgen.Bin("+", aspgen.Ident("w"))), []string{v, "w"}, aspgen.IdE("pairs"), nil))
		if form == 0 || form == 4 {
			p.optimised = inDefs
			add(aspgen.Assign("joined", aspgen.E(aspgen.Method(aspgen.Str(sep), "join", comp))))
		} else {
			add(aspgen.Assign("joined", aspgen.E(aspgen.Method(aspgen.Str(sep), "join", aspgen.E(aspgen.Call("sorted", comp))))))
		}
		add(aspgen.Assign("after", aspgen.E(aspgen.List(aspgen.IdE(v), aspgen.IdE("w")))))
		p.readBack[v], p.readBack["w"], p.readBack["after"] = true, true, true
	}
	if inDefs {
		p.defs = prog
		p.build = aspgen.Prog{aspgen.CallStmt("subinclude", aspgen.StrE("//defs:d"))}
		if p.kind == "parameter" {
			// the BUILD file calls the imported (frozen) function again
			p.build = append(p.build, aspgen.Assign("again", aspgen.E(aspgen.Call("describe", aspgen.StrE("pkg"), aspgen.E(strList(r, 2))))))
			p.readBack["again"] = true
		}
	} else {
		p.build = prog
	}
	return p
}

// JoinRegressions: the fixed programs of the stream, each as a subincluded file (optimised path) and as a BUILD file (generic path).
func JoinRegressions() []*joinProbe {
	S, id := aspgen.StrE, aspgen.IdE
	join := func(sep string, comp *aspgen.Val) *aspgen.Expr {
		return aspgen.E(aspgen.Method(aspgen.Str(sep), "join", aspgen.E(comp)))
	}
	progs := []struct {
		kind string
		rb   []string
		p    aspgen.Prog
	}{
		{"global", []string{"name", "d"}, aspgen.Prog{ // (d: a leaked comprehension variable shows up as a NEW global)
			aspgen.Assign("name", S("lib")), aspgen.Assign("srcs", aspgen.E(aspgen.List(S("a.go"), S("b.go")))),
			aspgen.Assign("joined", join(" ", aspgen.Comp(id("name"), []string{"name"}, id("srcs"), nil))),
			aspgen.Assign("flags", join(" ", aspgen.Comp(aspgen.E(aspgen.Str("-I"), aspgen.Bin("+", aspgen.Ident("d"))), []string{"d"}, aspgen.E(aspgen.List(S("a"), S("b"))), nil))),
		}},
		{"parameter", []string{"described"}, aspgen.Prog{
			aspgen.Def("describe", []aspgen.Arg{{Name: "name"}, {Name: "srcs"}},
				aspgen.Assign("files", join(", ", aspgen.Comp(id("name"), []string{"name"}, id("srcs"), nil))),
				aspgen.Return(aspgen.E(aspgen.Ident("name"), aspgen.Bin("+", aspgen.Str(": ")), aspgen.Bin("+", aspgen.Ident("files"))))),
			aspgen.Assign("described", aspgen.E(aspgen.Call("describe", S("lib"), aspgen.E(aspgen.List(S("x.c"), S("y.c")))))),
		}},
		{"loop-variable", []string{"lines", "i"}, aspgen.Prog{
			aspgen.Assign("lines", aspgen.E(aspgen.List())),
			aspgen.For([]string{"i", "parts"}, aspgen.E(aspgen.List(aspgen.E(aspgen.List(S("1"), aspgen.E(aspgen.List(S("a"), S("b"))))), aspgen.E(aspgen.List(S("2"), aspgen.E(aspgen.List(S("c"))))))),
				aspgen.Assign("s", join("-", aspgen.Comp(id("i"), []string{"i"}, id("parts"), nil))),
				aspgen.Aug("lines", aspgen.E(aspgen.List(aspgen.E(aspgen.Ident("i"), aspgen.Bin("+", aspgen.Str(":")), aspgen.Bin("+", aspgen.Ident("s"))))))),
		}},
		{"filtered-to-nothing", []string{"x"}, aspgen.Prog{
			// every element is filtered out: the joined string is empty, yet the variable was bound for each element
			aspgen.Assign("x", S("keep")),
			aspgen.Assign("joined", join(",", aspgen.Comp(id("x"), []string{"x"}, aspgen.E(aspgen.List(S("p"), S("q"))), aspgen.E(aspgen.Ident("x"), aspgen.Bin("==", aspgen.Str("zz")))))),
		}},
	}
	var out []*joinProbe
	for _, pr := range progs {
		for _, inDefs := range []bool{true, false} {
			p := &joinProbe{kind: pr.kind, readBack: map[string]bool{}, optimised: inDefs}
			for _, n := range pr.rb {
				p.readBack[n] = true
			}
			if inDefs {
				p.defs, p.build = pr.p, aspgen.Prog{aspgen.CallStmt("subinclude", S("//defs:d"))}
			} else {
				p.build = pr.p
			}
			out = append(out, p)
		}
	}
	return out
}

// joinClass: asp and CPython differ only on globals computed from the shadowed variable after the join.
func joinClass(p *joinProbe, bad []string) bool {
	if len(bad) == 0 {
		return false
	}
	for _, b := range bad {
		if !p.readBack[b] {
			return false
		}
	}
	return true
}

func sortedNames(m map[string]bool) string {
	ks := []string{}
	for k := range m {
		ks = append(ks, k)
	}
	sort.Strings(ks)
	return strings.Join(ks, ",")
}
