// C16: two streams aimed at "every evaluation yields an independent fresh value" and at sorted(key=, reverse=).
//
// FreshProbe: `r = <operation on a>` for every operator / builtin that COULD hand back one of its operands (dict | with
// one empty side - literal {}, a variable holding {}, a parameter defaulting to {} -, d.copy(), list + [], [] + list,
// list * 1, sorted, reversed, sorted(sorted()), a comprehension, a helper with a default argument), followed by an
// index-assignment into the result or into the operand; every global is then read back. CPython: the other one is unchanged.
//
// SortProbe: sorted(l, key=f[, reverse=...]) on pairwise different elements with FEW different keys (ties everywhere),
// next to [f(x) for x in l]; the result must be CPython's (stable; reverse=True keeps equal keys in input order).
// Every call is also a model case (Model/C16_Sort.v SSort): keys as the real interpreter computed them, and the
// permutation it applied (2..12 elements, and 13..40 where the sort.Slice of before /repo 62283f2 was not stable).
package main

import (
	"encoding/json"
	"fmt"
	"strings"

	"verifharness/aspgen"
	"verifharness/lib"
)

// unionMeta describes a probe of the exact shape  x = {..}; y = {..}; r = x | y; <r or x>[k] = v  (for the SUnion case).
type unionMeta struct {
	left, right string // variable names of the operands
	ld, rd      [][2]any
	k           string
	v           int
	intoResult  bool
}

type freshProbe struct {
	prog  aspgen.Prog
	loose bool // uses something the evaluator model refuses (dict.copy)
	kind  string
	union *unionMeta
}

var dictKeys = []string{"a", "b", "k", "n", "zz"}

func genDictLit(r *lib.Rng, n int) (*aspgen.Val, [][2]any) {
	keys, vals, kv := []string{}, []*aspgen.Expr{}, [][2]any{}
	seen := map[string]bool{}
	for len(keys) < n {
		k := lib.Pick(r, dictKeys)
		if seen[k] {
			continue
		}
		seen[k] = true
		v := r.Range(0, 9)
		keys, vals, kv = append(keys, k), append(vals, aspgen.IntE(v)), append(kv, [2]any{k, v})
	}
	return aspgen.Dict(keys, vals), kv
}

func intsLit(r *lib.Rng, n int) *aspgen.Val {
	es := []*aspgen.Expr{}
	for i := 0; i < n; i++ {
		es = append(es, aspgen.IntE(r.Range(0, 9)))
	}
	return aspgen.List(es...)
}

func sortedCall(list *aspgen.Expr, key string, rev int) *aspgen.Val {
	v := aspgen.Call("sorted", list)
	if key != "" {
		v.Args = append(v.Args, aspgen.Arg{Name: "key", E: aspgen.IdE(key)})
	}
	switch rev {
	case 1:
		v.Args = append(v.Args, aspgen.Arg{Name: "reverse", E: aspgen.E(aspgen.True())})
	case 2:
		v.Args = append(v.Args, aspgen.Arg{Name: "reverse", E: aspgen.E(aspgen.False())})
	}
	return v
}

// FreshProbe generates one aliasing probe.
func FreshProbe(r *lib.Rng) *freshProbe {
	p := &freshProbe{}
	add := func(s ...*aspgen.Stmt) { p.prog = append(p.prog, s...) }
	if r.Chance(3, 5) {
		// ---- dicts
		nd := r.Range(0, 3)
		if r.Chance(2, 3) {
			nd = r.Range(1, 3)
		}
		dl, dkv := genDictLit(r, nd)
		ne := 0
		if r.Chance(1, 3) {
			ne = r.Range(1, 2)
		}
		el, ekv := genDictLit(r, ne)
		add(aspgen.Assign("d", aspgen.E(dl)), aspgen.Assign("e", aspgen.E(el)))
		k, v := lib.Pick(r, append([]string{"new"}, dictKeys...)), r.Range(10, 99)
		target := "r"
		switch r.Intn(8) {
		case 0, 1, 2:
			// both operands are variables: also a model case of the translated union
			left, right, ld, rd := "d", "e", dkv, ekv
			if r.Bool() {
				left, right, ld, rd = "e", "d", ekv, dkv
			}
			p.kind = "dict-union-vars"
			add(aspgen.Assign("r", aspgen.E(aspgen.Ident(left), aspgen.Bin("|", aspgen.Ident(right)))))
			into := r.Bool()
			if !into {
				target = left
			}
			p.union = &unionMeta{left: left, right: right, ld: ld, rd: rd, k: k, v: v, intoResult: into}
		case 3:
			p.kind = "dict-union-literal-empty"
			if r.Bool() {
				add(aspgen.Assign("r", aspgen.E(aspgen.Ident("d"), aspgen.Bin("|", aspgen.Dict(nil, nil)))))
			} else {
				add(aspgen.Assign("r", aspgen.E(aspgen.Dict(nil, nil), aspgen.Bin("|", aspgen.Ident("d")))))
			}
			target = lib.Pick(r, []string{"r", "d"})
		case 4, 5:
			// a helper merging its arguments, the second one optional: merge(d), merge(d, e), merge(e, d), merge(d, {})
			p.kind = "dict-union-default-arg"
			add(aspgen.Def("merge", []aspgen.Arg{{Name: "base"}, {Name: "extra", E: aspgen.E(aspgen.Dict(nil, nil))}},
				aspgen.Return(aspgen.E(aspgen.Ident("base"), aspgen.Bin("|", aspgen.Ident("extra"))))))
			var call *aspgen.Val
			switch r.Intn(4) {
			case 0:
				call = aspgen.Call("merge", aspgen.IdE("d"))
			case 1:
				call = aspgen.Call("merge", aspgen.IdE("d"), aspgen.IdE("e"))
			case 2:
				call = aspgen.Call("merge", aspgen.IdE("e"), aspgen.IdE("d"))
			default:
				call = aspgen.Call("merge", aspgen.IdE("d"), aspgen.E(aspgen.Dict(nil, nil)))
			}
			add(aspgen.Assign("r", aspgen.E(call)))
			target = lib.Pick(r, []string{"r", "d", "e"})
		case 6:
			// kwargs | extra inside a rule-like function, the result is written to before it is returned
			p.kind = "dict-union-kwargs"
			add(aspgen.Def("rule", []aspgen.Arg{{Name: "kwargs"}, {Name: "extra", E: aspgen.E(aspgen.Dict(nil, nil))}},
				aspgen.Assign("args", aspgen.E(aspgen.Ident("kwargs"), aspgen.Bin("|", aspgen.Ident("extra")))),
				aspgen.IdxAssign("args", aspgen.StrE("name"), aspgen.IntE(r.Range(1, 9))),
				aspgen.Return(aspgen.IdE("args"))))
			if r.Bool() {
				add(aspgen.Assign("r", aspgen.E(aspgen.Call("rule", aspgen.IdE("d")))))
			} else {
				add(aspgen.Assign("r", aspgen.E(aspgen.Call("rule", aspgen.IdE("e"), aspgen.IdE("d")))))
			}
			add(aspgen.Assign("r2", aspgen.E(aspgen.Call("rule", aspgen.IdE("d")))))
			target = lib.Pick(r, []string{"r", "d"})
		default:
			p.kind = "dict-copy"
			p.loose = true
			add(aspgen.Assign("r", aspgen.E(aspgen.Method(aspgen.Ident("d"), "copy"))))
			target = lib.Pick(r, []string{"r", "d"})
		}
		add(aspgen.IdxAssign(target, aspgen.StrE(k), aspgen.IntE(v)))
		if r.Chance(1, 3) {
			// once more on the result: the second union has an empty side for sure
			p.union = nil
			add(aspgen.Assign("s", aspgen.E(aspgen.Ident("r"), aspgen.Bin("|", aspgen.Dict(nil, nil)))),
				aspgen.IdxAssign(lib.Pick(r, []string{"s", "r"}), aspgen.StrE(lib.Pick(r, dictKeys)), aspgen.IntE(r.Range(100, 199))))
		}
		return p
	}
	// ---- lists
	add(aspgen.Assign("a", aspgen.E(intsLit(r, r.Range(1, 4)))))
	a := aspgen.IdE("a")
	switch r.Intn(10) {
	case 0:
		p.kind = "list-add-empty"
		add(aspgen.Assign("r", aspgen.E(aspgen.Ident("a"), aspgen.Bin("+", aspgen.List()))))
	case 1:
		p.kind = "empty-add-list"
		add(aspgen.Assign("r", aspgen.E(aspgen.List(), aspgen.Bin("+", aspgen.Ident("a")))))
	case 2:
		p.kind = "list-mul-one"
		add(aspgen.Assign("r", aspgen.E(aspgen.Ident("a"), aspgen.Bin("*", aspgen.Int(1)))))
	case 3:
		p.kind = "sorted"
		add(aspgen.Assign("r", aspgen.E(sortedCall(a, "", r.Intn(3)))))
	case 4:
		p.kind = "reversed"
		add(aspgen.Assign("r", aspgen.E(aspgen.Call("reversed", a))))
	case 5:
		p.kind = "sorted-of-sorted"
		add(aspgen.Assign("q", aspgen.E(sortedCall(a, "", 0))), aspgen.Assign("r", aspgen.E(sortedCall(aspgen.IdE("q"), "", r.Intn(3)))))
	case 6:
		p.kind = "reversed-of-reversed"
		add(aspgen.Assign("q", aspgen.E(aspgen.Call("reversed", a))), aspgen.Assign("r", aspgen.E(aspgen.Call("reversed", aspgen.IdE("q")))))
	case 7:
		p.kind = "comprehension-identity"
		add(aspgen.Assign("r", aspgen.E(aspgen.Comp(aspgen.IdE("x"), []string{"x"}, a, nil))))
	case 8:
		p.kind = "list-add-default-arg"
		add(aspgen.Def("extend", []aspgen.Arg{{Name: "base"}, {Name: "extra", E: aspgen.E(aspgen.List())}},
			aspgen.Return(aspgen.E(aspgen.Ident("base"), aspgen.Bin("+", aspgen.Ident("extra"))))))
		add(aspgen.Assign("r", aspgen.E(aspgen.Call("extend", a))))
	default:
		p.kind = "sorted-with-key"
		p.loose = true
		add(aspgen.Def("ident", []aspgen.Arg{{Name: "x"}}, aspgen.Return(aspgen.IdE("x"))))
		add(aspgen.Assign("r", aspgen.E(sortedCall(a, "ident", r.Intn(3)))))
	}
	target := lib.Pick(r, []string{"r", "a"})
	add(aspgen.IdxAssign(target, aspgen.IntE(0), aspgen.IntE(r.Range(10, 99))))
	if target == "r" && r.Chance(1, 3) {
		add(aspgen.Assign("t", aspgen.E(aspgen.Ident("r"), aspgen.Bin("+", aspgen.List()))), aspgen.IdxAssign("t", aspgen.IntE(0), aspgen.IntE(r.Range(100, 199))))
	}
	return p
}

func zkvCoq(kv [][2]any) string {
	items := []string{}
	for _, e := range kv {
		items = append(items, lib.Pair(lib.Str(e[0].(string)), lib.Z(int64(e[1].(int)))))
	}
	return lib.List(items)
}

// obsZDict renders a plain dict of ints as the sorted (key, value) list the model prints
func obsZDict(v any) (string, bool) {
	m, ok := v.(map[string]any)
	if !ok {
		return "", false
	}
	items := []string{}
	for _, k := range lib.SortedKeys(m) {
		n, ok := m[k].(json.Number)
		if !ok {
			return "", false
		}
		items = append(items, lib.Pair(lib.Str(k), "("+string(n)+")%Z"))
	}
	return lib.List(items), true
}

// ---------------------------------------------------------------------------------------------

type sortCall struct {
	name string
	rev  bool
}

type sortProbe struct {
	prog  aspgen.Prog
	n     int
	kind  string
	calls []sortCall // the calls with key=
}

// SortProbe generates one sorted(key=) program; big: 13..40 elements (sort.Slice was pdqsort there).
func SortProbe(r *lib.Rng, big bool) *sortProbe {
	p := &sortProbe{}
	n := r.Range(2, 12)
	if r.Chance(1, 3) {
		n = r.Range(6, 12)
	}
	if big {
		n = r.Range(13, 40)
	}
	p.n = n
	var elems []*aspgen.Expr
	var key *aspgen.Expr
	x := aspgen.Ident("x")
	switch r.Intn(3) {
	case 0:
		p.kind = "ints"
		perm := make([]int, 60)
		for i := range perm {
			perm[i] = i
		}
		lib.Shuffle(r, perm)
		for _, v := range perm[:n] {
			elems = append(elems, aspgen.IntE(v))
		}
		switch r.Intn(4) {
		case 0, 1:
			key = aspgen.E(x, aspgen.Bin("%", aspgen.Int(r.Range(2, 4))))
			p.kind += ":mod"
		case 2:
			key = aspgen.E(x, aspgen.Bin("//", aspgen.Int(lib.Pick(r, []int{10, 20, 30}))))
			p.kind += ":div"
		default:
			key = aspgen.IntE(0)
			p.kind += ":const"
		}
	case 1:
		p.kind = "strs"
		perm := make([]int, 60)
		for i := range perm {
			perm[i] = i
		}
		lib.Shuffle(r, perm)
		for _, v := range perm[:n] {
			elems = append(elems, aspgen.StrE(string(rune('a'+v%3))+strings.Repeat("x", v%4)+fmt.Sprint(v)))
		}
		if r.Bool() {
			key = aspgen.E(aspgen.Call("len", aspgen.IdE("x")))
			p.kind += ":len"
		} else {
			key = aspgen.E(aspgen.Index(x, aspgen.IntE(0)))
			p.kind += ":first"
		}
	default:
		p.kind = "pairs"
		m := r.Range(1, 3)
		for i := 0; i < n; i++ {
			var k *aspgen.Expr
			if r.Bool() {
				k = aspgen.IntE(r.Range(0, m))
			} else {
				k = aspgen.IntE(r.Range(0, m) * 7 % 5)
			}
			elems = append(elems, aspgen.E(aspgen.List(k, aspgen.IntE(100+i))))
		}
		key = aspgen.E(aspgen.Index(x, aspgen.IntE(0)))
		p.kind += ":first"
	}
	p.prog = aspgen.Prog{
		aspgen.Def("kf", []aspgen.Arg{{Name: "x"}}, aspgen.Return(key)),
		aspgen.Assign("l", aspgen.E(aspgen.List(elems...))),
		aspgen.Assign("ks", aspgen.E(aspgen.Comp(aspgen.E(aspgen.Call("kf", aspgen.IdE("x"))), []string{"x"}, aspgen.IdE("l"), nil))),
		aspgen.Assign("up", aspgen.E(sortedCall(aspgen.IdE("l"), "kf", 0))),
		aspgen.Assign("down", aspgen.E(sortedCall(aspgen.IdE("l"), "kf", 1))),
	}
	p.calls = []sortCall{{"up", false}, {"down", true}}
	if r.Chance(1, 3) {
		p.prog = append(p.prog, aspgen.Assign("up2", aspgen.E(sortedCall(aspgen.IdE("l"), "kf", 2))))
		p.calls = append(p.calls, sortCall{"up2", false})
	}
	if r.Chance(1, 3) && !strings.HasPrefix(p.kind, "pairs") {
		p.prog = append(p.prog, aspgen.Assign("plain", aspgen.E(sortedCall(aspgen.IdE("l"), "", 1))))
	}
	// the caller's list must not have been touched
	p.prog = append(p.prog, aspgen.Assign("l2", aspgen.E(aspgen.Ident("l"), aspgen.Bin("+", aspgen.List()))))
	return p
}

// sortCase builds the SSort term of one call from what the real interpreter printed; "" when it cannot be built
func sortCase(final map[string]any, c sortCall) (string, map[string]any) {
	plain := aspgen.PlainGlobals(final)
	l, ok1 := plain["l"].([]any)
	ks, ok2 := plain["ks"].([]any)
	res, ok3 := plain[c.name].([]any)
	if !ok1 || !ok2 || !ok3 || len(l) != len(ks) {
		return "", nil
	}
	pos := map[string]int{}
	for i, e := range l {
		pos[aspgen.Canon(e)] = i
	}
	if len(pos) != len(l) {
		return "", nil
	}
	keys := []string{}
	for _, k := range ks {
		switch t := k.(type) {
		case json.Number:
			keys = append(keys, "(KInt ("+string(t)+")%Z)")
		case string:
			keys = append(keys, "(KStr "+lib.Str(t)+")")
		default:
			return "", nil
		}
	}
	perm := []int{}
	for _, e := range res {
		i, ok := pos[aspgen.Canon(e)]
		if !ok {
			// an element that is not in the input: no permutation to speak of, the model case must fail
			i = len(l)
		}
		perm = append(perm, i)
	}
	return lib.App("SSort", lib.List(keys), lib.Bool(c.rev), natList(perm)), map[string]any{"keys": ks, "reverse": c.rev, "permutation": perm}
}

// onlyTieOrderDiffers: a and b hold the same elements, and wherever they differ the elements have the same key
func onlyTieOrderDiffers(a, b []any, keyOf map[string]string) bool {
	if len(a) != len(b) {
		return false
	}
	count := map[string]int{}
	for i := range a {
		ca, cb := aspgen.Canon(a[i]), aspgen.Canon(b[i])
		count[ca]++
		count[cb]--
		ka, oka := keyOf[ca]
		kb, okb := keyOf[cb]
		if !oka || !okb || ka != kb {
			return false
		}
	}
	for _, v := range count {
		if v != 0 {
			return false
		}
	}
	return true
}

func natList(xs []int) string {
	out := make([]string, len(xs))
	for i, x := range xs {
		out[i] = lib.Nat(x)
	}
	return lib.List(out)
}
