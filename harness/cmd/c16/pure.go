// C16: the pure fragment (Model/C16_Pure.v).
// inPureSubset mirrors the Coq predicate in_pure_subset on the Go AST (the correspondence compares the two verdicts
// on every generated program); PureGen generates programs aimed at the fragment: operator chains over ints, strings
// and lists (truthiness of lists inside and/or/not), inline if, list literals and list +, if / elif / else, for loops
// with break / continue, += on scalars, assert.
package main

import (
	"fmt"

	"verifharness/aspgen"
	"verifharness/lib"
)

var builtinNames = map[string]bool{"len": true, "sorted": true, "reversed": true, "range": true, "enumerate": true, "zip": true,
	"any": true, "all": true, "min": true, "max": true, "str": true, "bool": true, "int": true, "subinclude": true, "map": true,
	"filter": true, "reduce": true, "isinstance": true}

const pureDepth = 40

func plainName(n string) bool { return !builtinNames[n] }

func pureExpr(n int, e *aspgen.Expr) bool {
	if n == 0 || e == nil {
		return false
	}
	k := n - 1
	if !pureVal(k, e.Val) {
		return false
	}
	for _, o := range e.Ops {
		if o.Val == nil {
			continue
		}
		if !pureVal(k, o.Val) {
			return false
		}
		switch o.Op {
		case "is", "is not", "|", "/":
			return false
		}
	}
	if aspgen.ChainClass(e.Ops) != "" {
		return false
	}
	if e.If != nil {
		return pureExpr(k, e.If) && pureExpr(k, e.Els)
	}
	return true
}

func pureVal(n int, v *aspgen.Val) bool {
	if n == 0 || v == nil {
		return false
	}
	k := n - 1
	if len(v.Slices) > 0 || v.PMeth != "" || v.Meth != "" {
		return false
	}
	switch v.K {
	case "int", "str", "true", "false", "none":
		return true
	case "ident":
		return !v.Call && plainName(v.Name)
	case "paren":
		return pureExpr(k, v.Items[0])
	case "list":
		for _, e := range v.Items {
			if !pureExpr(k, e) {
				return false
			}
		}
		return true
	}
	return false
}

func pureBlock(n int, inloop bool, ss []*aspgen.Stmt) bool {
	for _, s := range ss {
		if !pureStmt(n, inloop, s) {
			return false
		}
	}
	return true
}

func pureStmt(n int, inloop bool, s *aspgen.Stmt) bool {
	if n == 0 {
		return false
	}
	k := n - 1
	switch s.K {
	case "pass":
		return true
	case "break", "continue":
		return inloop
	case "assign", "aug":
		return plainName(s.Name) && pureExpr(k, s.E)
	case "assert":
		return pureExpr(k, s.E)
	case "if":
		if !pureExpr(k, s.E) || !pureBlock(k, inloop, s.Body) {
			return false
		}
		for _, el := range s.Elif {
			if !pureExpr(k, el.E) || !pureBlock(k, inloop, el.Body) {
				return false
			}
		}
		return pureBlock(k, inloop, s.Else)
	case "for":
		return len(s.Names) == 1 && plainName(s.Names[0]) && pureExpr(k, s.E) && pureBlock(k, true, s.Body)
	}
	return false
}

func inPureSubset(p aspgen.Prog) bool { return pureBlock(pureDepth, false, p) }

// ---------------------------------------------------------------------------------------------

type pureGen struct {
	r     *lib.Rng
	ints  []string
	strs  []string
	lists []string
	n     int
	out   aspgen.Prog
}

func (g *pureGen) fresh(kind string) string {
	g.n++
	name := fmt.Sprintf("%s%d", kind, g.n)
	switch kind {
	case "i":
		g.ints = append(g.ints, name)
	case "s":
		g.strs = append(g.strs, name)
	case "l":
		g.lists = append(g.lists, name)
	}
	return name
}

func (g *pureGen) intLit() *aspgen.Val {
	r := g.r
	switch r.Intn(8) {
	case 0:
		return aspgen.Int(-r.Range(1, 9))
	case 1:
		return aspgen.Int(r.Range(10, 500))
	case 2:
		return aspgen.Int(lib.Pick(r, []int{2147483647, 65536, 3037000500, -2147483648}))
	default:
		return aspgen.Int(r.Range(0, 9))
	}
}

func (g *pureGen) intLeaf(depth int) *aspgen.Val {
	r := g.r
	if len(g.ints) > 0 && r.Chance(2, 5) {
		return aspgen.Ident(lib.Pick(r, g.ints))
	}
	if depth > 0 && r.Chance(1, 5) {
		if r.Bool() {
			return aspgen.Paren(g.intExpr(depth - 1))
		}
		return aspgen.Paren(&aspgen.Expr{Val: g.intLeaf(0), If: g.boolExpr(depth - 1), Els: aspgen.E(g.intLeaf(0))})
	}
	return g.intLit()
}

// safe cuts the chain down to its longest prefix that interpretOps groups like CPython
func safe(first *aspgen.Val, ops []aspgen.Op) *aspgen.Expr {
	k := len(ops)
	for k > 0 && aspgen.ChainClass(ops[:k]) != "" {
		k--
	}
	return &aspgen.Expr{Val: first, Ops: ops[:k]}
}

func (g *pureGen) intExpr(depth int) *aspgen.Expr {
	r := g.r
	first := g.intLeaf(depth)
	var ops []aspgen.Op
	for k := r.Range(0, 3); k > 0; k-- {
		op := lib.Pick(r, []string{"+", "-", "*", "+", "-", "*", "%", "//"})
		v := g.intLeaf(depth)
		if (op == "%" || op == "//") && !r.Chance(1, 10) {
			d := r.Range(1, 9)
			if r.Chance(1, 4) {
				d = -d
			}
			v = aspgen.Int(d)
		}
		ops = append(ops, aspgen.Bin(op, v))
	}
	return safe(first, ops)
}

func (g *pureGen) strLeaf() *aspgen.Val {
	if len(g.strs) > 0 && g.r.Bool() {
		return aspgen.Ident(lib.Pick(g.r, g.strs))
	}
	return aspgen.Str(lib.Pick(g.r, []string{"a", "b", "lib", "héllo", "", "x-1", "Zed", "a b", "10"}))
}

func (g *pureGen) strExpr() *aspgen.Expr {
	first := g.strLeaf()
	var ops []aspgen.Op
	for k := g.r.Range(0, 2); k > 0; k-- {
		ops = append(ops, aspgen.Bin("+", g.strLeaf()))
	}
	return &aspgen.Expr{Val: first, Ops: ops}
}

func (g *pureGen) listLit() *aspgen.Val {
	es := []*aspgen.Expr{}
	for k := g.r.Range(0, 4); k > 0; k-- {
		es = append(es, g.intExpr(1))
	}
	return aspgen.List(es...)
}

// a list of strings and ints: only ever assigned, compared for truth and concatenated
func (g *pureGen) mixedLit() *aspgen.Val {
	es := []*aspgen.Expr{}
	for k := g.r.Range(1, 3); k > 0; k-- {
		if g.r.Bool() {
			es = append(es, g.strExpr())
		} else {
			es = append(es, g.intExpr(1))
		}
	}
	return aspgen.List(es...)
}

func (g *pureGen) listExpr() *aspgen.Expr {
	r := g.r
	if len(g.lists) > 0 && r.Chance(1, 3) {
		v := aspgen.Ident(lib.Pick(r, g.lists))
		if r.Bool() {
			lit := g.listLit()
			if len(lit.Items) == 0 {
				lit = aspgen.List(aspgen.IntE(r.Range(0, 9)))
			}
			return aspgen.E(v, aspgen.Bin("+", lit))
		}
		return aspgen.E(v)
	}
	return aspgen.E(g.listLit())
}

// anything with a truth value
func (g *pureGen) truthLeaf(depth int) *aspgen.Val {
	r := g.r
	switch r.Intn(7) {
	case 0:
		if len(g.lists) > 0 {
			return aspgen.Ident(lib.Pick(r, g.lists))
		}
	case 1:
		if r.Bool() {
			return g.mixedLit()
		}
		return g.listLit()
	case 2:
		return g.strLeaf()
	case 3:
		return lib.Pick(r, []*aspgen.Val{aspgen.True(), aspgen.False(), aspgen.None()})
	}
	return g.intLeaf(depth)
}

func (g *pureGen) cmp(depth int) (*aspgen.Val, []aspgen.Op) {
	r := g.r
	if r.Chance(1, 6) {
		l, rr := g.strLeaf(), g.strLeaf()
		return l, []aspgen.Op{aspgen.Bin(lib.Pick(r, []string{"<", ">", "==", "!=", "in", "not in", "<=", ">="}), rr)}
	}
	l, rr := g.intExpr(depth), g.intExpr(depth)
	ops := append(append([]aspgen.Op{}, l.Ops...), aspgen.Bin(lib.Pick(r, []string{"<", ">", "<=", ">=", "==", "!="}), rr.Val))
	ops = append(ops, rr.Ops...)
	return l.Val, ops
}

func (g *pureGen) boolExpr(depth int) *aspgen.Expr {
	r := g.r
	var first *aspgen.Val
	var ops []aspgen.Op
	term := func() (*aspgen.Val, []aspgen.Op) {
		if depth > 0 && r.Chance(1, 2) {
			return g.cmp(depth - 1)
		}
		return g.truthLeaf(depth), nil
	}
	first, ops = term()
	if r.Chance(1, 5) {
		ops = append([]aspgen.Op{aspgen.Un("not")}, ops...)
	}
	for k := r.Range(0, 3); k > 0; k-- {
		v, o := term()
		ops = append(ops, aspgen.Bin(lib.Pick(r, []string{"and", "or"}), v))
		ops = append(ops, o...)
	}
	return safe(first, ops)
}

func (g *pureGen) assign(inloop bool) *aspgen.Stmt {
	r := g.r
	switch r.Intn(9) {
	case 0, 1:
		e := g.intExpr(2)
		return aspgen.Assign(g.fresh("i"), e)
	case 2:
		e := g.boolExpr(2)
		return aspgen.Assign(g.fresh("b"), e)
	case 3:
		e := g.strExpr()
		return aspgen.Assign(g.fresh("s"), e)
	case 4, 5:
		e := g.listExpr()
		return aspgen.Assign(g.fresh("l"), e)
	case 6:
		if len(g.ints) > 0 {
			return aspgen.Aug(lib.Pick(r, g.ints), g.intExpr(1))
		}
	case 7:
		if len(g.strs) > 0 {
			return aspgen.Aug(lib.Pick(r, g.strs), g.strExpr())
		}
	}
	e := &aspgen.Expr{Val: g.intLeaf(1), If: g.boolExpr(1), Els: g.intExpr(1)}
	return aspgen.Assign(g.fresh("i"), e)
}

// block: the names defined inside a nested block are not used after it (it may not run)
func (g *pureGen) block(n int, depth int, inloop bool) []*aspgen.Stmt {
	si, ss, sl := len(g.ints), len(g.strs), len(g.lists)
	out := []*aspgen.Stmt{}
	for ; n > 0; n-- {
		out = append(out, g.stmt(depth, inloop))
	}
	g.ints, g.strs, g.lists = g.ints[:si], g.strs[:ss], g.lists[:sl]
	return out
}

func (g *pureGen) stmt(depth int, inloop bool) *aspgen.Stmt {
	r := g.r
	if depth > 0 {
		switch r.Intn(8) {
		case 0, 1:
			s := &aspgen.Stmt{K: "if", E: g.boolExpr(1), Body: g.block(r.Range(1, 2), depth-1, inloop)}
			for k := r.Range(0, 2); k > 0; k-- {
				s.Elif = append(s.Elif, &aspgen.Stmt{K: "elif", E: g.boolExpr(1), Body: g.block(1, depth-1, inloop)})
			}
			if r.Bool() {
				s.Else = g.block(1, depth-1, inloop)
			}
			return s
		case 2, 3:
			var it *aspgen.Expr
			if len(g.lists) > 0 && r.Bool() {
				it = aspgen.IdE(lib.Pick(r, g.lists))
			} else {
				es := []*aspgen.Expr{}
				for k := r.Range(0, 5); k > 0; k-- {
					es = append(es, aspgen.E(g.intLit()))
				}
				it = aspgen.E(aspgen.List(es...))
			}
			si := len(g.ints)
			x := g.fresh("i")
			body := g.block(r.Range(1, 3), depth-1, true)
			g.ints = g.ints[:si] // the loop variable is unbound after a loop over an empty list
			return aspgen.For([]string{x}, it, body...)
		}
	}
	if inloop && r.Chance(1, 8) {
		return &aspgen.Stmt{K: lib.Pick(r, []string{"break", "continue"})}
	}
	if r.Chance(1, 14) {
		return &aspgen.Stmt{K: "assert", E: g.boolExpr(1)}
	}
	return g.assign(inloop)
}

// PureProgram generates one program of the pure fragment.
func PureProgram(r *lib.Rng) aspgen.Prog {
	g := &pureGen{r: r}
	// a few variables first, so that the later statements have something to work on
	e0 := g.intExpr(1)
	g.out = append(g.out, aspgen.Assign(g.fresh("i"), e0))
	l0 := aspgen.E(g.listLit())
	g.out = append(g.out, aspgen.Assign(g.fresh("l"), l0))
	for n := r.Range(2, 6); n > 0; n-- {
		g.out = append(g.out, g.stmt(2, false))
	}
	return g.out
}
