// C16: the BUILD language agrees with Python on its documented subset.
// Implementation side of the correspondence (real asp interpreter through the verif hook; python3 for the
// reference model) and the property oracle: real asp against python3 on the same program text.
package main

import (
	"fmt"
	"os"
	"os/exec"
	"path/filepath"
	"regexp"
	"sort"
	"strings"
	"sync"
	"time"

	"verifharness/aspgen"
	"verifharness/lib"

	gologging "gopkg.in/op/go-logging.v1"
)

type item struct {
	name    string
	stream  string
	tpl     *aspgen.Template
	defs    aspgen.Prog
	build   aspgen.Prog
	raw     string
	loose   bool // large integers etc.: the model may refuse (EUnsupported) without that being a disagreement
	noPy    bool // no CPy case (octal literal: the AST holds asp's reading)
	src     string
	pysrc   string
	asp     aspgen.Result
	py      aspgen.PyResult
	pyIdx   int
	verdict string
	files   []aspgen.File
	fresh   *freshProbe    // stream "fresh"
	sortp   *sortProbe     // stream "sortkey"
	used    map[string]int // stream "pure2": the constructs of the enlarged fragment the program uses
	must    bool           // stream "pure3": the reference run pure2_run has to succeed on this program (P2Must)
	refused bool           // the evaluator model refuses part of the program (dict.copy, sorted(key=)): a refusal is no disagreement
	lazyp   *lazyProbe     // stream "lazy"
	joinp   *joinProbe     // stream "joincomp"
}

func hasBigInt(p aspgen.Prog) bool {
	big := false
	var ve func(e *aspgen.Expr)
	var vv func(v *aspgen.Val)
	vv = func(v *aspgen.Val) {
		if v == nil {
			return
		}
		if v.K == "int" && (v.Int > 1<<31 || v.Int < -(1<<31)) {
			big = true
		}
		for _, e := range v.Items {
			ve(e)
		}
		for _, e := range v.Keys {
			ve(e)
		}
		ve(v.Iter)
		ve(v.Cond)
		for _, a := range v.Args {
			ve(a.E)
		}
		for _, a := range v.MArgs {
			ve(a.E)
		}
		for _, a := range v.PMArgs {
			ve(a.E)
		}
		for _, s := range v.Slices {
			ve(s.Lo)
			ve(s.Hi)
		}
	}
	ve = func(e *aspgen.Expr) {
		if e == nil {
			return
		}
		vv(e.Val)
		for _, o := range e.Ops {
			vv(o.Val)
		}
		ve(e.If)
		ve(e.Els)
	}
	var vs func(ss []*aspgen.Stmt)
	vs = func(ss []*aspgen.Stmt) {
		for _, s := range ss {
			ve(s.Idx)
			ve(s.E)
			for _, a := range s.Args {
				ve(a.E)
			}
			vs(s.Body)
			vs(s.Elif)
			vs(s.Else)
		}
	}
	vs(p)
	return big
}

func chainStats(p aspgen.Prog) (maxOps int, classes []string) {
	seen := map[string]bool{}
	var ve func(e *aspgen.Expr)
	var vv func(v *aspgen.Val)
	vv = func(v *aspgen.Val) {
		if v == nil {
			return
		}
		for _, e := range v.Items {
			ve(e)
		}
		ve(v.Iter)
		ve(v.Cond)
		for _, a := range v.Args {
			ve(a.E)
		}
	}
	ve = func(e *aspgen.Expr) {
		if e == nil {
			return
		}
		if len(e.Ops) > maxOps {
			maxOps = len(e.Ops)
		}
		if c := aspgen.ChainClass(e.Ops); c != "" && !seen[c] {
			seen[c] = true
			classes = append(classes, c)
		}
		vv(e.Val)
		for _, o := range e.Ops {
			vv(o.Val)
		}
		ve(e.If)
		ve(e.Els)
	}
	var vs func(ss []*aspgen.Stmt)
	vs = func(ss []*aspgen.Stmt) {
		for _, s := range ss {
			ve(s.E)
			vs(s.Body)
			vs(s.Else)
		}
	}
	vs(p)
	sort.Strings(classes)
	return
}

// plain comparison of asp's final globals with python's: every name python reports must be there with the same value
func diffVars(asp map[string]any, py map[string]any, skipped []string) []string {
	ap := aspgen.PlainGlobals(asp)
	skip := map[string]bool{}
	for _, s := range skipped {
		skip[s] = true
	}
	names := map[string]bool{}
	for k := range ap {
		names[k] = true
	}
	for k := range py {
		names[k] = true
	}
	out := []string{}
	for k := range names {
		if skip[k] {
			continue
		}
		a, inA := ap[k]
		p, inP := py[k]
		if inA && inP && aspgen.Canon(a) == aspgen.Canon(p) {
			continue
		}
		out = append(out, k)
	}
	sort.Strings(out)
	return out
}

func coqOutcome(r aspgen.Result) string {
	if r.Err != "" {
		return "OErr"
	}
	return "(OGlobals " + aspgen.CoqGlobals(r.After) + " " + aspgen.CoqGlobals(r.Final) + ")"
}

// python's plain globals as a Coq obs list
func coqPyObs(v any) string {
	switch t := v.(type) {
	case nil:
		return "ONone"
	case bool:
		return "(OBool " + lib.Bool(t) + ")"
	case string:
		return "(OStr " + lib.Str(t) + ")"
	case []any:
		items := []string{}
		for _, x := range t {
			items = append(items, coqPyObs(x))
		}
		return "(OList false 0%nat " + lib.List(items) + ")"
	case map[string]any:
		items := []string{}
		for _, k := range lib.SortedKeys(t) {
			items = append(items, "("+lib.Str(k)+", "+coqPyObs(t[k])+")")
		}
		return "(ODict false " + lib.List(items) + ")"
	default:
		return fmt.Sprintf("(OInt (%v)%%Z)", t)
	}
}

func main() {
	gologging.SetLevel(gologging.CRITICAL, "plz")
	lib.Main("C16", func(c *lib.Ctx) {
		c.Model("From PlzV Require Import Model.C16_Syntax Model.C16_Eval Model.C16 Model.C16_Pure Model.C16_Sort Model.C16_Pure2.", "C16_Pure2.case", "C16_Pure2.check")
		c.Rule("programs of the BUILD language generated as ASTs (typed trees flattened with only the parentheses CPython needs, so chains of 3-6 operators of mixed " +
			"precedence; negative/large ints, non-ASCII strings, lists, dicts, comprehensions with filters, functions with defaults, for/if, builtins len sorted reversed " +
			"range enumerate zip any all min max str join split keys), printed once, the text parsed and interpreted by the real asp (printer validated: the real parser's " +
			"AST must equal the generated one) and executed by python3; plus one witness per known difference and the pre-fix corpus, an ill-typed stream, and a stream " +
			"aimed at the PURE fragment of Model/C16_Pure.v (chains over ints/strings/lists with list truthiness, inline if, list +, if/elif/else, for with break/continue, " +
			"+= on scalars, assert), a stream of ALIASING PROBES (r = <operation on a> for every operator/builtin that could hand back an operand - dict | with one " +
			"empty side as literal {}, variable, defaulted parameter, kwargs | extra; d.copy(); list + [], [] + list, list * 1, sorted, reversed, sorted of sorted, " +
			"identity comprehension - then an index-assignment into the result or the operand, all globals read back; the dict unions over two variables are also SUnion " +
			"model cases of the union steps gotrans translated), and a stream of sorted(l, key=f, reverse=...) calls on pairwise different elements with few different " +
			"keys (ints by x % m / x // m / constant, strings by len / first rune, pairs by first component; 2-12 elements, each call also an SSort model case with the " +
			"keys the real interpreter computed; 2-12 and 13-40 elements, the latter being where sort.Slice - replaced by sort.SliceStable in /repo 62283f2 - was pdqsort); every single-file program is ALSO a PPure case: the Go verdict on membership in the fragment must equal Coq's in_pure_subset on the " +
			"same AST, and whenever the reference run pure_run succeeds the real interpreter must have run without error, agreed with python3, and printed its globals. " +
			"and a stream aimed at the ENLARGED pure fragment of Model/C16_Pure2.v (def with positional / keyword / scalar-default arguments, recursion, calls as statements, " +
			"comprehensions with and without filter over lists and range(), for over range() and over enumerate / zip with two names, len str bool any all reversed sorted min max, " +
			"dict literals with ascending - sometimes not - keys, index, in, get keys values items, join split startswith endswith upper lower): every single-file program is ALSO a " +
			"P2Pure case (Go verdict on in_pure2_subset against Coq's; whenever pure2_run succeeds the real interpreter ran without error, agreed with python3 and printed the reference globals); " +
			"third deepening: the pure2 stream also generates enumerate / zip / items() as values, str % scalar (%s %d %%, with verb/argument mismatches), slices of lists and strings " +
			"(bounds negative, beyond the ends, lo > hi; ASCII strings only - a slice of a string with multi-byte runes is the template witness of string-slice-by-bytes), unpacking assignment (sometimes of the wrong length), dict | dict (merged keys ascending or not), " +
			"sorted(l, reverse=...); four FIXED programs (stream pure3: the third-deepening part of the non-vacuity example of Props/C16.v, and the boundary cases of slices, of the " +
			"lists of fresh lists, of % / | / reverse=) are P2Must cases: the reference run has to succeed on them inside Coq and the real runs have to print its globals; is_ok (pure2_run FUEL p) is evaluated by coqc for every program of the fragment's shape and counted (hist pure2_run*, the denominator of the agreement theorem). " +
			"distinct = distinct program texts; non-trivial = a chain of >= 2 operators of different precedence, or a list/dict/function/loop")

		var items []*item
		add := func(it *item) { items = append(items, it) }
		for _, t := range aspgen.Templates() {
			t := t
			add(&item{name: "tpl:" + t.Name, stream: "template", tpl: &t, defs: t.Defs, build: t.Build, raw: t.Raw})
		}
		nChain, nProg, nMal, nDefs := c.Scale(320, 12000), c.Scale(240, 8000), c.Scale(40, 1500), c.Scale(40, 1500)
		nPure := c.Scale(220, 8000)
		for i := 0; i < nChain; i++ {
			g := aspgen.NewGen(c.Rng.Fork())
			g.AllowDiv = i%25 == 0
			add(&item{name: fmt.Sprintf("chain:%d", i), stream: "chain", build: g.ChainProgram()})
		}
		for i := 0; i < nProg; i++ {
			g := aspgen.NewGen(c.Rng.Fork())
			add(&item{name: fmt.Sprintf("prog:%d", i), stream: "program", build: g.Program()})
		}
		for i := 0; i < nMal; i++ {
			g := aspgen.NewGen(c.Rng.Fork())
			add(&item{name: fmt.Sprintf("bad:%d", i), stream: "malformed", build: g.Malformed()})
		}
		for i := 0; i < nDefs; i++ {
			// the same kind of program, but interpreted as a subincluded file (optimise + optimiseExpressions, frozen
			// globals) and imported by an otherwise empty BUILD file: the values must still be CPython's
			g := aspgen.NewGen(c.Rng.Fork())
			add(&item{name: fmt.Sprintf("defs:%d", i), stream: "defs", defs: g.Program(), build: aspgen.Prog{aspgen.CallStmt("subinclude", aspgen.StrE("//defs:d"))}})
		}

		for i := 0; i < nPure; i++ {
			add(&item{name: fmt.Sprintf("pure:%d", i), stream: "pure", build: PureProgram(c.Rng.Fork())})
		}
		nPure2 := c.Scale(260, 9000)
		for i := 0; i < nPure2; i++ {
			p2, used := Pure2Program(c.Rng.Fork())
			add(&item{name: fmt.Sprintf("pure2:%d", i), stream: "pure2", build: p2, used: used})
		}
		// regression scenarios for /repo 3ce4752 (pyRange.Len = the number of items): a comprehension over an empty descending
		// range (Len() was negative: makeslice panicked) and over a range whose step does not divide the span (Len() was short)
		for i, rp := range RangeLenRegressions() {
			add(&item{name: fmt.Sprintf("rangelen:%d", i), stream: "rangelen", build: rp})
		}
		// fixed programs of the third deepening (enumerate zip items, % formatting, slices, unpacking, dict |, sorted(reverse=)): P2Must
		for i, p3 := range Pure3Regressions() {
			add(&item{name: fmt.Sprintf("pure3:%d", i), stream: "pure3", build: p3, must: true})
		}
		nFresh, nSort, nSortBig := c.Scale(120, 5000), c.Scale(80, 4000), c.Scale(16, 800)
		for i := 0; i < nFresh; i++ {
			fp := FreshProbe(c.Rng.Fork())
			add(&item{name: fmt.Sprintf("fresh:%d", i), stream: "fresh", build: fp.prog, fresh: fp, refused: fp.loose})
		}
		for i := 0; i < nSort+nSortBig; i++ {
			sp := SortProbe(c.Rng.Fork(), i >= nSort)
			add(&item{name: fmt.Sprintf("sortkey:%d", i), stream: "sortkey", build: sp.prog, sortp: sp, refused: true})
		}

		// follow-up 2: what is EVALUATED. Operands of and / or that the left operand makes irrelevant must not run (their side effect
		// is read back), and the variable of a comprehension inside 'sep'.join(...) must not leak into the enclosing scope
		nLazy, nJoin := c.Scale(60, 2500), c.Scale(60, 2500)
		for i, lp := range LazyRegressions() {
			add(&item{name: fmt.Sprintf("lazy:fixed%d", i), stream: "lazy", build: lp.prog, lazyp: lp})
		}
		for i := 0; i < nLazy; i++ {
			lp := LazyProbe(c.Rng.Fork())
			add(&item{name: fmt.Sprintf("lazy:%d", i), stream: "lazy", build: lp.prog, lazyp: lp})
		}
		for i, jp := range JoinRegressions() {
			add(&item{name: fmt.Sprintf("joincomp:fixed%d", i), stream: "joincomp", defs: jp.defs, build: jp.build, joinp: jp})
		}
		for i := 0; i < nJoin; i++ {
			jp := JoinProbe(c.Rng.Fork(), i%3 != 2)
			add(&item{name: fmt.Sprintf("joincomp:%d", i), stream: "joincomp", defs: jp.defs, build: jp.build, joinp: jp})
		}

		// ---- run the real interpreter, validate the printer
		var jobs []aspgen.PyJob
		for _, it := range items {
			var files []aspgen.File
			if it.raw != "" {
				it.src = it.raw
				files = []aspgen.File{{Name: "p", Src: it.raw}}
				it.pysrc = it.raw
			} else {
				it.loose = it.refused || hasBigInt(it.build) || hasBigInt(it.defs) || strings.Contains(aspgen.Source(it.build), "\" % ") ||
					strings.Contains(aspgen.Source(it.build), "//") || strings.Contains(aspgen.Source(it.defs), "//")
				if it.defs != nil {
					files = append(files, aspgen.NewFile("//defs:d", it.defs, true))
				}
				files = append(files, aspgen.NewFile("p", it.build, false))
				it.src = files[len(files)-1].Src
				for _, f := range files {
					dump, err := aspgen.ParseDump(f.Src)
					if err != nil {
						if it.stream == "template" || it.stream == "malformed" {
							continue
						}
						c.Fail("generated-text-rejected-by-parser", err.Error(), map[string]any{"src": f.Src})
						continue
					}
					if dump != f.Prog.JSON() {
						c.Fail("parser-ast-differs-from-generated", "the real parser builds a different AST for the printed text", map[string]any{"src": f.Src, "parsed": dump, "generated": f.Prog.JSON()})
					}
				}
				// python sees the defs text followed by the BUILD text without the subinclude call
				if it.defs != nil {
					rest := aspgen.Prog{}
					for _, s := range it.build {
						if !(s.K == "call" && s.Name == "subinclude") {
							rest = append(rest, s)
						}
					}
					it.pysrc = files[0].Src + aspgen.Source(rest)
				} else {
					it.pysrc = it.src
				}
			}
			it.files = files
			it.pyIdx = len(jobs)
			jobs = append(jobs, aspgen.PyJob{Src: it.pysrc})
		}
		// single-file programs are interpreted in batches on one interpreter (one package each: they share nothing but
		// the builtins); programs with a subincluded file get an interpreter of their own
		var batch []*item
		flush := func() {
			if len(batch) == 0 {
				return
			}
			files := []aspgen.File{}
			for k, it := range batch {
				f := it.files[0]
				f.Name = fmt.Sprintf("p%d", k)
				files = append(files, f)
			}
			for k, res := range aspgen.Eval(files, false) {
				batch[k].asp = res
			}
			batch = nil
		}
		for _, it := range items {
			if len(it.files) == 1 {
				batch = append(batch, it)
				if len(batch) == 64 {
					flush()
				}
			} else {
				it.asp = aspgen.Eval(it.files, false)[0]
			}
		}
		flush()
		pyres := aspgen.RunPython(jobs, c.Out)
		os.Remove(c.Out + "/c16_driver.py")

		// ---- oracle: asp against python3
		type pending struct {
			it   *item
			jobs []int // EMU jobs: [all, all-minus-class0, all-minus-class1, ...]
		}
		var emuJobs []aspgen.PyJob
		var pend []pending
		for _, it := range items {
			it.py = pyres[it.pyIdx]
			c.Oracle()
			c.Hist("stream", it.stream)
			switch {
			case it.asp.Err != "":
				it.verdict = "asp-error"
				if it.stream == "rangelen" && it.py.Err == "" {
					c.Fail("comprehension-over-range-raises", "a comprehension over a range raises in asp where CPython computes a list: "+it.asp.Err+" ("+firstLine(it.src)+")",
						map[string]any{"src": it.src, "asp_err": it.asp.Err, "python": it.py})
				}
				if it.py.Err != "" {
					c.Hist("outcome", "both-raise")
				} else {
					c.Hist("outcome", "asp-raises-only")
				}
				continue
			case it.py.Err == "" && len(diffVars(it.asp.Final, it.py.OK, it.py.Skipped)) == 0:
				it.verdict = "agree"
				c.Hist("outcome", "agree")
				if it.tpl != nil && it.tpl.Class != "" {
					c.Note("witness %s of class %s was NOT reproduced: asp now agrees with CPython on it", it.tpl.Name, it.tpl.Class)
				}
				continue
			}
			c.Hist("outcome", "differ")
			it.verdict = "differ"
			if it.lazyp != nil && it.py.Err == "" {
				bad := diffVars(it.asp.Final, it.py.OK, it.py.Skipped)
				if lazyClass(it.lazyp, bad, aspgen.PlainGlobals(it.asp.Final), it.py.OK) {
					c.Fail("lazy-operand-evaluated-although-left-operand-decides", "and / or followed by a tighter operator: asp evaluated (called) a right operand that CPython skips because the left operand decides; the values agree, the side effects differ on "+strings.Join(bad, ","),
						map[string]any{"src": it.src, "asp": it.asp.Final, "python": it.py})
					c.Hist("lazy_probe", "operand-evaluated")
					continue
				}
			}
			if it.joinp != nil && it.py.Err == "" {
				bad := diffVars(it.asp.Final, it.py.OK, it.py.Skipped)
				if joinClass(it.joinp, bad) {
					in := map[string]any{"src": it.src, "asp": it.asp.Final, "python": it.py, "shadowed": it.joinp.kind}
					if it.defs != nil {
						in["defs"] = aspgen.Source(it.defs)
					}
					c.Fail("join-comprehension-variable-leaks", "the loop variable of the comprehension inside 'sep'.join([...]) overwrote the "+it.joinp.kind+" of the same name in the enclosing scope: asp and CPython differ on "+strings.Join(bad, ","), in)
					c.Hist("join_probe", "leak:"+it.joinp.kind)
					continue
				}
			}
			if it.sortp != nil && it.sortp.n > 12 && it.py.Err == "" {
				// regression stream for /repo 62283f2 (sort.Slice -> sort.SliceStable): beyond 12 elements sort.Slice is pdqsort, which
				// is not stable. The class is reported only when the one difference is the order of elements with EQUAL keys in the
				// result of a sorted(key=) call; it is not a listed finding any more, so it is a VIOLATION if it comes back
				ap := aspgen.PlainGlobals(it.asp.Final)
				keyOf := map[string]string{}
				l, _ := ap["l"].([]any)
				ks, _ := ap["ks"].([]any)
				for k := range l {
					if k < len(ks) {
						keyOf[aspgen.Canon(l[k])] = aspgen.Canon(ks[k])
					}
				}
				isCall := map[string]bool{}
				for _, sc := range it.sortp.calls {
					isCall[sc.name] = true
				}
				tieOnly := true
				bad := diffVars(it.asp.Final, it.py.OK, it.py.Skipped)
				for _, name := range bad {
					a, ok1 := ap[name].([]any)
					p, ok2 := it.py.OK[name].([]any)
					if !isCall[name] || !ok1 || !ok2 || !onlyTieOrderDiffers(a, p, keyOf) {
						tieOnly = false
					}
				}
				if tieOnly {
					c.Fail("sorted-key-unstable-beyond-12-elements", fmt.Sprintf("sorted(key=) on %d elements: asp orders elements of equal key differently from CPython's stable sort (%s)", it.sortp.n, strings.Join(bad, ",")),
						map[string]any{"src": it.src, "asp": it.asp.Final, "python": it.py})
					c.Hist("sorted_over_12", "tie-order-differs")
					continue
				}
			}
			if it.tpl != nil && it.tpl.Asp != nil {
				// exact known outcome: asp differs from CPython exactly on the listed variables, with the listed values
				bad := diffVars(it.asp.Final, it.py.OK, it.py.Skipped)
				ap := aspgen.PlainGlobals(it.asp.Final)
				ok := it.py.Err == "" || it.tpl.PyErr
				if it.py.Err == "" {
					ok = ok && len(bad) == len(it.tpl.Asp)
				}
				for k, want := range it.tpl.Asp {
					if got, present := ap[k]; !present || aspgen.Canon(got) != want {
						ok = false
					}
				}
				in := map[string]any{"src": it.src, "asp": it.asp.Final, "python": it.py}
				if ok {
					c.Fail(witnessClass(it.tpl), fmt.Sprintf("%s: asp computes %v where CPython gives %v", it.tpl.Name, it.tpl.Asp, describePy(it.py, it.tpl.Asp)), in)
				} else {
					c.Fail("unexplained-asp-python-difference", fmt.Sprintf("%s: asp and CPython differ on %v in a way the known class %s does not predict", it.tpl.Name, bad, it.tpl.Class), in)
				}
				continue
			}
			if it.build == nil {
				c.Fail("unexplained-asp-python-difference", "raw program: asp and CPython differ", map[string]any{"src": it.src, "asp": it.asp.Final, "python": it.py})
				continue
			}
			if strings.Contains(fmt.Sprint(it.asp.Final), "%!") || strings.Contains(fmt.Sprint(it.asp.Final), "(MISSING)") {
				// fmt.Sprintf reports a verb/argument mismatch INSIDE the result string ("%!(EXTRA ...)", "%!d(string=x)", "%!s(MISSING)") instead of failing
				c.Fail("percent-format-mismatch-no-error", "str % value with a verb/argument mismatch yields Go's %!(...) text where CPython raises TypeError or ignores the value ("+firstLine(lastLine(it.src))+")",
					map[string]any{"src": it.src, "asp": it.asp.Final, "python": it.py})
				continue
			}
			p := pending{it: it}
			render := func(off string) int {
				T := map[string]bool{}
				for _, cl := range aspgen.ExprClasses {
					T[cl] = cl != off
				}
				m := aspgen.Emu{T: T}
				text := ""
				if it.defs != nil {
					text = m.Source(it.defs)
				}
				rest := aspgen.Prog{}
				for _, s := range it.build {
					if !(s.K == "call" && s.Name == "subinclude") {
						rest = append(rest, s)
					}
				}
				text += m.Source(rest)
				emuJobs = append(emuJobs, aspgen.PyJob{Src: text, Toggles: m.Toggles()})
				return len(emuJobs) - 1
			}
			p.jobs = append(p.jobs, render(""))
			for _, cl := range aspgen.ExprClasses {
				p.jobs = append(p.jobs, render(cl))
			}
			pend = append(pend, p)
		}
		emures := aspgen.RunPython(emuJobs, c.Out)
		os.Remove(c.Out + "/c16_driver.py")
		for _, p := range pend {
			it := p.it
			in := map[string]any{"src": it.src, "asp": it.asp.Final, "python": it.py}
			if it.defs != nil {
				in["defs"] = aspgen.Source(it.defs)
			}
			same := func(r aspgen.PyResult) bool {
				return r.Err == "" && len(diffVars(it.asp.Final, r.OK, r.Skipped)) == 0
			}
			if !same(emures[p.jobs[0]]) {
				c.Fail("unexplained-asp-python-difference", "asp and CPython differ on "+strings.Join(diffVars(it.asp.Final, it.py.OK, it.py.Skipped), ",")+
					" and the emulation of all known differences does not reproduce asp's values", in)
				continue
			}
			needed := []string{}
			for k, cl := range aspgen.ExprClasses {
				if !same(emures[p.jobs[k+1]]) {
					needed = append(needed, cl)
				}
			}
			if len(needed) == 0 {
				// several classes each sufficient on their own cannot happen: switching one off changes only its own construct
				c.Fail("unexplained-asp-python-difference", "asp and CPython differ but no single known difference is necessary to explain it", in)
				continue
			}
			if it.tpl != nil && it.tpl.Class != "" && !(len(needed) == 1 && needed[0] == it.tpl.Class) {
				c.Fail("unexplained-asp-python-difference", fmt.Sprintf("witness %s of class %s is now explained by %v", it.tpl.Name, it.tpl.Class, needed), in)
				continue
			}
			for _, cl := range needed {
				c.Fail(cl, "asp and CPython differ on "+strings.Join(diffVars(it.asp.Final, it.py.OK, it.py.Skipped), ",")+" ("+firstLine(it.src)+")", in)
			}
			c.Hist("classes_per_failure", fmt.Sprint(len(needed)))
		}

		// ---- correspondence cases
		var refItems []*item // the programs of the enlarged fragment's SHAPE: pure2_run is evaluated on them below
		for _, it := range items {
			if it.build == nil {
				c.Eval(map[string]any{"src": it.src}, it.src, false)
				continue
			}
			maxOps, classes := chainStats(append(append(aspgen.Prog{}, it.defs...), it.build...))
			nontrivial := maxOps >= 2 || it.stream == "program" || it.stream == "defs" || it.stream == "pure" || it.stream == "pure2" || it.stream == "pure3" || it.stream == "rangelen" || it.stream == "fresh" || it.stream == "sortkey" || it.stream == "lazy" || it.stream == "joincomp"
			c.HistN("max_chain_ops", maxOps)
			for _, cl := range classes {
				c.Hist("chain_class", cl)
			}
			if len(classes) == 0 {
				c.Hist("chain_class", "safe")
			}
			defs := "[]"
			if it.defs != nil {
				defs = lib.List([]string{lib.Pair(lib.Str("//defs:d"), aspgen.CoqProg(it.defs))})
			}
			js := map[string]any{"name": it.name, "src": it.src, "asp": map[string]any{"err": it.asp.Err, "after": it.asp.After, "final": it.asp.Final}}
			if it.defs != nil {
				js["defs"] = aspgen.Source(it.defs)
			}
			if it.fresh != nil {
				c.Hist("fresh_kind", it.fresh.kind+":"+it.verdict)
			}
			if it.lazyp != nil {
				c.Hist("lazy_probe", fmt.Sprintf("deciding-left-operands=%d:%s", it.lazyp.decided, it.verdict))
			}
			if it.joinp != nil {
				path := "generic"
				if it.joinp.optimised {
					path = "optimised"
				}
				c.Hist("join_probe", it.joinp.kind+":"+path+":"+it.verdict)
			}
			if it.sortp != nil {
				c.Hist("sort_kind", it.sortp.kind)
				c.HistN("sort_len", it.sortp.n)
				if it.asp.Err == "" {
					for _, sc := range it.sortp.calls {
						term, sjs := sortCase(it.asp.Final, sc)
						if term == "" {
							c.Fail("sort-probe-not-readable", "the globals l / ks / "+sc.name+" of a sorted(key=) probe are not what the probe defines", map[string]any{"src": it.src, "asp": it.asp.Final})
							continue
						}
						sjs["name"], sjs["src"] = it.name+":"+sc.name, it.src
						c.Case(lib.App("P2Base", term), sjs, "sort:"+sc.name+":"+it.pysrc, true)
					}
				}
			}
			if it.fresh != nil && it.fresh.union != nil && it.asp.Err == "" {
				u := it.fresh.union
				ap := aspgen.PlainGlobals(it.asp.Final)
				od, ok1 := obsZDict(ap[u.left])
				oe, ok2 := obsZDict(ap[u.right])
				or, ok3 := obsZDict(ap["r"])
				if ok1 && ok2 && ok3 {
					c.Case(lib.App("P2Base", lib.App("SUnion", zkvCoq(u.ld), zkvCoq(u.rd), lib.Str(u.k), lib.Z(int64(u.v)), lib.Bool(u.intoResult), od, oe, or)),
						map[string]any{"name": it.name + ":union", "src": it.src, "asp": it.asp.Final}, "union:"+it.pysrc, true)
				} else {
					c.Fail("union-probe-not-readable", "the globals of a dict union probe are not dicts of ints", map[string]any{"src": it.src, "asp": it.asp.Final})
				}
			}
			if it.sortp == nil {
				c.Case(lib.App("P2Base", lib.App("SBase", lib.App("PBase", lib.App("CAsp", lib.Bool(it.loose), defs, lib.List([]string{aspgen.CoqProg(it.build)}), lib.List([]string{coqOutcome(it.asp)}))))),
					js, it.pysrc, nontrivial)
			}
			if it.defs == nil && !hasOctal(it.build) { // (an octal literal: the AST holds asp's reading of the digits, python3 reads another number)
				// membership in the pure fragment (Go verdict against Coq's), and the reference run against the real runs
				flag := inPureSubset(it.build)
				aspOK := it.asp.Err == ""
				agree := it.verdict == "agree"
				globals := "[]"
				if aspOK {
					globals = aspgen.CoqGlobals(it.asp.Final)
				}
				c.Case(lib.App("P2Base", lib.App("SBase", lib.App("PPure", lib.Bool(flag), aspgen.CoqProg(it.build), lib.Bool(aspOK), lib.Bool(agree), globals))),
					map[string]any{"name": it.name + ":pure", "src": it.src, "in_pure_subset": flag, "asp_ok": aspOK, "agree": agree}, "pure:"+it.pysrc, flag && nontrivial)
				if flag {
					c.Hist("pure_subset", "in:"+it.verdict)
					if it.verdict == "differ" {
						c.Note("in_pure_subset program on which asp and CPython differ (an integer operation outside int_safe, or a type-dependent trigger the reference run refuses): %s", firstLine(it.src))
					}
				} else {
					c.Hist("pure_subset", "out")
				}
				// the same for the ENLARGED fragment of Model/C16_Pure2.v (functions, comprehensions, range, builtins, dicts, methods)
				flag2 := inPure2Subset(it.build)
				c.Case(lib.App("P2Pure", lib.Bool(flag2), aspgen.CoqProg(it.build), lib.Bool(aspOK), lib.Bool(agree), globals),
					map[string]any{"name": it.name + ":pure2", "src": it.src, "in_pure2_subset": flag2, "asp_ok": aspOK, "agree": agree}, "pure2:"+it.pysrc, flag2 && nontrivial)
				if it.must {
					c.Case(lib.App("P2Must", aspgen.CoqProg(it.build), lib.Bool(aspOK), lib.Bool(agree), globals),
						map[string]any{"name": it.name + ":must", "src": it.src, "asp_ok": aspOK, "agree": agree}, "must:"+it.pysrc, true)
				}
				if flag2 {
					refItems = append(refItems, it)
					c.Hist("pure2_subset", "in:"+it.verdict)
					if !flag {
						c.Hist("pure2_subset_beyond_pure", it.stream+":"+it.verdict)
					}
				} else {
					c.Hist("pure2_subset", "out")
				}
				for k := range it.used {
					if flag2 {
						c.Hist("pure2_construct", k+":"+it.verdict)
					}
				}
			}
			// the reference model against python3 (same AST, CPython's semantics)
			if it.defs == nil && it.stream != "malformed" && !it.py.Float && len(it.py.Skipped) == 0 && !hasOctal(it.build) && it.sortp == nil {
				obs := "OErr"
				if it.py.Err == "" {
					kv := []string{}
					for _, k := range lib.SortedKeys(it.py.OK) {
						kv = append(kv, lib.Pair(lib.Str(k), coqPyObs(it.py.OK[k])))
					}
					obs = "(OGlobals [] " + lib.List(kv) + ")"
				}
				c.Case(lib.App("P2Base", lib.App("SBase", lib.App("PBase", lib.App("CPy", lib.Bool(it.loose || strings.Contains(it.src, " / ")), aspgen.CoqProg(it.build), obs)))),
					map[string]any{"name": it.name + ":py", "src": it.src, "python": it.py}, "py:"+it.pysrc, false)
			}
		}

		// ---- the denominator of the agreement claim: on how many programs of this run does the reference run succeed?
		// pure2_run is a Coq function: it is evaluated here by coqc (vm_compute) on the same ASTs the P2Pure cases carry. The
		// P2Pure check then demands, for exactly these programs, that asp ran, agreed with python3 and printed the reference globals.
		okFlags, err := pure2RunOK(c.Out, refItems)
		if err != nil {
			c.Note("pure2_run = Ok count NOT available (%v): the P2Pure cases are checked all the same", err)
		} else {
			nOK := 0
			for k, it := range refItems {
				res := "refused"
				if okFlags[k] {
					res = "ok"
					nOK++
				}
				c.Hist("pure2_run", res)
				c.Hist("pure2_run_by_stream", it.stream+":"+res)
				for u := range it.used {
					c.Hist("pure2_run_by_construct", u+":"+res)
				}
				if okFlags[k] && it.verdict != "agree" {
					// (the P2Pure case of this program fails as well: this line only names the program in the evidence)
					c.Note("pure2_run = Ok but real asp / python3 do not agree (%s): %s", it.verdict, firstLine(it.src))
				}
			}
			c.Note("pure2_run = Ok on %d of the %d programs of this run that have the shape of the enlarged fragment (in_pure2_subset; %d programs in all): "+
				"the theorem pure2_run_agrees speaks about these %d, and each of them is a P2Pure case on which real asp and python3 must agree and print the reference globals",
				nOK, len(refItems), len(items), nOK)
		}
	})
}

var boolList = regexp.MustCompile(`true|false`)

// pure2RunOK evaluates is_ok (pure2_run FUEL p) inside Coq for every program, in parallel shards.
func pure2RunOK(out string, its []*item) ([]bool, error) {
	verif := os.Getenv("VERIF_DIR")
	if verif == "" {
		verif = "/verif"
	}
	theories := filepath.Join(verif, "coq", "theories")
	const shard = 125
	n := (len(its) + shard - 1) / shard
	res := make([]bool, len(its))
	errs := make([]error, n)
	var wg sync.WaitGroup
	sem := make(chan struct{}, 8)
	for k := 0; k < n; k++ {
		wg.Add(1)
		go func(k int) {
			defer wg.Done()
			sem <- struct{}{}
			defer func() { <-sem }()
			lo, hi := k*shard, (k+1)*shard
			if hi > len(its) {
				hi = len(its)
			}
			var b strings.Builder
			b.WriteString("From PlzV Require Import Base.Harness Model.C16_Syntax Model.C16_Eval Model.C16 Model.C16_Pure Model.C16_Sort Model.C16_Pure2.\n")
			b.WriteString("Definition progs : list prog := [\n")
			for i := lo; i < hi; i++ {
				if i > lo {
					b.WriteString(";\n")
				}
				b.WriteString(aspgen.CoqProg(its[i].build))
			}
			b.WriteString("].\nEval vm_compute in (map (fun p => is_ok (pure2_run FUEL p)) progs).\n")
			name := fmt.Sprintf("C16RunOk%d", k)
			path := filepath.Join(out, name+".v")
			if err := os.WriteFile(path, []byte(b.String()), 0o644); err != nil {
				errs[k] = err
				return
			}
			defer func() {
				for _, ext := range []string{".v", ".vo", ".vok", ".vos", ".glob"} {
					os.Remove(filepath.Join(out, name+ext))
				}
				os.Remove(filepath.Join(out, "."+name+".aux"))
			}()
			cmd := exec.Command("coqc", "-Q", theories, "PlzV", name+".v")
			cmd.Dir = out
			done := make(chan struct{})
			var o []byte
			var err error
			go func() { o, err = cmd.CombinedOutput(); close(done) }()
			select {
			case <-done:
			case <-time.After(20 * time.Minute):
				cmd.Process.Kill()
				<-done
				errs[k] = fmt.Errorf("coqc timed out on shard %d", k)
				return
			}
			if err != nil {
				errs[k] = fmt.Errorf("coqc failed on shard %d: %v: %s", k, err, firstLine(string(o)))
				return
			}
			text := string(o)
			if i := strings.Index(text, ": list bool"); i >= 0 {
				text = text[:i]
			}
			flags := boolList.FindAllString(text, -1)
			if len(flags) != hi-lo {
				errs[k] = fmt.Errorf("shard %d: %d verdicts for %d programs", k, len(flags), hi-lo)
				return
			}
			for i, f := range flags {
				res[lo+i] = f == "true"
			}
		}(k)
	}
	wg.Wait()
	for _, e := range errs {
		if e != nil {
			return nil, e
		}
	}
	return res, nil
}

// witnessClass: the class a template reports when asp differs from CPython on it exactly as recorded. The witnesses of
// differences that /repo has since repaired (7aeabfa: list + list always builds a new list) stay as regression streams
// under a class of their own, so that they are not absorbed by a neighbouring class that is still a known finding.
func witnessClass(t *aspgen.Template) string {
	switch t.Name {
	case "add-empty-aliases":
		return "list-add-empty-returns-operand" // was filed under slice-shares-array, which now means real slices only
	}
	return t.Class
}

func hasOctal(p aspgen.Prog) bool { return strings.Contains(aspgen.Source(p), "0o") }

func lastLine(s string) string {
	s = strings.TrimRight(s, "\n")
	if i := strings.LastIndexByte(s, '\n'); i >= 0 {
		return s[i+1:]
	}
	return s
}

func firstLine(s string) string {
	if i := strings.IndexByte(s, '\n'); i >= 0 && i < 120 {
		return s[:i]
	}
	if len(s) > 120 {
		return s[:120]
	}
	return s
}

func describePy(py aspgen.PyResult, vars map[string]string) string {
	if py.Err != "" {
		return py.Err
	}
	parts := []string{}
	for k := range vars {
		parts = append(parts, k+"="+aspgen.Canon(py.OK[k]))
	}
	sort.Strings(parts)
	return strings.Join(parts, " ")
}
