package main

import (
	"fmt"
	"os"

	"github.com/thought-machine/please/src/parse/asp"
	gologging "gopkg.in/op/go-logging.v1"
)

func main() {
	gologging.SetLevel(gologging.CRITICAL, "plz")
	src, _ := os.ReadFile(os.Args[1])
	var files []asp.VerifC16File
	if len(os.Args) > 2 {
		d, _ := os.ReadFile(os.Args[2])
		files = append(files, asp.VerifC16File{Name: "//defs:d", Src: string(d), Defs: true})
	}
	files = append(files, asp.VerifC16File{Name: "p", Src: string(src)})
	out, err := asp.VerifC16Eval(files, false)
	fmt.Println(err)
	for _, o := range out {
		fmt.Println(o.Name, o.Err, string(o.After))
	}
	ast, err := asp.VerifC16Parse(string(src))
	fmt.Println(ast, err)
}
