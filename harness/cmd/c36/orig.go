// C36, round-2 follow-up: which targets the build treats as ORIGINAL targets (selected on the command line).
//
//   - isorig: SetIncludeAndExclude + AddOriginalTarget for every requested label on a real core.BuildState, then
//     IsOriginalTarget for every target of the graph.
//   - tested: a `plz test` run over a graph WITH DEPENDENCY EDGES on the real state's queues, driven as plz.Run drives
//     them (parse task -> ActivateTarget, build task -> built -> `NeedTests && IsTest && IsOriginalTarget` ->
//     QueueTestTarget, test task -> recorded).  An excluded target that an included one depends on is built all the
//     same; whether it is then RUN as a test is decided by IsOriginalTarget.
//
// The oracle is the documented rule: a target is original iff it was requested by name (and no exclude expression
// covers that request) or its package's :all was requested and the target is selected (include groups, exclude groups
// AND exclude build expressions).
package main

import (
	"fmt"
	"strings"
	"sync"
	"time"

	"verifharness/lib"

	"github.com/thought-machine/please/src/core"
)

// D: the declared dependencies of one target
type D struct {
	From L   `json:"target"`
	To   []L `json:"deps"`
}

func coqDeps(ds []D) string {
	out := []string{}
	for _, d := range ds {
		out = append(out, "("+coqL(d.From)+", "+coqLs(d.To)+")")
	}
	return lib.List(out)
}

func newOrigState(in input) *core.BuildState {
	startIn(in.Cur)
	state := core.NewDefaultBuildState()
	fillGraph(state.Graph, in.Graph, nil)
	for _, d := range in.Deps {
		t := state.Graph.TargetOrDie(toLabel(d.From))
		for _, to := range d.To {
			t.AddDependency(toLabel(to))
		}
	}
	state.SetIncludeAndExclude(append([]string{}, in.Include...), append([]string{}, in.Exclude...))
	return state
}

// drainParses: AddOriginalTarget parks one goroutine per label on the parse queue; let them go
func drainParses(state *core.BuildState) {
	parses, actions := state.TaskQueues()
	go func() {
		for range parses {
		}
	}()
	go func() {
		for range actions {
		}
	}()
	state.Stop()
}

func realIsOriginal(in input) []L {
	state := newOrigState(in)
	for _, l := range toLabels(in.Labels) {
		state.AddOriginalTarget(l, true)
	}
	out := []L{}
	for _, p := range in.Graph {
		for _, t := range p.Targets {
			l := L{p.Sub, p.Pkg, t.Name}
			if state.IsOriginalTarget(state.Graph.TargetOrDie(toLabel(l))) {
				out = append(out, l)
			}
		}
	}
	drainParses(state)
	return out
}

// realTested: the driver.  The statements marked (plz.Run) / (parse.parse) are those of src/plz/plz.go and
// src/parse/parse_step.go for a package that is already in the graph; everything else is the real core.BuildState.
func realTested(in input) (tested []L, problem string) {
	state := newOrigState(in)
	state.NeedTests = true
	state.NumTestRuns = 1
	parses, actions := state.TaskQueues()
	var mu sync.Mutex
	ran := map[L]int{}
	note := func(format string, a ...any) {
		mu.Lock()
		if problem == "" {
			problem = fmt.Sprintf(format, a...)
		}
		mu.Unlock()
	}
	var wg sync.WaitGroup
	wg.Add(2)
	go func() {
		defer wg.Done()
		for task := range parses {
			wg.Add(1)
			go func(task core.ParseTask) {
				defer wg.Done()
				var err error
				if t := state.Graph.Target(task.Label); t != nil && t.State() < core.Active { // (parse.parse)
					err = state.ActivateTarget(nil, task.Label, task.Dependent, task.Mode)
				} else if pkg := state.Graph.PackageByLabel(task.Label); pkg != nil {
					err = state.ActivateTarget(pkg, task.Label, task.Dependent, task.Mode)
				} else {
					err = fmt.Errorf("no package for %s", task.Label)
				}
				if err != nil {
					note("parse task %s: %v", task.Label, err)
				}
				state.TaskDone()
			}(task)
		}
	}()
	go func() {
		defer wg.Done()
		for task := range actions {
			wg.Add(1)
			go func(task core.Task) {
				defer wg.Done()
				switch task.Type {
				case core.BuildTask:
					task.Target.SetState(core.Built) // build.Build: every target builds
					task.Target.FinishBuild()
					if state.NeedTests && task.Target.IsTest() && state.IsOriginalTarget(task.Target) { // (plz.Run)
						state.QueueTestTarget(task.Target)
					}
				case core.TestTask:
					mu.Lock()
					l := task.Target.Label
					ran[L{l.Subrepo, l.PackageName, l.Name}]++
					mu.Unlock()
				}
				state.TaskDone()
			}(task)
		}
	}()
	for _, l := range toLabels(in.Labels) { // (plz.findOriginalTasks)
		state.AddOriginalTarget(l, true)
	}
	state.TaskDone() // initial target adding counts as one
	finished := make(chan struct{})
	go func() { wg.Wait(); close(finished) }()
	select {
	case <-finished:
	case <-time.After(60 * time.Second):
		state.Stop()
		return nil, "the queues did not drain within 60 s"
	}
	for _, p := range in.Graph {
		for _, t := range p.Targets {
			l := L{p.Sub, p.Pkg, t.Name}
			if n := ran[l]; n > 1 {
				note("%s was run %d times", toLabel(l), n)
			}
			if ran[l] > 0 {
				tested = append(tested, l)
			}
		}
	}
	if tested == nil {
		tested = []L{}
	}
	return tested, problem
}

// ---- the documented rule --------------------------------------------------------------------------------

// wantOriginal: the targets of the graph (graph order) that are original: requested by name, or member of a requested
// :all and selected.  testsOnly: of those, the tests (what a `plz test` run executes).
func wantOriginal(in input, testsOnly bool) []L {
	kept := refOriginals(in.Cur, in.Exclude, in.Labels)
	out := []L{}
	for _, p := range in.Graph {
		for _, t := range p.Targets {
			l := L{p.Sub, p.Pkg, t.Name}
			orig := false
			for _, k := range kept {
				if k == l || (k.Name == "all" && k.Sub == p.Sub && k.Pkg == p.Pkg && refSelected(in.Cur, p, t, in.Include, in.Exclude, documented)) {
					orig = true
				}
			}
			if orig && (!testsOnly || t.Test) {
				out = append(out, l)
			}
		}
	}
	return out
}

func checkOriginal(c *lib.Ctx, in input, got []L, testsOnly bool) {
	if !documentedForms(in.Cur, in.Exclude) {
		return
	}
	c.Oracle()
	want := wantOriginal(in, testsOnly)
	if sameLs(got, want) {
		return
	}
	in.Out, in.Want = got, want
	what, excl, generic := "treated as an original target (IsOriginalTarget)", "excluded-target-treated-as-original", "original-targets-differ-from-documented-selection"
	if testsOnly {
		what, excl, generic = "run as a test", "excluded-test-run", "tests-run-differ-from-documented-selection"
	}
	// requested by name - and the request not dropped because an exclude expression covers it: not subject to the filters
	requested := map[L]bool{}
	for _, l := range refOriginals(in.Cur, in.Exclude, in.Labels) {
		requested[l] = true
	}
	sel := map[L]bool{}
	for _, l := range got {
		sel[l] = true
	}
	// the known subrepo defect first: the observation is exactly what exclude-expression-ignores-subrepo predicts
	if hasSubrepos(in.Graph, in.Labels) || excludeNamesSubrepo(in.Cur, in.Exclude) {
		subrepoBlind = true
		blind := sameLs(got, wantOriginal(in, testsOnly))
		subrepoBlind = false
		if blind {
			c.Fail("exclude-expression-ignores-subrepo",
				fmt.Sprintf("started in %q, exclude=%q requested=%v: %v are %s, documented rule: %v (an exclude expression covers targets with the same package and name in ANOTHER repository)",
					in.Cur, in.Exclude, in.Labels, got, what, want), in)
			return
		}
	}
	for _, p := range in.Graph {
		for _, t := range p.Targets {
			l := L{p.Sub, p.Pkg, t.Name}
			if sel[l] && !requested[l] && !refSelected(in.Cur, p, t, nil, in.Exclude, documented) {
				by := "label"
				for _, e := range in.Exclude {
					if refIsExpression(e) && refDenotes(in.Cur, e, l) {
						by = "build pattern " + e
					}
				}
				c.Fail(excl, fmt.Sprintf("%s is %s although an --exclude argument (%s) covers it; requested %v, exclude=%q (plz started in %q)",
					toLabel(l), what, by, in.Labels, in.Exclude, in.Cur), in)
				return
			}
		}
	}
	c.Fail(generic, fmt.Sprintf("started in %q, include=%q exclude=%q requested=%v: %v are %s, documented rule: %v", in.Cur, in.Include, in.Exclude, in.Labels, got, what, want), in)
}

// ---- generators -----------------------------------------------------------------------------------------

// genOrigInput: a graph (more tests than usual, no target called `all`), requested :all / exact labels of the graph,
// label filters, and - mostly - an exclude build PATTERN aimed at a target (or the package) of a requested package.
func genOrigInput(r *lib.Rng, withDeps bool) input {
	g := genGraph(r)
	for i := range g {
		for j := range g[i].Targets {
			if g[i].Targets[j].Name == "all" {
				g[i].Targets[j].Name = "d"
			}
			if r.Chance(1, 3) || (withDeps && r.Chance(1, 3)) {
				g[i].Targets[j].Test = true
			}
		}
	}
	if r.Chance(1, 4) {
		g = withSubrepos(r, g)
	}
	flat := []L{}
	byL := map[L]*T{}
	for i := range g {
		for j := range g[i].Targets {
			l := L{g[i].Sub, g[i].Pkg, g[i].Targets[j].Name}
			flat = append(flat, l)
			byL[l] = &g[i].Targets[j]
		}
	}
	var aim *T
	if len(flat) > 0 {
		aim = byL[lib.Pick(r, flat)]
	}
	cur := genCur(r, g)
	in := input{Kind: "isorig", Cur: cur, Graph: g, Include: genGroups(r, aim)}
	if r.Chance(1, 2) || (withDeps && r.Chance(1, 2)) {
		in.Include = []string{}
	}
	// requested: :all of 1-3 packages, sometimes a target by name
	seen := map[L]bool{}
	for i, n := 0, r.Range(1, 3); i < n; i++ {
		p := lib.Pick(r, g)
		l := L{p.Sub, p.Pkg, "all"}
		if len(p.Targets) > 0 && r.Chance(1, 4) {
			l.Name = lib.Pick(r, p.Targets).Name
		}
		if !seen[l] {
			seen[l] = true
			in.Labels = append(in.Labels, l)
		}
	}
	exc := genGroups(r, aim)
	if r.Chance(1, 2) {
		exc = []string{}
	}
	text := func(l L) string {
		prefix := "//"
		if l.Sub != "" {
			prefix = "///" + l.Sub + "//"
		}
		return prefix + l.Pkg + ":" + l.Name
	}
	for i, n := 0, lib.Pick(r, []int{0, 1, 1, 1, 2, 2}); i < n; i++ {
		req := lib.Pick(r, in.Labels)
		members := []L{}
		for _, l := range flat {
			if l.Sub == req.Sub && l.Pkg == req.Pkg {
				members = append(members, l)
			}
		}
		switch {
		case len(members) > 0 && r.Chance(3, 4):
			m := lib.Pick(r, members)
			if m.Sub == "" && m.Pkg == cur && r.Chance(1, 4) {
				exc = append(exc, ":"+m.Name)
			} else {
				exc = append(exc, text(m))
			}
		case r.Chance(1, 2):
			exc = append(exc, genExpr(r, cur, g))
		default:
			exc = append(exc, text(L{req.Sub, req.Pkg, "all"}))
		}
	}
	lib.Shuffle(r, exc)
	in.Exclude = exc
	if withDeps {
		in.Kind = "tested"
		// acyclic: a target depends on targets further down the flattened graph (any package)
		for i, from := range flat {
			d := D{From: from}
			for k, n := 0, lib.Pick(r, []int{0, 1, 1, 2}); k < n && i+1 < len(flat); k++ {
				to := flat[i+1+r.Intn(len(flat)-i-1)]
				dup := false
				for _, x := range d.To {
					dup = dup || x == to
				}
				if !dup {
					d.To = append(d.To, to)
				}
			}
			// aimed: a target covered by an exclude pattern becomes a dependency of an earlier target
			for j := i + 1; j < len(flat); j++ {
				for _, e := range exc {
					if refIsExpression(e) && refDenotes(cur, e, flat[j]) && r.Chance(1, 2) {
						dup := false
						for _, x := range d.To {
							dup = dup || x == flat[j]
						}
						if !dup {
							d.To = append(d.To, flat[j])
						}
					}
				}
			}
			if len(d.To) > 0 {
				in.Deps = append(in.Deps, d)
			}
		}
	}
	return in
}

func patternExcludes(in input) (patterns, hits int) {
	for _, e := range in.Exclude {
		if refIsExpression(e) {
			patterns++
			for _, p := range in.Graph {
				for _, t := range p.Targets {
					if refDenotes(in.Cur, e, L{p.Sub, p.Pkg, t.Name}) {
						hits++
					}
				}
			}
		}
	}
	return
}

// excludedDependency: some target that an exclude PATTERN covers is a dependency of a target that is run
func excludedDependency(in input, tested []L) bool {
	ran := map[L]bool{}
	for _, l := range tested {
		ran[l] = true
	}
	for _, d := range in.Deps {
		if !ran[d.From] {
			continue
		}
		for _, to := range d.To {
			for _, e := range in.Exclude {
				if refIsExpression(e) && refDenotes(in.Cur, e, to) {
					return true
				}
			}
		}
	}
	return false
}

func runIsOrig(c *lib.Ctx, in input) {
	got := realIsOriginal(in)
	checkOriginal(c, in, got, false)
	in.Out = got
	pats, hits := patternExcludes(in)
	c.Case(lib.App("CIsOrig", lib.Str(in.Cur), coqGraph(in.Graph), lib.StrList(in.Include), lib.StrList(in.Exclude), coqLs(in.Labels), coqLs(got)),
		in, fmt.Sprint("io", in.Cur, in.Graph, in.Include, in.Exclude, in.Labels), hits > 0 && len(got) > 0)
	c.HistN("isorig_exclude_patterns", pats)
	c.Hist("isorig_pattern_covers_a_target", fmt.Sprint(hits > 0))
}

func runTested(c *lib.Ctx, in input) {
	got, problem := realTested(in)
	js := in
	js.Out = got
	if problem != "" {
		c.Fail("test-run-driver-problem", problem, js)
		return
	}
	checkOriginal(c, in, got, true)
	pats, _ := patternExcludes(in)
	dep := excludedDependency(in, got)
	c.Case(lib.App("CTested", lib.Str(in.Cur), coqGraph(in.Graph), coqDeps(in.Deps), lib.StrList(in.Include), lib.StrList(in.Exclude), coqLs(in.Labels), coqLs(got)),
		js, fmt.Sprint("te", in.Cur, in.Graph, in.Deps, in.Include, in.Exclude, in.Labels), dep)
	c.HistN("tested_exclude_patterns", pats)
	c.HistN("tested_dependency_edges", min(len(in.Deps), 6))
	c.Hist("tested_runs_a_test_that_depends_on_a_pattern_excluded_target", fmt.Sprint(dep))
	c.HistN("tested_tests_run", min(len(got), 6))
}

// the seeded mutation r2-m2, exactly: //pkg:all --exclude //pkg:b_test, a_test depends on b_test
func origCorpus() []input {
	tests := []T{{Name: "a_test", Labels: []string{}, Test: true}, {Name: "b_test", Labels: []string{"flaky_dep"}, Test: true}, {Name: "c_test", Labels: []string{}, Test: true},
		{Name: "lib", Labels: []string{"go"}}}
	g := []P{{Pkg: "pkg", Targets: tests}, {Pkg: "pkg/sub", Targets: []T{{Name: "d_test", Labels: []string{}, Test: true}}}}
	deps := []D{{L{"", "pkg", "a_test"}, []L{{"", "pkg", "b_test"}, {"", "pkg", "lib"}}}, {L{"", "pkg/sub", "d_test"}, []L{{"", "pkg", "c_test"}}}}
	all, suball := L{"", "pkg", "all"}, L{"", "pkg/sub", "all"}
	return []input{
		{Cur: "", Graph: g, Deps: deps, Include: []string{}, Exclude: []string{"//pkg:b_test"}, Labels: []L{all}},
		{Cur: "", Graph: g, Deps: deps, Include: []string{}, Exclude: []string{"flaky_dep"}, Labels: []L{all}},
		{Cur: "pkg", Graph: g, Deps: deps, Include: []string{}, Exclude: []string{":b_test", "//pkg:c_test"}, Labels: []L{all, suball}},
		{Cur: "", Graph: g, Deps: deps, Include: []string{"test"}, Exclude: []string{"//pkg:c_test", "flaky_dep"}, Labels: []L{suball, all}},
		{Cur: "", Graph: g, Deps: deps, Include: []string{}, Exclude: []string{"//pkg:b_test"}, Labels: []L{{"", "pkg", "a_test"}, {"", "pkg", "b_test"}, suball}},
		{Cur: "", Graph: g, Deps: deps, Include: []string{}, Exclude: []string{"//pkg/sub/..."}, Labels: []L{all, suball}},
	}
}

func originalTargets(c *lib.Ctx) {
	for _, in := range origCorpus() {
		in.Kind = "isorig"
		runIsOrig(c, in)
		in.Kind = "tested"
		runTested(c, in)
	}
	for i, n := 0, c.Scale(150, 2500); i < n; i++ {
		in := genOrigInput(c.Rng.Fork(), false)
		if usable(in.Cur, in.Exclude) {
			runIsOrig(c, in)
		}
	}
	for i, n := 0, c.Scale(150, 2500); i < n; i++ {
		in := genOrigInput(c.Rng.Fork(), true)
		if usable(in.Cur, in.Exclude) {
			runTested(c, in)
		}
	}
}

var _ = strings.Join
