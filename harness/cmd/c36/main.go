// C36: label include/exclude filters. Implementation side of the correspondence + property oracle.
//
// Everything runs in process on the real core.BuildTarget / core.BuildState / core.BuildGraph:
// HasLabel, BuildTarget.ShouldInclude, BuildLabel.Includes, LooksLikeABuildLabel, TryParseBuildLabel,
// SetIncludeAndExclude, BuildState.ShouldInclude, ExpandLabels (expandOriginalPseudoTarget) and
// AddOriginalTarget + ExpandOriginalLabels.  The oracle is a reference implementation of the documented
// rule (docs/commands.html, --include/--exclude) written without looking at the model.
package main

import (
	"fmt"
	"os"
	"path/filepath"
	"sort"
	"strings"

	"verifharness/lib"

	"github.com/thought-machine/please/src/core"
)

// ----------------------------------------------------------------------------------------------
// inputs

type T struct {
	Name   string   `json:"name"`
	Labels []string `json:"labels"`
	Test   bool     `json:"test"`
}

type P struct {
	Sub     string `json:"subrepo,omitempty"`
	Pkg     string `json:"pkg"`
	Targets []T    `json:"targets"`
}

type L struct {
	Sub  string `json:"subrepo,omitempty"`
	Pkg  string `json:"pkg"`
	Name string `json:"name"`
}

type input struct {
	Kind      string   `json:"kind"`
	Cur       string   `json:"started_in_package"` // core.InitialPackagePath: the package plz was started in
	Graph     []P      `json:"graph,omitempty"`
	Include   []string `json:"include"`
	Exclude   []string `json:"exclude"`
	Labels    []L      `json:"labels,omitempty"`
	Deps      []D      `json:"dependencies,omitempty"` // kind "tested": declared dependency edges between the targets
	NeedTests bool     `json:"need_tests"`
	Out       []L      `json:"out,omitempty"`
	Want      []L      `json:"documented,omitempty"`
}

// ----------------------------------------------------------------------------------------------
// the reference: the documented rule
//
//   a target carries its declared labels, and the label `test` if it is a test;
//   a label of a group matches a carried label if equal, or if it ends in `*` and the rest is a prefix;
//   a group (comma separated) is carried if each of its labels matches some carried label;
//   an --exclude argument that is a build expression (//pkg:name, //pkg:all, //pkg/..., //pkg) removes the
//   targets it denotes; selected <=> (no include group or some include group carried) and no exclude group
//   carried and no exclude expression denotes the target.

type refMode int

const (
	documented refMode = iota
	// the defect repaired by b32293a (class wildcard-misses-implicit-test-label): `test` was only carried for the
	// exact label `test`, wildcards did not see it.  Kept so that its return is reported under its own name.
	implicitExactOnly
)

func refLabelMatches(pat, carried string) bool {
	if pat == carried {
		return true
	}
	if n := len(pat); n > 0 && pat[n-1] == '*' {
		stem := pat[:n-1]
		return len(carried) >= len(stem) && carried[:len(stem)] == stem
	}
	return false
}

func refCarries(t T, pat string, mode refMode) bool {
	for _, l := range t.Labels {
		if refLabelMatches(pat, l) {
			return true
		}
	}
	if t.Test {
		if mode == documented {
			return refLabelMatches(pat, "test")
		}
		return pat == "test"
	}
	return false
}

func refPieces(group string) []string {
	pieces := []string{}
	cur := ""
	for i := 0; i < len(group); i++ {
		if group[i] == ',' {
			pieces = append(pieces, cur)
			cur = ""
		} else {
			cur += string(group[i])
		}
	}
	return append(pieces, cur)
}

func refCarriesGroup(t T, group string, mode refMode) bool {
	for _, p := range refPieces(group) {
		if !refCarries(t, p, mode) {
			return false
		}
	}
	return true
}

func refIsExpression(x string) bool {
	return strings.HasPrefix(x, "//") || strings.HasPrefix(x, ":") ||
		(strings.HasPrefix(x, "@") && (strings.Contains(x, ":") || strings.Contains(x, "//")))
}

func refPlainName(x string) bool {
	if x == "" || x[0] == '.' {
		return x == "..."
	}
	for i := 0; i < len(x); i++ {
		c := x[i]
		if !(c >= 'a' && c <= 'z' || c >= 'A' && c <= 'Z' || c >= '0' && c <= '9' || c == '_' || c == '-' || c == '.' || c == '#' || c == '+') {
			return false
		}
	}
	return !strings.HasSuffix(x, "._build") && !strings.HasSuffix(x, "._test")
}

func refPlainPackage(x string) bool {
	if x == "" {
		return true
	}
	for _, comp := range strings.Split(x, "/") {
		if !refPlainName(comp) || comp == "..." {
			return false
		}
	}
	return true
}

// refRead: the documented reading of an exclude build expression given while plz runs in package cur:
//
//	:name                                 //cur:name   (:all = every target of cur, :... = cur and everything below)
//	//pkg:name  //pkg:all  //pkg/...  //... //pkg      in the host repository (//pkg = //pkg:<last component>)
//	///sub//pkg:name  @sub//pkg:name  (and the :all, /..., short forms)   in subrepo sub;  @sub:name = ///sub//:name
//
// ok=false: not one of the documented forms with plain names (the oracle does not judge such an input).
func refRead(cur, expr string) (L, bool) {
	switch {
	case strings.HasPrefix(expr, ":"):
		name := expr[1:]
		return L{"", cur, name}, refPlainName(name) && refPlainPackage(cur)
	case strings.HasPrefix(expr, "///"), strings.HasPrefix(expr, "@"):
		body := strings.TrimPrefix(strings.TrimPrefix(expr, "///"), "@")
		if i := strings.Index(body, "//"); i >= 0 {
			l, ok := refRead(cur, body[i:])
			l.Sub = body[:i]
			return l, ok && refPlainPackage(l.Sub) && l.Sub != "" && !strings.HasPrefix(body[i:], "///")
		}
		if i := strings.IndexByte(body, ':'); i >= 0 {
			return L{body[:i], "", body[i+1:]}, refPlainPackage(body[:i]) && body[:i] != "" && refPlainName(body[i+1:]) && body[i+1:] != "..."
		}
		return L{}, false
	case strings.HasPrefix(expr, "//"):
		body := expr[2:]
		if i := strings.IndexByte(body, ':'); i >= 0 {
			return L{"", body[:i], body[i+1:]}, refPlainPackage(body[:i]) && refPlainName(body[i+1:]) && body[i+1:] != "..."
		}
		if body == "..." {
			return L{"", "", "..."}, true
		}
		if strings.HasSuffix(body, "/...") {
			pkg := strings.TrimSuffix(body, "/...")
			return L{"", pkg, "..."}, refPlainPackage(pkg) && pkg != ""
		}
		name := body
		if i := strings.LastIndexByte(body, '/'); i >= 0 {
			name = body[i+1:]
		}
		return L{"", body, name}, refPlainPackage(body) && body != ""
	}
	return L{}, false
}

// subrepoBlind: the reading of the known defect exclude-expression-ignores-subrepo (BuildLabel.Includes does not
// compare Subrepo).  Only used to put a NAME on a deviation that was already detected with the documented reading.
var subrepoBlind = false

// refDenotesL: does the expression read as e denote the target that ?
func refDenotesL(e, that L) bool {
	if e.Sub != that.Sub && !subrepoBlind {
		return false
	}
	switch e.Name {
	case "...":
		return e.Pkg == "" || that.Pkg == e.Pkg || strings.HasPrefix(that.Pkg, e.Pkg+"/")
	case "all":
		return that.Pkg == e.Pkg
	}
	return that.Pkg == e.Pkg && that.Name == e.Name
}

// refDenotes: does the build expression, given in package cur, denote `that` ?  (false for an undocumented form)
func refDenotes(cur, expr string, that L) bool {
	e, ok := refRead(cur, expr)
	return ok && refDenotesL(e, that)
}

// documentedForms: every exclude expression of the list is one of the documented forms
func documentedForms(cur string, exclude []string) bool {
	for _, e := range exclude {
		if refIsExpression(e) {
			if _, ok := refRead(cur, e); !ok {
				return false
			}
		}
	}
	return true
}

// labelsOnly: BuildTarget.ShouldInclude is below the level where build expressions are recognised
var labelsOnly = false

func refSelected(cur string, p P, t T, include, exclude []string, mode refMode) bool {
	for _, e := range exclude {
		if !labelsOnly && refIsExpression(e) {
			if refDenotes(cur, e, L{p.Sub, p.Pkg, t.Name}) {
				return false
			}
		} else if refCarriesGroup(t, e, mode) {
			return false
		}
	}
	if len(include) == 0 {
		return true
	}
	for _, g := range include {
		if refCarriesGroup(t, g, mode) {
			return true
		}
	}
	return false
}

// keyEllipsis: the reading of the known defect subrepo-ellipsis-ranges-over-printed-keys (the `...` branch of
// expandOriginalPseudoTarget matches the label's package against `@sub//pkg` keys and ignores the label's subrepo).
var keyEllipsis = false

// refCovers: is package p covered by the pseudo label l (:all or ...) ?  A label ranges over its own repository.
func refCovers(l L, p P) bool {
	if l.Name == "all" {
		return l.Sub == p.Sub && l.Pkg == p.Pkg
	}
	if keyEllipsis {
		key := p.Pkg
		if p.Sub != "" {
			key = "@" + p.Sub + "//" + p.Pkg
		}
		return l.Pkg == "" || l.Pkg == key || strings.HasPrefix(key, l.Pkg+"/")
	}
	return l.Sub == p.Sub && (l.Pkg == "" || l.Pkg == p.Pkg || strings.HasPrefix(p.Pkg, l.Pkg+"/"))
}

func lessL(a, b L) bool {
	if a.Sub != b.Sub {
		return a.Sub < b.Sub
	}
	if a.Pkg != b.Pkg {
		return a.Pkg < b.Pkg
	}
	return a.Name < b.Name
}

// refOriginals: AddOriginalTarget drops a requested label that an exclude expression covers as a whole
func refOriginals(cur string, exclude []string, labels []L) []L {
	kept := []L{}
	for _, l := range labels {
		dropped := false
		for _, e := range exclude {
			if refIsExpression(e) {
				probe := l
				if l.Name == "all" {
					probe.Name = "\x00any" // the expression must denote the whole package
				}
				if refDenotes(cur, e, probe) {
					dropped = true
				}
			}
		}
		if !dropped {
			kept = append(kept, l)
		}
	}
	return kept
}

func refExpand(cur string, g []P, include, exclude []string, labels []L, needTests bool, mode refMode) []L {
	out := []L{}
	for _, l := range labels {
		if l.Name != "all" && l.Name != "..." {
			out = append(out, l)
			continue
		}
		part := []L{}
		for _, p := range g {
			if !refCovers(l, p) {
				continue
			}
			for _, t := range p.Targets {
				if refSelected(cur, p, t, include, exclude, mode) && (!needTests || t.Test) {
					part = append(part, L{p.Sub, p.Pkg, t.Name})
				}
			}
		}
		sort.Slice(part, func(i, j int) bool { return lessL(part[i], part[j]) })
		out = append(out, part...)
	}
	return out
}

// knownShape: the input shape of the repaired defect b32293a - a test target, a wildcard label in some label group
// whose stem is a prefix of "test", and no declared label of the target matched by that wildcard.
func knownShape(t T, include, exclude []string) bool {
	if !t.Test {
		return false
	}
	groups := append([]string{}, include...)
	for _, e := range exclude {
		if labelsOnly || !refIsExpression(e) {
			groups = append(groups, e)
		}
	}
	for _, g := range groups {
		for _, p := range refPieces(g) {
			if n := len(p); n > 0 && p[n-1] == '*' && strings.HasPrefix("test", p[:n-1]) {
				declared := false
				for _, l := range t.Labels {
					if refLabelMatches(p, l) {
						declared = true
					}
				}
				if !declared {
					return true
				}
			}
		}
	}
	return false
}

// ----------------------------------------------------------------------------------------------
// the implementation

func realTarget(sub, pkg string, t T) *core.BuildTarget {
	bt := core.NewBuildTarget(core.BuildLabel{Subrepo: sub, PackageName: pkg, Name: t.Name})
	bt.Labels = append([]string{}, t.Labels...)
	if t.Test {
		bt.Test = &core.TestFields{}
	}
	return bt
}

func fillGraph(graph *core.BuildGraph, g []P, r *lib.Rng) {
	for _, p := range g {
		pkg := core.NewPackageSubrepo(p.Pkg, p.Sub)
		for _, t := range p.Targets {
			bt := realTarget(p.Sub, p.Pkg, t)
			pkg.AddTarget(bt)
			graph.AddTarget(bt)
		}
		graph.AddPackage(pkg)
	}
}

func toLabel(l L) core.BuildLabel {
	return core.BuildLabel{Subrepo: l.Sub, PackageName: l.Pkg, Name: l.Name}
}

func toLabels(ls []L) []core.BuildLabel {
	out := make([]core.BuildLabel, len(ls))
	for i, l := range ls {
		out[i] = toLabel(l)
	}
	return out
}

func fromLabels(ls []core.BuildLabel) []L {
	out := make([]L, len(ls))
	for i, l := range ls {
		out[i] = L{l.Subrepo, l.PackageName, l.Name}
	}
	return out
}

// startIn makes the process look as if plz had been started in package cur of some repository: that is all
// parseMaybeRelativeBuildLabel learns from MustFindRepoRoot (core.RepoRoot set: no search) and core.InitialPackagePath.
func startIn(cur string) {
	core.RepoRoot = "/nonexistent/c36-repo-root"
	core.InitialPackagePath = cur
}

// realRel: parseMaybeRelativeBuildLabel(x, "") reached through the exported BuildLabel.UnmarshalFlag, which leaves
// the label untouched on an error when PLZ_COMPLETE is set (and would log.Fatalf otherwise).
func realRel(cur, x string) (L, bool) {
	startIn(cur)
	var l core.BuildLabel
	if x == "-" {
		return L{}, false
	}
	if err := l.UnmarshalFlag(x); err != nil || l == (core.BuildLabel{}) {
		return L{}, false
	}
	return L{l.Subrepo, l.PackageName, l.Name}, true
}

func realExpand(in input) []L {
	startIn(in.Cur)
	state := &core.BuildState{Graph: core.NewGraph(), NeedTests: in.NeedTests}
	fillGraph(state.Graph, in.Graph, nil)
	state.SetIncludeAndExclude(in.Include, in.Exclude)
	return fromLabels(state.ExpandLabels(toLabels(in.Labels)))
}

func realOriginals(in input) []L {
	startIn(in.Cur)
	state := core.NewDefaultBuildState()
	state.NeedTests = in.NeedTests
	fillGraph(state.Graph, in.Graph, nil)
	state.SetIncludeAndExclude(in.Include, in.Exclude)
	for _, l := range toLabels(in.Labels) {
		state.AddOriginalTarget(l, true)
	}
	return fromLabels(state.ExpandOriginalLabels())
}

// usable: SetIncludeAndExclude calls log.Fatalf on an exclude that looks like a label and does not parse
func usable(cur string, exclude []string) bool {
	for _, e := range exclude {
		if core.LooksLikeABuildLabel(e) {
			if _, ok := realRel(cur, e); !ok {
				return false
			}
			// the filepath.Join fall-back (an `@` form that does not parse as it stands, e.g. @s//a//b) is compared with the
			// model through parseMaybeRelativeBuildLabel directly (CRel); it is kept out of SetIncludeAndExclude so that a
			// change of the parser called there ends in a reported failing input, not in log.Fatalf killing the harness
			if !strings.HasPrefix(e, ":") {
				if _, err := core.TryParseBuildLabel(e, "", ""); err != nil {
					return false
				}
			}
		}
	}
	return true
}

// ----------------------------------------------------------------------------------------------
// Coq printers

func coqT(t T) string {
	return "(" + lib.Str(t.Name) + ", " + lib.StrList(t.Labels) + ", " + lib.Bool(t.Test) + ")"
}

func coqGraph(g []P) string {
	ps := []string{}
	for _, p := range g {
		ts := []string{}
		for _, t := range p.Targets {
			ts = append(ts, coqT(t))
		}
		ps = append(ps, "("+lib.Str(p.Sub)+", "+lib.Str(p.Pkg)+", "+lib.List(ts)+")")
	}
	return lib.List(ps)
}

func coqL(l L) string { return "(" + lib.Str(l.Sub) + ", " + lib.Str(l.Pkg) + ", " + lib.Str(l.Name) + ")" }

func coqLs(ls []L) string {
	out := []string{}
	for _, l := range ls {
		out = append(out, coqL(l))
	}
	return lib.List(out)
}

// ----------------------------------------------------------------------------------------------
// generators

var labelPool = []string{"go", "go_test", "got", "g", "py", "python", "test", "tests", "te", "t", "", "manual", "manual:linux_amd64",
	"go*", "*", "a,b", "slow", "//x:y", "@z", "tes"}

var patternPool = []string{"go", "go*", "g*", "go_*", "got", "py*", "python", "p*", "test", "test*", "tes*", "te*", "t*", "*", "**", "",
	"tests", "tests*", "manual", "manual:*", "manual*", "slow", "go**", "a", "b", "@z", "@*", "tex*", "est*", "x*"}

var pkgPool = []string{"", "a", "a/b", "a/bc", "ab", "a/b/c", "c", "c/a"}
var subPool = []string{"s", "s/t", "a", "third_party/s"}
var curPool = []string{"", "", "a", "a/b", "c", "ab", "x/y"}
var namePool = []string{"a", "b", "bc", "c", "lib", "lib_test", "x", "all"}

func genLabels(r *lib.Rng) []string {
	n := lib.Pick(r, []int{0, 0, 1, 1, 1, 2, 2, 3, 4})
	out := []string{}
	for i := 0; i < n; i++ {
		out = append(out, lib.Pick(r, labelPool))
	}
	if len(out) > 0 && r.Chance(1, 8) {
		out = append(out, out[0]) // duplicate
	}
	return out
}

func genTarget(r *lib.Rng, name string) T {
	return T{Name: name, Labels: genLabels(r), Test: r.Chance(2, 5)}
}

func genGroup(r *lib.Rng, t *T) string {
	n := lib.Pick(r, []int{1, 1, 1, 1, 2, 2, 3})
	parts := []string{}
	for i := 0; i < n; i++ {
		switch {
		case t != nil && len(t.Labels) > 0 && r.Chance(2, 5):
			// aimed at the target: one of its labels, possibly cut to a wildcard
			l := lib.Pick(r, t.Labels)
			if r.Chance(1, 2) && !strings.Contains(l, ",") {
				l = l[:r.Intn(len(l)+1)] + "*"
			}
			if strings.Contains(l, ",") {
				l = "go"
			}
			parts = append(parts, l)
		default:
			parts = append(parts, lib.Pick(r, patternPool))
		}
	}
	if r.Chance(1, 10) {
		parts = append(parts, parts[0])
	}
	return strings.Join(parts, ",")
}

func genGroups(r *lib.Rng, t *T) []string {
	n := lib.Pick(r, []int{0, 0, 0, 1, 1, 1, 2, 2, 3})
	out := []string{}
	for i := 0; i < n; i++ {
		out = append(out, genGroup(r, t))
	}
	return out
}

// genExpr: an exclude build expression aimed at the graph: absolute, relative to cur (`:name`, `:all`, `:...`), or
// naming a subrepo (`///sub//pkg:name`, `@sub//pkg:name`, `@sub:name`); often the SAME package and name in another
// repository than the target's, and the same name in the root package / in cur.
func genExpr(r *lib.Rng, cur string, g []P) string {
	pkg := lib.Pick(r, pkgPool)
	name := lib.Pick(r, namePool)
	sub := ""
	if len(g) > 0 && r.Chance(3, 4) {
		p := lib.Pick(r, g)
		pkg, sub = p.Pkg, p.Sub
		if len(p.Targets) > 0 && r.Chance(3, 4) {
			name = lib.Pick(r, p.Targets).Name
		}
	}
	if r.Chance(1, 5) {
		// the other repository
		if sub == "" {
			sub = lib.Pick(r, subPool)
		} else {
			sub = lib.Pick(r, []string{"", lib.Pick(r, subPool)})
		}
	}
	prefix := "//"
	if sub != "" {
		prefix = lib.Pick(r, []string{"///", "@"}) + sub + "//"
	}
	if sub == "" && r.Chance(1, 4) {
		// relative to the package plz was started in
		switch r.Intn(6) {
		case 0:
			return ":all"
		case 1:
			return ":..."
		default:
			return ":" + name
		}
	}
	switch r.Intn(8) {
	case 0, 1, 2:
		return prefix + pkg + ":" + name
	case 3:
		return prefix + pkg + ":all"
	case 4, 5:
		if pkg == "" {
			return prefix + "..."
		}
		return prefix + pkg + "/..."
	case 6:
		if pkg == "" {
			if sub != "" && r.Chance(1, 2) {
				return "@" + sub + ":" + name
			}
			return prefix + ":" + name
		}
		return prefix + pkg // short form
	default:
		// the parent package, recursively
		if i := strings.LastIndexByte(pkg, '/'); i > 0 {
			return prefix + pkg[:i] + "/..."
		}
		return prefix + pkg + ":" + name
	}
}

func genExcludes(r *lib.Rng, cur string, g []P, t *T) []string {
	out := genGroups(r, t)
	n := lib.Pick(r, []int{0, 0, 0, 1, 1, 2})
	for i := 0; i < n; i++ {
		out = append(out, genExpr(r, cur, g))
	}
	lib.Shuffle(r, out)
	return out
}

// genCur: the package plz was started in: mostly a package of the graph (so that relative expressions hit something)
func genCur(r *lib.Rng, g []P) string {
	if len(g) > 0 && r.Chance(1, 2) {
		return lib.Pick(r, g).Pkg
	}
	return lib.Pick(r, curPool)
}

// withSubrepos: re-home some packages of the graph into a subrepo, often keeping a host package of the same name
func withSubrepos(r *lib.Rng, g []P) []P {
	out := append([]P{}, g...)
	sub := lib.Pick(r, subPool[:2])
	for _, p := range g {
		switch r.Intn(4) {
		case 0:
			// a twin of the package in the subrepo: same names, fresh labels
			q := P{Sub: sub, Pkg: p.Pkg, Targets: []T{}}
			for _, t := range p.Targets {
				q.Targets = append(q.Targets, genTarget(r, t.Name))
			}
			if r.Chance(1, 2) {
				q.Targets = append(q.Targets, genTarget(r, "only_in_sub"))
			}
			out = append(out, q)
		case 1:
			for i := range out {
				if out[i].Pkg == p.Pkg && out[i].Sub == "" {
					out[i].Sub = sub
				}
			}
		}
	}
	return out
}

func genGraph(r *lib.Rng) []P {
	np := r.Range(1, 4)
	perm := make([]int, len(pkgPool))
	for i := range perm {
		perm[i] = i
	}
	lib.Shuffle(r, perm)
	g := []P{}
	for _, pi := range perm[:np] {
		nt := r.Range(0, 4)
		names := append([]string{}, namePool...)
		lib.Shuffle(r, names)
		p := P{Pkg: pkgPool[pi], Targets: []T{}}
		for _, n := range names[:nt] {
			if n == "all" && !r.Chance(1, 4) {
				n = "d"
			}
			p.Targets = append(p.Targets, genTarget(r, n))
		}
		g = append(g, p)
	}
	return g
}

func genPseudo(r *lib.Rng, g []P) []L {
	n := lib.Pick(r, []int{1, 1, 1, 2, 3})
	out := []L{}
	for i := 0; i < n; i++ {
		pkg, sub := lib.Pick(r, pkgPool), ""
		if r.Chance(4, 5) {
			p := lib.Pick(r, g)
			pkg, sub = p.Pkg, p.Sub
		}
		switch r.Intn(6) {
		case 0, 1, 2:
			out = append(out, L{sub, pkg, "all"})
		case 3:
			out = append(out, L{sub, pkg, "..."})
		case 4:
			if i := strings.LastIndexByte(pkg, '/'); i > 0 {
				pkg = pkg[:i]
			} else {
				pkg = ""
			}
			out = append(out, L{sub, pkg, "..."})
		default:
			out = append(out, L{sub, pkg, lib.Pick(r, namePool[:7])})
		}
	}
	return out
}

func hasSubrepos(g []P, ls []L) bool {
	for _, p := range g {
		if p.Sub != "" {
			return true
		}
	}
	for _, l := range ls {
		if l.Sub != "" {
			return true
		}
	}
	return false
}

// ----------------------------------------------------------------------------------------------
// the oracle on one expansion

func sameLs(a, b []L) bool {
	if len(a) != len(b) {
		return false
	}
	for i := range a {
		if a[i] != b[i] {
			return false
		}
	}
	return true
}

// expected: the documented selection for the input (kind "originals": after the up-front drop of requested labels)
func expected(in input, mode refMode) []L {
	labels := in.Labels
	if in.Kind == "e2e" {
		// the command line: `...` is resolved to the :all labels of the packages found below it, then as "originals";
		// the printed order depends on the directory walk: compared as a sorted set
		ls := []L{}
		for _, l := range labels {
			if l.Name == "..." {
				for _, p := range in.Graph {
					if l.Sub == p.Sub && (l.Pkg == "" || l.Pkg == p.Pkg || strings.HasPrefix(p.Pkg, l.Pkg+"/")) {
						ls = append(ls, L{p.Sub, p.Pkg, "all"})
					}
				}
			} else {
				ls = append(ls, l)
			}
		}
		out := refExpand(in.Cur, in.Graph, in.Include, in.Exclude, refOriginals(in.Cur, in.Exclude, ls), in.NeedTests, mode)
		sort.Slice(out, func(i, j int) bool { return lessL(out[i], out[j]) })
		return out
	}
	if in.Kind == "originals" {
		labels = refOriginals(in.Cur, in.Exclude, labels)
	}
	return refExpand(in.Cur, in.Graph, in.Include, in.Exclude, labels, in.NeedTests, mode)
}

func checkExpansion(c *lib.Ctx, in input, got []L) {
	if !documentedForms(in.Cur, in.Exclude) {
		return // an exclude expression outside the documented forms: the oracle has no reading of it
	}
	c.Oracle()
	want := expected(in, documented)
	if sameLs(got, want) {
		return
	}
	in.Out, in.Want = got, want
	// exclusion must win, whatever else is wrong
	sel := map[L]bool{}
	for _, l := range got {
		sel[l] = true
	}
	requested := map[L]bool{}
	for _, l := range in.Labels {
		requested[l] = true
	}
	known := false
	for _, p := range in.Graph {
		for _, t := range p.Targets {
			l := L{p.Sub, p.Pkg, t.Name}
			if requested[l] {
				continue // asked for by name: not subject to the filters
			}
			if sel[l] && !refSelected(in.Cur, p, t, nil, in.Exclude, documented) && !knownShape(t, nil, in.Exclude) {
				c.Fail("excluded-target-selected", fmt.Sprintf("%s is selected although an --exclude argument (given in package %q) covers it", toLabel(l), in.Cur), in)
				return
			}
			if knownShape(t, in.Include, in.Exclude) {
				known = true
			}
		}
	}
	// the two known subrepo defects: name the deviation when the observed selection is exactly what the defect predicts
	if hasSubrepos(in.Graph, in.Labels) || excludeNamesSubrepo(in.Cur, in.Exclude) {
		try := func(blind, key bool) bool {
			subrepoBlind, keyEllipsis = blind, key
			defer func() { subrepoBlind, keyEllipsis = false, false }()
			return sameLs(got, expected(in, documented))
		}
		ellipsis := false
		for _, l := range in.Labels {
			if l.Name == "..." && in.Kind != "e2e" {
				ellipsis = true
			}
		}
		if try(true, false) {
			c.Fail("exclude-expression-ignores-subrepo",
				fmt.Sprintf("started in %q, exclude=%q labels=%v: selected %v, documented rule selects %v (an exclude expression removed targets with the same package and name in ANOTHER repository: BuildLabel.Includes does not compare Subrepo)",
					in.Cur, in.Exclude, in.Labels, got, want), in)
			return
		}
		if ellipsis && try(false, true) {
			c.Fail("subrepo-ellipsis-ranges-over-printed-keys",
				fmt.Sprintf("labels=%v over packages %v: expanded to %v, documented rule selects %v (the ... branch of expandOriginalPseudoTarget matches the label's package against PackageMap keys `@sub//pkg` and ignores the label's subrepo)",
					in.Labels, pkgNames(in.Graph), got, want), in)
			return
		}
		if ellipsis && try(true, true) {
			c.Fail("subrepo-ellipsis-ranges-over-printed-keys",
				fmt.Sprintf("labels=%v exclude=%q over packages %v: expanded to %v, documented rule selects %v (the ... branch matches PackageMap keys `@sub//pkg`; together with exclude-expression-ignores-subrepo)",
					in.Labels, in.Exclude, pkgNames(in.Graph), got, want), in)
			return
		}
	}
	if known && sameLs(got, expected(in, implicitExactOnly)) {
		c.Fail("wildcard-misses-implicit-test-label",
			fmt.Sprintf("include=%q exclude=%q: selected %v, documented rule selects %v (a wildcard label does not see the implicit `test` label of a test target)",
				in.Include, in.Exclude, got, want), in)
		return
	}
	c.Fail("selection-differs-from-documented-rule",
		fmt.Sprintf("started in %q, include=%q exclude=%q labels=%v need_tests=%v: selected %v, documented rule selects %v", in.Cur, in.Include, in.Exclude, in.Labels, in.NeedTests, got, want), in)
}

func pkgNames(g []P) []string {
	out := []string{}
	for _, p := range g {
		out = append(out, toLabel(L{p.Sub, p.Pkg, "all"}).String())
	}
	return out
}

func excludeNamesSubrepo(cur string, exclude []string) bool {
	for _, e := range exclude {
		if refIsExpression(e) {
			if l, ok := refRead(cur, e); ok && l.Sub != "" {
				return true
			}
		}
	}
	return false
}

// single target through BuildTarget.ShouldInclude (label groups only)
func checkTarget(c *lib.Ctx, t T, include, exclude []string, got bool) {
	c.Oracle()
	labelsOnly = true
	defer func() { labelsOnly = false }()
	pp := P{Pkg: "p"}
	want := refSelected("", pp, t, include, exclude, documented)
	if got == want {
		return
	}
	in := map[string]any{"kind": "target", "target": t, "include": include, "exclude": exclude, "selected": got, "documented": want}
	if got && !refSelected("", pp, t, nil, exclude, documented) && !knownShape(t, nil, exclude) {
		c.Fail("excluded-target-selected", fmt.Sprintf("target with labels %q (test=%v) is selected by include=%q although exclude=%q covers it", t.Labels, t.Test, include, exclude), in)
		return
	}
	if knownShape(t, include, exclude) && got == refSelected("", pp, t, include, exclude, implicitExactOnly) {
		c.Fail("wildcard-misses-implicit-test-label",
			fmt.Sprintf("test target with labels %q, include=%q exclude=%q: ShouldInclude=%v, documented rule says %v (a wildcard label does not see the implicit `test` label)",
				t.Labels, include, exclude, got, want), in)
		return
	}
	c.Fail("selection-differs-from-documented-rule",
		fmt.Sprintf("target with labels %q (test=%v), include=%q exclude=%q: ShouldInclude=%v, documented rule says %v", t.Labels, t.Test, include, exclude, got, want), in)
}

func realTargetShould(t T, include, exclude []string) bool {
	return realTarget("", "p", t).ShouldInclude(include, exclude)
}

func subsetsUpTo(pool []string, k int) [][]string {
	out := [][]string{{}}
	var rec func(start int, cur []string)
	rec = func(start int, cur []string) {
		if len(cur) == k {
			return
		}
		for i := start; i < len(pool); i++ {
			next := append(append([]string{}, cur...), pool[i])
			out = append(out, next)
			rec(i+1, next)
		}
	}
	rec(0, nil)
	return out
}

func main() {
	lib.Main("C36", func(c *lib.Ctx) {
		c.Model("From PlzV Require Import Model.C36.", "C36.case", "C36.check")
		os.Setenv("PLZ_COMPLETE", "1") // BuildLabel.UnmarshalFlag then returns instead of log.Fatalf (see realRel)
		c.Rule("(1) exhaustive: every target with <=2 declared labels from a 5-label alphabet (shared prefixes, the empty label, `test`) x test/non-test, against every " +
			"include list and exclude list of <=1 group of <=2 labels or 2 single-label groups over 8 patterns (wildcards, `*`, empty), through BuildTarget.ShouldInclude; " +
			"(2) random graphs of 1-4 packages (shared name prefixes) x 0-4 targets, include/exclude lists of 0-3 groups of 1-3 labels aimed at the targets' labels " +
			"(wildcards cut from them, duplicates, empty pieces) plus 0-2 exclude build expressions (:name, :all, /..., short form, parent/...), expanded through " +
			"SetIncludeAndExclude + ExpandLabels for 1-3 requested labels (:all, /..., exact) with and without NeedTests, and through AddOriginalTarget + ExpandOriginalLabels; " +
			"(3) HasLabel, Includes, LooksLikeABuildLabel, TryParseBuildLabel on adversarial strings. " +
			"(4) follow-up: every SetIncludeAndExclude/expansion runs with core.InitialPackagePath set to a generated package (often one of the graph) and exclude expressions " +
			"relative to it (:name, :all, :...), about a third of the graphs hold subrepo packages (twins of host packages with the same target names) with ///sub//, @sub// and @sub: exclude " +
			"expressions and requested labels; parseMaybeRelativeBuildLabel (through BuildLabel.UnmarshalFlag), TryParseBuildLabel with a current package, filepath.Join and the PackageMap keys " +
			"are compared with the model on structured + edited strings; (5) end to end: `plz query alltargets` with --include/--exclude over a generated repository with a subrepo, from the " +
			"root and from sub-directories, compared with the documented rule. " +
			"(6) round-2 follow-up: graphs with DEPENDENCY EDGES between the candidates and exclude build PATTERNS aimed at members of the requested packages: AddOriginalTarget for " +
			"every requested :all / named label on a real BuildState, then IsOriginalTarget of every target; and a `plz test` run on the real state's queues driven as plz.Run drives " +
			"them (ActivateTarget, queueing of dependencies, built -> NeedTests && IsTest && IsOriginalTarget -> QueueTestTarget): the set of tests run; end to end `plz test` over a " +
			"generated repository where an included test depends on a pattern-excluded test. " +
			"distinct = distinct inputs; non-trivial = at least one include or exclude argument and at least one target both selected and one rejected (expansions), " +
			"or a wildcard/compound group (single targets)")

		var rep input
		if c.ReadReplay(&rep) && rep.Kind == "e2e" {
			endToEnd(c)
			return
		}
		if c.ReadReplay(&rep) && (rep.Kind == "isorig" || rep.Kind == "tested") {
			if usable(rep.Cur, rep.Exclude) {
				rep.Out, rep.Want = nil, nil
				if rep.Kind == "isorig" {
					runIsOrig(c, rep)
				} else {
					runTested(c, rep)
				}
			}
			return
		}
		if c.ReadReplay(&rep) && (rep.Kind == "expand" || rep.Kind == "originals") {
			if usable(rep.Cur, rep.Exclude) {
				var got []L
				if rep.Kind == "expand" {
					got = realExpand(rep)
				} else {
					got = realOriginals(rep)
				}
				checkExpansion(c, rep, got)
				c.Eval(rep, "replay", true)
			}
			return
		}

		// ---- 0. corpus: the witnesses of the defect repaired by b32293a (wildcard labels did not see the implicit
		// `test` label), through ShouldInclude and through an expansion
		for _, w := range []struct{ inc, exc []string }{
			{[]string{"test*"}, nil}, {[]string{"te*"}, nil}, {[]string{"*"}, nil}, {nil, []string{"te*"}}, {nil, []string{"*"}},
			{[]string{"go,tes*"}, nil}, {[]string{"test"}, []string{"test*"}},
		} {
			for _, ls := range [][]string{{}, {"go"}, {"tex"}} {
				t := T{Name: "x_test", Labels: ls, Test: true}
				inc, exc := append([]string{}, w.inc...), append([]string{}, w.exc...)
				got := realTargetShould(t, inc, exc)
				checkTarget(c, t, inc, exc, got)
				c.Case(lib.App("CTarget", lib.StrList(t.Labels), lib.Bool(true), lib.StrList(inc), lib.StrList(exc), lib.Bool(got)),
					map[string]any{"kind": "target", "target": t, "include": inc, "exclude": exc, "selected": got}, fmt.Sprint("w", ls, inc, exc), true)
				in := input{Kind: "expand", Graph: []P{{Pkg: "p", Targets: []T{t, {Name: "lib", Labels: ls, Test: false}}}}, Include: inc, Exclude: exc,
					Labels: []L{{"", "p", "all"}}}
				out := realExpand(in)
				checkExpansion(c, in, out)
				in.Out = out
				c.Case(lib.App("CExpand", lib.Str(""), coqGraph(in.Graph), lib.StrList(inc), lib.StrList(exc), coqLs(in.Labels), "false", coqLs(out)), in, fmt.Sprint("we", ls, inc, exc), true)
			}
		}

		// ---- 1. exhaustive small space through BuildTarget.ShouldInclude (oracle), a slice of it to the model
		alpha := []string{"go", "got", "test", "t", ""}
		pats := []string{"go", "go*", "g*", "test", "te*", "*", "", "got"}
		groups1 := append([]string{}, pats...)
		groups := append([]string{}, pats...)
		for _, p := range pats {
			for _, q := range pats {
				groups = append(groups, p+","+q)
			}
		}
		lists := [][]string{{}}
		for _, g := range groups {
			lists = append(lists, []string{g})
		}
		for _, g := range groups1 {
			for _, h := range groups1 {
				lists = append(lists, []string{g, h})
			}
		}
		tsets := subsetsUpTo(alpha, 2)
		stride := c.Scale(1499, 149)
		k := 0
		for _, ls := range tsets {
			for _, tst := range []bool{false, true} {
				t := T{Name: "x", Labels: ls, Test: tst}
				bt := realTarget("", "p", t)
				for _, inc := range lists {
					for _, exc := range lists {
						got := bt.ShouldInclude(inc, exc)
						checkTarget(c, t, inc, exc, got)
						k++
						nontriv := len(inc)+len(exc) > 0
						if k%stride == 0 {
							c.Case(lib.App("CTarget", lib.StrList(ls), lib.Bool(tst), lib.StrList(inc), lib.StrList(exc), lib.Bool(got)),
								map[string]any{"kind": "target", "target": t, "include": inc, "exclude": exc, "selected": got},
								fmt.Sprint("x", ls, tst, inc, exc), nontriv)
						} else if k%97 == 0 {
							c.Eval(map[string]any{"kind": "target", "target": t, "include": inc, "exclude": exc, "selected": got}, fmt.Sprint("x", ls, tst, inc, exc), nontriv)
						}
					}
				}
			}
		}
		c.Exhaustive(true)
		c.Note("exhaustive part: %d targets x %d include lists x %d exclude lists = %d ShouldInclude calls compared with the documented rule; every %d-th also evaluated by the model",
			len(tsets)*2, len(lists), len(lists), k, stride)

		// ---- 2. random single targets with richer groups
		for i, n := 0, c.Scale(400, 6000); i < n; i++ {
			r := c.Rng.Fork()
			t := genTarget(r, "x")
			inc, exc := genGroups(r, &t), genGroups(r, &t)
			got := realTargetShould(t, inc, exc)
			checkTarget(c, t, inc, exc, got)
			compound := false
			for _, g := range append(append([]string{}, inc...), exc...) {
				if strings.ContainsAny(g, ",*") {
					compound = true
				}
			}
			c.Case(lib.App("CTarget", lib.StrList(t.Labels), lib.Bool(t.Test), lib.StrList(inc), lib.StrList(exc), lib.Bool(got)),
				map[string]any{"kind": "target", "target": t, "include": inc, "exclude": exc, "selected": got},
				fmt.Sprint("t", t, inc, exc), compound)
			c.HistN("target_labels", len(t.Labels))
			c.HistN("include_groups", len(inc))
			c.HistN("exclude_groups", len(exc))
		}

		// ---- 3. HasLabel on (pattern, label) pairs: all pairs of the pools
		for _, p := range patternPool {
			for _, l := range labelPool {
				for _, tst := range []bool{false, true} {
					t := T{Name: "x", Labels: []string{l}, Test: tst}
					got := realTarget("", "p", t).HasLabel(p)
					c.Oracle()
					want := refCarries(t, p, documented)
					js := map[string]any{"kind": "has_label", "target": t, "label": p, "has": got, "documented": want}
					if got != want {
						if knownShape(t, []string{p}, nil) && got == refCarries(t, p, implicitExactOnly) {
							c.Fail("wildcard-misses-implicit-test-label", fmt.Sprintf("test target with labels %q: HasLabel(%q)=%v, documented %v", t.Labels, p, got, want), js)
						} else {
							c.Fail("label-match-differs-from-documented-rule", fmt.Sprintf("target with labels %q (test=%v): HasLabel(%q)=%v, documented %v", t.Labels, tst, p, got, want), js)
						}
					}
					if tst == (len(p)%2 == 0) { // half of them to the model
						c.Case(lib.App("CHas", lib.StrList(t.Labels), lib.Bool(tst), lib.Str(p), lib.Bool(got)), js, fmt.Sprint("h", p, l, tst), strings.HasSuffix(p, "*"))
					}
				}
			}
		}
		// no declared labels at all
		for _, p := range patternPool {
			for _, tst := range []bool{false, true} {
				t := T{Name: "x", Labels: []string{}, Test: tst}
				got := realTarget("", "p", t).HasLabel(p)
				c.Case(lib.App("CHas", "[]", lib.Bool(tst), lib.Str(p), lib.Bool(got)), map[string]any{"kind": "has_label", "target": t, "label": p, "has": got}, fmt.Sprint("h0", p, tst), tst)
			}
		}

		// ---- 4. Includes: all pairs (pattern label, target label) over the pools, in the same and in different repositories
		exprs := []L{}
		for _, p := range pkgPool {
			for _, n := range []string{"all", "...", "a", "lib", "bc"} {
				exprs = append(exprs, L{"", p, n})
			}
		}
		thats := []L{}
		for _, p := range pkgPool {
			for _, n := range []string{"a", "lib", "all", "bc", ""} {
				thats = append(thats, L{"", p, n})
			}
		}
		exprText := func(e L) string {
			prefix := "//"
			if e.Sub != "" {
				prefix = "///" + e.Sub + "//"
			}
			if e.Name == "..." {
				if e.Pkg == "" {
					return prefix + "..."
				}
				return prefix + e.Pkg + "/..."
			}
			return prefix + e.Pkg + ":" + e.Name
		}
		k = 0
		for _, e0 := range exprs {
			for _, th0 := range thats {
				for _, subs := range [][2]string{{"", ""}, {"s", "s"}, {"", "s"}, {"s", ""}, {"s", "s/t"}} {
					e, th := e0, th0
					e.Sub, th.Sub = subs[0], subs[1]
					got := toLabel(e).Includes(toLabel(th))
					k++
					if subs[0] == subs[1] || got {
						c.Oracle()
						// what the expression denotes, read off its text
						text := exprText(e)
						js := map[string]any{"kind": "includes", "expr": e, "that": th, "includes": got}
						if want := refDenotes("", text, th); got != want {
							if subs[0] != subs[1] {
								c.Fail("exclude-expression-ignores-subrepo", fmt.Sprintf("%s.Includes(%s)=%v although the two are in different repositories", text, toLabel(th), got), js)
							} else {
								c.Fail("exclude-expression-covers-wrong-targets", fmt.Sprintf("%s.Includes(%s)=%v, the expression denotes it: %v", text, toLabel(th), got, want), js)
							}
						}
					}
					if (subs[0] == "" && subs[1] == "" && k%15 == 0) || k%41 == 0 || c.Thor {
						c.Case(lib.App("CIncl", coqL(e), coqL(th), lib.Bool(got)), map[string]any{"kind": "includes", "expr": e, "that": th, "includes": got}, fmt.Sprint("i", e, th), e.Pkg != th.Pkg)
					}
				}
			}
		}

		// ---- 5. LooksLikeABuildLabel, TryParseBuildLabel (with a current package), parseMaybeRelativeBuildLabel, filepath.Join
		looks := []string{"", "/", "//", ":", "@", "@a", "@a:b", "@a//b", "a", "a:b", "a//b", "//a:b", ":x", "go,//a:b", "//a:b,go", "@*", "@z", "/a", "*//", " //a", "///s//a:b", "@s//a/..."}
		for _, x := range looks {
			got := core.LooksLikeABuildLabel(x)
			c.Case(lib.App("CLooks", lib.Str(x), lib.Bool(got)), map[string]any{"kind": "looks", "x": x, "looks": got}, "l"+x, got)
		}
		parses := []string{"", "/", "//", "//a", "//a/b", "//a/b:c", "//a:b", "//:x", "//...", "//a/...", "//a/b/...", "//a//...", "//a/", "//a//b", "//a:", "//a:...",
			"//a:.x", "//a:x._build", "//a:x._test", "//a._build:x", "//a:b:c", "//a:b/c", "//a*:b", "//a:b*", "//a/...:x", "//.../a", "//a/.../...", "//a b:c d",
			"//a:b,go", "//a:all", "//all", "//a/all", "a:b", "a", "/a:b", "//a/...x", "//a...", "//a/b...", "//....", "//a:..", "//a:x.", "//a\\b:c", "//a:{b}", "//a/b/c:lib_test",
			"//a/....", "//a|b:c", "//a:b|c", "//$a:b", "//a/:b",
			// relative and subrepo forms
			":x", ":all", ":...", ":", ":.x", ":a:b", ":a/b", ":x._build", "::", ":a b",
			"@s", "@s:x", "@s//a:x", "@s//a", "@s//a/...", "@s//...", "@s//:x", "@s/t//a:x", "@s/t", "@s/", "@", "@:", "@:x", "@//a:x", "@s:", "@s://a", "@s:x//a", "@s//a//b", "@s//a/",
			"@s///t//a:x", "@s//@t//a:x", "@s//a:b:c", "@s//a:...", "@s//:all", "@s:all", "@s:...", "@s@linux_amd64//a:x",
			"///s//a:x", "///s//a", "///s//a/...", "///s", "///s/t", "///s:x", "///", "////", "/////a:x", "///s///t//a:x", "///s//", "///s//:x", "///s/t//a/b:c", "///s//a//b", "///:x"}
		for i, n := 0, c.Scale(120, 2500); i < n; i++ {
			r := c.Rng.Fork()
			x := lib.Pick(r, []string{"//", "//", "//", ":", "///s//", "@s//", "@s", "///s/t//"}) + lib.Pick(r, pkgPool)
			switch r.Intn(4) {
			case 0, 3:
				x += ":" + lib.Pick(r, namePool)
			case 1:
				x += "/..."
			}
			// one random edit
			chars := "/:.*a_|,@"
			pos := r.Intn(len(x) + 1)
			switch r.Intn(3) {
			case 0:
				x = x[:pos] + string(chars[r.Intn(len(chars))]) + x[pos:]
			case 1:
				if pos < len(x) {
					x = x[:pos] + x[pos+1:]
				}
			}
			parses = append(parses, x)
		}
		seenParse := map[string]bool{}
		for i, x := range parses {
			cur := curPool[i%len(curPool)]
			if seenParse[cur+"\x00"+x] {
				continue
			}
			seenParse[cur+"\x00"+x] = true
			l, err := core.TryParseBuildLabel(x, cur, "")
			out := "None"
			if err == nil {
				out = lib.Some(coqL(L{l.Subrepo, l.PackageName, l.Name}))
			}
			c.Case(lib.App("CParse", lib.Str(cur), lib.Str(x), out), map[string]any{"kind": "parse", "cur": cur, "x": x, "ok": err == nil, "subrepo": l.Subrepo, "pkg": l.PackageName, "name": l.Name}, "p"+cur+"|"+x, err == nil)
			if err == nil && cur == "" {
				// the oracle's reading of expressions agrees with the parser on what a pattern denotes
				if _, ok := refRead(cur, x); ok {
					c.Oracle()
					for _, th0 := range thats {
						th := th0
						th.Sub = l.Subrepo
						if got, want := l.Includes(toLabel(th)), refDenotes(cur, x, th); got != want {
							c.Fail("exclude-expression-covers-wrong-targets", fmt.Sprintf("--exclude %s: covers %s = %v, the expression denotes it: %v", x, toLabel(th), got, want),
								map[string]any{"kind": "includes", "expr": x, "that": th, "includes": got})
						}
					}
				}
			}
			// parseMaybeRelativeBuildLabel with plz started in cur
			for _, cur2 := range []string{cur, lib.Pick(c.Rng, curPool)} {
				if seenParse["rel"+cur2+"\x00"+x] || x == "-" {
					continue
				}
				seenParse["rel"+cur2+"\x00"+x] = true
				rl, ok := realRel(cur2, x)
				out := "None"
				if ok {
					out = lib.Some(coqL(rl))
				}
				js := map[string]any{"kind": "relative", "started_in_package": cur2, "x": x, "ok": ok, "label": rl}
				c.Case(lib.App("CRel", lib.Str(cur2), lib.Str(x), out), js, "r"+cur2+"|"+x, ok && cur2 != "")
				// the documented reading: an expression the oracle can read must be accepted and read the same way
				if want, rok := refRead(cur2, x); rok && core.LooksLikeABuildLabel(x) {
					c.Oracle()
					if !ok {
						c.Fail("exclude-expression-misread", fmt.Sprintf("plz started in %q: --exclude %s is rejected, it denotes %v", cur2, x, want), js)
					} else if rl != want && !(rl.Sub == want.Sub && rl.Pkg == want.Pkg && want.Name == rl.Name) {
						cls := "exclude-expression-misread"
						if strings.HasPrefix(x, ":") {
							cls = "relative-exclude-not-resolved-against-current-package"
						}
						c.Fail(cls, fmt.Sprintf("plz started in %q: --exclude %s is read as %s, it denotes %s", cur2, x, toLabel(rl), toLabel(want)), js)
					}
				}
			}
		}
		// filepath.Join as parseMaybeRelativeBuildLabel uses it, and the PackageMap keys
		for _, a := range append([]string{"a/./b", "a/../b", "..", "a//b"}, curPool...) {
			for _, b := range []string{"@s//a//b", "@s//a/", "@a", "@s//../x", "@s/..//..//..//y", "@s//./a", "@s//a/../..", "x", "../x", "./", "..", "@s//a//..//..//.."} {
				got := filepath.Join(a, b)
				c.Case(lib.App("CJoin", lib.Str(a), lib.Str(b), lib.Str(got)), map[string]any{"kind": "join", "a": a, "b": b, "joined": got}, "j"+a+"|"+b, a != "")
			}
		}
		for _, sub := range append([]string{""}, subPool...) {
			for _, pk := range pkgPool {
				g := core.NewGraph()
				g.AddPackage(core.NewPackageSubrepo(pk, sub))
				for key := range g.PackageMap() {
					c.Case(lib.App("CKey", lib.Str(sub), lib.Str(pk), lib.Str(key)), map[string]any{"kind": "key", "subrepo": sub, "pkg": pk, "key": key}, "k"+sub+"|"+pk, sub != "")
				}
			}
		}

		// ---- 6. SetIncludeAndExclude: the observed state (with stale Exclude and earlier ExcludeTargets), started in a package
		for i, n := 0, c.Scale(100, 1500); i < n; i++ {
			r := c.Rng.Fork()
			g := genGraph(r)
			if r.Chance(1, 3) {
				g = withSubrepos(r, g)
			}
			cur := genCur(r, g)
			inc, exc := genGroups(r, nil), genExcludes(r, cur, g, nil)
			if r.Chance(1, 3) {
				exc = append(exc, lib.Pick(r, []string{"@z", "@*", "a:b", "/a", "", "go,//a:b", "//a:b,go", ":lib", ":all", ":...", "@s//a//b", "@s//a/"}))
			}
			if !usable(cur, exc) {
				continue
			}
			before := []L{}
			if r.Chance(1, 2) {
				before = append(before, L{"", lib.Pick(r, pkgPool), lib.Pick(r, namePool)})
			}
			startIn(cur)
			state := &core.BuildState{Graph: core.NewGraph()}
			state.Exclude = []string{"stale"}
			state.ExcludeTargets = toLabels(before)
			state.SetIncludeAndExclude(inc, exc)
			js := map[string]any{"kind": "set", "started_in_package": cur, "before": before, "include": inc, "exclude": exc, "Include": state.Include, "Exclude": state.Exclude, "ExcludeTargets": fromLabels(state.ExcludeTargets)}
			c.Case(lib.App("CSet", lib.Str(cur), coqLs(before), lib.StrList(inc), lib.StrList(exc), lib.StrList(state.Include), lib.StrList(state.Exclude), coqLs(fromLabels(state.ExcludeTargets))),
				js, fmt.Sprint("s", cur, before, inc, exc), len(state.ExcludeTargets) > len(before) && len(state.Exclude) > 0)
			// the oracle on the state: every exclude expression is read as documented, in order
			if documentedForms(cur, exc) {
				c.Oracle()
				want := append([]L{}, before...)
				for _, e := range exc {
					if refIsExpression(e) {
						l, _ := refRead(cur, e)
						want = append(want, l)
					}
				}
				if got := fromLabels(state.ExcludeTargets); !sameLs(got, want) {
					cls := "exclude-expression-misread"
					for j := range got {
						if j < len(want) && got[j] != want[j] && want[j].Pkg == cur && got[j].Name == want[j].Name {
							cls = "relative-exclude-not-resolved-against-current-package"
						}
					}
					c.Fail(cls, fmt.Sprintf("plz started in %q, --exclude %q: ExcludeTargets = %v, the expressions denote %v", cur, exc, state.ExcludeTargets, toLabels(want)), js)
				}
			}
		}

		// ---- 6b. one target through BuildState.ShouldInclude with a relative exclude expression: the target of the current
		// package is rejected, its namesake in the root package (and in every other package) is not
		for _, cur := range []string{"", "a", "a/b", "x/y"} {
			for _, e := range []string{":lib", ":all", ":..."} {
				for _, th := range []L{{"", cur, "lib"}, {"", "", "lib"}, {"", cur, "other"}, {"", cur + "/sub", "lib"}, {"", "zz", "lib"}, {"s", cur, "lib"}} {
					th.Pkg = strings.TrimPrefix(th.Pkg, "/")
					startIn(cur)
					state := &core.BuildState{Graph: core.NewGraph()}
					state.SetIncludeAndExclude(nil, []string{e})
					t := T{Name: th.Name, Labels: []string{"go"}}
					got := state.ShouldInclude(realTarget(th.Sub, th.Pkg, t))
					js := map[string]any{"kind": "state", "started_in_package": cur, "exclude": []string{e}, "target": th, "selected": got}
					c.Case(lib.App("CState", lib.Str(cur), lib.Str(th.Sub), lib.Str(th.Pkg), coqT(t), "[]", lib.StrList([]string{e}), lib.Bool(got)), js, fmt.Sprint("st", cur, e, th), cur != "")
					c.Oracle()
					if want := !refDenotes(cur, e, th); got != want {
						cls := "relative-exclude-not-resolved-against-current-package"
						if th.Sub != "" {
							cls = "exclude-expression-ignores-subrepo"
						}
						c.Fail(cls, fmt.Sprintf("plz started in %q, --exclude %s: ShouldInclude(%s) = %v, documented %v", cur, e, toLabel(th), got, want), js)
					}
				}
			}
		}

		// ---- 6c. end to end (before the first NewDefaultBuildState: its watchdog dumps goroutines once the process has been idle for 5 s)
		endToEnd(c)

		// ---- 7. expansions
		nExp := c.Scale(800, 12000)
		nOrig := c.Scale(100, 600)
		for i := 0; i < nExp+nOrig; i++ {
			r := c.Rng.Fork()
			g := genGraph(r)
			if r.Chance(1, 3) {
				g = withSubrepos(r, g)
			}
			var aim *T
			for _, p := range g {
				if len(p.Targets) > 0 {
					aim = &p.Targets[r.Intn(len(p.Targets))]
					break
				}
			}
			cur := genCur(r, g)
			in := input{Kind: "expand", Cur: cur, Graph: g, Include: genGroups(r, aim), Exclude: genExcludes(r, cur, g, aim), Labels: genPseudo(r, g), NeedTests: r.Chance(1, 5)}
			if !usable(cur, in.Exclude) {
				continue
			}
			var got []L
			ctor := "CExpand"
			if i >= nExp {
				// AddOriginalTarget panics on `...` (they are resolved to :all labels before): replace them
				in.Kind, ctor = "originals", "COrig"
				ls := []L{}
				for _, l := range in.Labels {
					if l.Name == "..." {
						for _, p := range g {
							if refCovers(l, p) {
								ls = append(ls, L{p.Sub, p.Pkg, "all"})
							}
						}
					} else {
						ls = append(ls, l)
					}
				}
				in.Labels = ls
				got = realOriginals(in)
			} else {
				got = realExpand(in)
			}
			checkExpansion(c, in, got)
			in.Out = got
			total := 0
			for _, p := range g {
				for _, l := range in.Labels {
					if refCovers(l, p) && (l.Name == "all" || l.Name == "...") {
						total += len(p.Targets)
						break
					}
				}
			}
			nontriv := len(in.Include)+len(in.Exclude) > 0 && len(got) > 0 && len(got) < total
			c.Case(lib.App(ctor, lib.Str(cur), coqGraph(g), lib.StrList(in.Include), lib.StrList(in.Exclude), coqLs(in.Labels), lib.Bool(in.NeedTests), coqLs(got)),
				in, fmt.Sprint("e", in.Kind, cur, g, in.Include, in.Exclude, in.Labels, in.NeedTests), nontriv)
			c.HistN("packages", len(g))
			c.HistN("selected", min(len(got), 8))
			nex, nrel, nsub := 0, 0, 0
			for _, e := range in.Exclude {
				if refIsExpression(e) {
					nex++
					if strings.HasPrefix(e, ":") {
						nrel++
					}
					if strings.HasPrefix(e, "@") || strings.HasPrefix(e, "///") {
						nsub++
					}
				}
			}
			c.HistN("exclude_expressions", nex)
			c.HistN("relative_exclude_expressions", nrel)
			c.HistN("subrepo_exclude_expressions", nsub)
			c.Hist("started_in_root", fmt.Sprint(cur == ""))
			c.Hist("graph_has_subrepo_packages", fmt.Sprint(hasSubrepos(g, nil)))
			c.HistN("include_args", len(in.Include))
		}

		// ---- 8. original targets: IsOriginalTarget of every target, and the tests a `plz test` run executes over graphs
		// with dependency edges (round-2 follow-up, orig.go)
		originalTargets(c)
	})
}
