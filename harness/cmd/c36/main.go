// C36: label include/exclude filters. Implementation side of the correspondence + property oracle.
//
// Everything runs in process on the real core.BuildTarget / core.BuildState / core.BuildGraph:
// HasLabel, BuildTarget.ShouldInclude, BuildLabel.Includes, LooksLikeABuildLabel, TryParseBuildLabel,
// SetIncludeAndExclude, BuildState.ShouldInclude, ExpandLabels (expandOriginalPseudoTarget) and
// AddOriginalTarget + ExpandOriginalLabels.  The oracle is a reference implementation of the documented
// rule (docs/commands.html, --include/--exclude) written without looking at the model.
package main

import (
	"fmt"
	"sort"
	"strings"

	"verifharness/lib"

	"github.com/thought-machine/please/src/core"
)

// ----------------------------------------------------------------------------------------------
// inputs

type T struct {
	Name   string   `json:"name"`
	Labels []string `json:"labels"`
	Test   bool     `json:"test"`
}

type P struct {
	Pkg     string `json:"pkg"`
	Targets []T    `json:"targets"`
}

type L struct {
	Pkg  string `json:"pkg"`
	Name string `json:"name"`
}

type input struct {
	Kind      string   `json:"kind"`
	Graph     []P      `json:"graph,omitempty"`
	Include   []string `json:"include"`
	Exclude   []string `json:"exclude"`
	Labels    []L      `json:"labels,omitempty"`
	NeedTests bool     `json:"need_tests"`
	Out       []L      `json:"out,omitempty"`
	Want      []L      `json:"documented,omitempty"`
}

// ----------------------------------------------------------------------------------------------
// the reference: the documented rule
//
//   a target carries its declared labels, and the label `test` if it is a test;
//   a label of a group matches a carried label if equal, or if it ends in `*` and the rest is a prefix;
//   a group (comma separated) is carried if each of its labels matches some carried label;
//   an --exclude argument that is a build expression (//pkg:name, //pkg:all, //pkg/..., //pkg) removes the
//   targets it denotes; selected <=> (no include group or some include group carried) and no exclude group
//   carried and no exclude expression denotes the target.

type refMode int

const (
	documented refMode = iota
	// the defect repaired by b32293a (class wildcard-misses-implicit-test-label): `test` was only carried for the
	// exact label `test`, wildcards did not see it.  Kept so that its return is reported under its own name.
	implicitExactOnly
)

func refLabelMatches(pat, carried string) bool {
	if pat == carried {
		return true
	}
	if n := len(pat); n > 0 && pat[n-1] == '*' {
		stem := pat[:n-1]
		return len(carried) >= len(stem) && carried[:len(stem)] == stem
	}
	return false
}

func refCarries(t T, pat string, mode refMode) bool {
	for _, l := range t.Labels {
		if refLabelMatches(pat, l) {
			return true
		}
	}
	if t.Test {
		if mode == documented {
			return refLabelMatches(pat, "test")
		}
		return pat == "test"
	}
	return false
}

func refPieces(group string) []string {
	pieces := []string{}
	cur := ""
	for i := 0; i < len(group); i++ {
		if group[i] == ',' {
			pieces = append(pieces, cur)
			cur = ""
		} else {
			cur += string(group[i])
		}
	}
	return append(pieces, cur)
}

func refCarriesGroup(t T, group string, mode refMode) bool {
	for _, p := range refPieces(group) {
		if !refCarries(t, p, mode) {
			return false
		}
	}
	return true
}

func refIsExpression(x string) bool {
	return strings.HasPrefix(x, "//") || strings.HasPrefix(x, ":")
}

// refDenotes: does the build expression (host repository forms) denote target //pkg:name ?
func refDenotes(expr, pkg, name string) bool {
	body := strings.TrimPrefix(expr, "//")
	if i := strings.IndexByte(body, ':'); i >= 0 {
		epkg, ename := body[:i], body[i+1:]
		if ename == "all" {
			return pkg == epkg
		}
		return pkg == epkg && name == ename
	}
	if body == "..." {
		return true
	}
	if strings.HasSuffix(body, "/...") {
		epkg := strings.TrimSuffix(body, "/...")
		return pkg == epkg || strings.HasPrefix(pkg, epkg+"/")
	}
	// //pkg is short for //pkg:<last component>
	ename := body
	if i := strings.LastIndexByte(body, '/'); i >= 0 {
		ename = body[i+1:]
	}
	if ename == "all" {
		return pkg == body
	}
	return pkg == body && name == ename
}

// labelsOnly: BuildTarget.ShouldInclude is below the level where build expressions are recognised
var labelsOnly = false

func refSelected(pkg string, t T, include, exclude []string, mode refMode) bool {
	for _, e := range exclude {
		if !labelsOnly && refIsExpression(e) {
			if refDenotes(e, pkg, t.Name) {
				return false
			}
		} else if refCarriesGroup(t, e, mode) {
			return false
		}
	}
	if len(include) == 0 {
		return true
	}
	for _, g := range include {
		if refCarriesGroup(t, g, mode) {
			return true
		}
	}
	return false
}

// refCovers: is package pkg covered by the pseudo label l (:all or ...) ?
func refCovers(l L, pkg string) bool {
	if l.Name == "all" {
		return l.Pkg == pkg
	}
	return l.Pkg == "" || l.Pkg == pkg || strings.HasPrefix(pkg, l.Pkg+"/")
}

func refExpand(g []P, include, exclude []string, labels []L, needTests bool, mode refMode) []L {
	out := []L{}
	for _, l := range labels {
		if l.Name != "all" && l.Name != "..." {
			out = append(out, l)
			continue
		}
		part := []L{}
		for _, p := range g {
			if !refCovers(l, p.Pkg) {
				continue
			}
			for _, t := range p.Targets {
				if refSelected(p.Pkg, t, include, exclude, mode) && (!needTests || t.Test) {
					part = append(part, L{p.Pkg, t.Name})
				}
			}
		}
		sort.Slice(part, func(i, j int) bool {
			if part[i].Pkg != part[j].Pkg {
				return part[i].Pkg < part[j].Pkg
			}
			return part[i].Name < part[j].Name
		})
		out = append(out, part...)
	}
	return out
}

// knownShape: the input shape of the repaired defect b32293a - a test target, a wildcard label in some label group
// whose stem is a prefix of "test", and no declared label of the target matched by that wildcard.
func knownShape(t T, include, exclude []string) bool {
	if !t.Test {
		return false
	}
	groups := append([]string{}, include...)
	for _, e := range exclude {
		if labelsOnly || !refIsExpression(e) {
			groups = append(groups, e)
		}
	}
	for _, g := range groups {
		for _, p := range refPieces(g) {
			if n := len(p); n > 0 && p[n-1] == '*' && strings.HasPrefix("test", p[:n-1]) {
				declared := false
				for _, l := range t.Labels {
					if refLabelMatches(p, l) {
						declared = true
					}
				}
				if !declared {
					return true
				}
			}
		}
	}
	return false
}

// ----------------------------------------------------------------------------------------------
// the implementation

func realTarget(pkg string, t T) *core.BuildTarget {
	bt := core.NewBuildTarget(core.BuildLabel{PackageName: pkg, Name: t.Name})
	bt.Labels = append([]string{}, t.Labels...)
	if t.Test {
		bt.Test = &core.TestFields{}
	}
	return bt
}

func fillGraph(graph *core.BuildGraph, g []P, r *lib.Rng) {
	for _, p := range g {
		pkg := core.NewPackage(p.Pkg)
		for _, t := range p.Targets {
			bt := realTarget(p.Pkg, t)
			pkg.AddTarget(bt)
			graph.AddTarget(bt)
		}
		graph.AddPackage(pkg)
	}
}

func toLabels(ls []L) []core.BuildLabel {
	out := make([]core.BuildLabel, len(ls))
	for i, l := range ls {
		out[i] = core.BuildLabel{PackageName: l.Pkg, Name: l.Name}
	}
	return out
}

func fromLabels(ls []core.BuildLabel) []L {
	out := make([]L, len(ls))
	for i, l := range ls {
		if l.Subrepo != "" {
			panic("subrepo label in output: " + l.String())
		}
		out[i] = L{l.PackageName, l.Name}
	}
	return out
}

func realExpand(in input) []L {
	state := &core.BuildState{Graph: core.NewGraph(), NeedTests: in.NeedTests}
	fillGraph(state.Graph, in.Graph, nil)
	state.SetIncludeAndExclude(in.Include, in.Exclude)
	return fromLabels(state.ExpandLabels(toLabels(in.Labels)))
}

func realOriginals(in input) []L {
	state := core.NewDefaultBuildState()
	state.NeedTests = in.NeedTests
	fillGraph(state.Graph, in.Graph, nil)
	state.SetIncludeAndExclude(in.Include, in.Exclude)
	for _, l := range toLabels(in.Labels) {
		state.AddOriginalTarget(l, true)
	}
	return fromLabels(state.ExpandOriginalLabels())
}

// usable: SetIncludeAndExclude calls log.Fatalf on an exclude that looks like a label and does not parse, and
// needs the repository root for ':' forms; the model covers host-repository `//` forms.
func usable(exclude []string) bool {
	for _, e := range exclude {
		if core.LooksLikeABuildLabel(e) {
			if !strings.HasPrefix(e, "//") || strings.HasPrefix(e, "///") {
				return false
			}
			if l, err := core.TryParseBuildLabel(e, "", ""); err != nil || l.Subrepo != "" {
				return false
			}
		}
	}
	return true
}

// ----------------------------------------------------------------------------------------------
// Coq printers

func coqT(t T) string {
	return "(" + lib.Str(t.Name) + ", " + lib.StrList(t.Labels) + ", " + lib.Bool(t.Test) + ")"
}

func coqGraph(g []P) string {
	ps := []string{}
	for _, p := range g {
		ts := []string{}
		for _, t := range p.Targets {
			ts = append(ts, coqT(t))
		}
		ps = append(ps, lib.Pair(lib.Str(p.Pkg), lib.List(ts)))
	}
	return lib.List(ps)
}

func coqL(l L) string { return lib.Pair(lib.Str(l.Pkg), lib.Str(l.Name)) }

func coqLs(ls []L) string {
	out := []string{}
	for _, l := range ls {
		out = append(out, coqL(l))
	}
	return lib.List(out)
}

// ----------------------------------------------------------------------------------------------
// generators

var labelPool = []string{"go", "go_test", "got", "g", "py", "python", "test", "tests", "te", "t", "", "manual", "manual:linux_amd64",
	"go*", "*", "a,b", "slow", "//x:y", "@z", "tes"}

var patternPool = []string{"go", "go*", "g*", "go_*", "got", "py*", "python", "p*", "test", "test*", "tes*", "te*", "t*", "*", "**", "",
	"tests", "tests*", "manual", "manual:*", "manual*", "slow", "go**", "a", "b", "@z", "@*", "tex*", "est*", "x*"}

var pkgPool = []string{"", "a", "a/b", "a/bc", "ab", "a/b/c", "c", "c/a"}
var namePool = []string{"a", "b", "bc", "c", "lib", "lib_test", "x", "all"}

func genLabels(r *lib.Rng) []string {
	n := lib.Pick(r, []int{0, 0, 1, 1, 1, 2, 2, 3, 4})
	out := []string{}
	for i := 0; i < n; i++ {
		out = append(out, lib.Pick(r, labelPool))
	}
	if len(out) > 0 && r.Chance(1, 8) {
		out = append(out, out[0]) // duplicate
	}
	return out
}

func genTarget(r *lib.Rng, name string) T {
	return T{Name: name, Labels: genLabels(r), Test: r.Chance(2, 5)}
}

func genGroup(r *lib.Rng, t *T) string {
	n := lib.Pick(r, []int{1, 1, 1, 1, 2, 2, 3})
	parts := []string{}
	for i := 0; i < n; i++ {
		switch {
		case t != nil && len(t.Labels) > 0 && r.Chance(2, 5):
			// aimed at the target: one of its labels, possibly cut to a wildcard
			l := lib.Pick(r, t.Labels)
			if r.Chance(1, 2) && !strings.Contains(l, ",") {
				l = l[:r.Intn(len(l)+1)] + "*"
			}
			if strings.Contains(l, ",") {
				l = "go"
			}
			parts = append(parts, l)
		default:
			parts = append(parts, lib.Pick(r, patternPool))
		}
	}
	if r.Chance(1, 10) {
		parts = append(parts, parts[0])
	}
	return strings.Join(parts, ",")
}

func genGroups(r *lib.Rng, t *T) []string {
	n := lib.Pick(r, []int{0, 0, 0, 1, 1, 1, 2, 2, 3})
	out := []string{}
	for i := 0; i < n; i++ {
		out = append(out, genGroup(r, t))
	}
	return out
}

func genExpr(r *lib.Rng, g []P) string {
	pkg := lib.Pick(r, pkgPool)
	name := lib.Pick(r, namePool)
	if len(g) > 0 && r.Chance(3, 4) {
		p := lib.Pick(r, g)
		pkg = p.Pkg
		if len(p.Targets) > 0 && r.Chance(3, 4) {
			name = lib.Pick(r, p.Targets).Name
		}
	}
	switch r.Intn(8) {
	case 0, 1, 2:
		return "//" + pkg + ":" + name
	case 3:
		return "//" + pkg + ":all"
	case 4, 5:
		if pkg == "" {
			return "//..."
		}
		return "//" + pkg + "/..."
	case 6:
		if pkg == "" {
			return "//:" + name
		}
		return "//" + pkg // short form
	default:
		// the parent package, recursively
		if i := strings.LastIndexByte(pkg, '/'); i > 0 {
			return "//" + pkg[:i] + "/..."
		}
		return "//" + pkg + ":" + name
	}
}

func genExcludes(r *lib.Rng, g []P, t *T) []string {
	out := genGroups(r, t)
	n := lib.Pick(r, []int{0, 0, 0, 1, 1, 2})
	for i := 0; i < n; i++ {
		out = append(out, genExpr(r, g))
	}
	lib.Shuffle(r, out)
	return out
}

func genGraph(r *lib.Rng) []P {
	np := r.Range(1, 4)
	perm := make([]int, len(pkgPool))
	for i := range perm {
		perm[i] = i
	}
	lib.Shuffle(r, perm)
	g := []P{}
	for _, pi := range perm[:np] {
		nt := r.Range(0, 4)
		names := append([]string{}, namePool...)
		lib.Shuffle(r, names)
		p := P{Pkg: pkgPool[pi], Targets: []T{}}
		for _, n := range names[:nt] {
			if n == "all" && !r.Chance(1, 4) {
				n = "d"
			}
			p.Targets = append(p.Targets, genTarget(r, n))
		}
		g = append(g, p)
	}
	return g
}

func genPseudo(r *lib.Rng, g []P) []L {
	n := lib.Pick(r, []int{1, 1, 1, 2, 3})
	out := []L{}
	for i := 0; i < n; i++ {
		pkg := lib.Pick(r, pkgPool)
		if r.Chance(4, 5) {
			pkg = lib.Pick(r, g).Pkg
		}
		switch r.Intn(6) {
		case 0, 1, 2:
			out = append(out, L{pkg, "all"})
		case 3:
			out = append(out, L{pkg, "..."})
		case 4:
			if i := strings.LastIndexByte(pkg, '/'); i > 0 {
				pkg = pkg[:i]
			} else {
				pkg = ""
			}
			out = append(out, L{pkg, "..."})
		default:
			out = append(out, L{pkg, lib.Pick(r, namePool[:7])})
		}
	}
	return out
}

// ----------------------------------------------------------------------------------------------
// the oracle on one expansion

func sameLs(a, b []L) bool {
	if len(a) != len(b) {
		return false
	}
	for i := range a {
		if a[i] != b[i] {
			return false
		}
	}
	return true
}

func checkExpansion(c *lib.Ctx, in input, got []L) {
	c.Oracle()
	want := refExpand(in.Graph, in.Include, in.Exclude, in.Labels, in.NeedTests, documented)
	if sameLs(got, want) {
		return
	}
	in.Out, in.Want = got, want
	// exclusion must win, whatever else is wrong
	sel := map[L]bool{}
	for _, l := range got {
		sel[l] = true
	}
	requested := map[L]bool{}
	for _, l := range in.Labels {
		requested[l] = true
	}
	known := false
	for _, p := range in.Graph {
		for _, t := range p.Targets {
			if requested[L{p.Pkg, t.Name}] {
				continue // asked for by name: not subject to the filters
			}
			if sel[L{p.Pkg, t.Name}] && !refSelected(p.Pkg, t, nil, in.Exclude, documented) && !knownShape(t, nil, in.Exclude) {
				c.Fail("excluded-target-selected", fmt.Sprintf("//%s:%s is selected although an --exclude argument covers it", p.Pkg, t.Name), in)
				return
			}
			if knownShape(t, in.Include, in.Exclude) {
				known = true
			}
		}
	}
	if known && sameLs(got, refExpand(in.Graph, in.Include, in.Exclude, in.Labels, in.NeedTests, implicitExactOnly)) {
		c.Fail("wildcard-misses-implicit-test-label",
			fmt.Sprintf("include=%q exclude=%q: selected %v, documented rule selects %v (a wildcard label does not see the implicit `test` label of a test target)",
				in.Include, in.Exclude, got, want), in)
		return
	}
	c.Fail("selection-differs-from-documented-rule",
		fmt.Sprintf("include=%q exclude=%q labels=%v need_tests=%v: selected %v, documented rule selects %v", in.Include, in.Exclude, in.Labels, in.NeedTests, got, want), in)
}

// single target through BuildTarget.ShouldInclude (label groups only)
func checkTarget(c *lib.Ctx, t T, include, exclude []string, got bool) {
	c.Oracle()
	labelsOnly = true
	defer func() { labelsOnly = false }()
	want := refSelected("p", t, include, exclude, documented)
	if got == want {
		return
	}
	in := map[string]any{"kind": "target", "target": t, "include": include, "exclude": exclude, "selected": got, "documented": want}
	if got && !refSelected("p", t, nil, exclude, documented) && !knownShape(t, nil, exclude) {
		c.Fail("excluded-target-selected", fmt.Sprintf("target with labels %q (test=%v) is selected by include=%q although exclude=%q covers it", t.Labels, t.Test, include, exclude), in)
		return
	}
	if knownShape(t, include, exclude) && got == refSelected("p", t, include, exclude, implicitExactOnly) {
		c.Fail("wildcard-misses-implicit-test-label",
			fmt.Sprintf("test target with labels %q, include=%q exclude=%q: ShouldInclude=%v, documented rule says %v (a wildcard label does not see the implicit `test` label)",
				t.Labels, include, exclude, got, want), in)
		return
	}
	c.Fail("selection-differs-from-documented-rule",
		fmt.Sprintf("target with labels %q (test=%v), include=%q exclude=%q: ShouldInclude=%v, documented rule says %v", t.Labels, t.Test, include, exclude, got, want), in)
}

func realTargetShould(t T, include, exclude []string) bool {
	return realTarget("p", t).ShouldInclude(include, exclude)
}

func subsetsUpTo(pool []string, k int) [][]string {
	out := [][]string{{}}
	var rec func(start int, cur []string)
	rec = func(start int, cur []string) {
		if len(cur) == k {
			return
		}
		for i := start; i < len(pool); i++ {
			next := append(append([]string{}, cur...), pool[i])
			out = append(out, next)
			rec(i+1, next)
		}
	}
	rec(0, nil)
	return out
}

func main() {
	lib.Main("C36", func(c *lib.Ctx) {
		c.Model("From PlzV Require Import Model.C36.", "C36.case", "C36.check")
		c.Rule("(1) exhaustive: every target with <=2 declared labels from a 5-label alphabet (shared prefixes, the empty label, `test`) x test/non-test, against every " +
			"include list and exclude list of <=1 group of <=2 labels or 2 single-label groups over 8 patterns (wildcards, `*`, empty), through BuildTarget.ShouldInclude; " +
			"(2) random graphs of 1-4 packages (shared name prefixes) x 0-4 targets, include/exclude lists of 0-3 groups of 1-3 labels aimed at the targets' labels " +
			"(wildcards cut from them, duplicates, empty pieces) plus 0-2 exclude build expressions (:name, :all, /..., short form, parent/...), expanded through " +
			"SetIncludeAndExclude + ExpandLabels for 1-3 requested labels (:all, /..., exact) with and without NeedTests, and through AddOriginalTarget + ExpandOriginalLabels; " +
			"(3) HasLabel, Includes, LooksLikeABuildLabel, TryParseBuildLabel on adversarial strings. " +
			"distinct = distinct inputs; non-trivial = at least one include or exclude argument and at least one target both selected and one rejected (expansions), " +
			"or a wildcard/compound group (single targets)")

		var rep input
		if c.ReadReplay(&rep) && (rep.Kind == "expand" || rep.Kind == "originals") {
			if usable(rep.Exclude) {
				var got []L
				if rep.Kind == "expand" {
					got = realExpand(rep)
				} else {
					got = realOriginals(rep)
				}
				checkExpansion(c, rep, got)
				c.Eval(rep, "replay", true)
			}
			return
		}

		// ---- 0. corpus: the witnesses of the defect repaired by b32293a (wildcard labels did not see the implicit
		// `test` label), through ShouldInclude and through an expansion
		for _, w := range []struct{ inc, exc []string }{
			{[]string{"test*"}, nil}, {[]string{"te*"}, nil}, {[]string{"*"}, nil}, {nil, []string{"te*"}}, {nil, []string{"*"}},
			{[]string{"go,tes*"}, nil}, {[]string{"test"}, []string{"test*"}},
		} {
			for _, ls := range [][]string{{}, {"go"}, {"tex"}} {
				t := T{Name: "x_test", Labels: ls, Test: true}
				inc, exc := append([]string{}, w.inc...), append([]string{}, w.exc...)
				got := realTargetShould(t, inc, exc)
				checkTarget(c, t, inc, exc, got)
				c.Case(lib.App("CTarget", lib.StrList(t.Labels), lib.Bool(true), lib.StrList(inc), lib.StrList(exc), lib.Bool(got)),
					map[string]any{"kind": "target", "target": t, "include": inc, "exclude": exc, "selected": got}, fmt.Sprint("w", ls, inc, exc), true)
				in := input{Kind: "expand", Graph: []P{{Pkg: "p", Targets: []T{t, {Name: "lib", Labels: ls, Test: false}}}}, Include: inc, Exclude: exc,
					Labels: []L{{"p", "all"}}}
				out := realExpand(in)
				checkExpansion(c, in, out)
				in.Out = out
				c.Case(lib.App("CExpand", coqGraph(in.Graph), lib.StrList(inc), lib.StrList(exc), coqLs(in.Labels), "false", coqLs(out)), in, fmt.Sprint("we", ls, inc, exc), true)
			}
		}

		// ---- 1. exhaustive small space through BuildTarget.ShouldInclude (oracle), a slice of it to the model
		alpha := []string{"go", "got", "test", "t", ""}
		pats := []string{"go", "go*", "g*", "test", "te*", "*", "", "got"}
		groups1 := append([]string{}, pats...)
		groups := append([]string{}, pats...)
		for _, p := range pats {
			for _, q := range pats {
				groups = append(groups, p+","+q)
			}
		}
		lists := [][]string{{}}
		for _, g := range groups {
			lists = append(lists, []string{g})
		}
		for _, g := range groups1 {
			for _, h := range groups1 {
				lists = append(lists, []string{g, h})
			}
		}
		tsets := subsetsUpTo(alpha, 2)
		stride := c.Scale(1499, 149)
		k := 0
		for _, ls := range tsets {
			for _, tst := range []bool{false, true} {
				t := T{Name: "x", Labels: ls, Test: tst}
				bt := realTarget("p", t)
				for _, inc := range lists {
					for _, exc := range lists {
						got := bt.ShouldInclude(inc, exc)
						checkTarget(c, t, inc, exc, got)
						k++
						nontriv := len(inc)+len(exc) > 0
						if k%stride == 0 {
							c.Case(lib.App("CTarget", lib.StrList(ls), lib.Bool(tst), lib.StrList(inc), lib.StrList(exc), lib.Bool(got)),
								map[string]any{"kind": "target", "target": t, "include": inc, "exclude": exc, "selected": got},
								fmt.Sprint("x", ls, tst, inc, exc), nontriv)
						} else if k%97 == 0 {
							c.Eval(map[string]any{"kind": "target", "target": t, "include": inc, "exclude": exc, "selected": got}, fmt.Sprint("x", ls, tst, inc, exc), nontriv)
						}
					}
				}
			}
		}
		c.Exhaustive(true)
		c.Note("exhaustive part: %d targets x %d include lists x %d exclude lists = %d ShouldInclude calls compared with the documented rule; every %d-th also evaluated by the model",
			len(tsets)*2, len(lists), len(lists), k, stride)

		// ---- 2. random single targets with richer groups
		for i, n := 0, c.Scale(400, 6000); i < n; i++ {
			r := c.Rng.Fork()
			t := genTarget(r, "x")
			inc, exc := genGroups(r, &t), genGroups(r, &t)
			got := realTargetShould(t, inc, exc)
			checkTarget(c, t, inc, exc, got)
			compound := false
			for _, g := range append(append([]string{}, inc...), exc...) {
				if strings.ContainsAny(g, ",*") {
					compound = true
				}
			}
			c.Case(lib.App("CTarget", lib.StrList(t.Labels), lib.Bool(t.Test), lib.StrList(inc), lib.StrList(exc), lib.Bool(got)),
				map[string]any{"kind": "target", "target": t, "include": inc, "exclude": exc, "selected": got},
				fmt.Sprint("t", t, inc, exc), compound)
			c.HistN("target_labels", len(t.Labels))
			c.HistN("include_groups", len(inc))
			c.HistN("exclude_groups", len(exc))
		}

		// ---- 3. HasLabel on (pattern, label) pairs: all pairs of the pools
		for _, p := range patternPool {
			for _, l := range labelPool {
				for _, tst := range []bool{false, true} {
					t := T{Name: "x", Labels: []string{l}, Test: tst}
					got := realTarget("p", t).HasLabel(p)
					c.Oracle()
					want := refCarries(t, p, documented)
					js := map[string]any{"kind": "has_label", "target": t, "label": p, "has": got, "documented": want}
					if got != want {
						if knownShape(t, []string{p}, nil) && got == refCarries(t, p, implicitExactOnly) {
							c.Fail("wildcard-misses-implicit-test-label", fmt.Sprintf("test target with labels %q: HasLabel(%q)=%v, documented %v", t.Labels, p, got, want), js)
						} else {
							c.Fail("label-match-differs-from-documented-rule", fmt.Sprintf("target with labels %q (test=%v): HasLabel(%q)=%v, documented %v", t.Labels, tst, p, got, want), js)
						}
					}
					if tst == (len(p)%2 == 0) { // half of them to the model
						c.Case(lib.App("CHas", lib.StrList(t.Labels), lib.Bool(tst), lib.Str(p), lib.Bool(got)), js, fmt.Sprint("h", p, l, tst), strings.HasSuffix(p, "*"))
					}
				}
			}
		}
		// no declared labels at all
		for _, p := range patternPool {
			for _, tst := range []bool{false, true} {
				t := T{Name: "x", Labels: []string{}, Test: tst}
				got := realTarget("p", t).HasLabel(p)
				c.Case(lib.App("CHas", "[]", lib.Bool(tst), lib.Str(p), lib.Bool(got)), map[string]any{"kind": "has_label", "target": t, "label": p, "has": got}, fmt.Sprint("h0", p, tst), tst)
			}
		}

		// ---- 4. Includes: all pairs (pattern label, target label) over the pools
		exprs := []L{}
		for _, p := range pkgPool {
			for _, n := range []string{"all", "...", "a", "lib", "bc"} {
				exprs = append(exprs, L{p, n})
			}
		}
		thats := []L{}
		for _, p := range pkgPool {
			for _, n := range []string{"a", "lib", "all", "bc", ""} {
				thats = append(thats, L{p, n})
			}
		}
		k = 0
		for _, e := range exprs {
			for _, th := range thats {
				got := toLabels([]L{e})[0].Includes(toLabels([]L{th})[0])
				c.Oracle()
				// what the expression denotes, read off its text
				text := "//" + e.Pkg + ":" + e.Name
				if e.Name == "..." {
					text = "//" + e.Pkg + "/..."
					if e.Pkg == "" {
						text = "//..."
					}
				}
				js := map[string]any{"kind": "includes", "expr": e, "that": th, "includes": got}
				if want := refDenotes(text, th.Pkg, th.Name); got != want {
					c.Fail("exclude-expression-covers-wrong-targets", fmt.Sprintf("%s.Includes(//%s:%s)=%v, the expression denotes it: %v", text, th.Pkg, th.Name, got, want), js)
				}
				k++
				if k%3 == 0 || c.Thor {
					c.Case(lib.App("CIncl", coqL(e), coqL(th), lib.Bool(got)), js, fmt.Sprint("i", e, th), e.Pkg != th.Pkg)
				}
			}
		}

		// ---- 5. LooksLikeABuildLabel and TryParseBuildLabel
		looks := []string{"", "/", "//", ":", "@", "@a", "@a:b", "@a//b", "a", "a:b", "a//b", "//a:b", ":x", "go,//a:b", "//a:b,go", "@*", "@z", "/a", "*//", " //a"}
		for _, x := range looks {
			got := core.LooksLikeABuildLabel(x)
			c.Case(lib.App("CLooks", lib.Str(x), lib.Bool(got)), map[string]any{"kind": "looks", "x": x, "looks": got}, "l"+x, got)
		}
		parses := []string{"", "/", "//", "//a", "//a/b", "//a/b:c", "//a:b", "//:x", "//...", "//a/...", "//a/b/...", "//a//...", "//a/", "//a//b", "//a:", "//a:...",
			"//a:.x", "//a:x._build", "//a:x._test", "//a._build:x", "//a:b:c", "//a:b/c", "//a*:b", "//a:b*", "//a/...:x", "//.../a", "//a/.../...", "//a b:c d",
			"//a:b,go", "//a:all", "//all", "//a/all", "a:b", "a", "/a:b", "//a/...x", "//a...", "//a/b...", "//....", "//a:..", "//a:x.", "//a\\b:c", "//a:{b}", "//a/b/c:lib_test",
			"//a/....", "//a|b:c", "//a:b|c", "//$a:b", "//a/:b"}
		for i, n := 0, c.Scale(60, 1500); i < n; i++ {
			r := c.Rng.Fork()
			x := "//" + lib.Pick(r, pkgPool)
			switch r.Intn(4) {
			case 0:
				x += ":" + lib.Pick(r, namePool)
			case 1:
				x += "/..."
			}
			// one random edit
			chars := "/:.*a_|,"
			pos := r.Intn(len(x) + 1)
			switch r.Intn(3) {
			case 0:
				x = x[:pos] + string(chars[r.Intn(len(chars))]) + x[pos:]
			case 1:
				if pos < len(x) {
					x = x[:pos] + x[pos+1:]
				}
			}
			parses = append(parses, x)
		}
		for _, x := range parses {
			if strings.HasPrefix(x, ":") || strings.HasPrefix(x, "@") || strings.HasPrefix(x, "///") {
				continue // forms outside the model (relative and subrepo labels)
			}
			l, err := core.TryParseBuildLabel(x, "", "")
			out := "None"
			if err == nil && l.Subrepo == "" {
				out = lib.Some(coqL(L{l.PackageName, l.Name}))
			} else if err == nil {
				continue
			}
			c.Case(lib.App("CParse", lib.Str(x), out), map[string]any{"kind": "parse", "x": x, "ok": err == nil, "pkg": l.PackageName, "name": l.Name}, "p"+x, err == nil)
			if err == nil {
				// the oracle's reading of expressions agrees with the parser on what a pattern denotes
				c.Oracle()
				for _, th := range thats {
					if got, want := l.Includes(toLabels([]L{th})[0]), refDenotes(x, th.Pkg, th.Name); got != want {
						c.Fail("exclude-expression-covers-wrong-targets", fmt.Sprintf("--exclude %s: covers //%s:%s = %v, the expression denotes it: %v", x, th.Pkg, th.Name, got, want),
							map[string]any{"kind": "includes", "expr": x, "that": th, "includes": got})
					}
				}
			}
		}

		// ---- 6. SetIncludeAndExclude: the observed state (with stale Exclude and earlier ExcludeTargets)
		for i, n := 0, c.Scale(60, 1000); i < n; i++ {
			r := c.Rng.Fork()
			g := genGraph(r)
			inc, exc := genGroups(r, nil), genExcludes(r, g, nil)
			if r.Chance(1, 3) {
				exc = append(exc, lib.Pick(r, []string{"@z", "@*", "a:b", "/a", "", "go,//a:b", "//a:b,go"}))
			}
			if !usable(exc) {
				continue
			}
			before := []L{}
			if r.Chance(1, 2) {
				before = append(before, L{lib.Pick(r, pkgPool), lib.Pick(r, namePool)})
			}
			state := &core.BuildState{Graph: core.NewGraph()}
			state.Exclude = []string{"stale"}
			state.ExcludeTargets = toLabels(before)
			state.SetIncludeAndExclude(inc, exc)
			c.Case(lib.App("CSet", coqLs(before), lib.StrList(inc), lib.StrList(exc), lib.StrList(state.Include), lib.StrList(state.Exclude), coqLs(fromLabels(state.ExcludeTargets))),
				map[string]any{"kind": "set", "before": before, "include": inc, "exclude": exc, "Include": state.Include, "Exclude": state.Exclude, "ExcludeTargets": fromLabels(state.ExcludeTargets)},
				fmt.Sprint("s", before, inc, exc), len(state.ExcludeTargets) > len(before) && len(state.Exclude) > 0)
		}

		// ---- 7. expansions
		nExp := c.Scale(700, 12000)
		nOrig := c.Scale(60, 400)
		for i := 0; i < nExp+nOrig; i++ {
			r := c.Rng.Fork()
			g := genGraph(r)
			var aim *T
			for _, p := range g {
				if len(p.Targets) > 0 {
					aim = &p.Targets[r.Intn(len(p.Targets))]
					break
				}
			}
			in := input{Kind: "expand", Graph: g, Include: genGroups(r, aim), Exclude: genExcludes(r, g, aim), Labels: genPseudo(r, g), NeedTests: r.Chance(1, 5)}
			if !usable(in.Exclude) {
				continue
			}
			var got []L
			ctor := "CExpand"
			if i >= nExp {
				// AddOriginalTarget panics on `...` (they are resolved to :all labels before): replace them
				in.Kind, ctor = "originals", "COrig"
				ls := []L{}
				for _, l := range in.Labels {
					if l.Name == "..." {
						for _, p := range g {
							if refCovers(l, p.Pkg) {
								ls = append(ls, L{p.Pkg, "all"})
							}
						}
					} else {
						ls = append(ls, l)
					}
				}
				in.Labels = ls
				got = realOriginals(in)
				// documented: a requested label that an exclude expression covers is dropped as a whole
				kept := []L{}
				for _, l := range in.Labels {
					dropped := false
					for _, e := range in.Exclude {
						if refIsExpression(e) {
							if l.Name == "all" {
								// the expression must denote the whole package
								if refDenotes(e, l.Pkg, "\x00any") {
									dropped = true
								}
							} else if refDenotes(e, l.Pkg, l.Name) {
								dropped = true
							}
						}
					}
					if !dropped {
						kept = append(kept, l)
					}
				}
				chk := in
				chk.Labels = kept
				checkExpansion(c, chk, got)
			} else {
				got = realExpand(in)
				checkExpansion(c, in, got)
			}
			in.Out = got
			total := 0
			for _, p := range g {
				for _, l := range in.Labels {
					if refCovers(l, p.Pkg) && (l.Name == "all" || l.Name == "...") {
						total += len(p.Targets)
						break
					}
				}
			}
			nontriv := len(in.Include)+len(in.Exclude) > 0 && len(got) > 0 && len(got) < total
			c.Case(lib.App(ctor, coqGraph(g), lib.StrList(in.Include), lib.StrList(in.Exclude), coqLs(in.Labels), lib.Bool(in.NeedTests), coqLs(got)),
				in, fmt.Sprint("e", in.Kind, g, in.Include, in.Exclude, in.Labels, in.NeedTests), nontriv)
			c.HistN("packages", len(g))
			c.HistN("selected", min(len(got), 8))
			nex := 0
			for _, e := range in.Exclude {
				if refIsExpression(e) {
					nex++
				}
			}
			c.HistN("exclude_expressions", nex)
			c.HistN("include_args", len(in.Include))
		}
	})
}
