// C36, end to end: `plz query alltargets <labels> --include ... --exclude ...` with the real binary ($VERIF_PLZ) over a
// generated repository that has nested packages, a namesake target in the root package, test targets without labels and a
// subrepo whose package names and target names coincide with the host's.  plz is started from the root and from
// sub-directories, so relative labels and relative exclude expressions are resolved by the real getRepoRoot /
// InitialPackagePath code.  The printed selection is compared (as a sorted set) with the documented rule.
package main

import (
	"fmt"
	"os"
	"os/exec"
	"path/filepath"
	"sort"
	"strings"
	"time"

	"verifharness/lib"
)

// the repository: what is written to disk and, as []P, what the oracle is told
func e2eGraph() []P {
	pkgTargets := []T{
		{Name: "foo", Labels: []string{"x"}},
		{Name: "bar", Labels: []string{"x", "slow"}},
		{Name: "foo_test", Labels: []string{}, Test: true},
	}
	return []P{
		{Pkg: "", Targets: []T{{Name: "foo", Labels: []string{"x"}}, {Name: "root_only", Labels: []string{"y"}}}},
		{Pkg: "pkg", Targets: pkgTargets},
		{Pkg: "pkg/q", Targets: []T{{Name: "foo", Labels: []string{"x"}}, {Name: "baz", Labels: []string{"x", "slow"}}}},
		{Pkg: "pkgs", Targets: []T{{Name: "foo", Labels: []string{"xy"}}}},
		{Pkg: "other", Targets: []T{{Name: "foo", Labels: []string{"y"}}, {Name: "o_test", Labels: []string{"tests"}, Test: true}}},
		// the subrepo lives in third_party/sub: its packages are also host packages under that directory
		{Pkg: "third_party/sub/pkg", Targets: []T{{Name: "foo", Labels: []string{"x"}}, {Name: "only_sub", Labels: []string{"x"}}}},
		{Sub: "sub", Pkg: "pkg", Targets: []T{{Name: "foo", Labels: []string{"x"}}, {Name: "only_sub", Labels: []string{"x"}}}},
	}
}

func pyStrs(xs []string) string {
	q := make([]string, len(xs))
	for i, x := range xs {
		q[i] = fmt.Sprintf("%q", x)
	}
	return "[" + strings.Join(q, ", ") + "]"
}

func writeRepo(dir string, g []P) error {
	cfg := "[build]\npath = /usr/local/bin:/usr/bin:/bin\n[cache]\ndir = " + filepath.Join(dir, ".plz-cache") + "\n[display]\nupdatetitle = false\n"
	if err := os.WriteFile(filepath.Join(dir, ".plzconfig"), []byte(cfg), 0o644); err != nil {
		return err
	}
	for _, p := range g {
		if p.Sub != "" {
			continue // written as the host package third_party/sub/<pkg>
		}
		var b strings.Builder
		if p.Pkg == "" {
			b.WriteString("subrepo(name = \"sub\", path = \"third_party/sub\")\n")
		}
		for _, t := range p.Targets {
			if t.Test {
				fmt.Fprintf(&b, "gentest(name = %q, test_cmd = \"true\", no_test_output = True, labels = %s)\n", t.Name, pyStrs(t.Labels))
			} else {
				fmt.Fprintf(&b, "genrule(name = %q, outs = [%q], cmd = \"echo > $OUT\", labels = %s)\n", t.Name, t.Name+".txt", pyStrs(t.Labels))
			}
		}
		d := filepath.Join(dir, p.Pkg)
		if err := os.MkdirAll(d, 0o755); err != nil {
			return err
		}
		if err := os.WriteFile(filepath.Join(d, "BUILD"), []byte(b.String()), 0o644); err != nil {
			return err
		}
	}
	return os.WriteFile(filepath.Join(dir, "third_party/sub/.plzconfig"), []byte(""), 0o644)
}

func parsePrinted(line string) (L, bool) {
	sub := ""
	if strings.HasPrefix(line, "///") {
		rest := line[3:]
		i := strings.Index(rest, "//")
		if i < 0 {
			return L{}, false
		}
		sub, line = rest[:i], rest[i:]
	}
	if !strings.HasPrefix(line, "//") {
		return L{}, false
	}
	i := strings.IndexByte(line, ':')
	if i < 0 {
		return L{}, false
	}
	return L{sub, line[2:i], line[i+1:]}, true
}

type e2eRun struct {
	cwd       string   // the package plz is started in
	labels    []string // as typed
	requested []L      // what the typed labels mean (relative ones resolved by hand; `...` given as such)
	include   []string
	exclude   []string
}

func endToEnd(c *lib.Ctx) {
	plz := os.Getenv("VERIF_PLZ")
	if plz == "" {
		c.Note("end-to-end part skipped: VERIF_PLZ is not set")
		return
	}
	base, err := os.MkdirTemp("", "c36-e2e-")
	if err != nil {
		panic(err)
	}
	defer os.RemoveAll(base)
	g := e2eGraph()
	if err := writeRepo(base, g); err != nil {
		panic(err)
	}
	all := func(sub, pkg string) L { return L{sub, pkg, "all"} }
	runs := []e2eRun{
		// the seeded mutation m3, exactly: started in pkg, :foo is //pkg:foo
		{"pkg", []string{":all"}, []L{all("", "pkg")}, nil, []string{":foo"}},
		// ... and from the root :foo is //:foo, which is not in pkg
		{"", []string{"//pkg:all"}, []L{all("", "pkg")}, nil, []string{":foo"}},
		{"pkg", []string{"//..."}, []L{{"", "", "..."}}, nil, []string{":all"}},
		{"pkg", []string{"//..."}, []L{{"", "", "..."}}, []string{"x"}, []string{":..."}},
		{"pkg/q", []string{"//pkg/..."}, []L{{"", "pkg", "..."}}, nil, []string{":foo", "slow"}},
		{"other", []string{"//pkg:all", ":all"}, []L{all("", "pkg"), all("", "other")}, nil, []string{":foo", "//pkg:bar"}},
		{"", []string{"//..."}, []L{{"", "", "..."}}, []string{"x,s*", "y"}, []string{"//pkg/q/...", "//other"}},
		{"", []string{"//pkg/...", "//pkgs:all"}, []L{{"", "pkg", "..."}, all("", "pkgs")}, []string{"x*"}, []string{"//pkg"}},
		// the implicit test label under a wildcard (repaired defect b32293a), through the whole binary
		{"", []string{"//pkg:all", "//other:all"}, []L{all("", "pkg"), all("", "other")}, []string{"te*"}, []string{"tests"}},
		// subrepo, exclude expression of the same repository: exact
		{"", []string{"///sub//pkg:all"}, []L{all("sub", "pkg")}, nil, []string{"///sub//pkg:foo"}},
		{"pkg", []string{"@sub//pkg:all", ":all"}, []L{all("sub", "pkg"), all("", "pkg")}, []string{"x"}, []string{"@sub//pkg:only_sub", ":bar"}},
		// exclude expression of another repository (the open finding exclude-expression-ignores-subrepo)
		{"", []string{"//pkg:all"}, []L{all("", "pkg")}, nil, []string{"///sub//pkg:foo"}},
		{"", []string{"///sub//pkg:all"}, []L{all("sub", "pkg")}, nil, []string{"//pkg:foo"}},
	}
	if !c.Thor {
		// quick tier: each invocation costs 0.3-1 s (more on a loaded machine)
		runs = append(runs[:2:2], runs[3], runs[4], runs[6], runs[8], runs[9], runs[11])
	}
	done := 0
	for _, r := range runs {
		args := append([]string{"query", "alltargets"}, r.labels...)
		for _, i := range r.include {
			args = append(args, "--include", i)
		}
		for _, e := range r.exclude {
			args = append(args, "--exclude", e)
		}
		args = append(args, "-p", "-v", "0")
		cmd := exec.Command(plz, args...)
		cmd.Dir = filepath.Join(base, r.cwd)
		cmd.Env = []string{"PATH=/usr/local/bin:/usr/bin:/bin", "HOME=" + base, "USER=verif"}
		var stdout, stderr strings.Builder
		cmd.Stdout, cmd.Stderr = &stdout, &stderr
		if err := cmd.Start(); err != nil {
			panic(err)
		}
		timer := time.AfterFunc(180*time.Second, func() { cmd.Process.Kill() })
		err := cmd.Wait()
		timer.Stop()
		in := input{Kind: "e2e", Cur: r.cwd, Graph: g, Include: append([]string{}, r.include...), Exclude: r.exclude, Labels: r.requested}
		js := map[string]any{"kind": "e2e", "started_in_package": r.cwd, "args": args, "stdout": stdout.String()}
		if err != nil {
			c.Fail("plz-query-alltargets-failed", fmt.Sprintf("(cwd=%s) plz %s: %v: %s", r.cwd, strings.Join(args, " "), err, lastLines(stderr.String(), 3)), js)
			continue
		}
		got := []L{}
		bad := false
		for _, line := range strings.Split(strings.TrimSpace(stdout.String()), "\n") {
			if line = strings.TrimSpace(line); line == "" {
				continue
			}
			l, ok := parsePrinted(line)
			if !ok {
				bad = true
				c.Fail("plz-query-alltargets-failed", fmt.Sprintf("(cwd=%s) plz %s: unexpected output line %q", r.cwd, strings.Join(args, " "), line), js)
				break
			}
			got = append(got, l)
		}
		if bad {
			continue
		}
		sort.Slice(got, func(i, j int) bool { return lessL(got[i], got[j]) })
		checkExpansion(c, in, got)
		in.Out = got
		c.Eval(in, fmt.Sprint("e2e", r.cwd, args), len(got) > 0)
		done++
	}
	c.Note("end to end: %d `plz query alltargets` invocations over a generated repository (7 packages, 1 subrepo), from the root and from %s", done, "pkg, pkg/q, other")
	endToEndTests(c, plz)
}

// endToEndTests (round-2 follow-up): `plz test` over a generated repository in which an included test DEPENDS on a test
// that an --exclude build pattern covers.  The excluded test has to be built; it must not be run.  Which tests ran is
// read off a file every test appends its name to (the excluded ones would also fail the run).
func endToEndTests(c *lib.Ctx, plz string) {
	base, err := os.MkdirTemp("", "c36-e2e-test-")
	if err != nil {
		panic(err)
	}
	defer os.RemoveAll(base)
	g := []P{
		{Pkg: "pkg", Targets: []T{{Name: "a_test", Labels: []string{}, Test: true}, {Name: "b_test", Labels: []string{"flaky_dep"}, Test: true}, {Name: "c_test", Labels: []string{}, Test: true}}},
		{Pkg: "pkg/sub", Targets: []T{{Name: "d_test", Labels: []string{}, Test: true}}},
	}
	deps := []D{{L{"", "pkg", "a_test"}, []L{{"", "pkg", "b_test"}}}, {L{"", "pkg/sub", "d_test"}, []L{{"", "pkg", "c_test"}}}}
	depsOf := map[L][]string{}
	for _, d := range deps {
		for _, to := range d.To {
			depsOf[d.From] = append(depsOf[d.From], toLabel(to).String())
		}
	}
	ranFile := filepath.Join(base, "ran.txt")
	cfg := "[build]\npath = /usr/local/bin:/usr/bin:/bin\n[cache]\ndir = " + filepath.Join(base, ".plz-cache") + "\n[display]\nupdatetitle = false\n"
	if err := os.WriteFile(filepath.Join(base, ".plzconfig"), []byte(cfg), 0o644); err != nil {
		panic(err)
	}
	for _, p := range g {
		var b strings.Builder
		for _, t := range p.Targets {
			status := "true"
			if t.Name == "b_test" {
				status = "exit 1" // running it fails the run
			}
			fmt.Fprintf(&b, "gentest(name = %q, test_cmd = \"echo %s:%s >> %s; %s\", no_test_output = True, labels = %s, deps = %s, visibility = [\"PUBLIC\"])\n",
				t.Name, p.Pkg, t.Name, ranFile, status, pyStrs(t.Labels), pyStrs(depsOf[L{"", p.Pkg, t.Name}]))
		}
		d := filepath.Join(base, p.Pkg)
		if err := os.MkdirAll(d, 0o755); err != nil {
			panic(err)
		}
		if err := os.WriteFile(filepath.Join(d, "BUILD"), []byte(b.String()), 0o644); err != nil {
			panic(err)
		}
	}
	all := func(pkg string) L { return L{"", pkg, "all"} }
	runs := []e2eRun{
		// the seeded mutation r2-m2, exactly
		{"", []string{"//pkg:all"}, []L{all("pkg")}, nil, []string{"//pkg:b_test"}},
		// the excluded dependency lives in another requested package; relative pattern from a sub-directory
		{"pkg", []string{"//pkg/..."}, []L{{"", "pkg", "..."}}, nil, []string{":b_test", "//pkg:c_test"}},
		// control: the same by label
		{"", []string{"//pkg:all", "//pkg/sub:all"}, []L{all("pkg"), all("pkg/sub")}, nil, []string{"flaky_dep"}},
	}
	if !c.Thor {
		runs = runs[:2]
	}
	done := 0
	for _, r := range runs {
		os.Remove(ranFile)
		args := append([]string{"test", "--rerun"}, r.labels...)
		for _, e := range r.exclude {
			args = append(args, "--exclude", e)
		}
		args = append(args, "-p", "-v", "1")
		cmd := exec.Command(plz, args...)
		cmd.Dir = filepath.Join(base, r.cwd)
		cmd.Env = []string{"PATH=/usr/local/bin:/usr/bin:/bin", "HOME=" + base, "USER=verif"}
		var output strings.Builder
		cmd.Stdout, cmd.Stderr = &output, &output
		if err := cmd.Start(); err != nil {
			panic(err)
		}
		timer := time.AfterFunc(240*time.Second, func() { cmd.Process.Kill() })
		runErr := cmd.Wait()
		timer.Stop()
		ran := map[L]bool{}
		data, _ := os.ReadFile(ranFile)
		for _, line := range strings.Fields(string(data)) {
			if i := strings.LastIndexByte(line, ':'); i >= 0 {
				ran[L{"", line[:i], line[i+1:]}] = true
			}
		}
		got := []L{}
		for _, p := range g {
			for _, t := range p.Targets {
				if ran[L{"", p.Pkg, t.Name}] {
					got = append(got, L{"", p.Pkg, t.Name})
				}
			}
		}
		// the oracle is told the :all labels the typed `...` resolves to
		in := input{Kind: "e2e", Cur: r.cwd, Graph: g, Deps: deps, Include: []string{}, Exclude: r.exclude, NeedTests: true}
		for _, l := range r.requested {
			if l.Name == "..." {
				for _, p := range g {
					if p.Pkg == l.Pkg || strings.HasPrefix(p.Pkg, l.Pkg+"/") {
						in.Labels = append(in.Labels, all(p.Pkg))
					}
				}
			} else {
				in.Labels = append(in.Labels, l)
			}
		}
		checkOriginal(c, in, got, true)
		js := map[string]any{"kind": "e2e", "started_in_package": r.cwd, "args": args, "tests_run": got, "output": lastLines(output.String(), 6)}
		if want := wantOriginal(in, true); runErr != nil && sameLs(got, want) {
			c.Fail("plz-test-failed", fmt.Sprintf("(cwd=%s) plz %s: %v: %s", r.cwd, strings.Join(args, " "), runErr, lastLines(output.String(), 3)), js)
		}
		in.Out = got
		c.Eval(in, fmt.Sprint("e2e-test", r.cwd, args), len(got) > 0)
		done++
	}
	c.Note("end to end: %d `plz test` invocations over a generated repository in which an included test depends on a test covered by an --exclude build pattern", done)
}

func lastLines(x string, n int) string {
	lines := strings.Split(strings.TrimSpace(x), "\n")
	if len(lines) > n {
		lines = lines[len(lines)-n:]
	}
	return strings.Join(lines, " | ")
}
