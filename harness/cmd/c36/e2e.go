// C36, end to end: `plz query alltargets <labels> --include ... --exclude ...` with the real binary ($VERIF_PLZ) over a
// generated repository that has nested packages, a namesake target in the root package, test targets without labels and a
// subrepo whose package names and target names coincide with the host's.  plz is started from the root and from
// sub-directories, so relative labels and relative exclude expressions are resolved by the real getRepoRoot /
// InitialPackagePath code.  The printed selection is compared (as a sorted set) with the documented rule.
package main

import (
	"fmt"
	"os"
	"os/exec"
	"path/filepath"
	"sort"
	"strings"
	"time"

	"verifharness/lib"
)

// the repository: what is written to disk and, as []P, what the oracle is told
func e2eGraph() []P {
	pkgTargets := []T{
		{Name: "foo", Labels: []string{"x"}},
		{Name: "bar", Labels: []string{"x", "slow"}},
		{Name: "foo_test", Labels: []string{}, Test: true},
	}
	return []P{
		{Pkg: "", Targets: []T{{Name: "foo", Labels: []string{"x"}}, {Name: "root_only", Labels: []string{"y"}}}},
		{Pkg: "pkg", Targets: pkgTargets},
		{Pkg: "pkg/q", Targets: []T{{Name: "foo", Labels: []string{"x"}}, {Name: "baz", Labels: []string{"x", "slow"}}}},
		{Pkg: "pkgs", Targets: []T{{Name: "foo", Labels: []string{"xy"}}}},
		{Pkg: "other", Targets: []T{{Name: "foo", Labels: []string{"y"}}, {Name: "o_test", Labels: []string{"tests"}, Test: true}}},
		// the subrepo lives in third_party/sub: its packages are also host packages under that directory
		{Pkg: "third_party/sub/pkg", Targets: []T{{Name: "foo", Labels: []string{"x"}}, {Name: "only_sub", Labels: []string{"x"}}}},
		{Sub: "sub", Pkg: "pkg", Targets: []T{{Name: "foo", Labels: []string{"x"}}, {Name: "only_sub", Labels: []string{"x"}}}},
	}
}

func pyStrs(xs []string) string {
	q := make([]string, len(xs))
	for i, x := range xs {
		q[i] = fmt.Sprintf("%q", x)
	}
	return "[" + strings.Join(q, ", ") + "]"
}

func writeRepo(dir string, g []P) error {
	cfg := "[build]\npath = /usr/local/bin:/usr/bin:/bin\n[cache]\ndir = " + filepath.Join(dir, ".plz-cache") + "\n[display]\nupdatetitle = false\n"
	if err := os.WriteFile(filepath.Join(dir, ".plzconfig"), []byte(cfg), 0o644); err != nil {
		return err
	}
	for _, p := range g {
		if p.Sub != "" {
			continue // written as the host package third_party/sub/<pkg>
		}
		var b strings.Builder
		if p.Pkg == "" {
			b.WriteString("subrepo(name = \"sub\", path = \"third_party/sub\")\n")
		}
		for _, t := range p.Targets {
			if t.Test {
				fmt.Fprintf(&b, "gentest(name = %q, test_cmd = \"true\", no_test_output = True, labels = %s)\n", t.Name, pyStrs(t.Labels))
			} else {
				fmt.Fprintf(&b, "genrule(name = %q, outs = [%q], cmd = \"echo > $OUT\", labels = %s)\n", t.Name, t.Name+".txt", pyStrs(t.Labels))
			}
		}
		d := filepath.Join(dir, p.Pkg)
		if err := os.MkdirAll(d, 0o755); err != nil {
			return err
		}
		if err := os.WriteFile(filepath.Join(d, "BUILD"), []byte(b.String()), 0o644); err != nil {
			return err
		}
	}
	return os.WriteFile(filepath.Join(dir, "third_party/sub/.plzconfig"), []byte(""), 0o644)
}

func parsePrinted(line string) (L, bool) {
	sub := ""
	if strings.HasPrefix(line, "///") {
		rest := line[3:]
		i := strings.Index(rest, "//")
		if i < 0 {
			return L{}, false
		}
		sub, line = rest[:i], rest[i:]
	}
	if !strings.HasPrefix(line, "//") {
		return L{}, false
	}
	i := strings.IndexByte(line, ':')
	if i < 0 {
		return L{}, false
	}
	return L{sub, line[2:i], line[i+1:]}, true
}

type e2eRun struct {
	cwd       string   // the package plz is started in
	labels    []string // as typed
	requested []L      // what the typed labels mean (relative ones resolved by hand; `...` given as such)
	include   []string
	exclude   []string
}

func endToEnd(c *lib.Ctx) {
	plz := os.Getenv("VERIF_PLZ")
	if plz == "" {
		c.Note("end-to-end part skipped: VERIF_PLZ is not set")
		return
	}
	base, err := os.MkdirTemp("", "c36-e2e-")
	if err != nil {
		panic(err)
	}
	defer os.RemoveAll(base)
	g := e2eGraph()
	if err := writeRepo(base, g); err != nil {
		panic(err)
	}
	all := func(sub, pkg string) L { return L{sub, pkg, "all"} }
	runs := []e2eRun{
		// the seeded mutation m3, exactly: started in pkg, :foo is //pkg:foo
		{"pkg", []string{":all"}, []L{all("", "pkg")}, nil, []string{":foo"}},
		// ... and from the root :foo is //:foo, which is not in pkg
		{"", []string{"//pkg:all"}, []L{all("", "pkg")}, nil, []string{":foo"}},
		{"pkg", []string{"//..."}, []L{{"", "", "..."}}, nil, []string{":all"}},
		{"pkg", []string{"//..."}, []L{{"", "", "..."}}, []string{"x"}, []string{":..."}},
		{"pkg/q", []string{"//pkg/..."}, []L{{"", "pkg", "..."}}, nil, []string{":foo", "slow"}},
		{"other", []string{"//pkg:all", ":all"}, []L{all("", "pkg"), all("", "other")}, nil, []string{":foo", "//pkg:bar"}},
		{"", []string{"//..."}, []L{{"", "", "..."}}, []string{"x,s*", "y"}, []string{"//pkg/q/...", "//other"}},
		{"", []string{"//pkg/...", "//pkgs:all"}, []L{{"", "pkg", "..."}, all("", "pkgs")}, []string{"x*"}, []string{"//pkg"}},
		// the implicit test label under a wildcard (repaired defect b32293a), through the whole binary
		{"", []string{"//pkg:all", "//other:all"}, []L{all("", "pkg"), all("", "other")}, []string{"te*"}, []string{"tests"}},
		// subrepo, exclude expression of the same repository: exact
		{"", []string{"///sub//pkg:all"}, []L{all("sub", "pkg")}, nil, []string{"///sub//pkg:foo"}},
		{"pkg", []string{"@sub//pkg:all", ":all"}, []L{all("sub", "pkg"), all("", "pkg")}, []string{"x"}, []string{"@sub//pkg:only_sub", ":bar"}},
		// exclude expression of another repository (the open finding exclude-expression-ignores-subrepo)
		{"", []string{"//pkg:all"}, []L{all("", "pkg")}, nil, []string{"///sub//pkg:foo"}},
		{"", []string{"///sub//pkg:all"}, []L{all("sub", "pkg")}, nil, []string{"//pkg:foo"}},
	}
	if !c.Thor {
		// quick tier: each invocation costs 0.3-1 s (more on a loaded machine)
		runs = append(runs[:2:2], runs[3], runs[4], runs[6], runs[8], runs[9], runs[11])
	}
	done := 0
	for _, r := range runs {
		args := append([]string{"query", "alltargets"}, r.labels...)
		for _, i := range r.include {
			args = append(args, "--include", i)
		}
		for _, e := range r.exclude {
			args = append(args, "--exclude", e)
		}
		args = append(args, "-p", "-v", "0")
		cmd := exec.Command(plz, args...)
		cmd.Dir = filepath.Join(base, r.cwd)
		cmd.Env = []string{"PATH=/usr/local/bin:/usr/bin:/bin", "HOME=" + base, "USER=verif"}
		var stdout, stderr strings.Builder
		cmd.Stdout, cmd.Stderr = &stdout, &stderr
		if err := cmd.Start(); err != nil {
			panic(err)
		}
		timer := time.AfterFunc(180*time.Second, func() { cmd.Process.Kill() })
		err := cmd.Wait()
		timer.Stop()
		in := input{Kind: "e2e", Cur: r.cwd, Graph: g, Include: append([]string{}, r.include...), Exclude: r.exclude, Labels: r.requested}
		js := map[string]any{"kind": "e2e", "started_in_package": r.cwd, "args": args, "stdout": stdout.String()}
		if err != nil {
			c.Fail("plz-query-alltargets-failed", fmt.Sprintf("(cwd=%s) plz %s: %v: %s", r.cwd, strings.Join(args, " "), err, lastLines(stderr.String(), 3)), js)
			continue
		}
		got := []L{}
		bad := false
		for _, line := range strings.Split(strings.TrimSpace(stdout.String()), "\n") {
			if line = strings.TrimSpace(line); line == "" {
				continue
			}
			l, ok := parsePrinted(line)
			if !ok {
				bad = true
				c.Fail("plz-query-alltargets-failed", fmt.Sprintf("(cwd=%s) plz %s: unexpected output line %q", r.cwd, strings.Join(args, " "), line), js)
				break
			}
			got = append(got, l)
		}
		if bad {
			continue
		}
		sort.Slice(got, func(i, j int) bool { return lessL(got[i], got[j]) })
		checkExpansion(c, in, got)
		in.Out = got
		c.Eval(in, fmt.Sprint("e2e", r.cwd, args), len(got) > 0)
		done++
	}
	c.Note("end to end: %d `plz query alltargets` invocations over a generated repository (7 packages, 1 subrepo), from the root and from %s", done, "pkg, pkg/q, other")
}

func lastLines(x string, n int) string {
	lines := strings.Split(strings.TrimSpace(x), "\n")
	if len(lines) > n {
		lines = lines[len(lines)-n:]
	}
	return strings.Join(lines, " | ")
}
