package main

import "verifharness/lib"

func endToEnd(c *lib.Ctx) {}
