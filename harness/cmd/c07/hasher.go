// C07, follow-up streams. (1) require / provide: real core.BuildTarget values with a Provides MAP of 2-4 languages and a requirer
// listing them in some order; the real ProvideFor is called repeatedly (Go randomises map iteration per loop) and the real graph
// recursion is read through the harness's rpf (cross-checked against the real recursivelyProvideFor by the SHA-1 tie of the
// source-hash stream). (2) the memo of fs.PathHasher under transient read faults: histories of Hash / CopyHash / MoveHash on ONE
// real hasher over a real tree in which entries are replaced by unix sockets (open(2) fails with ENXIO, also for root), removed,
// and repaired. (3) the xattr store: histories of Hash calls by FRESH real hashers (core.NewDefaultBuildState().Hasher(algo), xattrs
// on) of every configured algorithm on real files under plz-out/.
package main

import (
	"crypto/sha256"
	"encoding/hex"
	"fmt"
	"os"
	"path/filepath"
	"strings"
	"syscall"

	"verifharness/cmd/c08/rh"
	"verifharness/lib"

	"github.com/thought-machine/please/src/core"
	"github.com/thought-machine/please/src/fs"
)

// ------------------------------------------------------------------------------------------- require / provide

type pNode struct {
	Label    rh.Label    `json:"label"`
	Provides []rh.LGroup `json:"provides,omitempty"` // in insertion order
	Requires []string    `json:"requires,omitempty"`
	Data     []rh.Label  `json:"data,omitempty"`
	Tools    []rh.Label  `json:"tools,omitempty"`
}

func (n *pNode) coq() string {
	prov := make([]string, len(n.Provides))
	for i, g := range n.Provides {
		prov[i] = lib.Pair(rh.Str(g.Key), coqLbls(g.Vals))
	}
	reqs := make([]string, len(n.Requires))
	for i, r := range n.Requires {
		reqs[i] = rh.Str(r)
	}
	return lib.App("PNode", lib.List(prov), lib.List(reqs), coqLbls(n.Data), coqLbls(n.Tools))
}

func (n *pNode) real() *core.BuildTarget {
	t := core.NewBuildTarget(n.Label.Core())
	for _, g := range n.Provides {
		ls := make([]core.BuildLabel, len(g.Vals))
		for i, l := range g.Vals {
			ls[i] = l.Core()
		}
		t.AddProvide(g.Key, ls)
	}
	t.Requires = append(t.Requires, n.Requires...)
	for _, d := range n.Data {
		t.AddDatum(d.Core())
	}
	for _, d := range n.Tools {
		t.AddTool(d.Core())
	}
	return t
}

func fromCoreLabels(ls []core.BuildLabel) []rh.Label {
	out := make([]rh.Label, len(ls))
	for i, l := range ls {
		out[i] = rh.FromCore(l)
	}
	return out
}

func coqLblLists(xs [][]rh.Label) string {
	out := make([]string, len(xs))
	for i, x := range xs {
		out[i] = coqLbls(x)
	}
	return lib.List(out)
}

var provLangs = []string{"la", "lb", "lc", "ld", "go", "py"}

func runProvide(c *lib.Ctx) {
	n := c.Scale(60, 1500)
	calls := c.Scale(12, 24)
	L := func(name string) rh.Label { return rh.Label{Pkg: "p", Name: name} }
	for i := 0; i < n; i++ {
		r := c.Rng.Fork()
		langs := append([]string{}, provLangs...)
		lib.Shuffle(r, langs)
		langs = langs[:r.Range(2, 4)]
		libN := &pNode{Label: L("lib")}
		leaves := []string{"p", "q", "r", "s", "u"}
		for _, k := range langs {
			vals := []rh.Label{L(lib.Pick(r, leaves))}
			if r.Chance(1, 4) {
				vals = append(vals, L(lib.Pick(r, leaves)))
			} else if r.Chance(1, 12) {
				vals = []rh.Label{}
			}
			libN.Provides = append(libN.Provides, rh.LGroup{Key: k, Vals: vals})
		}
		tN := &pNode{Label: L("t")}
		tN.Requires = append(tN.Requires, langs...)
		lib.Shuffle(r, tN.Requires)
		if r.Chance(1, 3) {
			tN.Requires = tN.Requires[:len(tN.Requires)-1]
		}
		if r.Chance(1, 3) {
			tN.Requires = append(tN.Requires, "other")
			lib.Shuffle(r, tN.Requires)
		}
		if r.Chance(1, 10) {
			tN.Data = []rh.Label{libN.Label}
		} else if r.Chance(1, 10) {
			tN.Tools = []rh.Label{libN.Label}
		}

		// ---- ProvideFor, repeatedly, on two insertion orders of the map
		realT := tN.real()
		shuf := *libN
		shuf.Provides = append([]rh.LGroup{}, libN.Provides...)
		lib.Shuffle(r, shuf.Provides)
		obs := [][]rh.Label{}
		for _, ln := range []*pNode{libN, &shuf} {
			realLib := ln.real()
			for k := 0; k < calls/2; k++ {
				obs = append(obs, fromCoreLabels(realLib.ProvideFor(realT)))
			}
		}
		matched := 0
		want := []rh.Label{}
		if len(tN.Data) == 0 && len(tN.Tools) == 0 {
			for _, req := range tN.Requires {
				for _, g := range libN.Provides {
					if g.Key == req {
						want = append(want, g.Vals...)
						matched++
					}
				}
			}
		}
		if matched == 0 {
			want = []rh.Label{libN.Label}
		}
		js := map[string]any{"part": "provide-for", "provider": libN, "provider_other_insertion_order": shuf.Provides, "requirer": tN, "observed": obs, "expected": want}
		c.Oracle()
		for k := range obs {
			if fmt.Sprint(obs[k]) != fmt.Sprint(obs[0]) {
				c.Fail("provide-for-differs-between-calls", fmt.Sprintf("ProvideFor on the same pair of targets returned %v and then %v (call %d)", obs[0], obs[k], k), js)
				break
			}
		}
		for k := range obs {
			if fmt.Sprint(obs[k]) != fmt.Sprint(want) {
				c.Fail("provide-for-not-in-requires-order", fmt.Sprintf("ProvideFor returned %v; the labels provided for Requires %v in that order are %v (call %d)", obs[k], tN.Requires, want, k), js)
				break
			}
		}
		term := lib.App("Prov", lib.App("CProv", coqLbl(libN.Label), libN.coq(), tN.coq(), coqLblLists(obs)))
		c.Case(term, js, "pf|"+libN.coq()+"|"+tN.coq(), matched >= 2)
		c.HistN("provide_matched", matched)

		// ---- the recursion on a real graph: some provided labels are providers themselves (chains of length 2-3)
		if i%2 == 0 {
			graph := core.NewGraph()
			nodes := []*pNode{tN, libN}
			mid := &pNode{Label: L("mid"), Requires: []string{lib.Pick(r, langs)}}
			nodes = append(nodes, mid)
			deep := map[string]bool{}
			for _, leaf := range leaves {
				ln := &pNode{Label: L(leaf)}
				if r.Chance(1, 3) {
					for _, k := range langs[:r.Range(1, 2)] {
						ln.Provides = append(ln.Provides, rh.LGroup{Key: k, Vals: []rh.Label{L(leaf + "2")}})
					}
					deep[leaf+"2"] = true
				}
				nodes = append(nodes, ln)
			}
			for _, leaf := range leaves {
				if deep[leaf+"2"] {
					nodes = append(nodes, &pNode{Label: L(leaf + "2")})
				}
			}
			reals := map[rh.Label]*core.BuildTarget{}
			for _, nd := range nodes {
				reals[nd.Label] = nd.real()
				graph.AddTarget(reals[nd.Label])
			}
			dependency := lib.Pick(r, []*pNode{tN, tN, mid})
			robs := [][]rh.Label{}
			for k := 0; k < 6; k++ {
				robs = append(robs, fromCoreLabels(rpf(graph, reals[tN.Label], reals[dependency.Label], libN.Label.Core(), 0)))
			}
			pg := make([]string, len(nodes))
			for k, nd := range nodes {
				pg[k] = lib.Pair(coqLbl(nd.Label), nd.coq())
			}
			js := map[string]any{"part": "recursively-provide-for", "nodes": nodes, "target": tN.Label, "dependency": dependency.Label, "dep": libN.Label, "observed": robs}
			c.Oracle()
			for k := range robs {
				if fmt.Sprint(robs[k]) != fmt.Sprint(robs[0]) {
					c.Fail("provide-for-differs-between-calls", fmt.Sprintf("the require/provide recursion on the same graph yielded %v and then %v", robs[0], robs[k]), js)
					break
				}
			}
			term := lib.App("Prov", lib.App("CRec", lib.List(pg), coqLbl(tN.Label), coqLbl(dependency.Label), coqLbl(libN.Label), lib.Nat(5), coqLblLists(robs)))
			c.Case(term, js, "rec|"+lib.List(pg)+coqLbl(dependency.Label), len(robs[0]) >= 2)
			c.HistN("provide_rec_yielded", len(robs[0]))
		}
	}
}

// ------------------------------------------------------------------------------------------- memo under read faults

type memoOp struct {
	Op     string `json:"op"` // hash | break | repair | remove | restore | copy | move
	Path   string `json:"path,omitempty"`
	Recalc bool   `json:"recalc,omitempty"`
	New    string `json:"new,omitempty"`
	Raw    string `json:"raw,omitempty"`    // hash: what a fresh hasher gives at that moment: ok | err | missing
	Result string `json:"result,omitempty"` // hash: what the long-lived hasher returned: hex | err
}

type memoWorld struct {
	root    string
	files   map[string]string // intact content of the regular files
	broken  map[string]bool
	removed map[string]bool
}

func (w *memoWorld) write(p string) {
	if err := os.MkdirAll(filepath.Dir(p), 0o755); err != nil {
		panic(err)
	}
	if err := os.WriteFile(p, []byte(w.files[p]), 0o644); err != nil {
		panic(err)
	}
}

// the entry that is replaced by a socket when `p` breaks: the file itself, or an entry in the middle of a directory
func (w *memoWorld) faultPath(p string) (string, bool) {
	if _, isFile := w.files[p]; isFile {
		return p, true
	}
	return filepath.Join(p, "m.sock"), false
}

func (w *memoWorld) breakPath(p string) {
	fp, isFile := w.faultPath(p)
	if isFile {
		os.Remove(fp)
	}
	if err := syscall.Mknod(fp, syscall.S_IFSOCK|0o644, 0); err != nil {
		panic(fmt.Sprintf("mknod %s: %v", fp, err))
	}
	w.broken[p] = true
}

func (w *memoWorld) repairPath(p string) {
	fp, isFile := w.faultPath(p)
	os.Remove(fp)
	if isFile {
		w.write(fp)
	}
	delete(w.broken, p)
}

func runMemo(c *lib.Ctx) {
	cwd, err := os.Getwd()
	if err != nil {
		panic(err)
	}
	root, err := os.MkdirTemp("", "c07-memo-")
	if err != nil {
		panic(err)
	}
	root, _ = filepath.EvalSymlinks(root)
	if err := os.Chdir(root); err != nil {
		panic(err)
	}
	defer func() {
		os.Chdir(cwd)
		os.RemoveAll(root)
	}()
	w := &memoWorld{root: root, broken: map[string]bool{}, removed: map[string]bool{}, files: map[string]string{
		"pkg/a.txt": "alpha\n", "pkg/b.txt": "beta\n", "pkg/data/a.txt": "data alpha\n", "pkg/data/z.txt": "data omega\n",
		"pkg/tree/sub/x.txt": "x\n", "pkg/tree/y.txt": "y\n", "plz-out/tmp/pkg/t.out": "out\n",
	}}
	for p := range w.files {
		w.write(p)
	}
	// the paths that are hashed: three files, two directories (a fault inside a directory leaves a NON-trivial partial digest)
	paths := []string{"pkg/a.txt", "pkg/b.txt", "pkg/data", "pkg/tree", "plz-out/tmp/pkg/t.out"}
	ghosts := []string{"pkg/copy", "plz-out/gen/pkg/t.out", "pkg/b.txt"} // destinations of CopyHash / MoveHash
	fresh := func() *fs.PathHasher { return fs.NewPathHasher(root, false, sha256.New, "sha256") }
	truth := map[string]string{}
	for _, p := range paths {
		d, err := fresh().Hash(p, false, false, false)
		if err != nil {
			panic(err)
		}
		truth[p] = string(d)
	}
	isTruth := func(d string) bool {
		for _, t := range truth {
			if t == d {
				return true
			}
		}
		return false
	}

	n := c.Scale(150, 4000)
	for i := 0; i < n; i++ {
		r := c.Rng.Fork()
		hasher := fresh()
		ops := []memoOp{}
		coqOps, coqObs := []string{}, []string{}
		copied := map[string]bool{}
		faults, afterFault := 0, 0
		lastFailed := map[string]bool{}
		// two histories in three start with the directed pattern [Hash] fault Hash [Hash] repair Hash on one path, the rest is random
		type forced struct {
			x      int
			recalc bool
		}
		script := []forced{}
		scriptPath := lib.Pick(r, paths)
		if r.Chance(2, 3) {
			if r.Chance(1, 3) {
				script = append(script, forced{0, false})
			}
			script = append(script, forced{5, false}, forced{0, r.Chance(1, 3)})
			if r.Chance(1, 3) {
				script = append(script, forced{0, r.Chance(1, 2)})
			}
			script = append(script, forced{7, false}, forced{0, r.Chance(1, 4)})
		}
		for k, m := 0, r.Range(5, 14); k < m || len(script) > 0; k++ {
			p := lib.Pick(r, paths)
			if r.Chance(2, 3) && len(ops) > 0 && ops[len(ops)-1].Path != "" {
				p = ops[len(ops)-1].Path // stay on one path: fault, call, repair, call
				if _, ok := truth[p]; !ok {
					p = lib.Pick(r, paths)
				}
			}
			x, recalc, directed := r.Intn(12), r.Chance(1, 5), false
			if len(script) > 0 {
				x, recalc, p, directed = script[0].x, script[0].recalc, scriptPath, true
				script = script[1:]
			}
			switch {
			case x < 5:
				hp := p
				if !directed && r.Chance(1, 6) {
					hp = lib.Pick(r, ghosts)
				}
				op := memoOp{Op: "hash", Path: hp, Recalc: recalc}
				rd, rerr := fresh().Hash(hp, false, false, false)
				raw := "RawMissing"
				switch {
				case rerr == nil:
					op.Raw, raw = "ok", lib.App("RawOk", hexStr(string(rd)))
				case fs.PathExists(hp):
					op.Raw, raw = "err", lib.App("RawErr", hexStr(string(rd)))
					if rd == nil {
						panic("raw failure without a partial digest: " + hp)
					}
				default:
					op.Raw = "missing"
				}
				d, err := hasher.Hash(hp, op.Recalc, false, false)
				if err != nil {
					op.Result = "err"
					coqObs = append(coqObs, "OErr")
					lastFailed[hp] = true
				} else {
					op.Result = hex.EncodeToString(d)
					coqObs = append(coqObs, lib.App("OOk", hexStr(string(d))))
					if lastFailed[hp] {
						afterFault++
					}
					lastFailed[hp] = false
				}
				ops = append(ops, op)
				coqOps = append(coqOps, lib.App("HHash", rh.Str(hp), lib.Bool(op.Recalc), raw))
				// ---- the oracle: a digest returned with a nil error is the digest of the path (of SOME path when hashes were copied onto it)
				c.Oracle()
				if err == nil {
					js := map[string]any{"part": "path-hasher-memo", "tree": w.files, "history": ops}
					if t, ok := truth[hp]; ok && !copied[hp] && string(d) != t {
						c.Fail("memoised-hash-is-not-the-hash-of-the-path", fmt.Sprintf("PathHasher.Hash(%s) returned %x with a nil error after a history with read faults; "+
							"a fresh hasher computes %x on the intact tree", hp, d, t), js)
					} else if !isTruth(string(d)) {
						c.Fail("memoised-hash-is-not-the-hash-of-the-path", fmt.Sprintf("PathHasher.Hash(%s) returned %x with a nil error, which is the digest of no path of the tree", hp, d), js)
					}
				}
			case x < 7:
				if w.broken[p] || w.removed[p] {
					continue
				}
				w.breakPath(p)
				faults++
				ops = append(ops, memoOp{Op: "break", Path: p})
			case x < 9:
				if !w.broken[p] {
					continue
				}
				w.repairPath(p)
				ops = append(ops, memoOp{Op: "repair", Path: p})
			case x < 10:
				if _, isFile := w.files[p]; !isFile || w.broken[p] {
					continue
				}
				if w.removed[p] {
					w.write(p)
					delete(w.removed, p)
					ops = append(ops, memoOp{Op: "restore", Path: p})
				} else {
					os.Remove(p)
					w.removed[p] = true
					ops = append(ops, memoOp{Op: "remove", Path: p})
				}
			default:
				dst := lib.Pick(r, ghosts)
				if dst == p {
					continue
				}
				copied[dst] = true
				if r.Bool() {
					hasher.CopyHash(p, dst)
					ops = append(ops, memoOp{Op: "copy", Path: p, New: dst})
					coqOps = append(coqOps, lib.App("HCopy", rh.Str(p), rh.Str(dst)))
				} else {
					hasher.MoveHash(p, dst)
					ops = append(ops, memoOp{Op: "move", Path: p, New: dst})
					coqOps = append(coqOps, lib.App("HMove", rh.Str(p), rh.Str(dst)))
				}
				coqObs = append(coqObs, "ONone")
			}
		}
		// leave the tree intact for the next history
		for _, p := range paths {
			if w.broken[p] {
				w.repairPath(p)
			}
			if w.removed[p] {
				w.write(p)
				delete(w.removed, p)
			}
		}
		term := lib.App("Hasher", lib.App("CMemo", lib.List(coqOps), lib.List(coqObs)))
		js := map[string]any{"part": "path-hasher-memo", "tree": w.files, "history": ops}
		c.Case(term, js, "memo|"+lib.List(coqOps), faults >= 1 && afterFault >= 1)
		c.HistN("memo_faults", faults)
		c.HistN("memo_success_after_failure", afterFault)
	}
}

// ------------------------------------------------------------------------------------------- xattr store

type xOp struct {
	Algo   string `json:"algo"`
	Path   string `json:"path"`
	Recalc bool   `json:"recalc"`
	Store  bool   `json:"store"`
	Result string `json:"result"`
	Truth  string `json:"digest_computed_without_xattrs"`
}

func runXattr(c *lib.Ctx) {
	cwd, err := os.Getwd()
	if err != nil {
		panic(err)
	}
	root, err := os.MkdirTemp("", "c07-xattr-")
	if err != nil {
		panic(err)
	}
	root, _ = filepath.EvalSymlinks(root)
	if err := os.Chdir(root); err != nil {
		panic(err)
	}
	oldRoot := core.RepoRoot
	core.RepoRoot = root
	defer func() {
		core.RepoRoot = oldRoot
		os.Chdir(cwd)
		os.RemoveAll(root)
	}()
	files := map[string]string{"plz-out/gen/pkg/pinned.txt": "pinned\n", "plz-out/gen/pkg/other.txt": "other\n", "plz-out/bin/pkg/tool": "#!/bin/sh\n"}
	paths := lib.SortedKeys(files)
	reset := func() {
		os.RemoveAll(filepath.Join(root, "plz-out"))
		for p, content := range files {
			if err := os.MkdirAll(filepath.Dir(p), 0o755); err != nil {
				panic(err)
			}
			if err := os.WriteFile(p, []byte(content), 0o644); err != nil {
				panic(err)
			}
		}
	}
	reset()
	algos := []string{"sha1", "sha256", "crc32", "crc64", "blake3", "xxhash"}
	// a fresh hasher of the algorithm, as a new plz process creates it
	// (the real NewPathHasher with the hash constructor and the algorithm name of the hasher core.NewBuildState configures; a whole
	// BuildState per call costs tens of milliseconds)
	proto := core.NewDefaultBuildState()
	if !proto.Config.Build.Xattrs {
		panic("build.xattrs is not on by default")
	}
	freshHasher := func(algo string) *fs.PathHasher {
		ph := proto.Hasher(algo)
		return fs.NewPathHasher(core.RepoRoot, proto.Config.Build.Xattrs, ph.NewHash, ph.AlgoName())
	}
	truth := map[string]string{}
	for _, a := range algos {
		for _, p := range paths {
			h := freshHasher(a)
			h.DisableXattrs()
			d, err := h.Hash(p, false, false, false)
			if err != nil {
				panic(err)
			}
			truth[a+"|"+p] = string(d)
		}
	}
	// the file system must really keep user xattrs, or the stream tests nothing
	probe := freshHasher("sha256")
	if _, err := probe.Hash(paths[0], false, true, false); err != nil {
		panic(err)
	}
	if out, err := readXattrNames(paths[0]); err != nil || !strings.Contains(out, "user.plz_hash") {
		c.Note("xattr stream skipped: %s does not keep user xattrs (%v)", root, err)
		return
	}
	n := c.Scale(60, 1500)
	for i := 0; i < n; i++ {
		r := c.Rng.Fork()
		reset()
		ops := []xOp{}
		coqOps, coqObs := []string{}, []string{}
		// mostly two or three algorithms on one path: the build of a pinned target, then later invocations
		pool := append([]string{}, algos...)
		lib.Shuffle(r, pool)
		pool = pool[:r.Range(2, 4)]
		crossReads := 0
		stored := map[string]map[string]bool{}
		for k, m := 0, r.Range(4, 10); k < m; k++ {
			op := xOp{Algo: lib.Pick(r, pool), Path: paths[0], Recalc: r.Chance(1, 3), Store: r.Chance(3, 4)}
			if r.Chance(1, 4) {
				op.Path = lib.Pick(r, paths)
			}
			d, err := freshHasher(op.Algo).Hash(op.Path, op.Recalc, op.Store, false)
			if err != nil {
				panic(err)
			}
			op.Result, op.Truth = hex.EncodeToString(d), hex.EncodeToString([]byte(truth[op.Algo+"|"+op.Path]))
			ops = append(ops, op)
			if !op.Recalc && len(stored[op.Path]) > 0 && (len(stored[op.Path]) > 1 || !stored[op.Path][op.Algo]) {
				crossReads++
			}
			if op.Store {
				if stored[op.Path] == nil {
					stored[op.Path] = map[string]bool{}
				}
				stored[op.Path][op.Algo] = true
			}
			coqOps = append(coqOps, lib.App("XHash", rh.Str(op.Algo), rh.Str(op.Path), lib.Bool(op.Recalc), lib.Bool(op.Store), hexStr(truth[op.Algo+"|"+op.Path])))
			coqObs = append(coqObs, hexStr(string(d)))
			c.Oracle()
			if string(d) != truth[op.Algo+"|"+op.Path] {
				c.Fail("xattr-read-returns-another-algorithms-digest", fmt.Sprintf("a fresh %s hasher returned %x for %s after other hashers had stored their digests on the file; "+
					"without xattrs it computes %s", op.Algo, d, op.Path, op.Truth), map[string]any{"part": "path-hasher-xattr", "files": files, "history": ops})
			}
		}
		term := lib.App("Hasher", lib.App("CXattr", lib.List(coqOps), lib.List(coqObs)))
		c.Case(term, map[string]any{"part": "path-hasher-xattr", "files": files, "history": ops}, "xattr|"+lib.List(coqOps), crossReads >= 1)
		c.HistN("xattr_reads_after_other_algorithm_stored", crossReads)
	}
}

func readXattrNames(p string) (string, error) {
	buf := make([]byte, 4096)
	n, err := syscall.Listxattr(p, buf)
	if err != nil {
		return "", err
	}
	return strings.ReplaceAll(string(buf[:n]), "\x00", " "), nil
}
