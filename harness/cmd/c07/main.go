// C07: target hashes are deterministic across runs, thread counts and enumeration orders.
// In-process part: one recipe performed with permuted insertion orders of every map-valued attribute and of the dependency
// declarations (and hashed repeatedly: Go randomises map iteration per loop) must give one real build.RuleHash; the two stored
// states go to the Coq model as two presentations of one target. End-to-end part: `plz hash --detailed` on generated
// repositories under -n 1 / -n 16, permuted target order on the command line, clean and warm plz-out.
package main

import (
	"bytes"
	"encoding/hex"
	"fmt"
	"os"
	"os/exec"
	"path/filepath"
	"regexp"
	"sort"
	"strings"
	"time"

	"verifharness/cmd/c08/rh"
	"verifharness/lib"

	"github.com/thought-machine/please/src/core"
)

var words = []string{"a", "b", "c", "ab", "bc", "k", "k1", "k2", "z", "", "a=b", "=", "x y"}
var pkgs = []string{"p", "p/q", "q", "", "pq"}
var names = []string{"a", "b", "ab", "t", "lib"}
var cfgs = []string{"opt", "dbg", "cover", "fast", "o"}

func word(r *lib.Rng) string { return lib.Pick(r, words) }
func label(r *lib.Rng) rh.Label {
	l := rh.Label{Pkg: lib.Pick(r, pkgs), Name: lib.Pick(r, names)}
	if r.Chance(1, 5) {
		l.Sub = lib.Pick(r, []string{"s", "sub"})
	}
	return l
}
func keys(r *lib.Rng, lo, hi int, pool []string) []string {
	n := r.Range(lo, hi)
	seen, out := map[string]bool{}, []string{}
	for i := 0; i < 4*n && len(out) < n; i++ {
		k := lib.Pick(r, pool)
		if r.Chance(1, 4) {
			k += lib.Pick(r, pool)
		}
		if !seen[k] {
			seen[k] = true
			out = append(out, k)
		}
	}
	return out
}
func input(r *lib.Rng) rh.Input {
	switch r.Intn(3) {
	case 0:
		return rh.Input{Kind: "label", L: label(r)}
	case 1:
		return rh.Input{Kind: "ann", L: label(r), Ann: "out"}
	}
	return rh.Input{Kind: "file", File: word(r) + ".txt"}
}
func inputs(r *lib.Rng, lo, hi int) []rh.Input {
	out := []rh.Input{}
	for i, n := 0, r.Range(lo, hi); i < n; i++ {
		out = append(out, input(r))
	}
	return out
}
func labels(r *lib.Rng, lo, hi int) []rh.Label {
	out := []rh.Label{}
	for i, n := 0, r.Range(lo, hi); i < n; i++ {
		out = append(out, label(r))
	}
	return out
}
func kvs(r *lib.Rng, ks []string) []rh.KV {
	out := []rh.KV{}
	for _, k := range ks {
		out = append(out, rh.KV{K: k, V: word(r)})
	}
	return out
}
func nonEmpty(r *lib.Rng) string {
	for {
		if w := word(r); w != "" {
			return w
		}
	}
}

// a recipe rich in maps and dependencies
func genSpec(r *lib.Rng) *rh.Spec {
	sp := &rh.Spec{Label: label(r), Config: lib.Pick(r, cfgs), FallbackConfig: lib.Pick(r, cfgs), Binary: r.Bool(), Sandbox: r.Bool()}
	sp.Label.Name = "target_" + sp.Label.Name
	sp.Deps = labels(r, 0, 5)
	sp.Srcs = inputs(r, 0, 3)
	for _, k := range keys(r, 0, 4, words) {
		sp.NamedSrcs = append(sp.NamedSrcs, rh.IGroup{Key: k, Vals: inputs(r, 1, 3)})
	}
	for _, k := range keys(r, 0, 4, words) {
		g := rh.Group{Key: k}
		for i, n := 0, r.Range(1, 3); i < n; i++ {
			g.Vals = append(g.Vals, nonEmpty(r))
		}
		sp.NamedOuts = append(sp.NamedOuts, g)
	}
	for _, k := range keys(r, 0, 3, words) {
		sp.NamedSecrets = append(sp.NamedSecrets, rh.Group{Key: k, Vals: []string{"/" + word(r)}})
	}
	if r.Chance(1, 2) {
		sp.HasCommands = true
		sp.Commands = kvs(r, keys(r, 0, 4, cfgs))
	} else {
		sp.Command = word(r)
	}
	for _, k := range keys(r, 0, 4, words) {
		sp.Provides = append(sp.Provides, rh.LGroup{Key: k, Vals: labels(r, 0, 2)})
	}
	sp.EntryPoints = kvs(r, keys(r, 0, 4, words))
	sp.Env = kvs(r, keys(r, 0, 5, words))
	sp.Data = inputs(r, 0, 2)
	for _, k := range keys(r, 0, 3, words) {
		sp.NamedData = append(sp.NamedData, rh.IGroup{Key: k, Vals: inputs(r, 1, 2)})
	}
	sp.Tools = inputs(r, 0, 2)
	for _, k := range keys(r, 0, 3, words) {
		sp.NamedTools = append(sp.NamedTools, rh.IGroup{Key: k, Vals: inputs(r, 1, 2)})
	}
	if r.Bool() {
		sp.IsTest = true
		if r.Bool() {
			sp.HasTestCommands = true
			sp.TestCommands = kvs(r, keys(r, 0, 3, cfgs))
		} else {
			sp.TestCommand = word(r)
		}
	}
	if r.Bool() {
		sp.HasPassEnv, sp.PassEnv = true, []string{"VERIF_A", "VERIF_B"}
		sp.Environ = []rh.KV{{K: "VERIF_A", V: word(r)}, {K: "VERIF_B", V: word(r)}}
	}
	return sp
}

// permute: another way of performing the same definition.
func permute(r *lib.Rng, sp *rh.Spec) *rh.Spec {
	p := sp.Clone()
	lib.Shuffle(r, p.Deps)
	p.DepsFirst = r.Bool()
	lib.Shuffle(r, p.NamedSrcs)
	lib.Shuffle(r, p.NamedOuts)
	lib.Shuffle(r, p.NamedSecrets)
	lib.Shuffle(r, p.Commands)
	lib.Shuffle(r, p.Provides)
	lib.Shuffle(r, p.EntryPoints)
	lib.Shuffle(r, p.Env)
	lib.Shuffle(r, p.NamedData)
	lib.Shuffle(r, p.NamedTools)
	lib.Shuffle(r, p.TestCommands)
	// the entries of a named output group are a set (BuildTarget.insert keeps it sorted)
	for i := range p.NamedOuts {
		lib.Shuffle(r, p.NamedOuts[i].Vals)
	}
	return p
}

func nontrivial(t *rh.T) bool {
	maps := 0
	for _, n := range []int{len(t.NamedSrcs), len(t.NamedOuts), len(t.Provides), len(t.EntryPoints), len(t.Env), len(t.Commands), len(t.NamedData)} {
		if n >= 2 {
			maps++
		}
	}
	return maps >= 2 && len(t.Deps) >= 2
}

// ------------------------------------------------------------------------------------------- end to end

type repoSpec struct {
	Files map[string]string `json:"files"`
	Lbls  []string          `json:"labels"`
}

func pyList(xs []string) string {
	q := make([]string, len(xs))
	for i, x := range xs {
		q[i] = fmt.Sprintf("%q", x)
	}
	return "[" + strings.Join(q, ", ") + "]"
}

// genRepo: packages p0..pk, each with 2-3 genrules using dict-valued srcs/outs/env/entry_points, requires/provides, and
// dependencies on earlier targets (diamonds). Dict literals are written in a shuffled order.
func genRepo(r *lib.Rng) *repoSpec {
	rs := &repoSpec{Files: map[string]string{}}
	npk := r.Range(3, 5)
	for pi := 0; pi < npk; pi++ {
		pkg := fmt.Sprintf("pk%d", pi)
		var b strings.Builder
		nt := r.Range(2, 3)
		for ti := 0; ti < nt; ti++ {
			name := fmt.Sprintf("t%d", ti)
			// named srcs
			groups := []string{"alpha", "beta", "gamma", "delta"}
			lib.Shuffle(r, groups)
			groups = groups[:r.Range(2, 4)]
			srcItems, catParts := []string{}, []string{}
			for _, g := range groups {
				f := fmt.Sprintf("%s_%s.txt", name, g)
				rs.Files[filepath.Join(pkg, f)] = g + "\n"
				entries := []string{f}
				if len(rs.Lbls) > 0 && r.Bool() {
					entries = append(entries, lib.Pick(r, rs.Lbls))
				}
				srcItems = append(srcItems, fmt.Sprintf("%q: %s", g, pyList(entries)))
				catParts = append(catParts, "$SRCS_"+strings.ToUpper(g))
			}
			sort.Strings(catParts)
			deps := []string{}
			for i := 0; i < 3 && len(rs.Lbls) > 0; i++ {
				if d := lib.Pick(r, rs.Lbls); r.Bool() {
					deps = append(deps, d)
				}
			}
			envKeys := []string{"E_ONE", "E_TWO", "E_THREE", "E_FOUR"}[:r.Range(2, 4)]
			lib.Shuffle(r, envKeys)
			envItems := []string{}
			for _, k := range envKeys {
				envItems = append(envItems, fmt.Sprintf("%q: %q", k, strings.ToLower(k)))
			}
			outItems := []string{fmt.Sprintf("%q: [%q]", "main", name+".out"), fmt.Sprintf("%q: [%q]", "aux", name+".aux")}
			lib.Shuffle(r, outItems)
			epItems := []string{fmt.Sprintf("%q: %q", "run", name+".out"), fmt.Sprintf("%q: %q", "alt", name+".aux")}
			lib.Shuffle(r, epItems)
			provItems := []string{fmt.Sprintf("%q: %q", "go", "//"+pkg+":"+name), fmt.Sprintf("%q: %q", "py", "//"+pkg+":"+name)}
			lib.Shuffle(r, provItems)
			fmt.Fprintf(&b, "genrule(\n    name = %q,\n    srcs = {%s},\n    outs = {%s},\n", name, strings.Join(srcItems, ", "), strings.Join(outItems, ", "))
			fmt.Fprintf(&b, "    cmd = \"cat %s > $OUTS_MAIN && echo $E_ONE$E_TWO > $OUTS_AUX\",\n", strings.Join(catParts, " "))
			fmt.Fprintf(&b, "    env = {%s},\n    entry_points = {%s},\n    binary = True,\n", strings.Join(envItems, ", "), strings.Join(epItems, ", "))
			fmt.Fprintf(&b, "    provides = {%s},\n    requires = [\"go\"],\n    labels = [\"l2\", \"l1\"],\n", strings.Join(provItems, ", "))
			fmt.Fprintf(&b, "    deps = %s,\n    visibility = [\"PUBLIC\"],\n)\n\n", pyList(deps))
			rs.Lbls = append(rs.Lbls, "//"+pkg+":"+name)
		}
		rs.Files[filepath.Join(pkg, "BUILD")] = b.String()
	}
	return rs
}

var timeLine = regexp.MustCompile(`(?m)^Hashes calculated, total time [^\n]*\n`)

// canon: the report keyed by target (the listing order follows the command line)
func canon(out string) string {
	out = timeLine.ReplaceAllString(out, "")
	lines := strings.Split(out, "\n")
	blocks, cur := map[string][]string{}, ""
	summary := []string{}
	for _, l := range lines {
		switch {
		case strings.HasPrefix(l, "  //") || strings.HasPrefix(l, "  ///"):
			summary = append(summary, strings.TrimSpace(l))
		case strings.HasPrefix(l, "//") && strings.HasSuffix(l, ":"):
			cur = l
		case cur != "" && strings.TrimSpace(l) != "":
			blocks[cur] = append(blocks[cur], l)
		}
	}
	sort.Strings(summary)
	var b strings.Builder
	b.WriteString(strings.Join(summary, "\n") + "\n")
	for _, k := range lib.SortedKeys(blocks) {
		b.WriteString(k + "\n" + strings.Join(blocks[k], "\n") + "\n")
	}
	return b.String()
}

func runPlz(plz, dir string, threads int, args ...string) (string, string, int) {
	all := append([]string{"--plain_output", "-v", "1", "-n", fmt.Sprint(threads)}, args...)
	cmd := exec.Command(plz, all...)
	cmd.Dir = dir
	cmd.Env = []string{"PATH=/usr/local/bin:/usr/bin:/bin", "HOME=/nonexistent-verif-home", "LANG=C", "USER=verif"}
	var so, se bytes.Buffer
	cmd.Stdout, cmd.Stderr = &so, &se
	done := make(chan error, 1)
	if err := cmd.Start(); err != nil {
		panic(err)
	}
	go func() { done <- cmd.Wait() }()
	select {
	case err := <-done:
		if err != nil {
			return so.String(), se.String(), 1
		}
	case <-time.After(120 * time.Second):
		cmd.Process.Kill()
		<-done
		return so.String(), se.String(), 124
	}
	return so.String(), se.String(), 0
}

func main() {
	lib.Main("C07", func(c *lib.Ctx) {
		c.Model("From PlzV Require Import Model.C08 Model.C07_Src Model.C07_Provide Model.C07_Hasher Model.C07_Link Model.C07_Tie.", "C07_Tie.case", "C07_Tie.check")
		c.Rule("in-process: random recipes with 0-5 dependencies and up to ten map-valued attributes of 0-5 entries; each performed once as generated and " +
			"3 (thorough: 6) more times with every map's insertion order, the order of the AddDependency calls and their position relative to the sources shuffled; " +
			"all real build.RuleHash values (rule hash and runtime hash) must be equal, equal to sha1 of the interpreted stream, and the Coq `ser prog` of both " +
			"stored states must equal that stream. source hash: random real build graphs of 4-9 targets (file / label / annotated-output sources in unnamed and " +
			"named groups, file and label tools, 0-5 deps, exported deps, run-time deps, require/provide, needs_transitive / output_is_complete flags) built in a " +
			"temporary repository with real files, once as generated and 3 (thorough: 5) more times with the named groups, the deps list and its position " +
			"shuffled for every node; the real build.sourceHash (hook VerifSourceHash) must not change when the read-back exported / run-time dependency " +
			"orders agree, sha1 of the generated program interpreted over the real IterSources / AllTools / PathHasher must equal it, and the Coq model " +
			"(Model/C07_Src.v) must reproduce both streams from the read-back graphs; non-trivial = top target with >= 3 dependencies, >= 2 named groups, >= 4 " +
			"yielded sources and two different stored states. end to end: `plz hash --detailed` on generated repositories (3-5 packages, dict-valued srcs/outs/env/" +
			"entry_points/provides, diamonds) under -n 1 and -n 16, permuted target order, clean and warm plz-out; reports compared per target; and the two witnesses of map-order insertion (8-group dict srcs with exported_deps / " +
			"runtime_deps_from_srcs) hashed 5 (thorough: 12) times on one tree; a repository in which a filegroup PROVIDES 2-4 languages to two genrules that REQUIRE them in " +
			"opposite orders through srcs, hashed 8 times alternating -n 1 / -n 16 (reports must be identical); a repository with dependencies pinned by hashes= of a " +
			"non-default algorithm (blake3; sha1 as control) under the default sha256: cold invocation then two warm ones, reports must be identical. " +
			"require/provide in process: a real provider with a Provides map of 2-4 languages and a real requirer listing a shuffled subset (plus unrelated ones; sometimes the " +
			"provider is its data / tool): ProvideFor called 12 (thorough: 24) times on two insertion orders of the map, all results equal and in Requires order; every second " +
			"recipe also as a real graph with providers of providers, recursion read 6 times; non-trivial = >= 2 languages matched / >= 2 labels yielded. " +
			"path-hasher memo: histories of 5-14 steps on ONE real fs.PathHasher over a real tree (3 files, 2 directories): Hash (recalc 1/5), CopyHash, MoveHash, and faults " +
			"(an entry replaced by a unix socket - open fails with ENXIO -, a file removed) that are later repaired; the raw answer of every Hash is taken from a fresh hasher " +
			"at that moment; a digest returned with a nil error must be the digest a fresh hasher computes on the intact tree; non-trivial = a fault and a successful Hash " +
			"after a failed one on the same path. xattr store: histories of 4-10 Hash calls by FRESH real hashers (core.NewDefaultBuildState().Hasher) of 2-4 of the six " +
			"configured algorithms on real files under plz-out/ with random recalc / store flags; every call must return the digest the same algorithm computes with xattrs " +
			"off; non-trivial = a read after another algorithm stored its digest on the file. " +
			"link histories (end to end, link.go): a filegroup of one plain source file (output = hard link to the user's file) and a genrule consuming it, in package '' or p; " +
			"the fixed history run / run -n 16 / edit in place / run and 2 (thorough: 16) random ones of 5-8 events (run, edit in place, replace by a new inode, rm -rf plz-out) over " +
			"three contents, performed with the real binary on a file system with user xattrs; every report must equal the report of a fresh copy of the tree as it is at that " +
			"moment (own directory and cache directory), and Model/C07_Link.v must predict the content whose Source hashes each run printed; non-trivial = >= 3 runs, one of them " +
			"after an in-place edit. " +
			"distinct = distinct stored states; non-trivial = >= 2 maps with >= 2 entries and >= 2 dependencies")
		prog := rh.LoadProg()
		t0 := time.Now()
		lap := func(what string) {
			c.Note("timing: %s %.1fs", what, time.Since(t0).Seconds())
			t0 = time.Now()
		}

		// dev aid: C07_STREAMS_ONLY=link performs only the link histories (link.go)
		linkOnly := os.Getenv("C07_STREAMS_ONLY") == "link"
		n := c.Scale(120, 4000)
		if linkOnly {
			n = 0
		}
		perms := c.Scale(3, 6)
		for i := 0; i < n; i++ {
			r := c.Rng.Fork()
			sp := genSpec(r)
			for _, rt := range []bool{false, true} {
				h0, t0 := rh.Hash(sp, rt)
				stream := rh.Stream(prog, rt, t0)
				tie := bytes.Equal(rh.Sha1(stream), h0)
				for k := 0; k < perms; k++ {
					p := permute(r, sp)
					h1, t1 := rh.Hash(p, rt)
					c.Oracle()
					js := map[string]any{"runtime": rt, "recipe": sp, "permuted": p, "hash": hex.EncodeToString(h0), "hash_permuted": hex.EncodeToString(h1)}
					if !bytes.Equal(h0, h1) {
						c.Fail("rule-hash-depends-on-insertion-order", fmt.Sprintf("the same definition performed in another order hashes to %x instead of %x (runtime=%v)", h1, h0, rt), js)
					}
					// repeated hashing of the very same recipe: only Go's map iteration order varies
					if h2, _ := rh.Hash(p, rt); !bytes.Equal(h1, h2) {
						c.Fail("rule-hash-differs-between-runs", fmt.Sprintf("hashing the same target twice gave %x and %x (runtime=%v)", h1, h2, rt), js)
					}
					if k == 0 || (k == 1 && rt) {
						st := stream
						if !tie || !bytes.Equal(rh.Sha1(rh.Stream(prog, rt, t1)), h1) {
							js["tie"] = "sha1(interpreted stream) != build.RuleHash"
							st = []byte("TIE BROKEN: sha1(interpreted stream) != build.RuleHash " + hex.EncodeToString(h0))
						}
						c.Case(lib.App("Rule", lib.App("CPerm", lib.Bool(rt), t0.Coq(), t1.Coq(), rh.Str(string(st)))), js, t0.Coq()+"|"+t1.Coq(), nontrivial(t0) && t0.Coq() != t1.Coq())
					} else {
						c.Eval(js, t0.Coq()+"|"+t1.Coq()+fmt.Sprint(rt), nontrivial(t0) && t0.Coq() != t1.Coq())
					}
				}
				c.HistN("deps", len(t0.Deps))
				c.HistN("maps>=2", func() int {
					k := 0
					for _, n := range []int{len(t0.NamedSrcs), len(t0.NamedOuts), len(t0.Provides), len(t0.EntryPoints), len(t0.Env), len(t0.Commands), len(t0.NamedData), len(t0.NamedTools)} {
						if n >= 2 {
							k++
						}
					}
					return k
				}())
			}
		}

		// ---- the source hash on real graphs (src.go)
		lap("rule hash")
		if !linkOnly {
			runSourceHash(c)
			lap("source hash")

			// ---- require / provide, the memo of the path hasher under read faults, the xattr store (hasher.go)
			runProvide(c)
			lap("require/provide")
			runMemo(c)
			lap("memo")
			runXattr(c)
			lap("xattr")
		}

		// ---- end to end
		plz := os.Getenv("VERIF_PLZ")
		if plz == "" {
			c.Note("VERIF_PLZ not set: end-to-end part skipped")
			return
		}
		base, err := os.MkdirTemp("", "c07-e2e-")
		if err != nil {
			panic(err)
		}
		defer os.RemoveAll(base)
		// ---- what earlier invocations leave behind: filegroup links, in-place edits (link.go)
		runLinkStream(c, plz, base)
		lap("e2e link histories")
		if linkOnly {
			return
		}
		nrepos := c.Scale(2, 25)
		for ri := 0; ri < nrepos; ri++ {
			r := c.Rng.Fork()
			rs := genRepo(r)
			dir := filepath.Join(base, fmt.Sprintf("r%d", ri))
			rs.Files[".plzconfig"] = "[build]\npath = /usr/local/bin:/usr/bin:/bin\n[cache]\ndir = " + filepath.Join(base, fmt.Sprintf("cache%d", ri)) + "\n[display]\nupdatetitle = false\n"
			for f, content := range rs.Files {
				p := filepath.Join(dir, f)
				if err := os.MkdirAll(filepath.Dir(p), 0o755); err != nil {
					panic(err)
				}
				if err := os.WriteFile(p, []byte(content), 0o644); err != nil {
					panic(err)
				}
			}
			type inv struct {
				threads int
				clean   bool
				shuffle bool
			}
			invs := []inv{{1, true, false}, {16, true, true}, {16, false, true}, {1, false, true}}
			if c.Thor {
				invs = append(invs, inv{16, true, true}, inv{4, true, true}, inv{16, false, false}, inv{2, true, true})
			}
			first, firstDesc := "", ""
			for ii, iv := range invs {
				if iv.clean {
					os.RemoveAll(filepath.Join(dir, "plz-out"))
					os.RemoveAll(filepath.Join(base, fmt.Sprintf("cache%d", ri)))
				}
				lbls := append([]string{}, rs.Lbls...)
				if iv.shuffle {
					lib.Shuffle(r, lbls)
				}
				so, se, rc := runPlz(plz, dir, iv.threads, append([]string{"hash", "--detailed"}, lbls...)...)
				desc := fmt.Sprintf("-n %d clean=%v order=%v", iv.threads, iv.clean, lbls)
				js := map[string]any{"repo": rs, "invocation": desc}
				c.Oracle()
				c.Eval(js, fmt.Sprintf("repo%d-%d", ri, ii), true)
				if rc != 0 {
					c.Fail("plz-hash-failed", fmt.Sprintf("plz hash --detailed exited %d: %s", rc, lastLines(se, 5)), js)
					continue
				}
				cn := canon(so)
				if strings.Count(cn, "Rule:") < 2*len(rs.Lbls) {
					c.Fail("plz-hash-report-incomplete", "the report does not list every target", js)
				}
				if ii == 0 {
					first, firstDesc = cn, desc
				} else if cn != first {
					js["first"], js["first_invocation"], js["this"] = first, firstDesc, cn
					c.Fail("plz-hash-differs-between-invocations", fmt.Sprintf("`plz hash --detailed` differs between [%s] and [%s]: %s", firstDesc, desc, firstDiff(first, cn)), js)
				}
			}
			c.HistN("e2e_targets", len(rs.Lbls))
		}

		lap("e2e generated repositories")
		// ---- require / provide through srcs: a provider of 2-4 languages, requirers in both orders; 8 invocations on one tree
		{
			r := c.Rng.Fork()
			pr := provideRepo(r)
			dir := filepath.Join(base, "prov")
			writeRepo(dir, filepath.Join(base, "provcache"), pr.Files)
			first := ""
			for k := 0; k < 8; k++ {
				threads := []int{1, 16}[k%2]
				so, se, rc := runPlz(plz, dir, threads, append([]string{"hash", "--detailed"}, pr.Lbls...)...)
				js := map[string]any{"repo": pr, "run": k, "threads": threads}
				c.Oracle()
				c.Eval(js, fmt.Sprintf("provide-e2e-%d", k), true)
				if rc != 0 {
					c.Fail("plz-hash-failed", fmt.Sprintf("plz hash --detailed exited %d: %s", rc, lastLines(se, 5)), js)
					break
				}
				cn := canon(so)
				if strings.Count(cn, "Source:") < 2*len(pr.Lbls) {
					c.Fail("plz-hash-report-incomplete", "the report does not list the sources of every target", js)
					break
				}
				if k == 0 {
					first = cn
				} else if cn != first {
					js["first"], js["this"] = first, cn
					c.Fail("plz-hash-differs-between-invocations", fmt.Sprintf("`plz hash --detailed` on a target that requires several languages one src provides differs between run 0 and run %d (-n %d): %s", k, threads, firstDiff(first, cn)), js)
					break
				}
			}
			c.Hist("e2e_provide", fmt.Sprintf("%d-languages", pr.langs))
		}

		lap("e2e provide")
		// ---- dependencies pinned with hashes= of a non-default algorithm: cold, then warm twice
		{
			pr := pinnedRepo()
			dir := filepath.Join(base, "pinned")
			writeRepo(dir, filepath.Join(base, "pinnedcache"), pr.Files)
			first := ""
			for k, threads := range []int{1, 16, 1} {
				so, se, rc := runPlz(plz, dir, threads, append([]string{"hash", "--detailed"}, pr.Lbls...)...)
				js := map[string]any{"repo": pr, "run": k, "threads": threads, "plz_out": map[bool]string{true: "cold", false: "warm"}[k == 0]}
				c.Oracle()
				c.Eval(js, fmt.Sprintf("pinned-e2e-%d", k), true)
				if rc != 0 {
					c.Fail("plz-hash-failed", fmt.Sprintf("plz hash --detailed exited %d: %s", rc, lastLines(se, 5)), js)
					break
				}
				cn := canon(so)
				if strings.Count(cn, "Source:") < 2 {
					c.Fail("plz-hash-report-incomplete", "the report does not list the sources of the dependent target", js)
					break
				}
				if k == 0 {
					first = cn
				} else if cn != first {
					js["first"], js["this"] = first, cn
					c.Fail("plz-hash-differs-between-invocations", fmt.Sprintf("`plz hash --detailed` on a dependent of targets pinned with blake3 / sha1 hashes differs between the cold run and warm run %d (-n %d): %s", k, threads, firstDiff(first, cn)), js)
					break
				}
			}
			c.Hist("e2e_pinned", "blake3+sha1")
		}

		lap("e2e pinned")
		// ---- the two fixed witnesses of map-order insertion of dict-valued srcs (see witnessRepos): repeated invocations on one tree
		for wi, wr := range witnessRepos() {
			dir := filepath.Join(base, fmt.Sprintf("w%d", wi))
			wr.Files[".plzconfig"] = "[build]\npath = /usr/local/bin:/usr/bin:/bin\n[cache]\ndir = " + filepath.Join(base, fmt.Sprintf("wcache%d", wi)) + "\n[display]\nupdatetitle = false\n"
			for f, content := range wr.Files {
				p := filepath.Join(dir, f)
				if err := os.MkdirAll(filepath.Dir(p), 0o755); err != nil {
					panic(err)
				}
				if err := os.WriteFile(p, []byte(content), 0o644); err != nil {
					panic(err)
				}
			}
			first := ""
			runs := c.Scale(5, 12)
			for k := 0; k < runs; k++ {
				so, se, rc := runPlz(plz, dir, []int{4, 1, 16}[k%3], "hash", "--detailed", wr.Label)
				js := map[string]any{"witness": wr, "run": k}
				c.Oracle()
				c.Eval(js, fmt.Sprintf("witness%d-%d", wi, k), true)
				if rc != 0 {
					c.Fail("plz-hash-failed", fmt.Sprintf("plz hash --detailed %s exited %d: %s", wr.Label, rc, lastLines(se, 5)), js)
					break
				}
				src := strings.Join(sourceLines.FindAllString(so, -1), "")
				if src == "" {
					c.Fail("plz-hash-report-incomplete", "no Source: line in the report of "+wr.Label, js)
					break
				}
				if k == 0 {
					first = src
				} else if src != first {
					js["first"], js["this"] = first, src
					c.Fail(wr.Class, fmt.Sprintf("`plz hash --detailed %s` printed different source hashes on an identical tree (run 0 vs run %d): %s", wr.Label, k, firstDiff(first, src)), js)
					break
				}
			}
			c.Hist("e2e_witness", wr.Class)
		}
		lap("e2e witnesses")
	})
}

func writeRepo(dir, cache string, files map[string]string) {
	files[".plzconfig"] = "[build]\npath = /usr/local/bin:/usr/bin:/bin\n[cache]\ndir = " + cache + "\n[display]\nupdatetitle = false\n"
	for f, content := range files {
		p := filepath.Join(dir, f)
		if err := os.MkdirAll(filepath.Dir(p), 0o755); err != nil {
			panic(err)
		}
		if err := os.WriteFile(p, []byte(content), 0o644); err != nil {
			panic(err)
		}
	}
}

type smallRepo struct {
	Files map[string]string `json:"files"`
	Lbls  []string          `json:"labels"`
	langs int
}

// provideRepo: filegroup `lib` provides 2-4 languages (dict literal in a shuffled order); t1 requires them in one order, t2 in
// the opposite order, both through srcs (IterSources substitutes the provided targets in the order ProvideFor returns them)
func provideRepo(r *lib.Rng) *smallRepo {
	langs := []string{"la", "lb", "lc", "ld"}[:r.Range(2, 4)]
	var b strings.Builder
	items := []string{}
	for _, l := range langs {
		fmt.Fprintf(&b, "genrule(name = %q, outs = [%q], cmd = \"echo %s > $OUT\")\n", "p_"+l, "p_"+l+".txt", l)
		items = append(items, fmt.Sprintf("%q: %q", l, ":p_"+l))
	}
	lib.Shuffle(r, items)
	fmt.Fprintf(&b, "filegroup(name = \"lib\", srcs = [\"lib.txt\"], provides = {%s})\n", strings.Join(items, ", "))
	rev := make([]string, len(langs))
	for i, l := range langs {
		rev[len(langs)-1-i] = l
	}
	fmt.Fprintf(&b, "genrule(name = \"t1\", srcs = [\":lib\"], requires = %s, outs = [\"t1.txt\"], cmd = \"cat $SRCS > $OUT\")\n", pyList(langs))
	fmt.Fprintf(&b, "genrule(name = \"t2\", srcs = [\":lib\"], requires = %s, outs = [\"t2.txt\"], cmd = \"cat $SRCS > $OUT\")\n", pyList(rev))
	return &smallRepo{Files: map[string]string{"BUILD": b.String(), "lib.txt": "lib\n"}, Lbls: []string{"//:t1", "//:t2"}, langs: len(langs)}
}

// pinnedRepo: two dependencies whose single output is pinned with hashes = [..] in blake3 (neither sha1 nor the build hash
// function sha256) and in sha1; when they are built every configured hash checker (sha1, sha256, blake3) hashes the output with
// store = true. `t` has them as sources: its source hashes are the sha256 digests of their outputs - taken from the memo in the
// cold invocation and from the xattr of the output file in the warm ones.
func pinnedRepo() *smallRepo {
	digest := func(algo, content string) string {
		h := core.NewDefaultBuildState().Hasher(algo).NewHash()
		h.Write([]byte(content))
		return hex.EncodeToString(h.Sum(nil))
	}
	var b strings.Builder
	fmt.Fprintf(&b, "genrule(name = \"pinned_b3\", outs = [\"pinned_b3.txt\"], cmd = \"echo pinned b3 > $OUT\", hashes = [\"blake3: %s\"])\n", digest("blake3", "pinned b3\n"))
	fmt.Fprintf(&b, "genrule(name = \"pinned_s1\", outs = [\"pinned_s1.txt\"], cmd = \"echo pinned s1 > $OUT\", hashes = [\"sha1: %s\"])\n", digest("sha1", "pinned s1\n"))
	b.WriteString("genrule(name = \"t\", srcs = [\":pinned_b3\", \":pinned_s1\"], outs = [\"t.txt\"], cmd = \"cat $SRCS > $OUT\")\n")
	return &smallRepo{Files: map[string]string{"BUILD": b.String()}, Lbls: []string{"//:t"}}
}

var sourceLines = regexp.MustCompile(`(?m)^ *Source: [^\n]*\n`)

type witnessRepo struct {
	Class string            `json:"class"`
	Label string            `json:"label"`
	Files map[string]string `json:"files"`
}

// witnessRepos: the two ways in which the order of a dict-valued `srcs` reached the source hash of a dependent target while asp
// added the groups in Go map order (fixed in /repo; kept so that a return of map-order insertion is reported). 8 groups: a Go map
// of 8 entries is walked from a random offset, so two walks agree with probability 1/8.
func witnessRepos() []witnessRepo {
	const k = 8
	var a, b strings.Builder
	srcsA, expA, srcsB := []string{}, []string{}, []string{}
	for i := 0; i < k; i++ {
		fmt.Fprintf(&a, "genrule(name = \"x%d\", outs = [\"x%d.out\"], cmd = \"echo x%d > $OUT\")\n", i, i, i)
		srcsA = append(srcsA, fmt.Sprintf("\"g%d\": [\":x%d\"]", i, i))
		expA = append(expA, fmt.Sprintf("\":x%d\"", i))
		fmt.Fprintf(&b, "genrule(name = \"r%d\", outs = [\"r%d.out\"], cmd = \"echo r%d > $OUT\")\n", i, i, i)
		fmt.Fprintf(&b, "genrule(name = \"x%d\", outs = [\"x%d.out\"], cmd = \"echo x%d > $OUT\", binary = True, runtime_deps = [\":r%d\"])\n", i, i, i, i)
		srcsB = append(srcsB, fmt.Sprintf("\"g%d\": [\":x%d\"]", i, i))
	}
	fmt.Fprintf(&a, "genrule(name = \"d\", srcs = {%s}, outs = [\"d.out\"], cmd = \"touch $OUT\", exported_deps = [%s])\n", strings.Join(srcsA, ", "), strings.Join(expA, ", "))
	a.WriteString("genrule(name = \"t\", outs = [\"t.out\"], cmd = \"echo t > $OUT\", deps = [\":d\"])\n")
	fmt.Fprintf(&b, "build_rule(name = \"f\", srcs = {%s}, outs = [\"f.out\"], cmd = \"touch $OUT\", runtime_deps_from_srcs = True)\n", strings.Join(srcsB, ", "))
	b.WriteString("genrule(name = \"t\", outs = [\"t.out\"], cmd = \"echo t > $OUT\", deps = [\":f\"])\n")
	return []witnessRepo{
		{Class: "source-hash-exported-deps-in-dict-order", Label: "//p:t", Files: map[string]string{"p/BUILD": a.String()}},
		{Class: "source-hash-runtime-deps-from-srcs-in-dict-order", Label: "//q:t", Files: map[string]string{"q/BUILD": b.String()}},
	}
}

func lastLines(x string, n int) string {
	ls := strings.Split(strings.TrimSpace(x), "\n")
	if len(ls) > n {
		ls = ls[len(ls)-n:]
	}
	return strings.Join(ls, " | ")
}

func firstDiff(a, b string) string {
	la, lb := strings.Split(a, "\n"), strings.Split(b, "\n")
	for i := 0; i < len(la) && i < len(lb); i++ {
		if la[i] != lb[i] {
			return fmt.Sprintf("%q vs %q", la[i], lb[i])
		}
	}
	return "different length"
}
