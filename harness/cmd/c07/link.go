// C07, what earlier invocations leave behind (follow-up of the seeded change C07/r2-m1). A filegroup of a plain source file
// links its output to the user's file: plz-out/gen/<pkg>/data.txt and <pkg>/data.txt are ONE inode, so the extended attribute
// in which fs.PathHasher stores digests of files below plz-out/ would sit on a file the user edits. filegroupBuilder.Build
// therefore marks the output in the hasher's memo (CopyHash) on both ways out. This stream performs histories of
//
//	run       `plz hash --detailed //pkg:t` (t = genrule with srcs = [":fg"]), a new process, -n 1 / -n 16 alternating
//	edit      the source rewritten IN PLACE (same inode: O_TRUNC)
//	replace   the source replaced by a new file (rename over it: new inode)
//	rmout     rm -rf plz-out
//
// with the real binary on a real tree, and compares every report with the report of a FRESH COPY of the tree as it is at that
// moment (another directory, another cache directory, no plz-out). The Coq model (Model/C07_Link.v, driven by the same-file branch
// of filegroupBuilder.Build as gotrans regenerates it) must predict, per run, the content whose Source hashes were printed.
package main

import (
	"fmt"
	"os"
	"path/filepath"
	"strings"
	"sync"
	"syscall"

	"verifharness/lib"
)

type linkEvent struct {
	Kind    string `json:"kind"` // run | edit | replace | rmout
	Content string `json:"content,omitempty"`
	Threads int    `json:"threads,omitempty"`
}

type linkHist struct {
	Pkg     string      `json:"package"`
	C0      string      `json:"first_content"`
	Events  []linkEvent `json:"events"`
	Reports []string    `json:"-"`
	Failed  []string    `json:"-"` // per run: "" or the error
	// per run: the content of the source at that moment, and whether it was edited in place since the output was last linked
	Cur    []string `json:"-"`
	Staled []bool   `json:"-"`
}

var linkContents = []string{"one", "two", "three"}

func linkFiles(pkg, content string) map[string]string {
	build := "filegroup(name = \"fg\", srcs = [\"data.txt\"])\n" +
		"genrule(name = \"t\", srcs = [\":fg\"], outs = [\"t.out\"], cmd = \"cat $SRCS > $OUT\")\n"
	return map[string]string{filepath.Join(pkg, "BUILD"): build, filepath.Join(pkg, "data.txt"): content}
}

func linkLabel(pkg string) string { return "//" + pkg + ":t" }

// xattrDir: a directory under which user.* extended attributes can be set (the symptom needs them), or "".
func xattrDir(cands ...string) string {
	for _, d := range cands {
		if d == "" {
			continue
		}
		dir, err := os.MkdirTemp(d, "c07-link-")
		if err != nil {
			continue
		}
		probe := filepath.Join(dir, "probe")
		if os.WriteFile(probe, []byte("x"), 0o644) == nil && syscall.Setxattr(probe, "user.verif_probe", []byte("1"), 0) == nil {
			os.Remove(probe)
			return dir
		}
		os.RemoveAll(dir)
	}
	return ""
}

// genLinkHist: the fixed four-step sequence (id 0) or a random history; every history starts with a run.
func genLinkHist(r *lib.Rng, id int) *linkHist {
	h := &linkHist{Pkg: []string{"", "p"}[id%2], C0: "one"}
	if id == 0 {
		h.Events = []linkEvent{{Kind: "run", Threads: 1}, {Kind: "run", Threads: 16}, {Kind: "edit", Content: "two"}, {Kind: "run", Threads: 1}}
		return h
	}
	h.C0 = lib.Pick(r, linkContents)
	h.Events = append(h.Events, linkEvent{Kind: "run", Threads: 1})
	n := r.Range(4, 7)
	runs, cur := 1, h.C0
	// mostly another content than the present one (an edit to the same content is a no-op; a replacement by the same
	// content keeps the old inode as the output)
	other := func(same int) string {
		if r.Chance(same, 6) {
			return cur
		}
		for {
			if c := lib.Pick(r, linkContents); c != cur {
				return c
			}
		}
	}
	for i := 0; i < n; i++ {
		last := h.Events[len(h.Events)-1].Kind
		var e linkEvent
		switch k := r.Intn(10); {
		case last != "run" || k < 3:
			runs++
			e = linkEvent{Kind: "run", Threads: []int{1, 16}[runs%2]}
		case k < 7:
			e = linkEvent{Kind: "edit", Content: other(1)}
			cur = e.Content
		case k < 9:
			e = linkEvent{Kind: "replace", Content: other(3)}
			cur = e.Content
		default:
			e = linkEvent{Kind: "rmout"}
		}
		h.Events = append(h.Events, e)
	}
	if h.Events[len(h.Events)-1].Kind != "run" {
		h.Events = append(h.Events, linkEvent{Kind: "run", Threads: 16})
	}
	return h
}

func performLink(plz, dir string, h *linkHist) {
	writeRepo(dir, dir+"-cache", linkFiles(h.Pkg, h.C0))
	data := filepath.Join(dir, h.Pkg, "data.txt")
	cur, staled := h.C0, false
	for _, e := range h.Events {
		switch e.Kind {
		case "edit":
			// same inode: open with O_TRUNC and write
			if err := os.WriteFile(data, []byte(e.Content), 0o644); err != nil {
				panic(err)
			}
			if e.Content != cur {
				staled = true
			}
			cur = e.Content
		case "replace":
			tmp := data + ".new"
			if err := os.WriteFile(tmp, []byte(e.Content), 0o644); err != nil {
				panic(err)
			}
			if err := os.Rename(tmp, data); err != nil {
				panic(err)
			}
			cur, staled = e.Content, false
		case "rmout":
			os.RemoveAll(filepath.Join(dir, "plz-out"))
			staled = false
		case "run":
			so, se, rc := runPlz(plz, dir, e.Threads, "hash", "--detailed", linkLabel(h.Pkg))
			fail := ""
			if rc != 0 {
				fail = fmt.Sprintf("exit %d: %s", rc, lastLines(se, 5))
			}
			h.Reports = append(h.Reports, canon(so))
			h.Failed = append(h.Failed, fail)
			h.Cur = append(h.Cur, cur)
			h.Staled = append(h.Staled, staled)
		}
	}
}

func linkTerm(h *linkHist, obs []string) string {
	evs := []string{}
	for _, e := range h.Events {
		switch e.Kind {
		case "run":
			evs = append(evs, "LkRun")
		case "edit":
			evs = append(evs, lib.App("LkEdit", lib.Str(e.Content)))
		case "replace":
			evs = append(evs, lib.App("LkReplace", lib.Str(e.Content)))
		case "rmout":
			evs = append(evs, "LkRmOut")
		default:
			panic("link event " + e.Kind)
		}
	}
	return lib.App("Link", lib.App("LinkHist", lib.Str(h.C0), lib.List(evs), lib.StrList(obs)))
}

func runLinkStream(c *lib.Ctx, plz, base string) {
	root := xattrDir(base, c.Out, "/var/tmp", "/dev/shm")
	if root == "" {
		c.Note("link stream SKIPPED: no directory with user.* extended attributes found (tried %s, %s, /var/tmp, /dev/shm)", base, c.Out)
		return
	}
	defer os.RemoveAll(root)
	n := 1 + c.Scale(2, 16)
	hists := make([]*linkHist, n)
	for i := range hists {
		hists[i] = genLinkHist(c.Rng.Fork(), i)
	}
	// fresh copies: one tree per (package, content), each with its own cache directory, hashed once
	type fk struct{ pkg, content string }
	fresh := map[fk]string{}
	freshErr := map[fk]string{}
	var mu sync.Mutex
	var wg sync.WaitGroup
	sem := make(chan struct{}, 6)
	fi := 0
	for _, pkg := range []string{"", "p"} {
		for _, content := range linkContents {
			k, dir := fk{pkg, content}, filepath.Join(root, fmt.Sprintf("fresh%d", fi))
			fi++
			wg.Add(1)
			go func() {
				defer wg.Done()
				sem <- struct{}{}
				defer func() { <-sem }()
				writeRepo(dir, dir+"-cache", linkFiles(k.pkg, k.content))
				so, se, rc := runPlz(plz, dir, 16, "hash", "--detailed", linkLabel(k.pkg))
				mu.Lock()
				defer mu.Unlock()
				if rc != 0 {
					freshErr[k] = fmt.Sprintf("exit %d: %s", rc, lastLines(se, 5))
				}
				fresh[k] = canon(so)
			}()
		}
	}
	for i, h := range hists {
		wg.Add(1)
		go func() {
			defer wg.Done()
			sem <- struct{}{}
			defer func() { <-sem }()
			performLink(plz, filepath.Join(root, fmt.Sprintf("h%d", i)), h)
		}()
	}
	wg.Wait()

	for _, k := range []fk{{"", "one"}, {"", "two"}, {"", "three"}, {"p", "one"}, {"p", "two"}, {"p", "three"}} {
		e, bad := freshErr[k]
		if !bad {
			continue
		}
		c.Oracle()
		c.Fail("plz-hash-failed", fmt.Sprintf("plz hash --detailed %s on a fresh tree (data.txt = %q) failed: %s", linkLabel(k.pkg), k.content, e), map[string]any{"stream": "link", "files": linkFiles(k.pkg, k.content)})
	}
	// the fresh reports must tell the contents apart, or the stream observes nothing
	for _, pkg := range []string{"", "p"} {
		seen := map[string]string{}
		for _, content := range linkContents {
			rep := fresh[fk{pkg, content}]
			c.Oracle()
			if strings.Count(rep, "Source:") < 2 {
				c.Fail("plz-hash-report-incomplete", "the report of a fresh tree does not list the sources of "+linkLabel(pkg), map[string]any{"stream": "link", "files": linkFiles(pkg, content), "report": rep})
			}
			if other, dup := seen[rep]; dup {
				c.Fail("plz-hash-ignores-source-content", fmt.Sprintf("fresh trees with data.txt = %q and %q print the same report for %s", other, content, linkLabel(pkg)), map[string]any{"stream": "link", "files": linkFiles(pkg, content), "report": rep})
			}
			seen[rep] = content
		}
	}
	for i, h := range hists {
		obs := make([]string, len(h.Reports))
		stale, runs := 0, len(h.Reports)
		for k, rep := range h.Reports {
			obs[k] = "?"
			// which content are the printed Source hashes the digests of (the first line of the report is the hash of t's
			// OUTPUTS, which follows the content that was really read)
			for _, content := range linkContents {
				if src := strings.Join(sourceLines.FindAllString(rep, -1), ""); src != "" && src == strings.Join(sourceLines.FindAllString(fresh[fk{h.Pkg, content}], -1), "") {
					obs[k] = content
				}
			}
			want := fresh[fk{h.Pkg, h.Cur[k]}]
			js := map[string]any{"stream": "link", "history": i, "run": k, "package": h.Pkg, "first_content": h.C0, "events": h.Events,
				"content_now": h.Cur[k], "source_hashes_are_those_of_content": obs[k], "report": rep, "fresh_copy_report": want,
				"files": linkFiles(h.Pkg, h.C0)}
			c.Oracle()
			c.Eval(js, fmt.Sprintf("link-%d-%d", i, k), true)
			if h.Staled[k] {
				stale++
			}
			switch {
			case h.Failed[k] != "":
				c.Fail("plz-hash-failed", fmt.Sprintf("run %d of link history %d: %s", k, i, h.Failed[k]), js)
			case rep != want && h.Staled[k]:
				c.Fail("plz-hash-differs-from-fresh-copy-after-in-place-edit", fmt.Sprintf("`plz hash --detailed %s` in a tree that was hashed before and whose filegroup source was then edited in place (now %q) "+
					"differs from the report of a fresh copy of the same tree - its Source hashes are those of content %q: %s", linkLabel(h.Pkg), h.Cur[k], obs[k], firstDiff(want, rep)), js)
			case rep != want:
				c.Fail("plz-hash-differs-between-invocations", fmt.Sprintf("`plz hash --detailed %s` in a warm tree (run %d of the history, data.txt = %q) differs from the report of a fresh copy of the same tree: %s",
					linkLabel(h.Pkg), k, h.Cur[k], firstDiff(want, rep)), js)
			}
		}
		evs := make([]string, len(h.Events))
		for k, e := range h.Events {
			evs[k] = e.Kind + ":" + e.Content
		}
		c.Case(linkTerm(h, obs), map[string]any{"stream": "link", "history": i, "package": h.Pkg, "first_content": h.C0, "events": h.Events, "observed": obs},
			"link|"+h.Pkg+"|"+h.C0+"|"+strings.Join(evs, ","), stale >= 1 && runs >= 3)
		c.HistN("link_runs", runs)
		c.Hist("link_run_after_in_place_edit", fmt.Sprint(stale >= 1))
	}
}
