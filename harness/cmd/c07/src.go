// C07, source-hash part. A recipe (gSpec) describes a small build graph; it is performed on REAL core.BuildTarget values in a
// real core.BuildGraph (AddSource / AddNamedSource / AddTool / AddNamedTool / AddDependency / AddMaybeExportedDependency,
// ResolveDependencies), in a temporary repository whose source files and outputs really exist, and the REAL build.sourceHash is
// taken through the hook build.VerifSourceHash. The stored state is read back into the graph record of Model/C07_Src.v.
package main

import (
	"encoding/hex"
	"encoding/json"
	"fmt"
	"os"
	"path/filepath"
	"sort"
	"strings"

	"verifharness/cmd/c08/rh"
	"verifharness/lib"

	"github.com/thought-machine/please/src/build"
	"github.com/thought-machine/please/src/core"
)

// ------------------------------------------------------------------------------------------- the generated program

type sEmit struct {
	Op           string   `json:"op"`
	IncludeTools bool     `json:"include_tools"`
	Ws           []string `json:"ws"`
}
type sProg struct {
	Body            []sEmit `json:"body"`
	BuildDepsSorted bool    `json:"build_deps_sorted"`
	InputsSorted    bool    `json:"inputs_sorted"`
}

func loadSrcProg() sProg {
	dir := os.Getenv("VERIF_DIR")
	if dir == "" {
		dir = "/verif"
	}
	data, err := os.ReadFile(filepath.Join(dir, "coq", "theories", "Gen", "C07SourceHash.json"))
	if err != nil {
		panic(err)
	}
	var p sProg
	if err := json.Unmarshal(data, &p); err != nil {
		panic(err)
	}
	return p
}

// ------------------------------------------------------------------------------------------- recipes

type sInput struct {
	Kind string   `json:"kind"` // file | label | ann
	File string   `json:"file,omitempty"`
	L    rh.Label `json:"l,omitempty"`
	Ann  string   `json:"ann,omitempty"`
}
type sGroup struct {
	Key  string   `json:"k"`
	Vals []sInput `json:"v"`
}

// nSpec: the arguments of one build rule, applied in the order of asp's populateTarget: srcs (unnamed, then the named groups
// in the order listed here), tools, deps, exported_deps, runtime_deps.
type nSpec struct {
	Label            rh.Label    `json:"label"`
	Srcs             []sInput    `json:"srcs,omitempty"`
	NamedSrcs        []sGroup    `json:"named_srcs,omitempty"`
	Tools            []sInput    `json:"tools,omitempty"`
	NamedTools       []sGroup    `json:"named_tools,omitempty"`
	Deps             []rh.Label  `json:"deps,omitempty"`
	ExportedDeps     []rh.Label  `json:"exported_deps,omitempty"`
	RuntimeDeps      []rh.Label  `json:"runtime_deps,omitempty"`
	DepsFirst        bool        `json:"deps_first,omitempty"` // hypothetical: the deps list applied before the sources
	NeedsTransitive  bool        `json:"needs_transitive,omitempty"`
	OutputIsComplete bool        `json:"output_is_complete,omitempty"`
	Binary           bool        `json:"binary,omitempty"`
	Outs             []string    `json:"outs"`
	NamedOut         string      `json:"named_out,omitempty"` // one output in the named group "nm"
	Requires         []string    `json:"requires,omitempty"`
	Provides         []rh.LGroup `json:"provides,omitempty"`
}

type gSpec struct {
	Nodes []nSpec  `json:"nodes"` // dependencies first
	Top   rh.Label `json:"top"`
}

func (g *gSpec) clone() *gSpec {
	data, err := json.Marshal(g)
	if err != nil {
		panic(err)
	}
	out := new(gSpec)
	if err := json.Unmarshal(data, out); err != nil {
		panic(err)
	}
	return out
}

func (i sInput) core(pkg string) core.BuildInput {
	switch i.Kind {
	case "file":
		return core.FileLabel{File: i.File, Package: pkg}
	case "label":
		return i.L.Core()
	case "ann":
		return core.AnnotatedOutputLabel{BuildLabel: i.L.Core(), Annotation: i.Ann}
	}
	panic("input kind " + i.Kind)
}

// ------------------------------------------------------------------------------------------- read-back (Model/C07_Src.v)

type mInput struct {
	Kind string   `json:"kind"` // IFile | ILabel | IOut
	ID   string   `json:"id,omitempty"`
	L    rh.Label `json:"l,omitempty"`
	Ann  string   `json:"ann,omitempty"`
}
type mGroup struct {
	Key  string   `json:"k"`
	Vals []mInput `json:"v"`
}
type mDep struct {
	Declared rh.Label   `json:"declared"`
	Resolved []rh.Label `json:"resolved"`
	Build    bool       `json:"build"`
	Exported bool       `json:"exported"`
	// the other flags of depInfo, tracked the way AddMaybeExportedDependency merges them
	source, internal, runtime bool
}
type mNode struct {
	Label            rh.Label   `json:"label"`
	Srcs             []mInput   `json:"srcs"`
	NamedSrcs        []mGroup   `json:"named_srcs"`
	Tools            []mInput   `json:"tools"`
	NamedTools       []mGroup   `json:"named_tools"`
	Deps             []mDep     `json:"deps"`
	NeedsTransitive  bool       `json:"needs_transitive"`
	OutputIsComplete bool       `json:"output_is_complete"`
	Runtime          []rh.Label `json:"runtime"`
	exported         []rh.Label
}
type mProvide struct {
	Dependency rh.Label   `json:"dependency"`
	Dep        rh.Label   `json:"dep"`
	Labels     []rh.Label `json:"labels"`
}
type mPaths struct {
	In    mInput      `json:"in"`
	Pairs [][2]string `json:"pairs"`
}
type mGraph struct {
	Nodes   []mNode    `json:"nodes"`
	Provide []mProvide `json:"provide"`
	Paths   []mPaths   `json:"paths"`
}

func fromCoreInput(i core.BuildInput) mInput {
	switch x := i.(type) {
	case core.FileLabel:
		return mInput{Kind: "IFile", ID: "file:" + x.Package + "/" + x.File}
	case core.BuildLabel:
		return mInput{Kind: "ILabel", L: rh.FromCore(x)}
	case core.AnnotatedOutputLabel:
		return mInput{Kind: "IOut", L: rh.FromCore(x.BuildLabel), Ann: x.Annotation}
	}
	panic(fmt.Sprintf("input %T", i))
}

func coqLbl(l rh.Label) string {
	return lib.App("Label", rh.Str(l.Sub), rh.Str(l.Pkg), rh.Str(l.Name))
}
func coqLbls(ls []rh.Label) string {
	out := make([]string, len(ls))
	for i, l := range ls {
		out[i] = coqLbl(l)
	}
	return lib.List(out)
}
func (i mInput) coq() string {
	switch i.Kind {
	case "IFile":
		return lib.App("IFile", rh.Str(i.ID))
	case "ILabel":
		return lib.App("ILabel", coqLbl(i.L))
	}
	return lib.App("IOut", coqLbl(i.L), rh.Str(i.Ann))
}
func coqInputs(is []mInput) string {
	out := make([]string, len(is))
	for k, i := range is {
		out[k] = i.coq()
	}
	return lib.List(out)
}
func coqMGroups(gs []mGroup) string {
	out := make([]string, len(gs))
	for k, g := range gs {
		out[k] = lib.Pair(rh.Str(g.Key), coqInputs(g.Vals))
	}
	return lib.List(out)
}
func (n *mNode) coq() string {
	deps := make([]string, len(n.Deps))
	for k, d := range n.Deps {
		deps[k] = lib.App("Dep", coqLbl(d.Declared), coqLbls(d.Resolved), lib.Bool(d.Build), lib.Bool(d.Exported))
	}
	return lib.App("Node", coqInputs(n.Srcs), coqMGroups(n.NamedSrcs), coqInputs(n.Tools), coqMGroups(n.NamedTools), "[]",
		lib.List(deps), lib.Bool(n.NeedsTransitive), lib.Bool(n.OutputIsComplete), coqLbls(n.Runtime))
}
func (g *mGraph) coqNodes() string {
	nodes := make([]string, len(g.Nodes))
	for k := range g.Nodes {
		nodes[k] = lib.Pair(coqLbl(g.Nodes[k].Label), g.Nodes[k].coq())
	}
	return lib.List(nodes)
}

func (g *mGraph) coqProvide() string {
	prov := make([]string, len(g.Provide))
	for k, p := range g.Provide {
		prov[k] = lib.Pair(lib.Pair(coqLbl(p.Dependency), coqLbl(p.Dep)), coqLbls(p.Labels))
	}
	return lib.List(prov)
}

func (g *mGraph) coqPaths() string {
	paths := make([]string, len(g.Paths))
	for k, p := range g.Paths {
		prs := make([]string, len(p.Pairs))
		for j, pr := range p.Pairs {
			prs[j] = lib.Pair(rh.Str(pr[0]), rh.Str(pr[1]))
		}
		paths[k] = lib.Pair(p.In.coq(), lib.List(prs))
	}
	return lib.List(paths)
}

// caseTerm: Src (CSrc g g' top fuel hashes stream stream')
func caseTerm(g0, g1 *mGraph, top rh.Label, fuel int, hashes []rh.KV, st0, st1 string) string {
	return lib.App("Src", lib.App("CSrc", g0.coq(), g1.coq(), coqLbl(top), lib.Nat(fuel), coqHashes(hashes), hexStr(st0), hexStr(st1)))
}

func (g *mGraph) coq() string {
	return lib.App("Graph", g.coqNodes(), g.coqProvide(), g.coqPaths())
}

// ------------------------------------------------------------------------------------------- construction

type srcWorld struct {
	dir   string
	state *core.BuildState
	prog  sProg
}

func newSrcWorld(prog sProg) *srcWorld {
	dir, err := os.MkdirTemp("", "c07-src-")
	if err != nil {
		panic(err)
	}
	dir, _ = filepath.EvalSymlinks(dir)
	if err := os.Chdir(dir); err != nil {
		panic(err)
	}
	core.RepoRoot = dir
	rh.State() // installs the quiet log backend
	st := core.NewDefaultBuildState()
	st.PathHasher.DisableXattrs()
	return &srcWorld{dir: dir, state: st, prog: prog}
}

func (w *srcWorld) touch(rel, content string) {
	p := filepath.Join(w.dir, rel)
	if _, err := os.Stat(p); err == nil {
		return
	}
	if err := os.MkdirAll(filepath.Dir(p), 0o755); err != nil {
		panic(err)
	}
	if err := os.WriteFile(p, []byte(content), 0o644); err != nil {
		panic(err)
	}
}

func lblLess(a, b rh.Label) bool {
	if a.Sub != b.Sub {
		return a.Sub < b.Sub
	} else if a.Pkg != b.Pkg {
		return a.Pkg < b.Pkg
	}
	return a.Name < b.Name
}

// the harness's own reading of core.recursivelyProvideFor (unexported) in terms of the exported BuildTarget.ProvideFor
func rpf(graph *core.BuildGraph, target, dependency *core.BuildTarget, dep core.BuildLabel, depth int) []core.BuildLabel {
	if depth > 50 {
		panic("recursivelyProvideFor does not terminate on this recipe")
	}
	depTarget := graph.TargetOrDie(dep)
	ret := depTarget.ProvideFor(dependency)
	if len(ret) == 1 && ret[0] == dep {
		ret = depTarget.ProvideFor(target)
		if len(ret) == 1 && ret[0] == dep {
			return []core.BuildLabel{dep}
		}
	}
	out := []core.BuildLabel{}
	for _, r := range ret {
		if r == dep {
			out = append(out, r)
		} else {
			out = append(out, rpf(graph, target, dependency, r, depth+1)...)
		}
	}
	return out
}

type built struct {
	hash    []byte
	graph   *mGraph
	hashes  []rh.KV // full path -> PathHasher.Hash
	stream  []byte  // the generated program interpreted over the real IterSources / AllTools / PathHasher
	yielded int
	pairs   [][2]string
}

// perform the recipe on a fresh real graph, hash the top target with the real sourceHash, read everything back
func (w *srcWorld) build(gs *gSpec) *built {
	graph := core.NewGraph()
	w.state.Graph = graph
	targets := map[rh.Label]*core.BuildTarget{}
	order := []*core.BuildTarget{}
	mirror := map[rh.Label]*mNode{}
	for _, ns := range gs.Nodes {
		t := core.NewBuildTarget(ns.Label.Core())
		t.IsBinary, t.NeedsTransitiveDependencies, t.OutputIsComplete = ns.Binary, ns.NeedsTransitive, ns.OutputIsComplete
		m := &mNode{Label: ns.Label}
		find := func(l rh.Label) *mDep {
			for i := range m.Deps {
				if m.Deps[i].Declared == l {
					return &m.Deps[i]
				}
			}
			return nil
		}
		// the bookkeeping of BuildTarget.AddMaybeExportedDependency
		track := func(l rh.Label, exported, source, internal, runtime bool) {
			if d := find(l); d == nil {
				m.Deps = append(m.Deps, mDep{Declared: l, Exported: exported, source: source, internal: internal, runtime: runtime})
			} else {
				d.Exported = d.Exported || exported
				d.source, d.internal, d.runtime = d.source && source, d.internal && internal, d.runtime && runtime
			}
		}
		addDeps := func() {
			for _, d := range ns.Deps {
				t.AddDependency(d.Core())
				track(d, false, false, false, false)
			}
		}
		if ns.DepsFirst {
			addDeps()
		}
		for _, s := range ns.Srcs {
			in := s.core(ns.Label.Pkg)
			before := len(t.Sources)
			t.AddSource(in)
			if l, ok := in.Label(); ok && len(t.Sources) > before {
				track(rh.FromCore(l), false, true, false, false)
			}
		}
		for _, g := range ns.NamedSrcs {
			for _, s := range g.Vals {
				in := s.core(ns.Label.Pkg)
				before := len(t.NamedSources[g.Key])
				t.AddNamedSource(g.Key, in)
				if l, ok := in.Label(); ok && len(t.NamedSources[g.Key]) > before {
					track(rh.FromCore(l), false, true, false, false)
				}
			}
		}
		for _, s := range ns.Tools {
			in := s.core(ns.Label.Pkg)
			t.AddTool(in)
			if l, ok := in.Label(); ok {
				track(rh.FromCore(l), false, false, false, false)
			}
		}
		for _, g := range ns.NamedTools {
			for _, s := range g.Vals {
				in := s.core(ns.Label.Pkg)
				t.AddNamedTool(g.Key, in)
				if l, ok := in.Label(); ok {
					track(rh.FromCore(l), false, false, false, false)
				}
			}
		}
		if !ns.DepsFirst {
			addDeps()
		}
		for _, d := range ns.ExportedDeps {
			t.AddMaybeExportedDependency(d.Core(), true, false, false, false)
			track(d, true, false, false, false)
		}
		for _, d := range ns.RuntimeDeps {
			t.AddMaybeExportedDependency(d.Core(), false, false, false, true)
			track(d, false, false, false, true)
		}
		for _, o := range ns.Outs {
			t.AddOutput(o)
		}
		if ns.NamedOut != "" {
			t.AddNamedOutput("nm", ns.NamedOut)
		}
		t.Requires = append(t.Requires, ns.Requires...)
		for _, p := range ns.Provides {
			ls := make([]core.BuildLabel, len(p.Vals))
			for i, l := range p.Vals {
				ls[i] = l.Core()
			}
			t.AddProvide(p.Key, ls)
		}
		// the files: sources in the package, outputs under plz-out/gen
		for _, in := range append(append([]core.BuildInput{}, t.AllSources()...), t.AllTools()...) {
			if f, ok := in.(core.FileLabel); ok {
				w.touch(filepath.Join(f.Package, f.File), "source "+f.Package+"/"+f.File+"\n")
			}
		}
		for _, o := range t.Outputs() {
			w.touch(filepath.Join(t.OutDir(), o), "output of "+t.Label.String()+" "+o+"\n")
		}
		graph.AddTarget(t)
		targets[ns.Label], mirror[ns.Label] = t, m
		order = append(order, t)
	}
	for _, t := range order {
		if err := t.ResolveDependencies(graph); err != nil {
			panic(fmt.Sprintf("resolve %s: %v", t.Label, err))
		}
	}
	top := targets[gs.Top]

	// ---- the real hash, the real iteration
	h, err := build.VerifSourceHash(w.state, top)
	if err != nil {
		panic(fmt.Sprintf("sourceHash: %v", err))
	}
	out := &built{hash: h, graph: &mGraph{}}

	// ---- read back
	seenPaths := map[string]bool{}
	addPaths := func(in core.BuildInput) {
		mi := fromCoreInput(in)
		key := mi.coq()
		if seenPaths[key] {
			return
		}
		seenPaths[key] = true
		full, rel := in.FullPaths(graph), in.Paths(graph)
		if len(full) != len(rel) {
			panic("FullPaths and Paths of different length")
		}
		mp := mPaths{In: mi, Pairs: [][2]string{}}
		for i := range rel {
			mp.Pairs = append(mp.Pairs, [2]string{full[i], filepath.Join(top.TmpDir(), rel[i])})
		}
		out.graph.Paths = append(out.graph.Paths, mp)
	}
	groups := func(order []sGroup, real map[string][]core.BuildInput) []mGroup {
		res, done := []mGroup{}, map[string]bool{}
		for _, g := range order {
			if vals, ok := real[g.Key]; ok && !done[g.Key] {
				done[g.Key] = true
				mg := mGroup{Key: g.Key, Vals: []mInput{}}
				for _, v := range vals {
					mg.Vals = append(mg.Vals, fromCoreInput(v))
				}
				res = append(res, mg)
			}
		}
		if len(res) != len(real) {
			panic("named group read-back")
		}
		return res
	}
	for k, t := range order {
		ns, m := gs.Nodes[k], mirror[gs.Nodes[k].Label]
		m.Srcs, m.Tools = []mInput{}, []mInput{}
		for _, s := range t.Sources {
			m.Srcs = append(m.Srcs, fromCoreInput(s))
		}
		for _, s := range t.Tools {
			m.Tools = append(m.Tools, fromCoreInput(s))
		}
		m.NamedSrcs, m.NamedTools = groups(ns.NamedSrcs, t.NamedSources), groups(ns.NamedTools, t.AllNamedTools())
		m.NeedsTransitive, m.OutputIsComplete = t.NeedsTransitiveDependencies, t.OutputIsComplete
		m.Runtime = []rh.Label{}
		for l := range t.IterAllRuntimeDependencies(graph) {
			m.Runtime = append(m.Runtime, rh.FromCore(l))
		}
		// the tracked slice against the real accessors
		buildDeps := []rh.Label{}
		for i := range m.Deps {
			d := &m.Deps[i]
			d.Build = !d.runtime && !d.internal && !d.source
			d.Resolved = []rh.Label{}
			for _, r := range t.DependenciesFor(d.Declared.Core()) {
				d.Resolved = append(d.Resolved, rh.FromCore(r.Label))
			}
			if d.Build {
				buildDeps = append(buildDeps, d.Resolved...)
			}
			if d.Exported {
				m.exported = append(m.exported, d.Declared)
			}
		}
		if w.prog.BuildDepsSorted {
			sort.SliceStable(buildDeps, func(i, j int) bool { return lblLess(buildDeps[i], buildDeps[j]) })
		}
		real := []rh.Label{}
		for _, d := range t.BuildDependencies() {
			real = append(real, rh.FromCore(d.Label))
		}
		if fmt.Sprint(real) != fmt.Sprint(buildDeps) {
			panic(fmt.Sprintf("dependency tracking of %s: BuildDependencies %v, tracked %v", t.Label, real, buildDeps))
		}
		realExp := []rh.Label{}
		for _, d := range t.ExportedDependencies() {
			realExp = append(realExp, rh.FromCore(d))
		}
		if fmt.Sprint(realExp) != fmt.Sprint(m.exported) {
			panic(fmt.Sprintf("dependency tracking of %s: ExportedDependencies %v, tracked %v", t.Label, realExp, m.exported))
		}
		if len(t.DeclaredDependencies()) != len(m.Deps) {
			panic(fmt.Sprintf("dependency tracking of %s: %d declared, %d tracked", t.Label, len(t.DeclaredDependencies()), len(m.Deps)))
		}
		out.graph.Nodes = append(out.graph.Nodes, *m)
		// recursivelyProvideFor(graph, top, t, dep) for every dep the walk can ask about
		asked := map[core.BuildLabel]bool{}
		ask := func(dep core.BuildLabel) {
			if asked[dep] {
				return
			}
			asked[dep] = true
			ls := rpf(graph, top, t, dep, 0)
			if len(ls) == 1 && ls[0] == dep {
				return
			}
			mp := mProvide{Dependency: rh.FromCore(t.Label), Dep: rh.FromCore(dep), Labels: []rh.Label{}}
			for _, l := range ls {
				mp.Labels = append(mp.Labels, rh.FromCore(l))
			}
			out.graph.Provide = append(out.graph.Provide, mp)
		}
		for _, d := range t.BuildDependencies() {
			ask(d.Label)
		}
		for _, d := range t.ExportedDependencies() {
			ask(d)
		}
		if t == top {
			for _, in := range append(append([]core.BuildInput{}, t.AllSources()...), t.AllTools()...) {
				if l, ok := in.(core.BuildLabel); ok {
					ask(l)
				}
			}
		}
		addPaths(t.Label)
	}
	for _, in := range append(append([]core.BuildInput{}, top.AllSources()...), top.AllTools()...) {
		addPaths(in)
	}
	seenHash := map[string]bool{}
	for _, p := range out.graph.Paths {
		for _, pr := range p.Pairs {
			if !seenHash[pr[0]] {
				seenHash[pr[0]] = true
				hv, err := w.state.PathHasher.Hash(pr[0], false, true, false)
				if err != nil {
					panic(fmt.Sprintf("PathHasher.Hash(%s): %v", pr[0], err))
				}
				out.hashes = append(out.hashes, rh.KV{K: pr[0], V: string(hv)})
			}
		}
	}

	// ---- the generated program, interpreted over what the real iterators yield
	hashOf := func(p string) string {
		for _, kv := range out.hashes {
			if kv.K == p {
				return kv.V
			}
		}
		hv, err := w.state.PathHasher.Hash(p, false, true, false)
		if err != nil {
			panic(err)
		}
		return string(hv)
	}
	var sb strings.Builder
	write := func(ws []string, p string) {
		for _, wr := range ws {
			switch wr {
			case "WHash":
				sb.WriteString(hashOf(p))
			case "WPath":
				sb.WriteString(p)
			default:
				panic("interpreter: write " + wr)
			}
		}
	}
	for _, e := range w.prog.Body {
		switch e.Op {
		case "SrcLoop":
			for src, tmp := range core.IterSources(w.state, graph, top, e.IncludeTools) {
				write(e.Ws, src)
				out.pairs = append(out.pairs, [2]string{src, tmp})
			}
		case "ToolLoop":
			for _, tool := range top.AllTools() {
				for _, p := range tool.FullPaths(graph) {
					write(e.Ws, p)
				}
			}
		default:
			panic("interpreter: emit " + e.Op)
		}
	}
	out.stream = []byte(sb.String())
	out.yielded = len(out.pairs)
	return out
}

// hexStr prints a binary string as `unhex` of a hexadecimal literal (Model/C07_Src.v)
func hexStr(x string) string {
	if x == "" {
		return "[]"
	}
	return "(unhex (s \"" + hex.EncodeToString([]byte(x)) + "\"))"
}

func coqHashes(kvs []rh.KV) string {
	out := make([]string, len(kvs))
	for i, kv := range kvs {
		out[i] = lib.Pair(rh.Str(kv.K), hexStr(kv.V))
	}
	return lib.List(out)
}

// ------------------------------------------------------------------------------------------- generator

var srcPkgs = []string{"p", "q", "p/sub"}

func genGraph(r *lib.Rng) *gSpec {
	n := r.Range(4, 9)
	gs := &gSpec{}
	labels := []rh.Label{}
	hasNamedOut := map[rh.Label]bool{}
	provider := map[rh.Label]bool{}
	pickEarlier := func() rh.Label { return lib.Pick(r, labels) }
	input := func(pkg string, k int) sInput {
		if len(labels) > 0 && r.Chance(3, 5) {
			l := pickEarlier()
			if hasNamedOut[l] && r.Chance(1, 3) {
				return sInput{Kind: "ann", L: l, Ann: "nm"}
			}
			return sInput{Kind: "label", L: l}
		}
		return sInput{Kind: "file", File: fmt.Sprintf("f%d.txt", r.Intn(4))}
	}
	// every second graph: a dependency that PROVIDES 2-4 languages which the top target REQUIRES (all of them, in some order) and
	// names in its srcs, so that the order in which ProvideFor returns the provided labels reaches the source hash
	var multi *nSpec
	for i := 0; i < n; i++ {
		isTop := i == n-1
		if isTop && r.Bool() {
			cands := []rh.Label{}
			for _, l := range labels {
				if !provider[l] {
					cands = append(cands, l)
				}
			}
			if len(cands) > 0 {
				mp := nSpec{Label: rh.Label{Pkg: lib.Pick(r, srcPkgs), Name: "prov"}, Outs: []string{"prov.o1"}}
				for _, lang := range []string{"la", "lb", "lc", "ld"}[:r.Range(2, 4)] {
					mp.Provides = append(mp.Provides, rh.LGroup{Key: lang, Vals: []rh.Label{lib.Pick(r, cands)}})
				}
				lib.Shuffle(r, mp.Provides)
				provider[mp.Label] = true
				labels = append(labels, mp.Label)
				gs.Nodes = append(gs.Nodes, mp)
				multi = &mp
			}
		}
		ns := nSpec{Label: rh.Label{Pkg: lib.Pick(r, srcPkgs), Name: fmt.Sprintf("n%d", i)}}
		ns.Outs = []string{ns.Label.Name + ".o1"}
		if r.Chance(1, 3) {
			ns.Outs = append(ns.Outs, ns.Label.Name+".o2")
		}
		if r.Chance(1, 3) {
			ns.NamedOut = ns.Label.Name + ".nm"
		}
		ns.NeedsTransitive, ns.OutputIsComplete = r.Chance(1, 3), r.Chance(1, 3)
		lo := 0
		if isTop {
			lo = 1
		}
		for k, m := 0, r.Range(lo, 3); k < m; k++ {
			ns.Srcs = append(ns.Srcs, input(ns.Label.Pkg, k))
		}
		for _, key := range keys(r, lo*2, 3, []string{"a", "b", "c", "hdrs", "res"}) {
			g := sGroup{Key: key}
			for k, m := 0, r.Range(1, 2); k < m; k++ {
				g.Vals = append(g.Vals, input(ns.Label.Pkg, k))
			}
			ns.NamedSrcs = append(ns.NamedSrcs, g)
		}
		if r.Chance(1, 2) {
			for k, m := 0, r.Range(1, 2); k < m; k++ {
				ns.Tools = append(ns.Tools, input(ns.Label.Pkg, k))
			}
		}
		if r.Chance(1, 2) {
			for _, key := range keys(r, 1, 3, []string{"t1", "t2", "cc", "ld"}) {
				ns.NamedTools = append(ns.NamedTools, sGroup{Key: key, Vals: []sInput{input(ns.Label.Pkg, 0)}})
			}
		}
		if len(labels) > 0 {
			want := r.Range(0, 4)
			if isTop {
				want = r.Range(3, 5)
			}
			seen := map[rh.Label]bool{}
			for k := 0; k < 3*want && len(ns.Deps) < want; k++ {
				if l := pickEarlier(); !seen[l] {
					seen[l] = true
					ns.Deps = append(ns.Deps, l)
				}
			}
			// exported dependencies: mostly labels the node mentions nowhere else (their relative order is then the order of
			// this list whatever happens before); sometimes labels that were already inserted as a source / tool / dep
			for k, m := 0, r.Range(0, 3); k < m && !isTop; k++ {
				l := pickEarlier()
				dup := false
				for _, e := range ns.ExportedDeps {
					dup = dup || e == l
				}
				if !dup {
					ns.ExportedDeps = append(ns.ExportedDeps, l)
				}
			}
			if r.Chance(1, 4) {
				ns.Binary = true
				ns.RuntimeDeps = append(ns.RuntimeDeps, pickEarlier())
				if r.Bool() {
					ns.RuntimeDeps = append(ns.RuntimeDeps, pickEarlier())
				}
			}
			if r.Chance(1, 3) {
				ns.Requires = []string{lib.Pick(r, []string{"go", "py"})}
				if r.Chance(1, 3) {
					ns.Requires = append(ns.Requires, "cc")
				}
			}
			// provide: only labels strictly earlier than this node, and never another provider (no provide chains through cycles)
			if r.Chance(1, 3) {
				cands := []rh.Label{}
				for _, l := range labels {
					if !provider[l] {
						cands = append(cands, l)
					}
				}
				if len(cands) > 0 {
					for _, lang := range keys(r, 1, 2, []string{"go", "py", "cc"}) {
						vals := []rh.Label{lib.Pick(r, cands)}
						if r.Chance(1, 3) {
							vals = append(vals, lib.Pick(r, cands))
						}
						ns.Provides = append(ns.Provides, rh.LGroup{Key: lang, Vals: vals})
					}
					provider[ns.Label] = true
				}
			}
		}
		if isTop && multi != nil {
			ns.Srcs = append(ns.Srcs, sInput{Kind: "label", L: multi.Label})
			ns.Requires = []string{}
			for _, g := range multi.Provides {
				ns.Requires = append(ns.Requires, g.Key)
			}
			lib.Shuffle(r, ns.Requires)
		}
		if ns.NamedOut != "" {
			hasNamedOut[ns.Label] = true
		}
		labels = append(labels, ns.Label)
		gs.Nodes = append(gs.Nodes, ns)
	}
	gs.Top = labels[len(labels)-1]
	return gs
}

// another way of performing the same definitions: the named groups of every node inserted in another order (Go map order in
// allBuildInputs is modelled by the listing order), the deps list in another order and possibly before the sources. The
// exported_deps and runtime_deps lists keep their order: they are ordered arguments of the rule.
func permuteGraph(r *lib.Rng, gs *gSpec) *gSpec {
	p := gs.clone()
	for i := range p.Nodes {
		lib.Shuffle(r, p.Nodes[i].NamedSrcs)
		lib.Shuffle(r, p.Nodes[i].NamedTools)
		lib.Shuffle(r, p.Nodes[i].Deps)
		p.Nodes[i].DepsFirst = r.Bool()
	}
	return p
}

func orderedDataSame(a, b *mGraph) bool {
	for i := range a.Nodes {
		if fmt.Sprint(a.Nodes[i].exported) != fmt.Sprint(b.Nodes[i].exported) || fmt.Sprint(a.Nodes[i].Runtime) != fmt.Sprint(b.Nodes[i].Runtime) {
			return false
		}
	}
	return true
}

func srcNontrivial(g *mGraph, top rh.Label, yielded int) bool {
	for _, n := range g.Nodes {
		if n.Label == top {
			return len(n.Deps) >= 3 && len(n.NamedSrcs) >= 2 && yielded >= 4
		}
	}
	return false
}

func runSourceHash(c *lib.Ctx) {
	prog := loadSrcProg()
	cwd, err := os.Getwd()
	if err != nil {
		panic(err)
	}
	w := newSrcWorld(prog)
	defer func() {
		os.Chdir(cwd)
		os.RemoveAll(w.dir)
	}()
	n := c.Scale(45, 1500)
	perms := c.Scale(3, 5)
	for i := 0; i < n; i++ {
		r := c.Rng.Fork()
		gs := genGraph(r)
		b0 := w.build(gs)
		tie0 := string(rh.Sha1(b0.stream)) == string(b0.hash)
		for k := 0; k < perms; k++ {
			p := permuteGraph(r, gs)
			b1 := w.build(p)
			same := orderedDataSame(b0.graph, b1.graph)
			js := map[string]any{"part": "source-hash", "recipe": gs, "permuted": p, "hash": hex.EncodeToString(b0.hash),
				"hash_permuted": hex.EncodeToString(b1.hash), "sources": b0.pairs, "sources_permuted": b1.pairs, "ordered_data_same": same}
			c.Oracle()
			if same && string(b0.hash) != string(b1.hash) {
				c.Fail("source-hash-depends-on-insertion-order", fmt.Sprintf("the same graph built with another insertion order of named groups / dependencies "+
					"(exported and run-time dependency orders unchanged) gives source hash %x instead of %x", b1.hash, b0.hash), js)
			}
			// hashing the very same real target again: only Go's map iteration order varies
			b2 := w.build(p)
			if string(b1.hash) != string(b2.hash) {
				c.Fail("source-hash-differs-between-runs", fmt.Sprintf("hashing the same graph twice gave %x and %x", b1.hash, b2.hash), js)
			}
			if !same {
				c.Hist("src_ordered_data", "differs")
			} else {
				c.Hist("src_ordered_data", "same")
			}
			key := b0.graph.coq() + "|" + b1.graph.coq()
			nt := srcNontrivial(b0.graph, gs.Top, b0.yielded) && b0.graph.coq() != b1.graph.coq()
			if k == 0 {
				st0, st1 := string(b0.stream), string(b1.stream)
				if !tie0 || string(rh.Sha1(b1.stream)) != string(b1.hash) {
					js["tie"] = "sha1(interpreted stream) != build.sourceHash"
					st0 = "TIE BROKEN: sha1(interpreted stream) != build.sourceHash " + hex.EncodeToString(b0.hash)
				}
				c.Case(caseTerm(b0.graph, b1.graph, gs.Top, len(gs.Nodes)+1, b0.hashes, st0, st1), js, key, nt)
			} else {
				c.Eval(js, key, nt)
			}
		}
		c.HistN("src_nodes", len(gs.Nodes))
		c.HistN("src_yielded", b0.yielded)
	}
}
