package main

import (
	"fmt"
	"os"
	"path/filepath"

	"github.com/thought-machine/please/src/build"
	"github.com/thought-machine/please/src/core"
)

func lbl(s string) core.BuildLabel { return core.ParseBuildLabel(s, "") }

func run(order []string) []byte {
	state := core.NewDefaultBuildState()
	g := state.Graph
	mk := func(l string) *core.BuildTarget {
		t := core.NewBuildTarget(lbl(l))
		t.AddOutput(t.Label.Name + ".out")
		os.MkdirAll(filepath.Join("plz-out/gen", t.Label.PackageName), 0o755)
		os.WriteFile(filepath.Join("plz-out/gen", t.Label.PackageName, t.Label.Name+".out"), []byte(l), 0o644)
		return t
	}
	x, y := mk("//p:x"), mk("//p:y")
	d := mk("//p:d")
	for _, k := range order { // the Go map iteration order of `srcs = {"a": [":x"], "b": [":y"]}`
		if k == "a" {
			d.AddNamedSource("a", lbl("//p:x"))
		} else {
			d.AddNamedSource("b", lbl("//p:y"))
		}
	}
	d.AddMaybeExportedDependency(lbl("//p:x"), true, false, false, false)
	d.AddMaybeExportedDependency(lbl("//p:y"), true, false, false, false)
	t := mk("//p:t")
	t.AddDependency(lbl("//p:d"))
	for _, tt := range []*core.BuildTarget{x, y, d, t} {
		g.AddTarget(tt)
	}
	for _, tt := range []*core.BuildTarget{x, y, d, t} {
		if err := tt.ResolveDependencies(g); err != nil {
			panic(err)
		}
	}
	fmt.Println("exported", d.ExportedDependencies())
	for s, tmp := range core.IterSources(state, g, t, false) {
		fmt.Println("  ", s, tmp)
	}
	h, err := build.VerifSourceHash(state, t)
	if err != nil {
		panic(err)
	}
	return h
}

func main() {
	dir, _ := os.MkdirTemp("", "c07s-exp-")
	defer os.RemoveAll(dir)
	os.Chdir(dir)
	core.RepoRoot = dir
	fmt.Printf("%x\n", run([]string{"a", "b"}))
	fmt.Printf("%x\n", run([]string{"b", "a"}))
}
