// C18 follow-up 2 streams.
//
// attrStream: ATTRIBUTE ACCESS on dicts. A dict has a KEY named like a dict method (keys, values, items, get, copy)
// or an ordinary key; it is read with the attribute syntax (`D.keys`, the CONFIG-style access dicts support), directly
// or one level down (`D.tools.keys`, `D["tools"].keys`), and the member is handed to every consumer. Three runs:
// D defined in the BUILD file, D imported through subinclude (frozen), and D imported but read with D["keys"].
// pyDict.Property answers with the member first and the method second; the wrapper must not change that.
//
// pluginStream: PLUGIN CONFIGURATION. A plugin (PluginDefinition name, [PluginConfig] fields: repeatable / plain /
// optional, defaults, values overridden by the host's [Plugin] section) is loaded into the package's CONFIG the way
// subinclude() of a plugin target does it (interpreter.loadPluginConfig through the verif hook VerifC18Eval); the
// BUILD file takes CONFIG.<PLUGIN>.<FIELD> (a list for a repeatable field) or CONFIG.<PLUGIN> (a dict) and hands it
// to every consumer; compared with the same value written as a literal.
package main

import (
	"bytes"
	"encoding/json"
	"fmt"
	"strings"

	"verifharness/aspgen"
	"verifharness/lib"

	"github.com/thought-machine/please/src/parse/asp"
)

type access struct {
	prop bool
	name string
}

func pathSrc(p []access) string {
	out := ""
	for _, a := range p {
		if a.prop {
			out += "." + a.name
		} else {
			out += "[" + aspgen.SrcVal(aspgen.Str(a.name)) + "]"
		}
	}
	return out
}

func pathCoq(p []access) string {
	items := []string{}
	for _, a := range p {
		ctor := "AIdx"
		if a.prop {
			ctor = "AProp"
		}
		items = append(items, lib.App(ctor, lib.Str(a.name)))
	}
	return lib.List(items)
}

// the consumers of a member of the given kind; "scalar": the member itself
func consumers(kind string) []app {
	if kind == "scalar" {
		return []app{{name: "value", kind: "scalar", build: func(v, _ *aspgen.Val) []*aspgen.Stmt { return r(aspgen.E(v)) }}}
	}
	return appsOf(kind)
}

var methodKeys = []string{"keys", "values", "items", "get", "copy"}

func attrStream(c *lib.Ctx) {
	quick := c.Scale(1, 0) == 1
	reps := c.Scale(1, 10)
	n := 0
	for _, kind := range []string{"list", "dict", "scalar"} {
		for ai, a := range consumers(kind) {
			if quick && kind == "list" && ai%2 == 1 {
				continue // quick tier: every second list consumer (the lookup does not depend on the consumer)
			}
			rp := reps
			if kind == "scalar" {
				rp = c.Scale(8, 60)
			}
			for k := 0; k < rp; k++ {
				rg := c.Rng.Fork()
				n++
				key := methodKeys[n%len(methodKeys)]
				if n%7 == 0 {
					key = lib.Pick(rg, []string{"go", "k", "setdefaults", "key"}) // an ordinary key
				}
				if kind == "scalar" && k == 0 {
					key = "setdefault" // the one method name pyFrozenDict.Property treats itself
				}
				var member, lit *aspgen.Val
				switch kind {
				case "list":
					lit = sumValue(rg, "list", a.kind)
				case "dict":
					lit = sumValue(rg, "dict", a.kind)
				default:
					lit = lib.Pick(rg, []*aspgen.Val{aspgen.Int(rg.Range(-3, 9)), aspgen.Str(lib.Pick(rg, []string{"v", "", "go1"})), aspgen.True(), aspgen.None()})
				}
				member = lit
				keys := []string{"k", key}
				vals := []*aspgen.Expr{aspgen.IntE(rg.Range(0, 9)), aspgen.E(member)}
				if rg.Bool() {
					other := methodKeys[(n+1+rg.Intn(4))%len(methodKeys)]
					if other != key {
						keys = append(keys, other)
						vals = append(vals, aspgen.StrE("o"))
					}
				}
				d := aspgen.Dict(keys, vals)
				path := []access{{true, key}}
				idxPath := []access{{false, key}}
				switch rg.Intn(4) {
				case 0: // one level down: the inner dict is frozen by the import as well
					d = aspgen.Dict([]string{"tools", "z"}, []*aspgen.Expr{aspgen.E(d), aspgen.IntE(1)})
					path = []access{{true, "tools"}, {true, key}}
					idxPath = []access{{true, "tools"}, {false, key}}
				case 1:
					d = aspgen.Dict([]string{"tools"}, []*aspgen.Expr{aspgen.E(d)})
					path = []access{{false, "tools"}, {true, key}}
					idxPath = []access{{false, "tools"}, {false, key}}
				}
				body := aspgen.Prog(a.build(aspgen.Ident("X"), lit))
				defsSrc := "D = " + aspgen.SrcVal(d) + "\n"
				tail := func(p []access) string { return "X = D" + pathSrc(p) + "\n" + aspgen.Source(body) }
				label := nextLabel()
				sub := "subinclude(" + aspgen.SrcVal(aspgen.Str(label)) + ")\n"
				jl := submit(nil, aspgen.File{Name: "p", Src: defsSrc + tail(path)})
				ji := submit(&aspgen.File{Name: label, Src: defsSrc, Defs: true}, aspgen.File{Name: "p", Src: sub + tail(path)})
				label2 := nextLabel()
				jx := submit(&aspgen.File{Name: label2, Src: defsSrc, Defs: true},
					aspgen.File{Name: "p", Src: "subinclude(" + aspgen.SrcVal(aspgen.Str(label2)) + ")\n" + tail(idxPath)})
				a, kind, withIdxCase := a, kind, n%4 == 0
				later(func() {
					rl, ri, rx := jl.res, ji.res, jx.res
					ol, oi, ox := outcome(rl), outcome(ri), outcome(rx)
					in := map[string]any{"defs": defsSrc, "program": tail(path), "local": ol, "imported": oi, "imported-by-index": ox}
					c.Oracle()
					c.Hist("attr", kind+":"+a.name)
					c.Hist("attr-key", key+fmt.Sprintf("/depth%d", len(path)))
					switch {
					case ol == oi || (rl.Err != "" && ri.Err != ""):
						c.Hist("attr-outcome", "same")
					case oi == ox || (ri.Err != "" && rx.Err != "" && !strings.Contains(ri.Err, "immutable")):
						// D.key and D["key"] of the imported dict agree: what differs from the local run is the consumer's
						// treatment of the frozen member (the listed findings of the main stream)
						c.Fail("frozen-"+kind+"-"+a.name, fmt.Sprintf("%s on a member of an imported dict (frozen with it), read as D%s: %s; with the dict defined locally: %s",
							a.name, pathSrc(path), oi, ol), in)
						c.Hist("attr-outcome", "consumer-differs")
					case key == "setdefault" && rl.Err == "" && strings.Contains(ri.Err, "dict is immutable"):
						// pyFrozenDict.Property refuses the NAME setdefault before looking for a key of that name: the listed finding
						c.Fail("frozen-dict-attr-setdefault-key", fmt.Sprintf("D%s on an imported dict that has a KEY \"setdefault\": %s; with the dict defined locally: %s", pathSrc(path), oi, ol), in)
						c.Hist("attr-outcome", "setdefault-key")
					default:
						c.Fail("attr-"+key+"-"+a.name, fmt.Sprintf("D%s on an imported dict with a KEY %q: %s; D%s there: %s; D%s with the dict defined locally: %s",
							pathSrc(path), key, oi, pathSrc(idxPath), ox, pathSrc(path), ol), in)
						c.Hist("attr-outcome", "lookup-differs")
					}
					if a.noModel {
						return
					}
					caseOf := func(imported bool, p []access, res aspgen.Result) string {
						return lib.App("CAttr", lib.Bool(imported), aspgen.CoqExpr(aspgen.E(d)), pathCoq(p), aspgen.CoqProg(body), coqOutcome(res))
					}
					ckey := "attr:" + defsSrc + tail(path)
					c.Case(caseOf(true, path, ri), map[string]any{"defs": defsSrc, "src": sub + tail(path), "asp": map[string]any{"err": ri.Err, "final": ri.Final}}, "i:"+ckey, true)
					c.Case(caseOf(false, path, rl), map[string]any{"src": defsSrc + tail(path), "asp": map[string]any{"err": rl.Err, "final": rl.Final}}, "l:"+ckey, true)
					if withIdxCase {
						c.Case(caseOf(true, idxPath, rx), map[string]any{"defs": defsSrc, "src": sub + tail(idxPath), "asp": map[string]any{"err": rx.Err, "final": rx.Final}}, "x:"+ckey, true)
					}
				})
			}
		}
	}
}

// ---------------------------------------------------------------------------------------------

type pluginJob struct {
	plugin asp.VerifC18Plugin
	src    string
	res    aspgen.Result
}

var pluginQueue []*pluginJob

func decodeRaw(raw json.RawMessage) map[string]any {
	if raw == nil {
		return nil
	}
	dec := json.NewDecoder(bytes.NewReader(raw))
	dec.UseNumber()
	var m map[string]any
	if err := dec.Decode(&m); err != nil {
		panic(fmt.Sprintf("c18: cannot decode hook output %s: %v", raw, err))
	}
	return m
}

// flushPlugins interprets the queued packages forty to an interpreter; every package subincludes an output of a
// plugin of its own (distinct names: the host's [Plugin "name"] sections live in the one host configuration).
func flushPlugins() {
	const batch = 40
	for lo := 0; lo < len(pluginQueue); lo += batch {
		hi := min(lo+batch, len(pluginQueue))
		files := []asp.VerifC16File{}
		plugins := []asp.VerifC18Plugin{}
		for i, j := range pluginQueue[lo:hi] {
			files = append(files, asp.VerifC16File{Name: j.plugin.Label, Src: "# an output of the plugin\n", Defs: true})
			files = append(files, asp.VerifC16File{Name: fmt.Sprintf("q%d", i), Src: j.src})
			plugins = append(plugins, j.plugin)
		}
		out, err := asp.VerifC18Eval(files, plugins)
		if err != nil {
			panic(err)
		}
		for i, j := range pluginQueue[lo:hi] {
			j.res = aspgen.Result{Name: out[i].Name, Err: out[i].Err, After: decodeRaw(out[i].After), Final: decodeRaw(out[i].Final)}
		}
	}
	pluginQueue = nil
}

func pluginStream(c *lib.Ctx) {
	reps := c.Scale(1, 10)
	n := 0
	strs := func(rg *lib.Rng, k int) []string {
		out := []string{}
		for i := 0; i < k; i++ {
			out = append(out, lib.Pick(rg, []string{"-b", "-a", "--opt=é", "x y", "lib", "-c"}))
		}
		return out
	}
	strList := func(xs []string) *aspgen.Val {
		es := []*aspgen.Expr{}
		for _, x := range xs {
			es = append(es, aspgen.StrE(x))
		}
		return aspgen.List(es...)
	}
	for _, kind := range []string{"list", "dict"} {
		for _, a := range appsOf(kind) {
			for k := 0; k < reps; k++ {
				rg := c.Rng.Fork()
				n++
				name := fmt.Sprintf("foo%d", n)
				nflags := rg.Range(1, 3)
				if a.kind == "list2" {
					nflags = 2
				}
				flags := asp.VerifC18Field{Name: lib.Pick(rg, []string{"flags", "extra_flags", "a"}), Default: strs(rg, nflags), Repeatable: true}
				effective := flags.Default
				switch rg.Intn(4) {
				case 0: // the host repository overrides the default
					flags.Host = strs(rg, nflags)
					effective = flags.Host
				case 1:
					flags.Optional = true
				}
				tool := asp.VerifC18Field{Name: "tool", Default: []string{lib.Pick(rg, []string{"footool", "go", ""})}, Optional: true}
				fields := []asp.VerifC18Field{flags, tool}
				if rg.Bool() {
					fields = []asp.VerifC18Field{tool, flags}
				}
				if rg.Chance(1, 3) {
					fields = append(fields, asp.VerifC18Field{Name: "k", Default: []string{}, Optional: true, Repeatable: true})
				}
				flagsKey := strings.ToUpper(flags.Name)
				// the same configuration written as a literal
				toolVal := aspgen.Str(tool.Default[0])
				if tool.Default[0] == "" {
					toolVal = aspgen.None()
				}
				lkeys, lvals := []string{}, []*aspgen.Expr{}
				for _, f := range fields {
					lkeys = append(lkeys, strings.ToUpper(f.Name))
					switch f.Name {
					case "tool":
						lvals = append(lvals, aspgen.E(toolVal))
					case "k":
						lvals = append(lvals, aspgen.E(aspgen.List()))
					default:
						lvals = append(lvals, aspgen.E(strList(effective)))
					}
				}
				var lit *aspgen.Val
				path := []access{}
				if kind == "list" {
					lit = strList(effective)
					path = []access{{rg.Chance(2, 3), flagsKey}}
				} else {
					lit = aspgen.Dict(lkeys, lvals)
				}
				key := strings.ToUpper(name)
				label := nextLabel()
				body := aspgen.Prog(a.build(aspgen.Ident("X"), lit))
				read := "X = CONFIG." + key + pathSrc(path) + "\n"
				src := "subinclude(" + aspgen.SrcVal(aspgen.Str(label)) + ")\n" + read + aspgen.Source(body)
				pj := &pluginJob{plugin: asp.VerifC18Plugin{Label: label, Name: name, Fields: fields}, src: src}
				pluginQueue = append(pluginQueue, pj)
				plainSrc := "X = " + aspgen.SrcVal(lit) + "\n" + aspgen.Source(body)
				jp := submit(nil, aspgen.File{Name: "p", Src: plainSrc})
				a, kind := a, kind
				later(func() {
					rc, rp := pj.res, jp.res
					oc, op := outcome(rc), outcome(rp)
					fj, _ := json.Marshal(fields)
					in := map[string]any{"plugin": name, "fields": json.RawMessage(fj), "package": src, "from-config": oc, "literal": op}
					c.Oracle()
					c.Hist("plugin", kind+":"+a.name)
					if !(oc == op || (rc.Err != "" && rp.Err != "")) {
						c.Fail("plugin-"+kind+"-"+a.name, fmt.Sprintf("%s on the %s CONFIG.%s%s of a plugin: %s; on the same value written as a literal: %s", a.name, kind, key, pathSrc(path), oc, op), in)
						c.Hist("plugin-outcome", "differ")
					} else if rc.Err != "" {
						c.Hist("plugin-outcome", "both-raise")
					} else {
						c.Hist("plugin-outcome", "same")
					}
					if a.noModel {
						return
					}
					fs := []string{}
					for _, f := range fields {
						fs = append(fs, lib.App("PField", lib.Str(f.Name), lib.StrList(f.Default), lib.Opt(f.Host != nil, lib.StrList(f.Host)), lib.Bool(f.Repeatable), lib.Bool(f.Optional)))
					}
					c.Case(lib.App("CPlugin", lib.Str(name), lib.List(fs), pathCoq(path), aspgen.CoqProg(body), coqOutcome(rc)),
						map[string]any{"plugin": name, "fields": json.RawMessage(fj), "src": src, "asp": map[string]any{"err": rc.Err, "final": rc.Final}}, "plugin:"+string(fj)+read+aspgen.Source(body), true)
				})
			}
		}
	}
}
