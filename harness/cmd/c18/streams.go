// C18 follow-up streams.
//
// sumStream: a list / dict that is the RESULT of an operator with an imported operand and an EMPTY local one
// ([] + V, V + [], (S or []) + V, V | {}, {} | V) is an ordinary value: every consumer must behave on it exactly
// as when V is defined in the BUILD file.
//
// configStream: CONFIG round trips. A subincluded file sets list- / dict- / nested-valued CONFIG entries
// (setdefault, direct assignment); the BUILD file reads them back (CONFIG.K, CONFIG["K"], CONFIG.get("K")) and
// consumes them. Compared with the same entries set by the BUILD file itself and with the value written as a literal.
package main

import (
	"fmt"
	"strings"

	"verifharness/aspgen"
	"verifharness/lib"
)

type shape struct {
	name  string
	kind  string // "list" or "dict"
	setup func(v *aspgen.Val) []*aspgen.Stmt
}

func shapes() []shape {
	E, Bin := aspgen.E, aspgen.Bin
	emptyDict := aspgen.Dict(nil, nil)
	return []shape{
		{"emptyadd", "list", func(v *aspgen.Val) []*aspgen.Stmt {
			return []*aspgen.Stmt{aspgen.Assign("W", E(aspgen.List(), Bin("+", v)))}
		}},
		{"addempty", "list", func(v *aspgen.Val) []*aspgen.Stmt {
			return []*aspgen.Stmt{aspgen.Assign("W", E(v, Bin("+", aspgen.List())))}
		}},
		{"oradd", "list", func(v *aspgen.Val) []*aspgen.Stmt {
			// the `(srcs or []) + DEFAULT_SRCS` idiom with nothing passed
			return []*aspgen.Stmt{aspgen.Assign("S", E(aspgen.List())),
				aspgen.Assign("W", E(aspgen.Paren(E(aspgen.Ident("S"), Bin("or", aspgen.List()))), Bin("+", v)))}
		}},
		{"noneadd", "list", func(v *aspgen.Val) []*aspgen.Stmt {
			return []*aspgen.Stmt{aspgen.Assign("S", E(aspgen.None())),
				aspgen.Assign("W", E(aspgen.Paren(E(aspgen.Ident("S"), Bin("or", aspgen.List()))), Bin("+", v)))}
		}},
		{"unionempty", "dict", func(v *aspgen.Val) []*aspgen.Stmt {
			return []*aspgen.Stmt{aspgen.Assign("W", E(v, Bin("|", emptyDict)))}
		}},
		{"emptyunion", "dict", func(v *aspgen.Val) []*aspgen.Stmt {
			return []*aspgen.Stmt{aspgen.Assign("W", E(emptyDict, Bin("|", v)))}
		}},
	}
}

// values whose members are not themselves frozen by the import (lists: Freeze keeps the elements; dicts: scalars only),
// so that the unchanged interpreter shows no difference at all on the result of the operator
func sumValue(rg *lib.Rng, kind, appKind string) *aspgen.Val {
	if kind == "dict" {
		keys := []string{"k"}
		vals := []*aspgen.Expr{aspgen.IntE(rg.Range(0, 9))}
		if rg.Bool() {
			keys = append(keys, "a")
			vals = append(vals, aspgen.StrE(lib.Pick(rg, []string{"x", "", "lib"})))
		}
		return aspgen.Dict(keys, vals)
	}
	switch appKind {
	case "strlist":
		return aspgen.List(aspgen.StrE("b"), aspgen.StrE(lib.Pick(rg, []string{"a", "é", ""})))
	case "list2":
		return aspgen.List(aspgen.IntE(rg.Range(-3, 9)), aspgen.IntE(rg.Range(-3, 9)))
	}
	switch rg.Intn(4) {
	case 0:
		return aspgen.List(aspgen.StrE("b.go"), aspgen.StrE("a.go"))
	case 1:
		return aspgen.List(aspgen.E(aspgen.List(aspgen.IntE(2), aspgen.IntE(1))), aspgen.E(aspgen.List(aspgen.IntE(rg.Range(0, 3)))))
	default:
		n := rg.Range(1, 4)
		es := []*aspgen.Expr{}
		for i := 0; i < n; i++ {
			es = append(es, aspgen.IntE(rg.Range(-3, 9)))
		}
		return aspgen.List(es...)
	}
}

func appsOf(kind string) []app {
	out := []app{}
	for _, a := range apps() {
		k := a.kind
		if k == "strlist" || k == "list2" {
			k = "list"
		}
		if k == kind {
			out = append(out, a)
		}
	}
	return out
}

func sumStream(c *lib.Ctx) {
	reps := c.Scale(1, 12)
	for _, sh := range shapes() {
		for _, a := range appsOf(sh.kind) {
			for k := 0; k < reps; k++ {
				rg := c.Rng.Fork()
				lit := sumValue(rg, sh.kind, a.kind)
				body := append(sh.setup(aspgen.Ident("V")), a.build(aspgen.Ident("W"), lit)...)
				local := append(aspgen.Prog{aspgen.Assign("V", aspgen.E(lit))}, body...)
				defs := aspgen.Prog{aspgen.Assign("V", aspgen.E(lit))}
				label := nextLabel()
				imported := append(aspgen.Prog{aspgen.CallStmt("subinclude", aspgen.StrE(label))}, body...)
				jl := submit(nil, aspgen.NewFile("p", local, false))
				df := aspgen.NewFile(label, defs, true)
				ji := submit(&df, aspgen.NewFile("p", imported, false))
				sh, a := sh, a
				later(func() {
					rl, ri := jl.res, ji.res
					ol, oi := outcome(rl), outcome(ri)
					in := map[string]any{"value": aspgen.SrcVal(lit), "program": aspgen.Source(body), "local": ol, "imported": oi}
					c.Oracle()
					c.Hist("sum", sh.name+":"+a.name)
					sameErr := rl.Err != "" && ri.Err != ""
					if !(ol == oi || sameErr) {
						class := "sum-" + sh.name + "-" + a.name
						if sh.name == "emptyunion" && rl.Err == "" && strings.Contains(ri.Err, "Operator to | must be another dict") {
							class = "frozen-dict-union-operand" // {} | V itself raises on the imported dict: the listed finding
						}
						c.Fail(class, fmt.Sprintf("%s on the result W of an operator with an imported operand and an empty local one (%s): %s; with the operand defined locally: %s",
							a.name, strings.TrimSpace(aspgen.Source(sh.setup(aspgen.Ident("V")))), oi, ol), in)
						c.Hist("sum-outcome", "differ")
					} else if sameErr {
						c.Hist("sum-outcome", "both-raise")
					} else {
						c.Hist("sum-outcome", "same")
					}
					if a.noModel {
						return
					}
					key := "sum:" + aspgen.Source(local)
					c.Case(evalCase("false", "[]", lib.List([]string{aspgen.CoqProg(local)}), lib.List([]string{coqOutcome(rl)})),
						map[string]any{"src": aspgen.Source(local), "asp": map[string]any{"err": rl.Err, "final": rl.Final}}, "l:"+key, true)
					c.Case(evalCase("false", lib.List([]string{lib.Pair(lib.Str(label), aspgen.CoqProg(defs))}), lib.List([]string{aspgen.CoqProg(imported)}), lib.List([]string{coqOutcome(ri)})),
						map[string]any{"defs": aspgen.Source(defs), "src": aspgen.Source(imported), "asp": map[string]any{"err": ri.Err, "final": ri.Final}}, "i:"+key, true)
				})
			}
		}
	}
}

// ---------------------------------------------------------------------------------------------

type cfgOp struct {
	kind string // "setdefault", "assign", "plain"
	key  string
	e    *aspgen.Expr
}

func (o cfgOp) src() string {
	switch o.kind {
	case "setdefault":
		return "CONFIG.setdefault(" + aspgen.SrcVal(aspgen.Str(o.key)) + ", " + aspgen.SrcExpr(o.e) + ")\n"
	case "assign":
		return "CONFIG[" + aspgen.SrcVal(aspgen.Str(o.key)) + "] = " + aspgen.SrcExpr(o.e) + "\n"
	}
	return o.key + " = " + aspgen.SrcExpr(o.e) + "\n"
}

func (o cfgOp) coq() string {
	ctor := map[string]string{"setdefault": "CfgSetDefault", "assign": "CfgAssign", "plain": "CfgPlain"}[o.kind]
	return lib.App(ctor, lib.Str(o.key), aspgen.CoqExpr(o.e))
}

type cfgRead struct{ x, how, key string }

func (r cfgRead) src() string {
	switch r.how {
	case "RProp":
		return r.x + " = CONFIG." + r.key + "\n"
	case "RIndex":
		return r.x + " = CONFIG[" + aspgen.SrcVal(aspgen.Str(r.key)) + "]\n"
	}
	return r.x + " = CONFIG.get(" + aspgen.SrcVal(aspgen.Str(r.key)) + ")\n"
}

func (r cfgRead) coq() string { return lib.Pair(lib.Pair(lib.Str(r.x), r.how), lib.Str(r.key)) }

// one CONFIG scenario: which value the entry holds, how the consumer reaches the list / dict it is applied to
type cfgScenario struct {
	name  string // value kind: list, dict, nested-list, dict-member, base-override
	kind  string // kind of the consumers: "list" or "dict"
	entry func(rg *lib.Rng, appKind string) (entry *aspgen.Val, target func(x *aspgen.Val) *aspgen.Val, lit *aspgen.Val)
}

func cfgScenarios() []cfgScenario {
	same := func(x *aspgen.Val) *aspgen.Val { return x }
	return []cfgScenario{
		{"list", "list", func(rg *lib.Rng, ak string) (*aspgen.Val, func(*aspgen.Val) *aspgen.Val, *aspgen.Val) {
			l := sumValue(rg, "list", ak)
			return l, same, l
		}},
		{"dict", "dict", func(rg *lib.Rng, ak string) (*aspgen.Val, func(*aspgen.Val) *aspgen.Val, *aspgen.Val) {
			d := genValue(rg, "dict")
			return d, same, d
		}},
		{"nested-list", "list", func(rg *lib.Rng, ak string) (*aspgen.Val, func(*aspgen.Val) *aspgen.Val, *aspgen.Val) {
			inner := sumValue(rg, "list", ak)
			outer := aspgen.List(aspgen.E(inner), aspgen.E(aspgen.List(aspgen.IntE(7))))
			return outer, func(x *aspgen.Val) *aspgen.Val { return aspgen.Index(x, aspgen.IntE(0)) }, inner
		}},
		{"dict-member", "list", func(rg *lib.Rng, ak string) (*aspgen.Val, func(*aspgen.Val) *aspgen.Val, *aspgen.Val) {
			inner := sumValue(rg, "list", ak)
			outer := aspgen.Dict([]string{"a", "z"}, []*aspgen.Expr{aspgen.E(inner), aspgen.IntE(1)})
			return outer, func(x *aspgen.Val) *aspgen.Val { return aspgen.Index(x, aspgen.StrE("a")) }, inner
		}},
	}
}

func configStream(c *lib.Ctx) {
	reps := c.Scale(2, 16)
	n := 0
	for _, sc := range cfgScenarios() {
		for _, a := range appsOf(sc.kind) {
			if (sc.name == "nested-list" || sc.name == "dict-member") && c.Scale(1, 0) == 1 && n%2 == 1 {
				n++
				continue // quick tier: every second consumer on the nested shapes
			}
			n++
			for k := 0; k < reps; k++ {
				rg := c.Rng.Fork()
				entry, target, lit := sc.entry(rg, a.kind)
				key := "C18_" + lib.Pick(rg, []string{"FLAGS", "OPTS", "A"})
				ops := []cfgOp{}
				opKind := lib.Pick(rg, []string{"setdefault", "setdefault", "assign", "assign-then-setdefault", "base-override", "with-plain"})
				switch opKind {
				case "setdefault":
					ops = append(ops, cfgOp{"setdefault", key, aspgen.E(entry)})
				case "assign":
					ops = append(ops, cfgOp{"assign", key, aspgen.E(entry)})
				case "assign-then-setdefault":
					// the second call finds the key and changes nothing
					ops = append(ops, cfgOp{"assign", key, aspgen.E(entry)}, cfgOp{"setdefault", key, aspgen.E(aspgen.List(aspgen.IntE(0)))})
				case "base-override":
					// a key of the base config (newConfig sets it to None): only an assignment overrides it
					key = "DEFAULT_VISIBILITY"
					ops = append(ops, cfgOp{"assign", key, aspgen.E(entry)}, cfgOp{"setdefault", "DEFAULT_TESTONLY", aspgen.E(aspgen.List(aspgen.IntE(1)))})
				case "with-plain":
					ops = append(ops, cfgOp{"plain", "P", aspgen.E(entry)}, cfgOp{"setdefault", key, aspgen.E(entry)}, cfgOp{"setdefault", "C18_OTHER", aspgen.E(aspgen.Dict([]string{"k"}, []*aspgen.Expr{aspgen.E(aspgen.List(aspgen.IntE(1)))}))})
				}
				read := cfgRead{"X", lib.Pick(rg, []string{"RProp", "RIndex", "RGet"}), key}
				body := aspgen.Prog(a.build(target(aspgen.Ident("X")), lit))

				opsSrc, opsCoq := "", []string{}
				for _, o := range ops {
					opsSrc += o.src()
					opsCoq = append(opsCoq, o.coq())
				}
				tail := read.src() + aspgen.Source(body)
				localSrc := opsSrc + tail
				label := nextLabel()
				importedSrc := "subinclude(" + aspgen.SrcVal(aspgen.Str(label)) + ")\n" + tail
				plainSrc := "X = " + aspgen.SrcVal(entry) + "\n" + aspgen.Source(body)
				jl := submit(nil, aspgen.File{Name: "p", Src: localSrc})
				ji := submit(&aspgen.File{Name: label, Src: opsSrc, Defs: true}, aspgen.File{Name: "p", Src: importedSrc})
				jp := submit(nil, aspgen.File{Name: "p", Src: plainSrc})
				sc, a := sc, a
				later(func() {
					rl, ri, rp := jl.res, ji.res, jp.res
					ol, oi, op := outcome(rl), outcome(ri), outcome(rp)
					in := map[string]any{"defs": opsSrc, "package": importedSrc, "set-by-subinclude": oi, "set-by-package": ol, "literal": op}
					c.Oracle()
					c.Hist("config", sc.name+":"+a.name)
					c.Hist("config-op", opKind+"/"+read.how)
					switch {
					case !(oi == ol || (ri.Err != "" && rl.Err != "")):
						c.Fail("config-"+sc.name+"-"+a.name, fmt.Sprintf("%s on a %s CONFIG entry set by a subincluded file: %s; with the entry set by the BUILD file itself: %s", a.name, sc.name, oi, ol), in)
						c.Hist("config-outcome", "differ")
					case !(ol == op || (rl.Err != "" && rp.Err != "")):
						c.Fail("config-local-"+sc.name+"-"+a.name, fmt.Sprintf("%s on a %s read back from CONFIG in the file that set it: %s; on the literal: %s", a.name, sc.name, ol, op), in)
						c.Hist("config-outcome", "differ-from-literal")
					case ri.Err != "":
						c.Hist("config-outcome", "both-raise")
					default:
						c.Hist("config-outcome", "same")
					}
					if a.noModel {
						return
					}
					caseOf := func(imported bool, res aspgen.Result) string {
						return lib.App("CCfg", lib.Bool(imported), lib.List(opsCoq), lib.List([]string{read.coq()}), aspgen.CoqProg(body), coqOutcome(res))
					}
					ckey := "cfg:" + localSrc
					c.Case(caseOf(true, ri), map[string]any{"defs": opsSrc, "src": importedSrc, "asp": map[string]any{"err": ri.Err, "final": ri.Final}}, "i:"+ckey, true)
					c.Case(caseOf(false, rl), map[string]any{"src": localSrc, "asp": map[string]any{"err": rl.Err, "final": rl.Final}}, "l:"+ckey, true)
				})
			}
		}
	}
}

// ---------------------------------------------------------------------------------------------
// Batched evaluation. Creating a parser (and loading the builtins) costs far more than interpreting one of these
// programs, so the packages are queued and interpreted forty at a time on ONE interpreter, as the packages of one
// plz invocation are: every package has a scope and a CONFIG copy of its own, every defs file a label of its own.

type job struct {
	defs  *aspgen.File
	build aspgen.File
	res   aspgen.Result
}

var (
	queue   []*job
	pending []func()
	labels  int
)

func nextLabel() string {
	labels++
	return fmt.Sprintf("//defs:d%d", labels)
}

func submit(defs *aspgen.File, build aspgen.File) *job {
	j := &job{defs: defs, build: build}
	j.build.Name = fmt.Sprintf("p%d", len(queue))
	queue = append(queue, j)
	return j
}

// later registers what is to be done with the results once the queue has been evaluated (in submission order)
func later(f func()) { pending = append(pending, f) }

func flush() {
	const batch = 40
	for lo := 0; lo < len(queue); lo += batch {
		hi := min(lo+batch, len(queue))
		files := []aspgen.File{}
		for _, j := range queue[lo:hi] {
			if j.defs != nil {
				files = append(files, *j.defs)
			}
		}
		for _, j := range queue[lo:hi] {
			files = append(files, j.build)
		}
		res := aspgen.Eval(files, false)
		for i, j := range queue[lo:hi] {
			j.res = res[i]
		}
	}
	for _, f := range pending {
		f()
	}
	queue, pending = nil, nil
}
