// C18: frozen (imported) values behave like ordinary values.
// Every builtin / operator application is interpreted twice by the real asp: once with the value defined
// in the BUILD file, once with the same value imported from a subincluded file (where it arrives wrapped in
// pyFrozenList / pyFrozenDict). Oracle: same outcome. Both runs are also correspondence cases of the model.
package main

import (
	"fmt"
	"sort"

	"verifharness/aspgen"
	"verifharness/lib"

	gologging "gopkg.in/op/go-logging.v1"
)

type app struct {
	name  string
	kind  string // "list", "strlist", "dict", "list2" (needs len 2)
	build func(v *aspgen.Val, lit *aspgen.Val) []*aspgen.Stmt
}

func r(e *aspgen.Expr) []*aspgen.Stmt { return []*aspgen.Stmt{aspgen.Assign("r", e)} }

var f1 = aspgen.Def("f1", []aspgen.Arg{{Name: "x"}}, aspgen.Return(aspgen.E(aspgen.Ident("x"), aspgen.Bin("==", aspgen.Ident("x")))))
var f2 = aspgen.Def("f2", []aspgen.Arg{{Name: "x"}, {Name: "y"}}, aspgen.Return(aspgen.E(aspgen.List(aspgen.IdE("x"), aspgen.IdE("y")))))
var fid = aspgen.Def("fid", []aspgen.Arg{{Name: "x"}}, aspgen.Return(aspgen.IdE("x")))

func apps() []app {
	E, Call, Bin, IdE := aspgen.E, aspgen.Call, aspgen.Bin, aspgen.IdE
	named := func(v *aspgen.Val, n string, e *aspgen.Expr) *aspgen.Val {
		c := *v
		c.Args = append(append([]aspgen.Arg{}, v.Args...), aspgen.Arg{Name: n, E: e})
		return &c
	}
	return []app{
		{"sorted", "list", func(v, _ *aspgen.Val) []*aspgen.Stmt { return r(E(Call("sorted", E(v)))) }},
		{"sorted", "list", func(v, _ *aspgen.Val) []*aspgen.Stmt {
			return r(E(named(Call("sorted", E(v)), "reverse", E(aspgen.True()))))
		}},
		{"reversed", "list", func(v, _ *aspgen.Val) []*aspgen.Stmt { return r(E(Call("reversed", E(v)))) }},
		{"enumerate", "list", func(v, _ *aspgen.Val) []*aspgen.Stmt { return r(E(Call("enumerate", E(v)))) }},
		{"any", "list", func(v, _ *aspgen.Val) []*aspgen.Stmt { return r(E(Call("any", E(v)))) }},
		{"all", "list", func(v, _ *aspgen.Val) []*aspgen.Stmt { return r(E(Call("all", E(v)))) }},
		{"zip", "list", func(v, _ *aspgen.Val) []*aspgen.Stmt { return r(E(Call("zip", E(v), E(v)))) }},
		{"zip", "list", func(v, lit *aspgen.Val) []*aspgen.Stmt { return r(E(Call("zip", E(lit), E(v)))) }},
		{"min", "list", func(v, _ *aspgen.Val) []*aspgen.Stmt { return r(E(Call("min", E(v)))) }},
		{"max", "list", func(v, _ *aspgen.Val) []*aspgen.Stmt { return r(E(Call("max", E(v)))) }},
		{"map", "list", func(v, _ *aspgen.Val) []*aspgen.Stmt {
			return append([]*aspgen.Stmt{fid}, r(E(Call("map", IdE("fid"), E(v))))...)
		}},
		{"filter", "list", func(v, _ *aspgen.Val) []*aspgen.Stmt {
			return append([]*aspgen.Stmt{f1}, r(E(Call("filter", IdE("f1"), E(v))))...)
		}},
		{"reduce", "list", func(v, _ *aspgen.Val) []*aspgen.Stmt {
			return append([]*aspgen.Stmt{f2}, r(E(Call("reduce", IdE("f2"), E(v))))...)
		}},
		{"len", "list", func(v, _ *aspgen.Val) []*aspgen.Stmt { return r(E(Call("len", E(v)))) }},
		{"in", "list", func(v, lit *aspgen.Val) []*aspgen.Stmt {
			x := aspgen.IntE(1)
			if len(lit.Items) > 0 && len(lit.Items[0].Ops) == 0 && lit.Items[0].Val.K != "list" {
				x = lit.Items[0]
			}
			return r(E(x.Val, Bin("in", v)))
		}},
		{"not-in", "list", func(v, _ *aspgen.Val) []*aspgen.Stmt { return r(E(aspgen.Str("zz"), Bin("not in", v))) }},
		{"add", "list", func(v, lit *aspgen.Val) []*aspgen.Stmt { return r(E(v, Bin("+", lit))) }},
		{"radd", "list", func(v, lit *aspgen.Val) []*aspgen.Stmt { return r(E(lit, Bin("+", v))) }},
		{"eq", "list", func(v, lit *aspgen.Val) []*aspgen.Stmt { return r(E(v, Bin("==", lit))) }},
		{"eq", "list", func(v, lit *aspgen.Val) []*aspgen.Stmt { return r(E(lit, Bin("==", v))) }},
		{"ne", "list", func(v, lit *aspgen.Val) []*aspgen.Stmt { return r(E(v, Bin("!=", lit))) }},
		{"mul", "list", func(v, _ *aspgen.Val) []*aspgen.Stmt { return r(E(v, Bin("*", aspgen.Int(2)))) }},
		{"rmul", "list", func(v, _ *aspgen.Val) []*aspgen.Stmt { return r(E(aspgen.Int(2), Bin("*", v))) }},
		{"comprehension", "list", func(v, _ *aspgen.Val) []*aspgen.Stmt {
			return r(E(aspgen.Comp(E(aspgen.List(IdE("e"))), []string{"e"}, E(v), nil)))
		}},
		{"for", "list", func(v, _ *aspgen.Val) []*aspgen.Stmt {
			return []*aspgen.Stmt{aspgen.Assign("r", aspgen.IntE(0)), aspgen.For([]string{"e"}, E(v), aspgen.Aug("r", aspgen.IntE(1)))}
		}},
		{"join", "strlist", func(v, _ *aspgen.Val) []*aspgen.Stmt { return r(E(aspgen.Method(aspgen.Str(","), "join", E(v)))) }},
		{"index", "list", func(v, _ *aspgen.Val) []*aspgen.Stmt { return r(E(aspgen.Index(v, aspgen.IntE(0)))) }},
		{"slice", "list", func(v, _ *aspgen.Val) []*aspgen.Stmt { return r(E(aspgen.SliceOf(v, aspgen.IntE(0), aspgen.IntE(1)))) }},
		{"str", "list", func(v, _ *aspgen.Val) []*aspgen.Stmt { return r(E(Call("str", E(v)))) }},
		{"truth", "list", func(v, _ *aspgen.Val) []*aspgen.Stmt {
			return r(&aspgen.Expr{Val: aspgen.Int(1), If: E(v), Els: aspgen.IntE(0)})
		}},
		{"unpack", "list2", func(v, _ *aspgen.Val) []*aspgen.Stmt {
			return []*aspgen.Stmt{{K: "unpack", Names: []string{"r", "r2"}, E: E(v)}}
		}},
		{"less-than", "list", func(v, lit *aspgen.Val) []*aspgen.Stmt { return r(E(v, Bin("<", lit))) }},
		{"less-than-operand", "list", func(v, lit *aspgen.Val) []*aspgen.Stmt { return r(E(lit, Bin("<", v))) }},

		{"len", "dict", func(v, _ *aspgen.Val) []*aspgen.Stmt { return r(E(Call("len", E(v)))) }},
		{"in", "dict", func(v, _ *aspgen.Val) []*aspgen.Stmt { return r(E(aspgen.Str("k"), Bin("in", v))) }},
		{"dict-eq", "dict", func(v, lit *aspgen.Val) []*aspgen.Stmt { return r(E(v, Bin("==", lit))) }},
		{"index", "dict", func(v, _ *aspgen.Val) []*aspgen.Stmt { return r(E(aspgen.Index(v, aspgen.StrE("k")))) }},
		{"get", "dict", func(v, _ *aspgen.Val) []*aspgen.Stmt {
			return r(E(aspgen.Method(v, "get", aspgen.StrE("zz"), aspgen.IntE(7))))
		}},
		{"keys", "dict", func(v, _ *aspgen.Val) []*aspgen.Stmt { return r(E(aspgen.Method(v, "keys"))) }},
		{"values", "dict", func(v, _ *aspgen.Val) []*aspgen.Stmt { return r(E(aspgen.Method(v, "values"))) }},
		{"items", "dict", func(v, _ *aspgen.Val) []*aspgen.Stmt { return r(E(aspgen.Method(v, "items"))) }},
		{"union", "dict", func(v, lit *aspgen.Val) []*aspgen.Stmt { return r(E(v, Bin("|", lit))) }},
		{"union-operand", "dict", func(v, lit *aspgen.Val) []*aspgen.Stmt { return r(E(lit, Bin("|", v))) }},
		{"str", "dict", func(v, _ *aspgen.Val) []*aspgen.Stmt { return r(E(Call("str", E(v)))) }},
		{"truth", "dict", func(v, _ *aspgen.Val) []*aspgen.Stmt {
			return r(&aspgen.Expr{Val: aspgen.Int(1), If: E(v), Els: aspgen.IntE(0)})
		}},
	}
}

func genValue(rg *lib.Rng, kind string) *aspgen.Val {
	intl := func(n int) *aspgen.Val {
		es := []*aspgen.Expr{}
		for i := 0; i < n; i++ {
			es = append(es, aspgen.IntE(rg.Range(-3, 9)))
		}
		return aspgen.List(es...)
	}
	strl := func(n int) *aspgen.Val {
		es := []*aspgen.Expr{}
		for i := 0; i < n; i++ {
			es = append(es, aspgen.StrE(lib.Pick(rg, []string{"b", "a", "é", "lib", ""})))
		}
		return aspgen.List(es...)
	}
	switch kind {
	case "strlist":
		return strl(rg.Range(0, 4))
	case "list2":
		return intl(2)
	case "dict":
		keys := []string{"k"}
		vals := []*aspgen.Expr{aspgen.IntE(rg.Range(0, 9))}
		if rg.Bool() {
			keys = append(keys, "a")
			vals = append(vals, aspgen.E(intl(2)))
		}
		if rg.Chance(1, 3) {
			keys = append(keys, "n")
			vals = append(vals, aspgen.E(aspgen.Dict([]string{"m"}, []*aspgen.Expr{aspgen.IntE(5)})))
		}
		return aspgen.Dict(keys, vals)
	}
	switch rg.Intn(5) {
	case 0:
		return strl(rg.Range(1, 4))
	case 1:
		return aspgen.List(aspgen.E(intl(rg.Range(1, 2))), aspgen.E(intl(rg.Range(0, 2))))
	case 2:
		return intl(0)
	default:
		return intl(rg.Range(1, 5))
	}
}

func outcome(res aspgen.Result) string {
	if res.Err != "" {
		return "raises: " + res.Err
	}
	p := aspgen.PlainGlobals(res.Final)
	keys := []string{}
	for k := range p {
		if k == "r" || k == "r2" {
			keys = append(keys, k)
		}
	}
	sort.Strings(keys)
	out := ""
	for _, k := range keys {
		out += k + "=" + aspgen.Canon(p[k]) + " "
	}
	return out
}

func coqOutcome(res aspgen.Result) string {
	if res.Err != "" {
		return "OErr"
	}
	return "(OGlobals " + aspgen.CoqGlobals(res.After) + " " + aspgen.CoqGlobals(res.Final) + ")"
}

func main() {
	gologging.SetLevel(gologging.CRITICAL, "plz")
	lib.Main("C18", func(c *lib.Ctx) {
		c.Model("From PlzV Require Import Model.C16_Syntax Model.C16_Eval Model.C16 Model.C18.", "C18.case", "C18.check")
		c.Rule("every application of a builtin or operator that takes a list or dict (sorted reversed enumerate any all zip min max map filter reduce len in + == != * " +
			"comprehension for join index slice str truth unpack < keys values items get |) to generated values (int/str/nested lists, empty list, dicts with list and dict " +
			"members): interpreted by the real asp once with the value defined in the BUILD file and once imported through subinclude. distinct = distinct (value, application) " +
			"pairs; all are non-trivial (the imported run crosses a Freeze)")
		reps := c.Scale(6, 120)
		for _, a := range apps() {
			for k := 0; k < reps; k++ {
				rg := c.Rng.Fork()
				lit := genValue(rg, a.kind)
				V := aspgen.Ident("V")
				body := a.build(V, lit)
				local := append(aspgen.Prog{aspgen.Assign("V", aspgen.E(lit))}, body...)
				defs := aspgen.Prog{aspgen.Assign("V", aspgen.E(lit))}
				imported := append(aspgen.Prog{aspgen.CallStmt("subinclude", aspgen.StrE("//defs:d"))}, body...)
				rl := aspgen.Eval([]aspgen.File{aspgen.NewFile("p", local, false)}, false)[0]
				ri := aspgen.Eval([]aspgen.File{aspgen.NewFile("//defs:d", defs, true), aspgen.NewFile("p", imported, false)}, false)[0]
				ol, oi := outcome(rl), outcome(ri)
				kindName := "list"
				if a.kind == "dict" {
					kindName = "dict"
				}
				in := map[string]any{"value": aspgen.SrcVal(lit), "application": aspgen.Source(body), "local": ol, "imported": oi}
				c.Oracle()
				c.Hist("application", kindName+":"+a.name)
				sameErr := rl.Err != "" && ri.Err != ""
				if !(ol == oi || sameErr) {
					c.Fail("frozen-"+kindName+"-"+a.name, fmt.Sprintf("%s on an imported (frozen) %s: %s; on the same value defined locally: %s", a.name, kindName, oi, ol), in)
					c.Hist("outcome", "differ")
				} else if sameErr {
					c.Hist("outcome", "both-raise")
				} else {
					c.Hist("outcome", "same")
				}
				key := aspgen.Source(local)
				c.Case(lib.App("CAsp", "false", "[]", lib.List([]string{aspgen.CoqProg(local)}), lib.List([]string{coqOutcome(rl)})),
					map[string]any{"src": aspgen.Source(local), "asp": map[string]any{"err": rl.Err, "final": rl.Final}}, "l:"+key, true)
				c.Case(lib.App("CAsp", "false", lib.List([]string{lib.Pair(lib.Str("//defs:d"), aspgen.CoqProg(defs))}), lib.List([]string{aspgen.CoqProg(imported)}), lib.List([]string{coqOutcome(ri)})),
					map[string]any{"defs": aspgen.Source(defs), "src": aspgen.Source(imported), "asp": map[string]any{"err": ri.Err, "final": ri.Final}}, "i:"+key, true)
			}
		}
	})
}
