// C18: frozen (imported) values behave like ordinary values.
// Every builtin / operator application is interpreted twice by the real asp: once with the value defined
// in the BUILD file, once with the same value imported from a subincluded file (where it arrives wrapped in
// pyFrozenList / pyFrozenDict). Oracle: same outcome. Both runs are also correspondence cases of the model.
package main

import (
	"fmt"
	"sort"

	"verifharness/aspgen"
	"verifharness/lib"

	gologging "gopkg.in/op/go-logging.v1"
)

type app struct {
	name  string
	kind  string // "list", "strlist", "dict", "list2" (needs len 2)
	build func(v *aspgen.Val, lit *aspgen.Val) []*aspgen.Stmt
	// noModel: the builtin is outside the modelled fragment (isinstance, json): oracle only, no correspondence case
	noModel bool
	// isinst: the type names of an isinstance application (correspondence case CIsInst of the direct stream), single = not a list of types
	isinst []string
	single bool
}

func r(e *aspgen.Expr) []*aspgen.Stmt { return []*aspgen.Stmt{aspgen.Assign("r", e)} }

var f1 = aspgen.Def("f1", []aspgen.Arg{{Name: "x"}}, aspgen.Return(aspgen.E(aspgen.Ident("x"), aspgen.Bin("==", aspgen.Ident("x")))))
var f2 = aspgen.Def("f2", []aspgen.Arg{{Name: "x"}, {Name: "y"}}, aspgen.Return(aspgen.E(aspgen.List(aspgen.IdE("x"), aspgen.IdE("y")))))
var fid = aspgen.Def("fid", []aspgen.Arg{{Name: "x"}}, aspgen.Return(aspgen.IdE("x")))

func apps() []app {
	E, Call, Bin, IdE := aspgen.E, aspgen.Call, aspgen.Bin, aspgen.IdE
	named := func(v *aspgen.Val, n string, e *aspgen.Expr) *aspgen.Val {
		c := *v
		c.Args = append(append([]aspgen.Arg{}, v.Args...), aspgen.Arg{Name: n, E: e})
		return &c
	}
	return []app{
		{name: "sorted", kind: "list", build: func(v, _ *aspgen.Val) []*aspgen.Stmt { return r(E(Call("sorted", E(v)))) }},
		{name: "sorted", kind: "list", build: func(v, _ *aspgen.Val) []*aspgen.Stmt {
			return r(E(named(Call("sorted", E(v)), "reverse", E(aspgen.True()))))
		}},
		{name: "reversed", kind: "list", build: func(v, _ *aspgen.Val) []*aspgen.Stmt { return r(E(Call("reversed", E(v)))) }},
		{name: "enumerate", kind: "list", build: func(v, _ *aspgen.Val) []*aspgen.Stmt { return r(E(Call("enumerate", E(v)))) }},
		{name: "any", kind: "list", build: func(v, _ *aspgen.Val) []*aspgen.Stmt { return r(E(Call("any", E(v)))) }},
		{name: "all", kind: "list", build: func(v, _ *aspgen.Val) []*aspgen.Stmt { return r(E(Call("all", E(v)))) }},
		{name: "zip", kind: "list", build: func(v, _ *aspgen.Val) []*aspgen.Stmt { return r(E(Call("zip", E(v), E(v)))) }},
		{name: "zip", kind: "list", build: func(v, lit *aspgen.Val) []*aspgen.Stmt { return r(E(Call("zip", E(lit), E(v)))) }},
		{name: "min", kind: "list", build: func(v, _ *aspgen.Val) []*aspgen.Stmt { return r(E(Call("min", E(v)))) }},
		{name: "max", kind: "list", build: func(v, _ *aspgen.Val) []*aspgen.Stmt { return r(E(Call("max", E(v)))) }},
		{name: "map", kind: "list", build: func(v, _ *aspgen.Val) []*aspgen.Stmt {
			return append([]*aspgen.Stmt{fid}, r(E(Call("map", IdE("fid"), E(v))))...)
		}},
		{name: "filter", kind: "list", build: func(v, _ *aspgen.Val) []*aspgen.Stmt {
			return append([]*aspgen.Stmt{f1}, r(E(Call("filter", IdE("f1"), E(v))))...)
		}},
		{name: "reduce", kind: "list", build: func(v, _ *aspgen.Val) []*aspgen.Stmt {
			return append([]*aspgen.Stmt{f2}, r(E(Call("reduce", IdE("f2"), E(v))))...)
		}},
		{name: "len", kind: "list", build: func(v, _ *aspgen.Val) []*aspgen.Stmt { return r(E(Call("len", E(v)))) }},
		{name: "in", kind: "list", build: func(v, lit *aspgen.Val) []*aspgen.Stmt {
			x := aspgen.IntE(1)
			if len(lit.Items) > 0 && len(lit.Items[0].Ops) == 0 && lit.Items[0].Val.K != "list" {
				x = lit.Items[0]
			}
			return r(E(x.Val, Bin("in", v)))
		}},
		{name: "not-in", kind: "list", build: func(v, _ *aspgen.Val) []*aspgen.Stmt { return r(E(aspgen.Str("zz"), Bin("not in", v))) }},
		{name: "add", kind: "list", build: func(v, lit *aspgen.Val) []*aspgen.Stmt { return r(E(v, Bin("+", lit))) }},
		{name: "radd", kind: "list", build: func(v, lit *aspgen.Val) []*aspgen.Stmt { return r(E(lit, Bin("+", v))) }},
		{name: "eq", kind: "list", build: func(v, lit *aspgen.Val) []*aspgen.Stmt { return r(E(v, Bin("==", lit))) }},
		{name: "eq", kind: "list", build: func(v, lit *aspgen.Val) []*aspgen.Stmt { return r(E(lit, Bin("==", v))) }},
		{name: "ne", kind: "list", build: func(v, lit *aspgen.Val) []*aspgen.Stmt { return r(E(v, Bin("!=", lit))) }},
		{name: "mul", kind: "list", build: func(v, _ *aspgen.Val) []*aspgen.Stmt { return r(E(v, Bin("*", aspgen.Int(2)))) }},
		{name: "rmul", kind: "list", build: func(v, _ *aspgen.Val) []*aspgen.Stmt { return r(E(aspgen.Int(2), Bin("*", v))) }},
		{name: "comprehension", kind: "list", build: func(v, _ *aspgen.Val) []*aspgen.Stmt {
			return r(E(aspgen.Comp(E(aspgen.List(IdE("e"))), []string{"e"}, E(v), nil)))
		}},
		{name: "for", kind: "list", build: func(v, _ *aspgen.Val) []*aspgen.Stmt {
			return []*aspgen.Stmt{aspgen.Assign("r", aspgen.IntE(0)), aspgen.For([]string{"e"}, E(v), aspgen.Aug("r", aspgen.IntE(1)))}
		}},
		{name: "join", kind: "strlist", build: func(v, _ *aspgen.Val) []*aspgen.Stmt { return r(E(aspgen.Method(aspgen.Str(","), "join", E(v)))) }},
		{name: "index", kind: "list", build: func(v, _ *aspgen.Val) []*aspgen.Stmt { return r(E(aspgen.Index(v, aspgen.IntE(0)))) }},
		{name: "slice", kind: "list", build: func(v, _ *aspgen.Val) []*aspgen.Stmt { return r(E(aspgen.SliceOf(v, aspgen.IntE(0), aspgen.IntE(1)))) }},
		{name: "str", kind: "list", build: func(v, _ *aspgen.Val) []*aspgen.Stmt { return r(E(Call("str", E(v)))) }},
		{name: "truth", kind: "list", build: func(v, _ *aspgen.Val) []*aspgen.Stmt {
			return r(&aspgen.Expr{Val: aspgen.Int(1), If: E(v), Els: aspgen.IntE(0)})
		}},
		{name: "unpack", kind: "list2", build: func(v, _ *aspgen.Val) []*aspgen.Stmt {
			return []*aspgen.Stmt{{K: "unpack", Names: []string{"r", "r2"}, E: E(v)}}
		}},
		{name: "less-than", kind: "list", build: func(v, lit *aspgen.Val) []*aspgen.Stmt { return r(E(v, Bin("<", lit))) }},
		{name: "slice", kind: "list", build: func(v, _ *aspgen.Val) []*aspgen.Stmt { return r(E(aspgen.SliceOf(v, aspgen.IntE(1), nil))) }},
		{name: "isinstance", kind: "list", noModel: true, isinst: []string{"list"}, single: true, build: func(v, _ *aspgen.Val) []*aspgen.Stmt { return r(E(Call("isinstance", E(v), IdE("list")))) }},
		{name: "isinstance", kind: "list", noModel: true, isinst: []string{"str", "list"}, build: func(v, _ *aspgen.Val) []*aspgen.Stmt {
			return r(E(Call("isinstance", E(v), E(aspgen.List(IdE("str"), IdE("list"))))))
		}},
		{name: "isinstance", kind: "list", noModel: true, isinst: []string{"dict", "int"}, build: func(v, _ *aspgen.Val) []*aspgen.Stmt {
			return r(E(Call("isinstance", E(v), E(aspgen.List(IdE("dict"), IdE("int"))))))
		}},
		{name: "isinstance", kind: "dict", noModel: true, isinst: []string{"str", "dict"}, build: func(v, _ *aspgen.Val) []*aspgen.Stmt {
			return r(E(Call("isinstance", E(v), E(aspgen.List(IdE("str"), IdE("dict"))))))
		}},
		{name: "isinstance", kind: "dict", noModel: true, isinst: []string{"list"}, single: true, build: func(v, _ *aspgen.Val) []*aspgen.Stmt { return r(E(Call("isinstance", E(v), IdE("list")))) }},
		{name: "json", kind: "list", noModel: true, build: func(v, _ *aspgen.Val) []*aspgen.Stmt { return r(E(Call("json", E(v)))) }},
		{name: "isinstance", kind: "dict", noModel: true, isinst: []string{"dict"}, single: true, build: func(v, _ *aspgen.Val) []*aspgen.Stmt { return r(E(Call("isinstance", E(v), IdE("dict")))) }},
		{name: "json", kind: "dict", noModel: true, build: func(v, _ *aspgen.Val) []*aspgen.Stmt { return r(E(Call("json", E(v)))) }},
		{name: "less-than-operand", kind: "list", build: func(v, lit *aspgen.Val) []*aspgen.Stmt { return r(E(lit, Bin("<", v))) }},

		{name: "len", kind: "dict", build: func(v, _ *aspgen.Val) []*aspgen.Stmt { return r(E(Call("len", E(v)))) }},
		{name: "in", kind: "dict", build: func(v, _ *aspgen.Val) []*aspgen.Stmt { return r(E(aspgen.Str("k"), Bin("in", v))) }},
		{name: "dict-eq", kind: "dict", build: func(v, lit *aspgen.Val) []*aspgen.Stmt { return r(E(v, Bin("==", lit))) }},
		{name: "index", kind: "dict", build: func(v, _ *aspgen.Val) []*aspgen.Stmt { return r(E(aspgen.Index(v, aspgen.StrE("k")))) }},
		{name: "get", kind: "dict", build: func(v, _ *aspgen.Val) []*aspgen.Stmt {
			return r(E(aspgen.Method(v, "get", aspgen.StrE("zz"), aspgen.IntE(7))))
		}},
		{name: "keys", kind: "dict", build: func(v, _ *aspgen.Val) []*aspgen.Stmt { return r(E(aspgen.Method(v, "keys"))) }},
		{name: "values", kind: "dict", build: func(v, _ *aspgen.Val) []*aspgen.Stmt { return r(E(aspgen.Method(v, "values"))) }},
		{name: "items", kind: "dict", build: func(v, _ *aspgen.Val) []*aspgen.Stmt { return r(E(aspgen.Method(v, "items"))) }},
		{name: "union", kind: "dict", build: func(v, lit *aspgen.Val) []*aspgen.Stmt { return r(E(v, Bin("|", lit))) }},
		{name: "union-operand", kind: "dict", build: func(v, lit *aspgen.Val) []*aspgen.Stmt { return r(E(lit, Bin("|", v))) }},
		{name: "str", kind: "dict", build: func(v, _ *aspgen.Val) []*aspgen.Stmt { return r(E(Call("str", E(v)))) }},
		{name: "truth", kind: "dict", build: func(v, _ *aspgen.Val) []*aspgen.Stmt {
			return r(&aspgen.Expr{Val: aspgen.Int(1), If: E(v), Els: aspgen.IntE(0)})
		}},
	}
}

func genValue(rg *lib.Rng, kind string) *aspgen.Val {
	intl := func(n int) *aspgen.Val {
		es := []*aspgen.Expr{}
		for i := 0; i < n; i++ {
			es = append(es, aspgen.IntE(rg.Range(-3, 9)))
		}
		return aspgen.List(es...)
	}
	strl := func(n int) *aspgen.Val {
		es := []*aspgen.Expr{}
		for i := 0; i < n; i++ {
			es = append(es, aspgen.StrE(lib.Pick(rg, []string{"b", "a", "é", "lib", ""})))
		}
		return aspgen.List(es...)
	}
	switch kind {
	case "strlist":
		return strl(rg.Range(0, 4))
	case "list2":
		return intl(2)
	case "dict":
		keys := []string{"k"}
		vals := []*aspgen.Expr{aspgen.IntE(rg.Range(0, 9))}
		if rg.Bool() {
			keys = append(keys, "a")
			vals = append(vals, aspgen.E(intl(2)))
		}
		if rg.Chance(1, 3) {
			keys = append(keys, "n")
			vals = append(vals, aspgen.E(aspgen.Dict([]string{"m"}, []*aspgen.Expr{aspgen.IntE(5)})))
		}
		return aspgen.Dict(keys, vals)
	}
	switch rg.Intn(5) {
	case 0:
		return strl(rg.Range(1, 4))
	case 1:
		return aspgen.List(aspgen.E(intl(rg.Range(1, 2))), aspgen.E(intl(rg.Range(0, 2))))
	case 2:
		return intl(0)
	default:
		return intl(rg.Range(1, 5))
	}
}

func outcome(res aspgen.Result) string {
	if res.Err != "" {
		return "raises: " + res.Err
	}
	p := aspgen.PlainGlobals(res.Final)
	keys := []string{}
	for k := range p {
		if k == "r" || k == "r2" {
			keys = append(keys, k)
		}
	}
	sort.Strings(keys)
	out := ""
	for _, k := range keys {
		out += k + "=" + aspgen.Canon(p[k]) + " "
	}
	return out
}

func coqOutcome(res aspgen.Result) string {
	if res.Err != "" {
		return "OErr"
	}
	return "(OGlobals " + aspgen.CoqGlobals(res.After) + " " + aspgen.CoqGlobals(res.Final) + ")"
}

// evalCase wraps an interpreter-run case of the shared model (C16.CAsp) into C18's case type.
func evalCase(args ...string) string { return lib.App("CEval", lib.App("CAsp", args...)) }

func main() {
	gologging.SetLevel(gologging.CRITICAL, "plz")
	lib.Main("C18", func(c *lib.Ctx) {
		c.Model("From PlzV Require Import Model.C16_Syntax Model.C16_Eval Model.C16 Model.C18_Config Model.C18_Attr Model.C18.", "C18.case", "C18.check")
		c.Rule("every application of a builtin or operator that takes a list or dict (sorted reversed enumerate any all zip min max map filter reduce len in + == != * " +
			"comprehension for join index slice str truth unpack < keys values items get | isinstance json) to generated values (int/str/nested lists, empty list, dicts with list and dict " +
			"members): interpreted by the real asp once with the value defined in the BUILD file and once imported through subinclude. Follow-up streams: (sum) the same applications to " +
			"the RESULT W of [] + V, V + [], (S or []) + V with S = [] / None, V | {}, {} | V; (config) to a list / dict / nested-list / dict-member entry of CONFIG that a subincluded " +
			"file set (setdefault, assignment, assignment then setdefault, override of a base key, next to a plain global) and the package reads back (CONFIG.K, CONFIG[K], CONFIG.get(K)), " +
			"compared with the entry set by the package itself and with the literal. distinct = distinct (value, program) pairs; all are non-trivial (the imported run crosses a Freeze). " +
			"Follow-up 2 streams: (attr) a dict with a KEY named like a dict method (keys values items get copy) or an ordinary key, read with the attribute syntax D.key " +
			"(also one level down: D.tools.key, D[\"tools\"].key), the member (list / dict / scalar) handed to every consumer; D defined in the BUILD file, imported through subinclude, and imported " +
			"but read by D[\"key\"]; (plugin) a plugin definition with [PluginConfig] fields (repeatable, plain, optional; defaults, host overrides) loaded into the package's CONFIG by the real " +
			"loadPluginConfig as subinclude() of a plugin target does, CONFIG.<PLUGIN>.<FIELD> / CONFIG.<PLUGIN> handed to every consumer, compared with the literal. " +
			"Packages are interpreted forty to an interpreter, each with a scope, CONFIG copy and defs label of its own")
		reps := c.Scale(6, 120)
		for _, a := range apps() {
			for k := 0; k < reps; k++ {
				rg := c.Rng.Fork()
				lit := genValue(rg, a.kind)
				V := aspgen.Ident("V")
				body := a.build(V, lit)
				label := nextLabel()
				local := append(aspgen.Prog{aspgen.Assign("V", aspgen.E(lit))}, body...)
				defs := aspgen.Prog{aspgen.Assign("V", aspgen.E(lit))}
				imported := append(aspgen.Prog{aspgen.CallStmt("subinclude", aspgen.StrE(label))}, body...)
				jl := submit(nil, aspgen.NewFile("p", local, false))
				df := aspgen.NewFile(label, defs, true)
				ji := submit(&df, aspgen.NewFile("p", imported, false))
				a := a
				later(func() {
					rl, ri := jl.res, ji.res
					ol, oi := outcome(rl), outcome(ri)
					kindName := "list"
					if a.kind == "dict" {
						kindName = "dict"
					}
					in := map[string]any{"value": aspgen.SrcVal(lit), "application": aspgen.Source(body), "local": ol, "imported": oi}
					c.Oracle()
					c.Hist("application", kindName+":"+a.name)
					sameErr := rl.Err != "" && ri.Err != ""
					if !(ol == oi || sameErr) {
						c.Fail("frozen-"+kindName+"-"+a.name, fmt.Sprintf("%s on an imported (frozen) %s: %s; on the same value defined locally: %s", a.name, kindName, oi, ol), in)
						c.Hist("outcome", "differ")
					} else if sameErr {
						c.Hist("outcome", "both-raise")
					} else {
						c.Hist("outcome", "same")
					}
					if a.isinst != nil && rl.Err == "" && ri.Err == "" {
						// isinstance is not part of the shared evaluator: its own model (Model/C18.v isinstance_model)
						for _, x := range []struct {
							imported bool
							res      aspgen.Result
						}{{false, rl}, {true, ri}} {
							b, ok := x.res.Final["r"].(bool)
							if !ok {
								continue
							}
							c.Case(lib.App("CIsInst", lib.Bool(x.imported), aspgen.CoqExpr(aspgen.E(lit)), lib.StrList(a.isinst), lib.Bool(a.single), lib.Bool(b)),
								map[string]any{"value": aspgen.SrcVal(lit), "application": aspgen.Source(body), "imported": x.imported, "r": b},
								fmt.Sprintf("isinst:%v:%s", x.imported, aspgen.Source(local)), true)
						}
					}
					if a.noModel {
						return
					}
					key := aspgen.Source(local)
					c.Case(evalCase("false", "[]", lib.List([]string{aspgen.CoqProg(local)}), lib.List([]string{coqOutcome(rl)})),
						map[string]any{"src": aspgen.Source(local), "asp": map[string]any{"err": rl.Err, "final": rl.Final}}, "l:"+key, true)
					c.Case(evalCase("false", lib.List([]string{lib.Pair(lib.Str(label), aspgen.CoqProg(defs))}), lib.List([]string{aspgen.CoqProg(imported)}), lib.List([]string{coqOutcome(ri)})),
						map[string]any{"defs": aspgen.Source(defs), "src": aspgen.Source(imported), "asp": map[string]any{"err": ri.Err, "final": ri.Final}}, "i:"+key, true)
				})
			}
		}
		sumStream(c)
		configStream(c)
		attrStream(c)
		pluginStream(c)
		flushPlugins()
		flush()
	})
}
