// C38: `plz fmt` never changes what a BUILD file means.
// Implementation side of the correspondence + the model-independent property oracle.
//
// Streams
//
//	bytes     all 256 single bytes through the real asp parser: which ones are "Unknown symbol" (lexer.go nextToken)
//	simplify  generated top-level statement sequences through buildtools ParseBuild + the real simplify (hook):
//	          the statement list before and after, what fmt.go's subinclude() says about every statement
//	e2e       generated BUILD / build_defs files formatted by the real format() (hook, rewrite mode) and evaluated by
//	          the real binary (`plz query print --json`: every target with every attribute) before and after;
//	          second format pass; a few files also through `plz fmt` itself
package main

import (
	"bytes"
	"encoding/json"
	"fmt"
	"os"
	"os/exec"
	"path/filepath"
	"reflect"
	"regexp"
	"sort"
	"strconv"
	"strings"
	"sync"
	"sync/atomic"

	"verifharness/lib"

	gologging "gopkg.in/op/go-logging.v1"

	"github.com/thought-machine/please/src/core"
	"github.com/thought-machine/please/src/format"
	"github.com/thought-machine/please/src/parse/asp"
)

// ------------------------------------------------------------------------------------------------
// in-process pieces

var parser *asp.Parser

func aspParse(src string) error {
	_, err := parser.ParseData([]byte(src), "BUILD")
	return err
}

// formatText runs the real format() in rewrite mode on a scratch copy and returns the new text.
func formatText(dir, name, src string) (out string, changed bool, err error) {
	path := filepath.Join(dir, name)
	if err := os.WriteFile(path, []byte(src), 0o644); err != nil {
		panic(err)
	}
	defer os.Remove(path)
	changed, err = format.VerifC38Format(path, true, true)
	if err != nil {
		return "", changed, err
	}
	data, rerr := os.ReadFile(path)
	if rerr != nil {
		panic(rerr)
	}
	return string(data), changed, nil
}

// ------------------------------------------------------------------------------------------------
// simplify stream: Coq terms and the harness's own shape tests

func coqArg(a format.VerifC38Arg) string {
	switch a.Kind {
	case "lit":
		return lib.App("Lit", lib.Str(a.Val))
	case "fstr":
		return lib.App("FStr", lib.Str(a.Val))
	}
	return lib.App("NonLit", lib.N(uint64(a.ID)))
}

func coqStmts(ss []format.VerifC38Stmt) string {
	out := make([]string, len(ss))
	for i, st := range ss {
		if st.Sub {
			args := make([]string, len(st.Args))
			for j, a := range st.Args {
				args[j] = coqArg(a)
			}
			out[i] = lib.App("Sub", lib.List(args))
		} else {
			out[i] = lib.App("Other", lib.N(uint64(st.ID)))
		}
	}
	return lib.List(out)
}

func allStrings(st format.VerifC38Stmt) bool {
	if !st.Sub {
		return false
	}
	for _, a := range st.Args {
		if a.Kind == "other" {
			return false
		}
	}
	return true
}

// movedFString: in a maximal run of adjacent string-only subinclude calls, an f-string argument of a later call has
// at least one argument of an earlier call of the run in front of it (so the merge moves its interpolation before an
// include).  Written directly on the statement list, independently of the Coq model.
func movedFString(ss []format.VerifC38Stmt) bool {
	for i := 0; i < len(ss); {
		if !allStrings(ss[i]) {
			i++
			continue
		}
		j := i
		argsBefore := 0
		for j < len(ss) && allStrings(ss[j]) {
			if j > i && argsBefore > 0 {
				for _, a := range ss[j].Args {
					if a.Kind == "fstr" {
						return true
					}
				}
			}
			argsBefore += len(ss[j].Args)
			j++
		}
		i = j
	}
	return false
}

func argIDs(ss []format.VerifC38Stmt) []int {
	out := []int{}
	for _, st := range ss {
		for _, a := range st.Args {
			out = append(out, a.ID)
		}
	}
	return out
}

func simplifyCase(c *lib.Ctx, src string, nontrivialHint bool) {
	before, after, formatted, err := format.VerifC38Simplify("BUILD", []byte(src))
	if err != nil {
		c.Hist("simplify_parse", "buildtools-rejects")
		return
	}
	c.Hist("simplify_parse", "ok")
	valid := make([]string, len(before))
	merges := 0
	for i, st := range before {
		valid[i] = lib.Bool(st.Valid)
	}
	merges = len(before) - len(after)
	moved := movedFString(before)
	js := map[string]any{"src": src, "before": before, "after": after, "moved_fstring": moved}
	c.Case(lib.App("CSimp", coqStmts(before), coqStmts(after), lib.List(valid), lib.Bool(moved)), js, "s:"+src, merges > 0 || nontrivialHint)
	c.HistN("simplify_merges", min(merges, 4))
	// structural oracle on the real simplify (no model): arguments keep their order, other statements are kept in order,
	// a second pass over the printed result merges nothing more
	c.Oracle()
	if !reflect.DeepEqual(argIDs(before), argIDs(after)) {
		c.Fail("simplify-reorders-subinclude-arguments", "the subinclude arguments are not in their original order after simplify", js)
	}
	others := func(ss []format.VerifC38Stmt) []int {
		out := []int{}
		for _, st := range ss {
			if !st.Valid {
				out = append(out, st.ID)
			}
		}
		return out
	}
	if !reflect.DeepEqual(others(before), others(after)) {
		c.Fail("simplify-drops-or-reorders-statement", "a statement that is not a string-only subinclude was dropped, added or moved", js)
	}
	for i := 0; i+1 < len(after); i++ {
		if after[i].Valid && after[i+1].Valid {
			c.Fail("simplify-leaves-adjacent-subincludes", "two adjacent string-only subinclude calls remain after simplify", js)
		}
	}
	if b2, a2, _, err := format.VerifC38Simplify("BUILD", formatted); err != nil {
		c.Fail("formatted-file-rejected-by-formatter", "the formatter cannot parse its own output: "+err.Error(), js)
	} else if len(b2) != len(a2) {
		c.Fail("simplify-not-idempotent", "a second pass merges further subinclude calls", js)
	}
}

// ------------------------------------------------------------------------------------------------
// e2e stream: evaluation by the real binary

type evalResult struct {
	OK      bool
	Err     string
	Targets map[string]map[string]any
}

var ansi = regexp.MustCompile("\x1b\\[[0-9;]*m")

const defsBuild = `filegroup(name = "d1", srcs = ["d1.build_defs"], visibility = ["PUBLIC"])
filegroup(name = "d2", srcs = ["d2.build_defs"], visibility = ["PUBLIC"])
filegroup(name = "d3", srcs = ["d3.build_defs"], visibility = ["PUBLIC"])
filegroup(name = "d4", srcs = ["d4.build_defs"], visibility = ["PUBLIC"])
`

type pkgFiles map[string]string // file name -> content (BUILD and, for a defs case, x.build_defs)

// writeRepo creates a repository holding the shared packages and the given case packages.
func writeRepo(root string, pkgs map[string]pkgFiles) {
	must := func(err error) {
		if err != nil {
			panic(err)
		}
	}
	w := func(rel, content string) {
		p := filepath.Join(root, rel)
		must(os.MkdirAll(filepath.Dir(p), 0o755))
		must(os.WriteFile(p, []byte(content), 0o644))
	}
	w(".plzconfig", "[build]\npath = /usr/local/bin:/usr/bin:/bin\n[cache]\ndir = "+filepath.Join(root, ".cache")+"\n")
	w("defs/BUILD", defsBuild)
	for i := 1; i <= 4; i++ {
		// every defs file defines DEFS_PKG and its own constant; SHARED tells which one was included last
		w(fmt.Sprintf("defs/d%d.build_defs", i), fmt.Sprintf("DEFS_PKG = \"defs\"\nD%d = \"d%d\"\nSHARED = \"from-d%d\"\n", i, i, i))
	}
	w("lib/BUILD", "filegroup(name = \"lib\", srcs = [\"l.txt\"], visibility = [\"PUBLIC\"])\nfilegroup(name = \"other\", srcs = [\"l.txt\"], visibility = [\"PUBLIC\"])\n")
	w("lib/l.txt", "l\n")
	for name, files := range pkgs {
		for f, content := range files {
			w(filepath.Join(name, f), content)
		}
		for _, f := range srcFiles {
			w(filepath.Join(name, f), f+"\n")
		}
	}
}

func runPlz(root string, args ...string) (stdout, stderr string, err error) {
	cmd := exec.Command("timeout", append([]string{"300", os.Getenv("VERIF_PLZ")}, args...)...)
	cmd.Dir = root
	cmd.Env = append(os.Environ(), "HOME="+root)
	var so, se bytes.Buffer
	cmd.Stdout, cmd.Stderr = &so, &se
	err = cmd.Run()
	return so.String(), ansi.ReplaceAllString(se.String(), ""), err
}

func shortErr(stderr string) string {
	lines := []string{}
	for _, l := range strings.Split(stderr, "\n") {
		l = strings.TrimSpace(l)
		if l == "" || strings.HasPrefix(l, "Build stopped") || strings.Contains(l, "target failed") {
			continue
		}
		if i := strings.Index(l, "ERROR: "); i >= 0 {
			l = l[i:]
		}
		lines = append(lines, l)
	}
	s := strings.Join(lines, " | ")
	if len(s) > 400 {
		s = s[:400]
	}
	return s
}

// evalPackages evaluates the named packages of the repository: first all at once, then (when that fails, because one
// package that is rejected fails the whole invocation) one invocation per package.
func evalPackages(root string, names []string) map[string]evalResult {
	out := map[string]evalResult{}
	query := func(ns []string) (map[string]map[string]any, string, bool) {
		args := []string{"query", "print", "--json", "-p", "-v", "error"}
		for _, n := range ns {
			args = append(args, "//"+n+":all")
		}
		so, se, err := runPlz(root, args...)
		if err != nil {
			return nil, shortErr(se), false
		}
		var m map[string]map[string]any
		if jerr := json.Unmarshal([]byte(so), &m); jerr != nil {
			return nil, "unparseable output of plz query print: " + jerr.Error(), false
		}
		return m, "", true
	}
	split := func(m map[string]map[string]any, ns []string) {
		for _, n := range ns {
			out[n] = evalResult{OK: true, Targets: map[string]map[string]any{}}
		}
		for label, attrs := range m {
			pkg := strings.TrimPrefix(label[:strings.Index(label, ":")], "//")
			if r, ok := out[pkg]; ok {
				r.Targets[label] = attrs
			}
		}
	}
	if len(names) == 0 {
		return out
	}
	// a rejected package fails the whole invocation and is named by it (`//cN:all failed`): record its error, evaluate the rest again
	failedPkg := regexp.MustCompile(`//([A-Za-z0-9_]+):all failed`)
	rest := append([]string{}, names...)
	for len(rest) > 0 {
		m, e, ok := query(rest)
		if ok {
			split(m, rest)
			break
		}
		mm := failedPkg.FindStringSubmatch(e)
		idx := -1
		if mm != nil {
			for i, n := range rest {
				if n == mm[1] {
					idx = i
				}
			}
		}
		if idx < 0 {
			// cannot tell which package failed: one invocation per package
			for _, n := range rest {
				if m1, e1, ok1 := query([]string{n}); ok1 {
					split(m1, []string{n})
				} else {
					out[n] = evalResult{Err: e1}
				}
			}
			break
		}
		// confirm on its own (the message of a batch may mix several packages)
		if m1, e1, ok1 := query([]string{rest[idx]}); ok1 {
			split(m1, []string{rest[idx]})
		} else {
			out[rest[idx]] = evalResult{Err: e1}
		}
		rest = append(rest[:idx], rest[idx+1:]...)
	}
	return out
}

var quoted = regexp.MustCompile(`'[^']*'|"[^"]*"|c[0-9]+|[0-9]+`)

// reason abbreviates an error message for the histogram of rejected generated files.
func reason(e string) string {
	parts := strings.Split(e, " | ")
	r := e
	if len(parts) > 1 {
		r = parts[1]
	}
	r = quoted.ReplaceAllString(r, "_")
	if len(r) > 60 {
		r = r[:60]
	}
	return r
}

// canon makes two evaluations comparable: visibility is a set in Please (order never observable), and PUBLIC subsumes
// every other entry.
func canon(ts map[string]map[string]any) map[string]map[string]any {
	out := map[string]map[string]any{}
	for l, attrs := range ts {
		m := map[string]any{}
		for k, v := range attrs {
			if k == "visibility" {
				if xs, ok := v.([]any); ok {
					ss := make([]string, len(xs))
					for i, x := range xs {
						ss[i] = fmt.Sprint(x)
					}
					sort.Strings(ss)
					for _, x := range ss {
						// PUBLIC is printed as //... when other entries follow it and as PUBLIC when it comes last
						// (it then replaces the list): the same visibility
						if x == "PUBLIC" || x == "//..." {
							ss = []string{"PUBLIC"}
							break
						}
					}
					v = ss
				}
			}
			m[k] = v
		}
		out[l] = m
	}
	return out
}

type diff struct {
	Target, Attr   string
	Before, After  any
	MissingOrExtra string
}

func diffTargets(a, b map[string]map[string]any) []diff {
	ds := []diff{}
	for _, l := range lib.SortedKeys(a) {
		if _, ok := b[l]; !ok {
			ds = append(ds, diff{Target: l, MissingOrExtra: "missing after formatting"})
			continue
		}
		for _, k := range lib.SortedKeys(a[l]) {
			if !reflect.DeepEqual(a[l][k], b[l][k]) {
				ds = append(ds, diff{Target: l, Attr: k, Before: a[l][k], After: b[l][k]})
			}
		}
	}
	for _, l := range lib.SortedKeys(b) {
		if _, ok := a[l]; !ok {
			ds = append(ds, diff{Target: l, MissingOrExtra: "new after formatting"})
		}
	}
	return ds
}

func toStrings(v any) ([]string, bool) {
	xs, ok := v.([]any)
	if !ok {
		return nil, v == nil
	}
	out := make([]string, len(xs))
	for i, x := range xs {
		s, ok := x.(string)
		if !ok {
			return nil, false
		}
		out[i] = s
	}
	return out, true
}

func sortedSet(xs []string) []string {
	m := map[string]bool{}
	for _, x := range xs {
		m[x] = true
	}
	return lib.SortedKeys(m)
}

func sameSet(a, b []string) bool { return reflect.DeepEqual(sortedSet(a), sortedSet(b)) }

// stringLiterals collects the values of all string literals of a file as the real asp parser reads them.
func stringLiterals(src string) []string {
	stmts, err := parser.ParseData([]byte(src), "BUILD")
	if err != nil {
		return nil
	}
	out := []string{}
	seen := map[uintptr]bool{}
	var walk func(v reflect.Value)
	walk = func(v reflect.Value) {
		switch v.Kind() {
		case reflect.Ptr:
			if v.IsNil() || seen[v.Pointer()] {
				return
			}
			seen[v.Pointer()] = true
			walk(v.Elem())
		case reflect.Interface:
			if !v.IsNil() {
				walk(v.Elem())
			}
		case reflect.Slice:
			for i := 0; i < v.Len(); i++ {
				walk(v.Index(i))
			}
		case reflect.Struct:
			if v.Type().Name() == "ValueExpression" {
				if s := v.FieldByName("String").String(); s != "" {
					out = append(out, s)
				}
			}
			if v.Type().Name() == "FStringVar" {
				out = append(out, "f:"+v.FieldByName("Prefix").String())
			}
			if v.Type().Name() == "FString" {
				out = append(out, "f:"+v.FieldByName("Suffix").String())
			}
			for i := 0; i < v.NumField(); i++ {
				if v.Type().Field(i).IsExported() {
					walk(v.Field(i))
				}
			}
		}
	}
	walk(reflect.ValueOf(stmts))
	return out
}

var escapeSeq = regexp.MustCompile(`\\x[0-9a-fA-F]{2}|\\[0-7]{1,3}`)

// decodeEscapes decodes \xHH and \ooo (which asp leaves alone and Python / buildtools decode).
func decodeEscapes(s string) string {
	return escapeSeq.ReplaceAllStringFunc(s, func(m string) string {
		var n int64
		if m[1] == 'x' {
			n, _ = strconv.ParseInt(m[2:], 16, 32)
		} else {
			n, _ = strconv.ParseInt(m[1:], 8, 32)
		}
		return string([]byte{byte(n)})
	})
}

// requotedLiterals pairs the string literals whose asp value differs between the two texts and that are equal up to
// hex / octal escapes: octal = the source literal had no such escape (non-ASCII bytes were escaped), decoded = it had.
func requotedLiterals(src, formatted string) (octal, decoded []string) {
	count := func(xs []string) map[string]int {
		m := map[string]int{}
		for _, x := range xs {
			m[x]++
		}
		return m
	}
	a, b := count(stringLiterals(src)), count(stringLiterals(formatted))
	for _, x := range lib.SortedKeys(a) {
		if a[x] <= b[x] {
			continue
		}
		for _, y := range lib.SortedKeys(b) {
			if b[y] > a[y] && x != y && decodeEscapes(x) == decodeEscapes(y) {
				if escapeSeq.MatchString(x) {
					decoded = append(decoded, x+" -> "+y)
				} else {
					octal = append(octal, x+" -> "+y)
				}
				break
			}
		}
	}
	return octal, decoded
}

// joinedContinuations pairs the string literals whose asp value differs between the two texts exactly by the
// backslash-newline pairs of the first (asp keeps both bytes in a single-line literal; a re-quoted literal loses them).
func joinedContinuations(src, formatted string) []string {
	out := []string{}
	b := map[string]bool{}
	for _, y := range stringLiterals(formatted) {
		b[y] = true
	}
	for _, x := range stringLiterals(src) {
		if y := strings.ReplaceAll(x, "\\\n", ""); y != x && !b[x] && b[y] {
			out = append(out, x+" -> "+y)
		}
	}
	return out
}

var negOctal = regexp.MustCompile(`-0o[0-9]`)

// continuation after a string literal, followed by a line that starts with a string literal
var stringContinuation = regexp.MustCompile(`["'] \\\n\s*[rf]?["']`)
var anyContinuation = regexp.MustCompile(`\\\n`)

// a source text in which two string literals are adjacent with only spaces between them
var implicitConcat = regexp.MustCompile(`["'] +[rf]?["']`)

type e2eCase struct {
	Name     string          `json:"name"`
	Kind     string          `json:"kind"` // build | defs
	Src      string          `json:"src"`
	Consumer string          `json:"consumer,omitempty"`
	Feat     map[string]bool `json:"-"`
	Fixed    bool            `json:"fixed,omitempty"`
	Exprs    []xExpr         `json:"exprs,omitempty"` // expression file (expr.go): every expression is compared on its own
}

func (e e2eCase) fileName() string {
	if e.Kind == "defs" {
		return "x.build_defs"
	}
	return "BUILD"
}

func (e e2eCase) files(text string) pkgFiles {
	if e.Kind == "defs" {
		return pkgFiles{"x.build_defs": text, "BUILD": e.Consumer}
	}
	return pkgFiles{"BUILD": text}
}

// fixed adversarial files: the witnesses of the listed findings and the shapes next to them.
var fixedCases = []e2eCase{
	{Kind: "build", Src: "x = \"a\" \"b\"\nfilegroup(\n    name = \"t\",\n    labels = [x],\n)\n"},
	{Kind: "build", Src: "x = \"a\" 'b' \"c\"\nfilegroup(name = \"t\", labels = [x])\n"},
	{Kind: "build", Src: "x = (\"a\" \"b\")\nfilegroup(name = \"t\", labels = [x])\n"},
	{Kind: "build", Src: "x = [\"a\" \"b\", \"c\"]\nfilegroup(name = \"t\", labels = x)\n"},
	{Kind: "build", Src: "filegroup(name = \"t\", labels = [\"a\" \"b\"])\n"},
	{Kind: "build", Src: "x = \"a\" + \"b\"\nfilegroup(name = \"t\", labels = [x])\n"},
	{Kind: "build", Src: "def f(x):\n    return \"a\" \"b\" + x\n\nfilegroup(name = \"t\", labels = [f(\"c\")])\n"},
	{Kind: "build", Src: "subinclude(\"//defs:d1\")\nsubinclude(f\"//{DEFS_PKG}:d2\")\nfilegroup(name = \"t\", labels = [D1, D2, SHARED])\n"},
	{Kind: "build", Src: "subinclude(\"//defs:d1\")\n\nsubinclude(f\"//{DEFS_PKG}:d2\", \"//defs:d3\")\nsubinclude(\"//defs:d1\")\nfilegroup(name = \"t\", labels = [D1, D2, SHARED])\n"},
	{Kind: "build", Src: "DEFS_PKG = \"defs\"\nsubinclude(\"//defs:d1\")\nsubinclude(f\"//{DEFS_PKG}:d2\")\nfilegroup(name = \"t\", labels = [D1, D2, SHARED])\n"},
	{Kind: "build", Src: "subinclude(\"//defs:d2\")\nsubinclude(\"//defs:d1\")\n# attached\nsubinclude(\"//defs:d3\", \"//defs:d1\")\n\n# block\n\nsubinclude(\"//defs:d4\")\nfilegroup(name = \"t\", labels = [D1, D2, D3, D4, SHARED])\n"},
	{Kind: "build", Src: "L = \"//defs:d2\"\nsubinclude(\"//defs:d1\")\nsubinclude(L)\nsubinclude([\"//defs:d3\"])\nsubinclude(\"//defs:d1\")\nfilegroup(name = \"t\", labels = [SHARED])\n"},
	{Kind: "build", Src: "subinclude(\"//defs:d1\")\nsubinclude(\"//\" + DEFS_PKG + \":d2\")\nsubinclude(\"//defs:d3\")\nsubinclude(\"//defs:d1\", \"//defs:d4\")\nsubinclude(\"//defs:d2\")\nfilegroup(name = \"t\", labels = [D1, D2, D3, D4, SHARED])\n"},
	{Kind: "build", Src: "filegroup(name = \"t\", srcs = [\"b.txt\", \"a.txt\"])\n"},
	{Kind: "build", Src: "filegroup(name = \"t\", srcs = [\"b.txt\", \"a.txt\", \"b.txt\"])\n"},
	{Kind: "build", Src: "genrule(name = \"t\", srcs = [\"b.txt\", \"a.txt\"], outs = [\"o2\", \"o1\"], cmd = \"true\")\n"},
	{Kind: "build", Src: "build_rule(name = \"t\", cmd = \"true\", outs = [\"o2\", \"o1\"], tools = [\"//lib:other\", \"//lib:lib\"], data = [\"b.txt\", \"a.txt\"], exported_deps = [\"//lib:other\", \"//lib:lib\"], labels = [\"z\", \"a\"])\n"},
	{Kind: "build", Src: "s = 'caf\xc3\xa9'\nt = \"caf\xc3\xa9\"\nu = \"a\\\xc3\xa9\"\nfilegroup(name = \"t\", labels = [s, t, u, str(len(s))])\n"},
	{Kind: "build", Src: "filegroup(name = \"t\", deps = [\"//lib:lib\", \"//lib:other\", \"//lib\"], visibility = [\"PUBLIC\", \"//c0/...\"])\n"},
	// a triple-quoted string with a backslash-newline continuation that the formatter re-quotes (''' without double quotes inside)
	{Kind: "build", Src: "COMMAND = '''echo one two \\\nthree > $OUT'''\n\ngenrule(\n    name = \"t\",\n    outs = [\"t.txt\"],\n    cmd = COMMAND,\n)\n"},
	{Kind: "build", Src: "c = \"\"\"p \\\nq\\$\"\"\"\nd = \"\"\"kept \\\n  as it is\"\"\"\nfilegroup(name = \"t\", labels = [c, d])\n"},
	// listed finding: the same continuation inside a single-line literal
	{Kind: "build", Src: "s = 'x\\\ny'\nfilegroup(name = \"t\", labels = [s])\n"},
	// listed finding: a minus in front of an integer literal with a leading zero
	{Kind: "build", Src: "x = -017\nfilegroup(name = \"t\", labels = [str(x)])\n"},
	{Kind: "build", Src: "x = 3 - (- 007)\nfilegroup(name = \"t\", labels = [str(x)])\n"},
	{Kind: "build", Src: "x = 0644\ny = 1 - 2 * 3 - 4\nfilegroup(name = \"t\", labels = [str(x), str(y), '\\x41', 'it\\'s', \"tab\\there\"])\n"},
}

type e2eOutcome struct {
	Formatted  string `json:"formatted,omitempty"`
	FormatErr  string `json:"format_error,omitempty"`
	Changed    bool   `json:"changed"`
	SecondPass string `json:"second_pass,omitempty"`
}

func main() {
	lib.Main("C38", func(c *lib.Ctx) {
		c.Model("From PlzV Require Import Model.C38.", "C38.case", "C38.check")
		c.Rule("bytes: all 256 single bytes after `x = 1` through asp.ParseData (exhaustive). " +
			"simplify: generated runs of top-level subinclude calls (plain, single-quoted, raw, triple-quoted, f-string with and without interpolation, concatenation, list, identifier arguments; 0-3 arguments; attached comments, comment blocks, blank lines and other statements between them) through buildtools ParseBuild and the real simplify; non-trivial = at least one merge or an unmergeable call next to a mergeable one. " +
			"e2e: generated BUILD and build_defs files (string concatenation with + and implicit, f-strings, raw / single / triple quoted strings with escapes, % and format(), annotations with aliases and unions, comprehensions, inline if, dict |, lambdas, slices, top-level if/for, rule calls with literal and computed attributes, consecutive subincludes) formatted by the real format() and evaluated by the real plz binary before and after (every target, every attribute, every variable through a probe target), second format pass; distinct = distinct source texts; non-trivial = accepted by Please before formatting and changed by the formatter. " +
			"chains (inside e2e): files of 6-12 generated operator chains [-|not] atom (op [-|not] atom)* over literals, variables and nested parentheses - a unary minus next to the literal, separated by a space, or in front of a (nested) parenthesised literal, followed by + - * / // % and, in boolean chains, by the six comparisons and and/or; integer literals spelled 017 / 007 / 0o17; every expression is compared on its own (value before = value after) and every integer chain is a model case (printed text, value before, value after); non-trivial = the formatter changes the expression text. " +
			"strings: generated plain literals in all four quotings built from words, non-standard escapes (backslash + $ d . s), quotes of the other kind (plain and escaped), escaped own quotes, the escapes n t backslash r a, raw newlines and own quotes inside triple quotes, backslash-newline continuations (in single-line literals only every 40th case: listed finding), through the real asp lexer before and after the real format(); non-trivial = the formatter re-quotes the literal")
		gologging.SetLevel(gologging.CRITICAL, "plz")
		state := core.NewDefaultBuildState()
		parser = asp.NewParser(state)

		// ---- 1. bytes -------------------------------------------------------------------------------
		for b := 0; b < 256; b++ {
			src := "x = 1\n" + string([]byte{byte(b)}) + "\n"
			err := aspParse(src)
			code := 0
			if err != nil && strings.Contains(err.Error(), "Unknown symbol") {
				code = 1
			} else if err != nil && strings.Contains(err.Error(), "Tabs are not permitted") {
				code = 2
			}
			c.Case(lib.App("CByte", lib.N(uint64(b)), lib.N(uint64(code))), map[string]any{"byte": b, "code": code}, fmt.Sprint("b", b), true)
		}
		c.Exhaustive(true)

		// ---- 2. simplify ----------------------------------------------------------------------------
		for _, fc := range fixedCases {
			simplifyCase(c, fc.Src, false)
		}
		nsimp := c.Scale(500, 6000)
		for i := 0; i < nsimp; i++ {
			r := c.Rng.Fork()
			g := &gen{r: r, feat: map[string]bool{}, emptySub: true}
			var b strings.Builder
			for k := r.Range(1, 4); k > 0; k-- {
				b.WriteString(g.subRun())
				switch r.Intn(4) {
				case 0:
					b.WriteString(g.assign() + "\n")
				case 1:
					b.WriteString("\n" + g.comment() + "\n\n")
				case 2:
					b.WriteString("subinclude(name = \"//defs:d1\")\n")
				}
			}
			simplifyCase(c, b.String(), g.feat["sub_nonliteral_concat"] || g.feat["sub_nonliteral_list"])
		}

		// ---- 3. string literals (in process) ----------------------------------------------------------
		stringStream(c)

		// ---- 4. e2e ---------------------------------------------------------------------------------
		if os.Getenv("VERIF_PLZ") == "" {
			c.Note("VERIF_PLZ not set: the e2e stream was skipped")
			return
		}
		e2e(c)
	})
}

func e2e(c *lib.Ctx) {
	work := filepath.Join(c.Out, "e2e")
	if err := os.MkdirAll(work, 0o755); err != nil {
		panic(err)
	}
	defer os.RemoveAll(work)

	cases := []e2eCase{}
	var replay e2eCase
	if c.ReadReplay(&replay) && replay.Src != "" {
		cases = append(cases, replay)
	} else {
		for _, fc := range fixedCases {
			fc.Fixed = true
			cases = append(cases, fc)
		}
		n := c.Scale(100, 1500)
		for i := 0; i < n; i++ {
			r := c.Rng.Fork()
			defs := r.Chance(1, 5)
			src, consumer, feat := genFile(r, defs)
			kind := "build"
			if defs {
				kind = "defs"
			}
			cases = append(cases, e2eCase{Kind: kind, Src: src, Consumer: consumer, Feat: feat})
		}
		// expression files (expr.go): one fixed expression per file, then generated files of several expressions
		for _, fe := range fixedExprs {
			e := xExpr{Name: "e0", Text: fe.text, Chain: fe.chain, Int: true}
			e.Defect, e.Lead = fe.chain.foldAfterBinary(false), fe.chain.hasLeadingFold()
			src := fmt.Sprintf("V0 = %d\nV1 = %d\nV2 = %d\ne0 = %s\n", xVars[0], xVars[1], xVars[2], fe.text) + xProbe([]xExpr{e})
			cases = append(cases, e2eCase{Kind: "build", Src: src, Exprs: []xExpr{e}, Fixed: true, Feat: map[string]bool{"expression_file": true}})
		}
		nx := c.Scale(40, 600)
		for i := 0; i < nx; i++ {
			r := c.Rng.Fork()
			src, exprs := exprFile(r, r.Range(6, 12), i%5 == 4)
			cases = append(cases, e2eCase{Kind: "build", Src: src, Exprs: exprs, Feat: map[string]bool{"expression_file": true}})
		}
	}
	for i := range cases {
		cases[i].Name = fmt.Sprintf("c%d", i)
	}

	// format every file (in process), twice
	outs := make([]e2eOutcome, len(cases))
	for i, cs := range cases {
		o := &outs[i]
		text, changed, err := formatText(work, cs.fileName(), cs.Src)
		o.Changed = changed
		if err != nil {
			o.FormatErr = err.Error()
			continue
		}
		o.Formatted = text
		text2, _, err := formatText(work, cs.fileName(), text)
		if err != nil {
			o.SecondPass = "ERROR: " + err.Error()
		} else {
			o.SecondPass = text2
		}
	}

	// evaluate before and after with the real binary, in batches of packages (one repository per batch and side)
	const batch = 30
	before := make([]evalResult, len(cases))
	after := make([]evalResult, len(cases))
	var wg sync.WaitGroup
	var confirmed atomic.Int32
	sem := make(chan struct{}, 3)
	for lo := 0; lo < len(cases); lo += batch {
		hi := min(lo+batch, len(cases))
		for side := 0; side < 2; side++ {
			wg.Add(1)
			go func(lo, hi, side int) {
				defer wg.Done()
				sem <- struct{}{}
				defer func() { <-sem }()
				root := filepath.Join(work, fmt.Sprintf("repo-%d-%d", lo, side))
				pkgs := map[string]pkgFiles{}
				good, alone := []string{}, []string{}
				aloneErr := map[string]string{}
				for i := lo; i < hi; i++ {
					cs := cases[i]
					text := cs.Src
					if side == 1 {
						if outs[i].FormatErr != "" || outs[i].Formatted == cs.Src {
							continue // nothing was rewritten: the evaluation is the one before
						}
						text = outs[i].Formatted
					}
					pkgs[cs.Name] = cs.files(text)
					// a file the in-process asp parser already rejects would fail the whole batch: evaluate it alone
					if err := aspParse(text); err != nil {
						alone = append(alone, cs.Name)
						aloneErr[cs.Name] = err.Error()
					} else {
						good = append(good, cs.Name)
					}
				}
				writeRepo(root, pkgs)
				res := evalPackages(root, good)
				for _, n := range alone {
					// the real parser (in process) rejects the text; the first few are confirmed with the real binary too
					if confirmed.Add(1) <= 4 {
						for k, v := range evalPackages(root, []string{n}) {
							res[k] = v
						}
						if res[n].OK {
							res[n] = evalResult{Err: "DISAGREEMENT: asp.ParseData rejects the text in process but the plz binary accepts it"}
						}
					} else {
						res[n] = evalResult{Err: "asp.ParseData: " + aloneErr[n]}
					}
				}
				for i := lo; i < hi; i++ {
					if r, ok := res[cases[i].Name]; ok {
						if side == 0 {
							before[i] = r
						} else {
							after[i] = r
						}
					} else if side == 1 {
						after[i] = evalResult{OK: false, Err: "not evaluated"}
					}
				}
				os.RemoveAll(root)
			}(lo, hi, side)
		}
	}
	wg.Wait()
	for i := range cases {
		if outs[i].FormatErr != "" || outs[i].Formatted == cases[i].Src {
			after[i] = before[i]
		}
	}

	// oracle
	for i, cs := range cases {
		o := outs[i]
		js := map[string]any{"name": cs.Name, "kind": cs.Kind, "src": cs.Src, "consumer": cs.Consumer, "formatted": o.Formatted}
		for f := range cs.Feat {
			c.Hist("feature", f)
		}
		c.Hist("kind", cs.Kind)
		accepted := before[i].OK
		nontrivial := accepted && o.FormatErr == "" && o.Formatted != cs.Src
		c.Eval(js, "e:"+cs.Kind+cs.Src, nontrivial)
		switch {
		case !accepted:
			c.Hist("e2e", "rejected-before-formatting")
			c.Hist("rejected_reason", reason(before[i].Err))
			js["error_before"] = before[i].Err
			if d := os.Getenv("VERIF_C38_DUMP"); d != "" {
				data, _ := json.MarshalIndent(js, "", " ")
				os.WriteFile(filepath.Join(d, "rejected-"+cs.Name+".json"), data, 0o644)
			}
			js["error_before"] = before[i].Err
			if cs.Fixed {
				c.Note("fixed case %s is not accepted by Please before formatting: %s", cs.Name, before[i].Err)
			}
			continue
		case o.FormatErr != "":
			// the formatter refuses the file: nothing is rewritten, so nothing changes meaning; recorded, not a failure
			c.Hist("e2e", "formatter-refuses-accepted-file")
			c.Note("plz fmt cannot parse a file Please accepts (%s): %s", cs.Name, o.FormatErr)
			continue
		case o.Formatted == cs.Src:
			c.Hist("e2e", "already-canonical")
		default:
			c.Hist("e2e", "reformatted")
		}
		// what simplify did to this file, by shape
		sb, _, _, _ := format.VerifC38Simplify(cs.fileName(), []byte(cs.Src))
		moved := movedFString(sb)

		// (a) second pass is the identity, and format() reports "no change" exactly when the text is unchanged
		c.Oracle()
		if o.SecondPass != o.Formatted {
			js["second_pass"] = o.SecondPass
			c.Fail("format-not-idempotent", "formatting the formatted file changes it again", js)
		}
		if o.Changed != (o.Formatted != cs.Src) {
			c.Fail("format-changed-flag-wrong", fmt.Sprintf("format() returned changed=%v but the text changed=%v", o.Changed, o.Formatted != cs.Src), js)
		}
		// (b) still accepted, same targets with the same attributes (the probe target carries every variable)
		c.Oracle()
		if !after[i].OK {
			js["error_after"] = after[i].Err
			cont := stringContinuation.MatchString(o.Formatted)
			switch {
			case strings.Contains(after[i].Err, "Unknown symbol \\") && cont && implicitConcat.MatchString(cs.Src):
				c.Fail("implicit-string-concat-gets-backslash-continuation",
					"an implicit concatenation of string literals outside brackets is printed with a backslash line continuation, which asp rejects: "+after[i].Err, js)
			case strings.Contains(after[i].Err, "Unknown symbol \\") || anyContinuation.MatchString(o.Formatted):
				c.Fail("backslash-continuation-other", "the formatter emitted a backslash continuation outside an implicit string concatenation: "+after[i].Err, js)
			case negOctal.MatchString(o.Formatted) && !negOctal.MatchString(cs.Src) && strings.Contains(after[i].Err, "unexpected token o"):
				c.Fail("negative-leading-zero-integer-printed-as-minus-0o",
					"an integer literal with a leading zero under a unary minus (-017) is printed as -0o17; the asp lexer reads -0 and then the identifier o17: "+after[i].Err, js)
			case moved && strings.Contains(after[i].Err, "is not defined"):
				c.Fail("fstring-subinclude-arg-hoisted-over-earlier-subinclude",
					"simplify merged subinclude calls and moved an f-string argument in front of the subinclude that defines the name it uses: "+after[i].Err, js)
			default:
				c.Fail("formatted-file-rejected", "Please accepts the file but rejects the formatted file: "+after[i].Err, js)
			}
			continue
		}
		if len(cs.Exprs) > 0 {
			// an expression file: every expression on its own (and the model cases of the integer chains)
			exprOracle(c, cs, o.Formatted, before[i], after[i])
			continue
		}
		ds := diffTargets(canon(before[i].Targets), canon(after[i].Targets))
		if len(ds) == 0 {
			continue
		}
		js["differences"] = ds
		// classify by the shape of the difference
		// (1) literal string lists that were only reordered / deduplicated
		rest := []diff{}
		sortedAttrs, dedupAttrs := map[string]bool{}, map[string]bool{}
		for _, d := range ds {
			a, ok1 := toStrings(d.Before)
			b, ok2 := toStrings(d.After)
			if d.MissingOrExtra == "" && ok1 && ok2 && sameSet(a, b) {
				if len(a) == len(b) {
					sortedAttrs[d.Attr] = true
				} else {
					dedupAttrs[d.Attr] = true
				}
				continue
			}
			rest = append(rest, d)
		}
		if len(sortedAttrs) > 0 {
			names := strings.Join(lib.SortedKeys(sortedAttrs), ",")
			listed := true
			for a := range sortedAttrs {
				listed = listed && (a == "srcs" || a == "data" || a == "tools" || a == "exported_deps")
			}
			if listed {
				c.Fail("literal-string-list-attribute-sorted", "a literal list of strings given for "+names+" is reordered by the formatter (buildifier's listsort); the target's attribute changes", js)
			} else {
				c.Fail("literal-string-list-attribute-sorted:"+names, "a literal list of strings given for "+names+" is reordered by the formatter; the target's attribute changes", js)
			}
		}
		if len(dedupAttrs) > 0 {
			names := strings.Join(lib.SortedKeys(dedupAttrs), ",")
			c.Fail("literal-string-list-attribute-deduplicated:"+names, "duplicate entries of a literal list of strings given for "+names+" are removed by the formatter", js)
		}
		if len(rest) == 0 {
			continue
		}
		// (2) string literals whose asp value the formatter changed by re-quoting them
		octal, decoded := requotedLiterals(cs.Src, o.Formatted)
		switch {
		case moved:
			c.Fail("fstring-subinclude-arg-hoisted-over-earlier-subinclude",
				"simplify merged subinclude calls and moved an f-string argument in front of an earlier subinclude; the file now evaluates differently", js)
		case len(octal)+len(decoded) > 0:
			if len(octal) > 0 {
				js["requoted"] = octal
				c.Fail("requoted-string-non-ascii-becomes-octal-escape",
					"a string literal that the formatter re-quotes (single-quoted, or with non-canonical escapes) has its non-ASCII bytes written as \\ooo octal escapes, which asp does not decode: the string value changes", js)
			}
			if len(decoded) > 0 {
				js["requoted"] = decoded
				c.Fail("requoted-string-hex-or-octal-escape-decoded",
					"a string literal that the formatter re-quotes has its \\xHH / \\ooo escapes decoded, which asp reads as plain characters: the string value changes", js)
			}
		case len(joinedContinuations(cs.Src, o.Formatted)) > 0:
			js["requoted"] = joinedContinuations(cs.Src, o.Formatted)
			c.Fail("single-line-string-backslash-newline-joined",
				"a backslash-newline inside a '...' literal is kept by asp (backslash and newline) but removed when the formatter re-quotes the literal", js)
		default:
			if d := os.Getenv("VERIF_C38_DUMP"); d != "" {
				data, _ := json.MarshalIndent(js, "", " ")
				os.WriteFile(filepath.Join(d, cs.Name+".json"), data, 0o644)
			}
			c.Fail("evaluation-differs", fmt.Sprintf("the formatted file evaluates differently: %v", rest[0]), js)
		}
	}

	// a few files through `plz fmt` itself: stdout mode prints what the hook's rewrite mode wrote; -w rewrites in place
	nfmt := 0
	root := filepath.Join(work, "fmtrepo")
	for i, cs := range cases {
		if nfmt >= c.Scale(3, 40) {
			break
		}
		if outs[i].FormatErr != "" || outs[i].Formatted == cs.Src {
			continue
		}
		nfmt++
		writeRepo(root, map[string]pkgFiles{"p": cs.files(cs.Src)})
		rel := filepath.Join("p", cs.fileName())
		js := map[string]any{"name": cs.Name, "src": cs.Src, "formatted": outs[i].Formatted}
		c.Oracle()
		so, _, _ := runPlz(root, "fmt", rel)
		if so != outs[i].Formatted {
			js["plz_fmt_stdout"] = so
			c.Fail("plz-fmt-output-differs-from-format", "`plz fmt <file>` does not print the text format() computes", js)
		}
		if data, _ := os.ReadFile(filepath.Join(root, rel)); string(data) != cs.Src {
			c.Fail("plz-fmt-without-w-rewrites", "`plz fmt <file>` without -w modified the file", js)
		}
		runPlz(root, "fmt", "-w", rel)
		if data, _ := os.ReadFile(filepath.Join(root, rel)); string(data) != outs[i].Formatted {
			js["plz_fmt_w"] = string(data)
			c.Fail("plz-fmt-w-differs-from-format", "`plz fmt -w <file>` does not leave the text format() computes", js)
		}
		so2, _, _ := runPlz(root, "fmt", rel)
		if so2 != "" {
			c.Fail("format-not-idempotent", "`plz fmt` prints a new version of a file `plz fmt -w` has just written", js)
		}
		os.RemoveAll(root)
	}
	c.Note("e2e: %d files, %d through the plz fmt command line", len(cases), nfmt)
}
