// C38 generator: BUILD and build_defs files in the asp language.
//
// The generator knows nothing about expected values: every file is evaluated by the real binary before and after
// formatting.  It only keeps track of which names are defined (and of their type) so that most files are accepted.
package main

import (
	"fmt"
	"strings"

	"verifharness/lib"
)

type gen struct {
	r     *lib.Rng
	strs  []string // defined string variables
	lists []string // defined list-of-string variables
	dicts []string // defined dict variables (string -> string)
	ints  []string
	funcs []fn
	feat  map[string]bool
	n     int
	defs  bool // generating a build_defs file (no targets at top level)
	emptySub bool // allow subinclude() without arguments (rejected by Please; simplify stream only)
	subSeen  bool // a subinclude call has been emitted (DEFS_PKG may be defined)
	inLoop   bool
}

type fn struct {
	name   string
	params []param
}
type param struct {
	name, typ, alias string
	hasDefault       bool
}

func (g *gen) f(name string) { g.feat[name] = true }

func (g *gen) fresh(prefix string) string {
	g.n++
	return fmt.Sprintf("%s%d", prefix, g.n)
}

var words = []string{"a", "b", "lib", "x y", "foo-bar", "//p:q", "src/main", "v1.2", "é", "q", "", "it", "A_B", "-o $OUT", "100%", "a,b"}

// strContent returns a raw string value (what the literal should denote, before encoding).
func (g *gen) strContent() string {
	s := lib.Pick(g.r, words)
	if g.r.Chance(1, 5) {
		s += lib.Pick(g.r, []string{"\n", "\t", "\\", "\"", "'", "\\d", "\\x41", "\\101", "$", "{", "#"}) + lib.Pick(g.r, words)
	}
	if g.r.Chance(1, 12) {
		s += " " + strings.Repeat(lib.Pick(g.r, []string{"long ", "wide-", "x"}), g.r.Range(15, 40))
		g.f("long_string")
	}
	return s
}

// encode writes a string literal whose asp value is meant to be v, in a random quoting style.
func (g *gen) encode(v string) string {
	style := g.r.Intn(10)
	hasNL := strings.Contains(v, "\n")
	esc := func(q byte) string {
		var b strings.Builder
		for i := 0; i < len(v); i++ {
			c := v[i]
			switch {
			case c == '\\':
				// a backslash followed by a character asp does not treat as an escape stays as it is
				if i+1 < len(v) && strings.IndexByte("ntr\\'\"\n", v[i+1]) < 0 && g.r.Bool() {
					b.WriteByte('\\')
				} else {
					b.WriteString(`\\`)
				}
			case c == q:
				b.WriteByte('\\')
				b.WriteByte(c)
			case c == '\n':
				b.WriteString(`\n`)
			case c == '\t':
				b.WriteString(`\t`)
			case (c == '"' || c == '\'') && g.r.Chance(1, 3):
				b.WriteByte('\\') // an unnecessary escape of the other quote
				b.WriteByte(c)
			default:
				b.WriteByte(c)
			}
		}
		return b.String()
	}
	switch {
	case style == 0 && !strings.ContainsAny(v, "\"'\n\t") && !strings.HasSuffix(v, `\`):
		g.f("raw_string")
		if g.r.Bool() {
			return `r"` + v + `"`
		}
		return `r'` + v + `'`
	case style == 1 || (style == 2 && hasNL):
		g.f("triple_quoted")
		if !strings.Contains(v, `"""`) && !strings.HasSuffix(v, `"`) && !strings.Contains(v, `\`) {
			return `"""` + strings.ReplaceAll(v, "\t", `\t`) + `"""`
		}
		return `"` + esc('"') + `"`
	case style <= 4:
		g.f("single_quoted")
		return `'` + esc('\'') + `'`
	default:
		return `"` + esc('"') + `"`
	}
}

func (g *gen) lit() string {
	if g.r.Chance(1, 8) {
		// a literal of the string stream (expr.go): all four quotings, non-standard escapes, quotes of the other kind,
		// backslash-newline continuations inside triple-quoted literals only
		if l := genLit(g.r, false); !(l.Single && l.Cont) {
			g.f("tricky_literal")
			return l.token()
		}
	}
	return g.encode(g.strContent())
}

// plainLit is a literal without characters that are special inside f-strings or % formats.
func (g *gen) plainLit() string {
	return `"` + lib.Pick(g.r, []string{"a", "b", "lib", "x y", "foo-bar", "v1.2", "q", "it", "A_B"}) + `"`
}

func (g *gen) op(o string) string {
	switch g.r.Intn(6) {
	case 0:
		return o // no spaces
	case 1:
		return "  " + o + " "
	}
	return " " + o + " "
}

func (g *gen) sexpr(d int) string {
	if d <= 0 {
		if len(g.strs) > 0 && g.r.Bool() {
			return lib.Pick(g.r, g.strs)
		}
		return g.lit()
	}
	switch g.r.Intn(17) {
	case 0, 1:
		return g.lit()
	case 2:
		if len(g.strs) > 0 {
			return lib.Pick(g.r, g.strs)
		}
		return g.lit()
	case 3, 4:
		g.f("concat_plus")
		return g.sexpr(d-1) + g.op("+") + g.sexpr(d-1)
	case 5:
		if len(g.strs) > 0 {
			g.f("fstring")
			v := lib.Pick(g.r, g.strs)
			w := lib.Pick(g.r, g.strs)
			return lib.Pick(g.r, []string{`f"{` + v + `}-x"`, `f'{` + v + `}/{` + w + `}'`, `f"pre_{` + v + `}"`, `f"{` + v + `}"`, `f"no vars"`})
		}
		return g.lit()
	case 6:
		g.f("percent_format")
		if g.r.Bool() {
			return `"%s-%s" % (` + g.sexpr(d-1) + `, ` + g.sexpr(0) + `)`
		}
		return `"<%s>" % ` + g.atom()
	case 7:
		g.f("inline_if")
		return g.sexpr(d-1) + " if " + g.bexpr(d-1) + " else " + g.sexpr(d-1)
	case 8:
		g.f("method_call")
		return g.atom() + lib.Pick(g.r, []string{".upper()", ".lower()", `.replace("a", "b")`, ".strip()", `.lstrip("a")`, `.removeprefix("a")`})
	case 9:
		if len(g.lists) > 0 {
			g.f("join")
			return `"` + lib.Pick(g.r, []string{",", " ", "-", ""}) + `".join(` + g.lexpr(d-1) + `)`
		}
		return g.lit()
	case 10:
		g.f("str_of_int")
		return "str(" + g.iexpr(d-1) + ")"
	case 11:
		g.f("paren")
		return "(" + g.sexpr(d-1) + ")"
	case 12:
		if len(g.dicts) > 0 {
			g.f("dict_get")
			dn := lib.Pick(g.r, g.dicts)
			return dn + `.get("k1", ` + g.plainLit() + `)`
		}
		return g.lit()
	case 13:
		g.f("slice")
		return g.atom() + lib.Pick(g.r, []string{"[1:]", "[:2]", "[0:1]"})
	case 14:
		// implicit concatenation inside brackets / parentheses (no continuation needed there)
		g.f("implicit_concat_bracketed")
		return "(" + g.plainLit() + " " + g.plainLit() + ")"
	case 15:
		g.f("format_method")
		return `"{}-{}".format(` + g.atom() + ", " + g.atom() + ")"
	default:
		return g.lit()
	}
}

// atom is a string expression that can take a postfix operator.
func (g *gen) atom() string {
	if len(g.strs) > 0 && g.r.Bool() {
		return lib.Pick(g.r, g.strs)
	}
	return g.plainLit()
}

func (g *gen) bexpr(d int) string {
	switch g.r.Intn(8) {
	case 0:
		return g.atom() + g.op("==") + g.atom()
	case 1:
		return g.atom() + g.op("!=") + g.plainLit()
	case 2:
		if len(g.lists) > 0 {
			g.f("in_operator")
			return g.atom() + lib.Pick(g.r, []string{" in ", " not in "}) + lib.Pick(g.r, g.lists)
		}
		return "True"
	case 3:
		if d > 0 {
			g.f("bool_ops")
			return g.bexpr(d-1) + lib.Pick(g.r, []string{" and ", " or "}) + g.bexpr(d-1)
		}
		return "False"
	case 4:
		g.f("not")
		return "not " + g.atom()
	case 5:
		return g.iexpr(0) + g.op(lib.Pick(g.r, []string{"<", ">", "<=", ">="})) + g.iexpr(0)
	case 6:
		return g.atom() + `.startswith("a")`
	default:
		return lib.Pick(g.r, []string{"True", "False", "None"})
	}
}

func (g *gen) iexpr(d int) string {
	if d <= 0 || g.r.Chance(1, 3) {
		if len(g.ints) > 0 && g.r.Bool() {
			return lib.Pick(g.r, g.ints)
		}
		if g.r.Chance(1, 8) {
			g.f("octal_like_int")
			return lib.Pick(g.r, []string{"0644", "0755", "007"})
		}
		return fmt.Sprint(g.r.Range(0, 40))
	}
	switch g.r.Intn(6) {
	case 0:
		return g.iexpr(d-1) + " + " + g.iexpr(d-1)
	case 1:
		return g.iexpr(d-1) + " * " + g.iexpr(d-1)
	case 2:
		return g.iexpr(d-1) + " - " + g.iexpr(d-1)
	case 3:
		g.f("paren")
		return "(" + g.iexpr(d-1) + " + " + g.iexpr(d-1) + ") * " + g.iexpr(0)
	case 4:
		if len(g.lists) > 0 {
			return "len(" + lib.Pick(g.r, g.lists) + ")"
		}
		return "len(" + g.atom() + ")"
	default:
		return g.iexpr(d-1) + " % 7"
	}
}

// listLit prints a list literal of the items in one of several layouts.
func (g *gen) listLit(items []string) string {
	if len(items) == 0 {
		return "[]"
	}
	switch g.r.Intn(5) {
	case 0: // one per line, trailing comma
		g.f("multiline_list")
		return "[\n    " + strings.Join(items, ",\n    ") + ",\n]"
	case 1: // no spaces
		return "[" + strings.Join(items, ",") + "]"
	case 2: // comment inside
		if len(items) > 0 {
			g.f("comment_in_list")
			return "[\n    # first\n    " + strings.Join(items, ",  # c\n    ") + "\n]"
		}
	case 3: // trailing comma on one line
		if len(items) > 0 {
			return "[" + strings.Join(items, ", ") + ",]"
		}
	}
	return "[" + strings.Join(items, ", ") + "]"
}

func (g *gen) lexpr(d int) string {
	if d <= 0 {
		if len(g.lists) > 0 && g.r.Bool() {
			return lib.Pick(g.r, g.lists)
		}
		return "[" + g.plainLit() + ", " + g.plainLit() + "]"
	}
	switch g.r.Intn(10) {
	case 0, 1, 2:
		n := g.r.Range(0, 4)
		items := make([]string, n)
		for i := range items {
			items[i] = g.sexpr(d - 1)
		}
		return g.listLit(items)
	case 3:
		g.f("comprehension")
		c := "[x" + g.op("+") + g.plainLit() + " for x in " + g.lexpr(d-1)
		if g.r.Bool() {
			c += " if x != " + g.plainLit()
		}
		return c + "]"
	case 4:
		g.f("list_plus")
		return g.lexpr(d-1) + g.op("+") + g.lexpr(d-1)
	case 5:
		g.f("sorted")
		return "sorted(" + g.lexpr(d-1) + ")"
	case 6:
		g.f("split")
		return `"a,b,c".split(",")`
	case 7:
		if len(g.dicts) > 0 {
			g.f("dict_iteration")
			dn := lib.Pick(g.r, g.dicts)
			return lib.Pick(g.r, []string{
				"[k + v for k, v in sorted(" + dn + ".items())]",
				"sorted(" + dn + ".keys())",
				"[" + dn + "[k] for k in sorted(" + dn + ".keys())]"})
		}
		return g.lexpr(0)
	case 8:
		if len(g.strs) > 0 {
			g.f("fstring")
			g.f("comprehension")
			return `[f"{y}_{` + lib.Pick(g.r, g.strs) + `}" for y in ` + g.lexpr(0) + "]"
		}
		return g.lexpr(0)
	default:
		g.f("inline_if")
		return g.lexpr(d-1) + " if " + g.bexpr(0) + " else []"
	}
}

func (g *gen) dexpr(d int) string {
	mk := func() string {
		n := g.r.Range(0, 3)
		items := []string{}
		for i := 0; i < n; i++ {
			items = append(items, fmt.Sprintf(`"k%d": %s`, g.r.Range(1, 4), g.sexpr(d-1)))
		}
		// duplicate keys are an error in neither parser, but keep them distinct
		seen := map[string]bool{}
		out := []string{}
		for _, it := range items {
			k := it[:4]
			if !seen[k] {
				seen[k] = true
				out = append(out, it)
			}
		}
		if g.r.Chance(1, 3) && len(out) > 0 {
			g.f("multiline_dict")
			return "{\n    " + strings.Join(out, ",\n    ") + ",\n}"
		}
		return "{" + strings.Join(out, ", ") + "}"
	}
	switch g.r.Intn(5) {
	case 0:
		if len(g.dicts) > 0 {
			g.f("dict_union")
			return lib.Pick(g.r, g.dicts) + g.op("|") + mk()
		}
	case 1:
		g.f("dict_union")
		return mk() + " | " + mk()
	case 2:
		g.f("dict_comprehension")
		return "{x: x + " + g.plainLit() + " for x in " + g.lexpr(0) + "}"
	}
	return mk()
}

// ---- statements -------------------------------------------------------------------------------

func (g *gen) comment() string {
	return lib.Pick(g.r, []string{"# a comment", "#no space", "# TODO(x): fix", "#", "# buildifier: keep sorted", "#  two  spaces"})
}

func (g *gen) assign() string {
	switch g.r.Intn(12) {
	case 0, 1, 2, 3:
		v := g.fresh("s")
		e := g.sexpr(g.r.Range(0, 3))
		g.strs = append(g.strs, v)
		return v + g.op("=") + e
	case 4, 5:
		v := g.fresh("l")
		e := g.lexpr(g.r.Range(1, 3))
		g.lists = append(g.lists, v)
		return v + " = " + e
	case 6:
		v := g.fresh("d")
		e := g.dexpr(2)
		g.dicts = append(g.dicts, v)
		return v + " = " + e
	case 7:
		v := g.fresh("i")
		e := g.iexpr(2)
		g.ints = append(g.ints, v)
		return v + " = " + e
	case 8:
		if len(g.strs) > 0 {
			g.f("augmented_assign")
			return lib.Pick(g.r, g.strs) + " += " + g.sexpr(1)
		}
	case 9:
		if len(g.lists) > 0 {
			g.f("augmented_assign")
			return lib.Pick(g.r, g.lists) + " += " + g.lexpr(1)
		}
	case 10:
		// top-level implicit concatenation: the shape of the known finding (kept rare: every such file is rejected after formatting)
		if !g.r.Chance(1, 3) {
			break
		}
		g.f("implicit_concat_toplevel")
		v := g.fresh("s")
		g.strs = append(g.strs, v)
		parts := []string{g.plainLit(), g.plainLit()}
		if g.r.Chance(1, 3) {
			parts = append(parts, g.plainLit())
		}
		return v + " = " + strings.Join(parts, " ")
	case 11:
		g.f("lambda")
		v := g.fresh("s")
		fnv := g.fresh("fn")
		arg := g.atom()
		g.strs = append(g.strs, v)
		return fnv + " = lambda x: x + " + g.plainLit() + "\n" + v + " = " + fnv + "(" + arg + ")"
	}
	v := g.fresh("s")
	g.strs = append(g.strs, v)
	return v + " = " + g.lit()
}

var defsLabels = []string{"//defs:d1", "//defs:d2", "//defs:d3", "//defs:d4"}

// subRun emits a run of top-level subinclude statements with the separators that matter to simplify.
func (g *gen) subRun() string {
	var b strings.Builder
	n := g.r.Range(1, 4)
	for i := 0; i < n; i++ {
		nargs := 1
		if g.r.Chance(1, 4) {
			nargs = g.r.Range(1, 3)
			if g.emptySub {
				nargs = g.r.Range(0, 3)
			}
		}
		args := []string{}
		for j := 0; j < nargs; j++ {
			l := lib.Pick(g.r, defsLabels)
			switch g.r.Intn(14) {
			case 0:
				g.f("sub_single_quoted")
				args = append(args, "'"+l+"'")
			case 1:
				g.f("sub_raw")
				args = append(args, `r"`+l+`"`)
			case 2:
				g.f("sub_nonliteral_concat")
				args = append(args, `"//defs:" + "`+l[7:]+`"`)
			case 3:
				g.f("sub_nonliteral_list")
				args = append(args, `["`+l+`"]`)
			case 4:
				g.f("sub_fstring_const")
				args = append(args, `f"`+l+`"`)
			case 5:
				// an f-string over a name that a defs file defines (DEFS_PKG = "defs" in every d*.build_defs)
				if g.subSeen || g.emptySub {
					g.f("sub_fstring_defs_name")
					args = append(args, `f"//{DEFS_PKG}:`+l[7:]+`"`)
				} else {
					args = append(args, `"`+l+`"`)
				}
			case 7:
				// a computed label over a name that a defs file defines: must never be merged into an earlier call
				if g.subSeen || g.emptySub {
					g.f("sub_nonliteral_defs_name")
					args = append(args, `"//" + DEFS_PKG + ":`+l[7:]+`"`)
				} else {
					args = append(args, `"`+l+`"`)
				}
			case 6:
				g.f("sub_triple")
				args = append(args, `"""`+l+`"""`)
			default:
				args = append(args, `"`+l+`"`)
			}
		}
		call := "subinclude(" + strings.Join(args, ", ") + ")"
		if len(args) > 0 {
			g.subSeen = true
		}
		if len(args) > 1 && g.r.Chance(1, 3) {
			g.f("sub_multiline")
			call = "subinclude(\n    " + strings.Join(args, ",\n    ") + ",\n)"
		}
		if g.r.Chance(1, 6) {
			g.f("sub_attached_comment")
			b.WriteString(g.comment() + "\n")
		}
		b.WriteString(call)
		if g.r.Chance(1, 8) {
			g.f("sub_suffix_comment")
			b.WriteString("  " + g.comment())
		}
		b.WriteString("\n")
		if i+1 < n {
			switch g.r.Intn(8) {
			case 0:
				b.WriteString("\n")
			case 1:
				g.f("sub_comment_block_between")
				b.WriteString("\n" + g.comment() + "\n\n")
			case 2:
				g.f("sub_other_between")
				b.WriteString(g.assign() + "\n")
			}
		}
	}
	return b.String()
}

var srcFiles = []string{"a.txt", "b.txt", "c.txt", "sub/d.txt", "Z.txt"}

func (g *gen) strList(pool []string, lo, hi int, dups bool) []string {
	n := g.r.Range(lo, hi)
	out := []string{}
	for i := 0; i < n; i++ {
		x := lib.Pick(g.r, pool)
		if !dups {
			seen := false
			for _, y := range out {
				seen = seen || x == y
			}
			if seen {
				continue
			}
		}
		out = append(out, x)
	}
	return out
}

func quoteAll(xs []string) []string {
	out := make([]string, len(xs))
	for i, x := range xs {
		out[i] = `"` + x + `"`
	}
	return out
}

// target emits one rule call; names are made unique by the caller's counter.
func (g *gen) target(indent string, nameExpr string) string {
	kw := func(k, v string) string {
		if g.r.Chance(1, 4) {
			return k + "=" + v
		}
		return k + " = " + v
	}
	args := []string{}
	rule := "filegroup"
	k := g.r.Intn(4)
	if g.inLoop {
		k = 3
	}
	switch k {
	case 0:
		rule = "genrule"
		g.f("genrule")
		outs := g.strList([]string{"o2.txt", "o1.txt", "z.out", "a.out"}, 1, 3, false)
		cmd := g.sexpr(1)
		if g.r.Chance(1, 4) {
			g.f("cmd_list")
			cmd = g.listLit([]string{g.lit(), g.lit()})
		}
		args = append(args, kw("outs", g.listLit(quoteAll(outs))), kw("cmd", cmd))
		if g.r.Bool() {
			args = append(args, kw("srcs", g.listLit(quoteAll(g.strList(srcFiles, 0, 3, false)))))
		}
		if g.r.Chance(1, 3) {
			g.f("env_dict")
			args = append(args, kw("env", `{"B": "2", "A": `+g.atom()+`}`))
		}
	default:
		if g.inLoop {
			break
		}
		if g.r.Chance(2, 3) {
			g.f("literal_srcs")
			args = append(args, kw("srcs", g.listLit(quoteAll(g.strList(srcFiles, 0, 4, g.r.Chance(1, 5))))))
		} else if g.r.Bool() {
			g.f("glob")
			args = append(args, kw("srcs", `glob(["*.txt"], exclude = ["b.txt"])`))
		}
	}
	if g.r.Bool() {
		items := []string{}
		for i := g.r.Range(0, 3); i > 0; i-- {
			items = append(items, g.sexpr(1))
		}
		args = append(args, kw("labels", g.listLit(items)))
	}
	if g.r.Chance(1, 3) {
		g.f("visibility")
		args = append(args, kw("visibility", g.listLit(quoteAll(g.strList([]string{"PUBLIC", "//c0/...", "//defs:all", "//lib:lib"}, 1, 3, false)))))
	}
	if g.r.Chance(1, 3) {
		g.f("deps")
		args = append(args, kw("deps", g.listLit(quoteAll(g.strList([]string{"//lib:lib", "//lib", "//lib:other", "//defs:d1"}, 1, 3, false)))))
	}
	if g.r.Chance(1, 6) {
		args = append(args, kw("test_only", lib.Pick(g.r, []string{"True", "False"})))
	}
	lib.Shuffle(g.r, args)
	// name first, last, or in the middle; one positional call shape
	name := kw("name", nameExpr)
	pos := g.r.Intn(len(args) + 1)
	if g.r.Chance(2, 3) {
		pos = 0
	}
	all := append(append(append([]string{}, args[:pos]...), name), args[pos:]...)
	if g.r.Chance(1, 3) {
		return indent + rule + "(" + strings.Join(all, ", ") + ")"
	}
	return indent + rule + "(\n" + indent + "    " + strings.Join(all, ",\n"+indent+"    ") + ",\n" + indent + ")"
}

// def emits a function definition with annotations and aliases and returns a call of it.
func (g *gen) def() string {
	name := g.fresh("mk")
	f := fn{name: name}
	f.params = append(f.params, param{name: "name", typ: "str"})
	extra := []param{
		{name: "tag", typ: "str", hasDefault: true},
		{name: "extra", typ: "list", hasDefault: true},
		{name: "flag", typ: "bool", hasDefault: true},
		{name: "lbl", typ: "str", alias: "label_alias", hasDefault: true},
		{name: "uni", typ: "str|list", hasDefault: true},
		{name: "cfg", typ: "dict", hasDefault: true},
	}
	lib.Shuffle(g.r, extra)
	f.params = append(f.params, extra[:g.r.Range(1, 4)]...)
	sig := []string{}
	for _, p := range f.params {
		s := p.name
		if p.name == "name" && g.r.Chance(1, 4) {
			sig = append(sig, s) // unannotated
			continue
		}
		s += ":" + p.typ
		if p.alias != "" {
			s += "&" + p.alias
			g.f("annotation_alias")
		}
		if strings.Contains(p.typ, "|") {
			g.f("annotation_union")
		}
		if p.hasDefault {
			def := map[string]string{"str": `"dflt"`, "list": "[]", "bool": "False", "str|list": "None", "dict": "{}"}[p.typ]
			if p.typ == "list" && g.r.Bool() {
				def = `["x"]`
			}
			if g.r.Bool() {
				s += "=" + def
			} else {
				s += " = " + def
			}
		}
		sig = append(sig, s)
	}
	g.f("def")
	g.f("annotation")
	var b strings.Builder
	if g.r.Chance(1, 4) && len(sig) > 2 {
		g.f("def_multiline_signature")
		b.WriteString("def " + name + "(\n        " + strings.Join(sig, ",\n        ") + "):\n")
	} else {
		b.WriteString("def " + name + "(" + strings.Join(sig, ", ") + "):\n")
	}
	if g.r.Bool() {
		g.f("docstring")
		b.WriteString(lib.Pick(g.r, []string{
			"    \"\"\"Makes a thing.\"\"\"\n",
			"    \"\"\"Makes a thing.\n\n    Args:\n      name: the name\n        continued\n    \"\"\"\n",
			"    '''single quoted doc'''\n",
			"    \"\"\"  odd   spacing  \n  second line\n    \"\"\"\n"}))
	}
	has := func(n string) bool {
		for _, p := range f.params {
			if p.name == n {
				return true
			}
		}
		return false
	}
	labels := []string{`"made"`}
	if has("tag") {
		labels = append(labels, "tag")
	}
	if has("lbl") {
		labels = append(labels, `lbl or "nolbl"`)
	}
	if has("flag") {
		g.f("if_statement")
		b.WriteString("    if flag:\n        name = name + \"_f\"\n")
		if g.r.Bool() {
			b.WriteString("    elif name == \"q\":\n        pass\n    else:\n        name = name + \"\"\n")
		}
	}
	if has("uni") {
		b.WriteString("    us = [uni] if isinstance(uni, str) else (uni or [])\n")
		labels = append(labels, `"u:" + ",".join(us)`)
	}
	if has("cfg") {
		labels = append(labels, `"c:" + ",".join(sorted(cfg.keys()))`)
	}
	if has("extra") {
		g.f("for_statement")
		b.WriteString("    more = []\n    for e in extra:\n        if e == \"skip\":\n            continue\n        more += [e + \"!\"]\n")
		labels = append(labels, `"e:" + ",".join(more)`)
	}
	if g.r.Chance(1, 4) {
		b.WriteString("    " + g.comment() + "\n")
	}
	b.WriteString("    return filegroup(\n        name = name,\n        labels = [" + strings.Join(labels, ", ") + "],\n    )\n")
	g.funcs = append(g.funcs, f)
	return b.String()
}

func (g *gen) call(f fn, tname string) string {
	args := []string{}
	positional := g.r.Chance(1, 3)
	if positional {
		args = append(args, `"`+tname+`"`)
	} else {
		args = append(args, `name = "`+tname+`"`)
	}
	for _, p := range f.params[1:] {
		if g.r.Chance(1, 3) {
			continue
		}
		k := p.name
		if p.alias != "" && g.r.Bool() {
			k = p.alias
			g.f("call_by_alias")
		}
		var v string
		switch p.typ {
		case "str":
			v = g.sexpr(1)
		case "list":
			v = g.lexpr(1)
		case "bool":
			v = lib.Pick(g.r, []string{"True", "False"})
		case "str|list":
			if g.r.Bool() {
				v = g.sexpr(0)
			} else {
				v = g.lexpr(0)
			}
		case "dict":
			v = g.dexpr(1)
		}
		args = append(args, k+" = "+v)
	}
	if !positional {
		lib.Shuffle(g.r, args)
	}
	if g.r.Bool() {
		return f.name + "(" + strings.Join(args, ", ") + ")"
	}
	return f.name + "(\n    " + strings.Join(args, ",\n    ") + ",\n)"
}

// file generates one file.  For a defs file the second result is the BUILD file that consumes it.
func genFile(r *lib.Rng, defs bool) (text, consumer string, feat map[string]bool) {
	g := &gen{r: r, feat: map[string]bool{}, defs: defs}
	var b strings.Builder
	tcount := 0
	tname := func() string { tcount++; return fmt.Sprintf("t%d", tcount) }
	if r.Chance(1, 6) {
		g.f("leading_comment")
		b.WriteString(g.comment() + "\n" + g.comment() + "\n\n")
	}
	if r.Chance(1, 8) {
		g.f("module_docstring")
		b.WriteString("\"\"\"A file docstring.\"\"\"\n")
	}
	if !defs && r.Chance(1, 8) {
		g.f("package_call")
		b.WriteString("package(default_visibility = [\"PUBLIC\"])\n")
	}
	nst := r.Range(3, 12)
	sep := func() {
		switch r.Intn(6) {
		case 0:
			b.WriteString("\n\n\n")
		case 1, 2:
			// no blank line
		default:
			b.WriteString("\n")
		}
	}
	for i := 0; i < nst; i++ {
		k := r.Intn(20)
		switch {
		case k < 7:
			b.WriteString(g.assign())
			if r.Chance(1, 8) {
				b.WriteString("  " + g.comment())
			}
			b.WriteString("\n")
		case k < 10:
			if defs { // a subincluded file has no package to subinclude from
				b.WriteString(g.assign() + "\n")
			} else {
				g.f("subinclude")
				b.WriteString(g.subRun())
			}
		case k < 13:
			b.WriteString(g.def())
		case k < 16 && !defs:
			if len(g.funcs) > 0 && r.Bool() {
				b.WriteString(g.call(lib.Pick(r, g.funcs), tname()) + "\n")
			} else {
				b.WriteString(g.target("", `"`+tname()+`"`) + "\n")
			}
		case k == 16 && !defs:
			g.f("toplevel_for")
			pfx := tname()
			g.inLoop = true
			b.WriteString("for it in " + g.listLit([]string{`"y"`, `"x"`}) + ":\n" + g.target("    ", `"`+pfx+`_" + it`) + "\n")
			g.inLoop = false
		case k == 17:
			g.f("toplevel_if")
			v := g.fresh("s")
			b.WriteString("if " + g.bexpr(1) + ":\n    " + v + " = " + g.sexpr(1) + "\nelse:\n    " + v + " = " + g.lit() + "\n")
			g.strs = append(g.strs, v)
		case k == 18:
			g.f("comment_block")
			b.WriteString("\n" + g.comment() + "\n\n")
		default:
			g.f("assert")
			b.WriteString("assert " + g.bexpr(0) + " or True, " + g.plainLit() + "\n")
		}
		sep()
	}
	// the probe: every variable the file defined, as the labels of one target
	probe := func(prefix string) string {
		items := []string{}
		for _, v := range g.strs {
			items = append(items, `"`+v+`=" + `+prefix+v)
		}
		for _, v := range g.ints {
			items = append(items, `"`+v+`=" + str(`+prefix+v+`)`)
		}
		for _, v := range g.lists {
			items = append(items, `"`+v+`=" + "|".join(`+prefix+v+`)`)
		}
		for _, v := range g.dicts {
			items = append(items, `"`+v+`=" + "|".join([k + ":" + `+prefix+v+`[k] for k in sorted(`+prefix+v+`.keys())])`)
		}
		return "filegroup(\n    name = \"zz_probe\",\n    labels = [\n        " + strings.Join(append(items, `"end"`), ",\n        ") + ",\n    ],\n)\n"
	}
	if !defs {
		b.WriteString(probe(""))
		return b.String(), "", g.feat
	}
	// consumer of a defs file: subinclude it, call every function, probe every variable
	var c strings.Builder
	c.WriteString("filegroup(\n    name = \"x\",\n    srcs = [\"x.build_defs\"],\n)\n\nsubinclude(\":x\")\n\n")
	cg := &gen{r: r, feat: g.feat}
	for _, f := range g.funcs {
		c.WriteString(cg.call(f, tname()) + "\n\n")
		if r.Bool() {
			c.WriteString(cg.call(f, tname()) + "\n\n")
		}
	}
	c.WriteString(probe(""))
	return b.String(), c.String(), g.feat
}
