// C38 follow-up streams: integer / boolean operator chains with unary operators, and string literals in all four
// quotings that the formatter re-quotes.
//
//	chains    generated operator chains  [-|not] atom (op [-|not] atom)*  with atoms = literal | variable | ( chain ):
//	          a unary minus written next to the literal, separated by a space, or in front of a parenthesised literal,
//	          followed by every binary operator.  The files are evaluated by the real binary before and after the real
//	          format(); every expression is compared on its own (value before = value after) and, for the integer
//	          chains, sent to the Coq model (formatted text, value before, value after).
//	strings   generated literals in ' " ''' """ with backslash-newline continuations, non-standard escapes (\$ \d),
//	          quotes of the other kind, through the real asp lexer before and after the real format() (in process).
package main

import (
	"fmt"
	"os"
	"regexp"
	"strconv"
	"strings"

	"verifharness/lib"
)

// ------------------------------------------------------------------------------------------------
// operator chains

type xAtom struct {
	Kind string  `json:"kind"`         // lit | id | paren
	N    int64   `json:"n,omitempty"`  // literal value / variable index
	Sp   string  `json:"sp,omitempty"` // spelling of a literal when it is not the canonical decimal one
	C    *xChain `json:"c,omitempty"`
}

type xChain struct {
	U    string  `json:"u,omitempty"`   // "", neg, not
	Adj  bool    `json:"adj,omitempty"` // the minus sign is directly in front of the atom's first byte
	A    xAtom   `json:"a"`
	Op   string  `json:"op,omitempty"` // "" = end of the chain
	Rest *xChain `json:"rest,omitempty"`
}

var xVars = []int64{7, 10, 3} // V0, V1, V2 (the Coq model knows the same values)

var xOpNames = map[string]string{"+": "Add", "-": "Subtract", "*": "Multiply", "/": "Divide", "//": "FloorDivide", "%": "Modulo",
	"<": "LessThan", ">": "GreaterThan", "<=": "LessThanOrEqual", ">=": "GreaterThanOrEqual", "==": "Equal", "!=": "NotEqual",
	"and": "And", "or": "Or"}

func (a xAtom) coq() string {
	switch a.Kind {
	case "lit":
		return lib.App("ALit", lib.N(uint64(a.N)))
	case "id":
		return lib.App("AId", lib.N(uint64(a.N)))
	}
	return lib.App("AParen", a.C.coq())
}

func (c *xChain) coq() string {
	u := "None"
	if c.U != "" {
		u = lib.Some(lib.Pair(map[string]string{"neg": "Negate", "not": "Not"}[c.U], lib.Bool(c.Adj)))
	}
	if c.Op == "" {
		return lib.App("COne", u, c.A.coq())
	}
	return lib.App("CMore", u, c.A.coq(), xOpNames[c.Op], c.Rest.coq())
}

func (a xAtom) text(r *lib.Rng) string {
	switch a.Kind {
	case "lit":
		if a.Sp != "" {
			return a.Sp
		}
		return strconv.FormatInt(a.N, 10)
	case "id":
		return fmt.Sprintf("V%d", a.N)
	}
	pad := ""
	if r.Chance(1, 5) {
		pad = " "
	}
	return "(" + pad + a.C.text(r) + pad + ")"
}

func (c *xChain) text(r *lib.Rng) string {
	var b strings.Builder
	switch c.U {
	case "neg":
		b.WriteString("-")
		if !c.Adj && (c.A.Kind == "lit" || r.Chance(1, 3)) {
			b.WriteString(" ")
		}
	case "not":
		b.WriteString("not ")
		if r.Chance(1, 5) {
			b.WriteString(" ")
		}
	}
	b.WriteString(c.A.text(r))
	if c.Op == "" {
		return b.String()
	}
	// never an operator directly followed by a digit: the asp lexer reads `-1` as one token
	word := c.Op == "and" || c.Op == "or"
	switch {
	case !word && r.Chance(1, 6):
		b.WriteString(c.Op + " ")
	case r.Chance(1, 6):
		b.WriteString("  " + c.Op + "  ")
	default:
		b.WriteString(" " + c.Op + " ")
	}
	b.WriteString(c.Rest.text(r))
	return b.String()
}

// literalish: the atom is a literal once the formatter has dropped the parentheses around atoms.
func (a xAtom) literalish() bool {
	switch a.Kind {
	case "lit":
		return true
	case "paren":
		return a.C.U == "" && a.C.Op == "" && a.C.A.literalish()
	}
	return false
}

// newlyFolded: a unary minus that the source keeps apart from a literal (space or parentheses) and the formatter
// prints directly in front of it, where the asp lexer reads both as ONE negative integer token.
func (c *xChain) newlyFolded() bool {
	return c.U == "neg" && c.A.literalish() && !(c.Adj && c.A.Kind == "lit")
}

// foldAfterBinary: somewhere in the chain (or in a parenthesised chain) such a minus stands after a binary operator.
// Written on the syntax only (model independent).
func (c *xChain) foldAfterBinary(tail bool) bool {
	if tail && c.newlyFolded() {
		return true
	}
	if c.A.Kind == "paren" && c.A.C.foldAfterBinary(false) {
		return true
	}
	return c.Rest != nil && c.Rest.foldAfterBinary(true)
}

func (c *xChain) hasLeadingFold() bool {
	if c.newlyFolded() && c.Op != "" {
		return true
	}
	if c.A.Kind == "paren" && c.A.C.hasLeadingFold() {
		return true
	}
	return c.Rest != nil && c.Rest.A.Kind == "paren" && c.Rest.A.C.hasLeadingFold()
}

type xGen struct {
	r      *lib.Rng
	defect bool // allow the shape of the listed finding (a separated minus on a literal after a binary operator)
}

func (g *xGen) atom(depth int, unary bool) xAtom {
	k := g.r.Intn(8)
	switch {
	case k < 3 || (depth <= 0 && k < 6):
		return xAtom{Kind: "lit", N: int64(g.r.Range(0, 12))}
	case k < 5 || depth <= 0:
		return xAtom{Kind: "id", N: int64(g.r.Intn(len(xVars)))}
	}
	// parentheses: half of them around a single atom (the formatter drops those), possibly nested
	if g.r.Bool() || unary {
		inner := g.atom(depth-1, false)
		if g.r.Chance(2, 3) {
			inner = xAtom{Kind: "lit", N: int64(g.r.Range(1, 9))}
		}
		c := &xChain{A: inner}
		if g.r.Chance(1, 5) {
			c = &xChain{A: xAtom{Kind: "paren", C: c}}
		}
		if g.r.Chance(1, 6) {
			c.U, c.Adj = "neg", g.r.Bool()
		}
		return xAtom{Kind: "paren", C: c}
	}
	return xAtom{Kind: "paren", C: g.intChain(depth-1, g.r.Range(1, 2))}
}

var arithOps = []string{"+", "-", "*", "//", "%", "/", "+", "-", "*"}

// intChain: an integer valued chain.  The right operand of a division is a non-zero literal without a sign.
func (g *xGen) intChain(depth, nops int) *xChain {
	head := &xChain{}
	cur := head
	for i := 0; ; i++ {
		tail := i > 0
		divisor := tail && (strings.Contains("// % /", head.lastOp()))
		if divisor {
			cur.A = xAtom{Kind: "lit", N: int64(g.r.Range(1, 7))}
		} else {
			switch g.r.Intn(10) {
			case 0, 1, 2, 3:
				cur.U = "neg"
				cur.Adj = g.r.Bool()
				cur.A = g.atom(depth, true)
				if tail && cur.newlyFolded() && !(g.defect && g.r.Chance(1, 2)) {
					// after a binary operator only the shapes that do not change token boundaries
					if g.r.Bool() {
						cur.A, cur.Adj = xAtom{Kind: "lit", N: int64(g.r.Range(0, 9))}, true
					} else {
						cur.A = xAtom{Kind: "id", N: int64(g.r.Intn(len(xVars)))}
					}
				}
			default:
				cur.A = g.atom(depth, false)
			}
		}
		if i >= nops {
			return head
		}
		cur.Op = lib.Pick(g.r, arithOps)
		cur.Rest = &xChain{}
		cur = cur.Rest
	}
}

func (c *xChain) lastOp() string {
	op := ""
	for x := c; x != nil; x = x.Rest {
		if x.Op != "" {
			op = x.Op
		}
	}
	if op == "" {
		return "none"
	}
	return op
}

// boolChain: [not] int-chain cmp int-chain ((and|or) [not] int-chain cmp int-chain)?  (oracle only, no model case)
func (g *xGen) boolChain() *xChain {
	cmpPart := func() *xChain {
		l := g.intChain(1, g.r.Range(0, 1))
		// the right operand is one atom: asp hands everything after a higher operator to the right operand
		// (`a > b // c and d` is a > ((b // c) and d)), so a longer right side is mostly a type error
		rr := &xChain{A: g.atom(1, false)}
		if g.r.Chance(1, 3) {
			l = &xChain{U: "neg", Adj: g.r.Bool(), A: xAtom{Kind: "paren", C: &xChain{A: xAtom{Kind: "lit", N: int64(g.r.Range(1, 9))}}}}
		}
		if rr.newlyFolded() { // it would stand after the comparison operator
			rr.U = ""
		}
		if g.r.Chance(1, 3) {
			// `not` in front of the first operand: applies to the whole comparison in asp and in Python alike
			if l.U == "" {
				l.U = "not"
			}
		}
		end := l
		for end.Rest != nil {
			end = end.Rest
		}
		end.Op = lib.Pick(g.r, []string{"<", ">", "<=", ">=", "==", "!="})
		end.Rest = rr
		return l
	}
	c := cmpPart()
	if g.r.Bool() {
		end := c
		for end.Rest != nil {
			end = end.Rest
		}
		end.Op = lib.Pick(g.r, []string{"and", "or"})
		end.Rest = cmpPart()
	}
	return c
}

type xExpr struct {
	Name   string  `json:"name"`
	Text   string  `json:"text"`
	Chain  *xChain `json:"chain,omitempty"`
	Int    bool    `json:"int"`             // integer chain (has a model case)
	Spell  bool    `json:"spell,omitempty"` // a literal with a non-canonical spelling (no model case)
	Defect bool    `json:"fold_after_binary,omitempty"`
	Lead   bool    `json:"leading_fold,omitempty"`
}

var intSpellings = []string{"017", "007", "00", "0644", "0o17", "010", "0o7", "000123"}

// exprFile builds one file of expressions and its probe target.
func exprFile(r *lib.Rng, n int, defect bool) (string, []xExpr) {
	g := &xGen{r: r, defect: defect}
	var b strings.Builder
	for i, v := range xVars {
		fmt.Fprintf(&b, "V%d = %d\n", i, v)
	}
	exprs := []xExpr{}
	for i := 0; i < n; i++ {
		e := xExpr{Name: fmt.Sprintf("e%d", i)}
		k := r.Intn(10)
		switch {
		case k < 6:
			e.Chain, e.Int = g.intChain(2, r.Range(1, 3)), true
		case k < 7:
			// an integer literal in another spelling, alone and after an operator; never with a minus in front (listed finding)
			sp := lib.Pick(r, intSpellings)
			v, _ := strconv.ParseInt(strings.TrimPrefix(strings.TrimPrefix(sp, "0o"), "0"), 10, 64)
			e.Chain = &xChain{A: xAtom{Kind: "id", N: 0}, Op: lib.Pick(r, []string{"+", "-", "*"}), Rest: &xChain{A: xAtom{Kind: "lit", N: v, Sp: sp}}}
			if r.Bool() {
				e.Chain = &xChain{A: xAtom{Kind: "paren", C: &xChain{A: xAtom{Kind: "lit", N: v, Sp: sp}}}, Op: "+", Rest: &xChain{A: xAtom{Kind: "id", N: 1}}}
			}
			e.Spell = true
		default:
			e.Chain = g.boolChain()
		}
		e.Text = e.Chain.text(r)
		e.Defect = e.Chain.foldAfterBinary(false)
		e.Lead = e.Chain.hasLeadingFold()
		exprs = append(exprs, e)
		switch r.Intn(5) {
		case 0:
			fmt.Fprintf(&b, "%s=%s\n", e.Name, e.Text)
		case 1:
			fmt.Fprintf(&b, "%s = %s  # c\n", e.Name, e.Text)
		default:
			fmt.Fprintf(&b, "%s = %s\n", e.Name, e.Text)
		}
	}
	b.WriteString(xProbe(exprs))
	return b.String(), exprs
}

func xProbe(exprs []xExpr) string {
	items := make([]string, len(exprs))
	for i, e := range exprs {
		items[i] = fmt.Sprintf("\"%s=\" + str(%s)", e.Name, e.Name)
	}
	return "filegroup(\n    name = \"zz_probe\",\n    labels = [\n        " + strings.Join(items, ",\n        ") + ",\n    ],\n)\n"
}

// fixed expression files: the shapes of the mutations and of the listed findings, one expression per file
var fixedExprs = []struct {
	text  string
	chain *xChain
}{
	{"-(1) + V1", &xChain{U: "neg", A: xAtom{Kind: "paren", C: &xChain{A: xAtom{Kind: "lit", N: 1}}}, Op: "+", Rest: &xChain{A: xAtom{Kind: "id", N: 1}}}},
	{"- 1 + V1", &xChain{U: "neg", A: xAtom{Kind: "lit", N: 1}, Op: "+", Rest: &xChain{A: xAtom{Kind: "id", N: 1}}}},
	{"-((5)) - V0 % 4", &xChain{U: "neg", A: xAtom{Kind: "paren", C: &xChain{A: xAtom{Kind: "paren", C: &xChain{A: xAtom{Kind: "lit", N: 5}}}}}, Op: "-",
		Rest: &xChain{A: xAtom{Kind: "id", N: 0}, Op: "%", Rest: &xChain{A: xAtom{Kind: "lit", N: 4}}}}},
	{"-(7) // 2", &xChain{U: "neg", A: xAtom{Kind: "paren", C: &xChain{A: xAtom{Kind: "lit", N: 7}}}, Op: "//", Rest: &xChain{A: xAtom{Kind: "lit", N: 2}}}},
	// listed finding: the minus after a binary operator is folded into the literal, the operator list changes shape
	{"2 * -(3) + 1", &xChain{A: xAtom{Kind: "lit", N: 2}, Op: "*", Rest: &xChain{U: "neg", A: xAtom{Kind: "paren", C: &xChain{A: xAtom{Kind: "lit", N: 3}}}, Op: "+", Rest: &xChain{A: xAtom{Kind: "lit", N: 1}}}}},
	{"V0 - - 3 - 1", &xChain{A: xAtom{Kind: "id", N: 0}, Op: "-", Rest: &xChain{U: "neg", A: xAtom{Kind: "lit", N: 3}, Op: "-", Rest: &xChain{A: xAtom{Kind: "lit", N: 1}}}}},
}

var exprLine = regexp.MustCompile(`(?m)^(e[0-9]+) = (.*?)(  # c)?$`)

// probeValues reads the labels "name=value" of the probe target.
func probeValues(ts map[string]map[string]any) map[string]string {
	out := map[string]string{}
	for l, attrs := range ts {
		if !strings.HasSuffix(l, ":zz_probe") {
			continue
		}
		ls, _ := toStrings(attrs["labels"])
		for _, x := range ls {
			if i := strings.IndexByte(x, '='); i > 0 {
				out[x[:i]] = x[i+1:]
			}
		}
	}
	return out
}

// exprOracle compares every expression of an expression file on its own and emits the model cases.
// It returns true when every difference of the file is explained by its expressions.
func exprOracle(c *lib.Ctx, cs e2eCase, formatted string, before, after evalResult) {
	vb, va := probeValues(before.Targets), probeValues(after.Targets)
	ftext := map[string]string{}
	for _, m := range exprLine.FindAllStringSubmatch(formatted, -1) {
		ftext[m[1]] = m[2]
	}
	for _, e := range cs.Exprs {
		js := map[string]any{"expression": e.Text, "formatted": ftext[e.Name], "value_before": vb[e.Name], "value_after": va[e.Name], "chain": e.Chain}
		c.Oracle()
		c.Hist("expr_kind", map[bool]string{true: "int", false: "bool-or-spelling"}[e.Int && !e.Spell])
		if e.Lead {
			c.Hist("expr_shape", "separated-minus-on-literal-then-operator")
		}
		if e.Defect {
			c.Hist("expr_shape", "separated-minus-on-literal-after-operator")
		}
		if vb[e.Name] != va[e.Name] {
			if e.Defect {
				c.Fail("negate-after-binary-operator-folded-into-literal",
					"a unary minus kept apart from an integer literal (space or parentheses) after a binary operator is printed next to it; asp then lexes one negative literal and no longer applies the minus to the rest of the chain: "+
						fmt.Sprintf("%s = %s, %s = %s", e.Text, vb[e.Name], ftext[e.Name], va[e.Name]), js)
			} else {
				c.Fail("expression-evaluates-differently-after-format", fmt.Sprintf("%s evaluates to %s, formatted to %s it evaluates to %s", e.Text, vb[e.Name], ftext[e.Name], va[e.Name]), js)
			}
		}
		if !e.Int || e.Spell {
			c.Eval(js, "x:"+e.Text, e.Text != ftext[e.Name])
			continue
		}
		ib, err1 := strconv.ParseInt(vb[e.Name], 10, 64)
		ia, err2 := strconv.ParseInt(va[e.Name], 10, 64)
		if err1 != nil || err2 != nil {
			c.Note("expression %s: value not an integer (%q / %q)", e.Text, vb[e.Name], va[e.Name])
			continue
		}
		c.Case(lib.App("CExpr", e.Chain.coq(), lib.Str(ftext[e.Name]), lib.Z(ib), lib.Z(ia)), js, "x:"+e.Text, e.Text != ftext[e.Name])
	}
}

// ------------------------------------------------------------------------------------------------
// string literals

type sLit struct {
	Quote  string `json:"quote"` // ' " ''' """
	Body   string `json:"body"`
	Cont   bool   `json:"continuation,omitempty"` // holds a backslash-newline
	Single bool   `json:"single_line,omitempty"`  // ' or "
}

func (l sLit) token() string { return l.Quote + l.Body + l.Quote }

var sWords = []string{"a", "b c", "echo", "x-y", "$OUT", "v1.2", "100%", "#", "{}", "", " ", "two  sp", "p/q", "z"}

// genLit builds a literal that asp accepts.  cont: backslash-newline allowed (single-line literals only when forced).
func genLit(r *lib.Rng, forceSingleCont bool) sLit {
	q := lib.Pick(r, []string{"'", "\"", "'''", "\"\"\"", "'''", "'"})
	l := sLit{Quote: q, Single: len(q) == 1}
	own, other := q[0], byte('"')
	if own == '"' {
		other = '\''
	}
	var b strings.Builder
	n := r.Range(1, 5)
	for i := 0; i < n; i++ {
		b.WriteString(lib.Pick(r, sWords))
		switch r.Intn(14) {
		case 0:
			b.WriteString(`\$`)
		case 1:
			b.WriteString(lib.Pick(r, []string{`\d`, `\.`, `\s`, `\(`, `\ `, `\w+`}))
		case 2:
			b.WriteByte(other)
		case 3:
			b.WriteString(`\` + string(other))
		case 4:
			b.WriteString(`\` + string(own))
		case 5:
			b.WriteString(lib.Pick(r, []string{`\n`, `\t`, `\\`, `\r`, `\a`}))
		case 6, 7:
			if !l.Single || forceSingleCont {
				b.WriteString(lib.Pick(r, []string{"\\\n", " \\\n", "\\\n  ", "\\\n\\\n"}))
				l.Cont = true
			}
		case 8:
			if !l.Single {
				b.WriteString(lib.Pick(r, []string{"\n", "\n    ", "\n\n"}))
			}
		case 9:
			if !l.Single && r.Bool() {
				b.WriteString(string(own) + lib.Pick(r, []string{"x", " ", string(own) + "y"})) // one or two quotes of its own kind inside
			}
		}
	}
	if forceSingleCont && !l.Cont {
		b.WriteString("\\\n")
		l.Cont = true
	}
	b.WriteString(lib.Pick(r, []string{"e", "end", ".", "$"})) // never ends in a quote or a backslash
	l.Body = b.String()
	return l
}

func lexValue(src string) (string, bool) {
	vs := stringLiterals(src)
	if len(vs) != 1 || len(vs[0]) < 2 {
		return "", false
	}
	return vs[0][1 : len(vs[0])-1], true
}

var sLine = regexp.MustCompile(`(?s)^s = (.*)\n$`)

// stringCase: one literal through the real lexer, the real format(), and the real lexer again.
func stringCase(c *lib.Ctx, dir string, l sLit, forced bool) {
	src := "s = " + l.token() + "\n"
	vb, ok := lexValue(src)
	if !ok {
		c.Hist("string_literal", "rejected-by-asp")
		return
	}
	out, _, err := formatText(dir, "BUILD", src)
	if err != nil {
		c.Hist("string_literal", "formatter-refuses")
		return
	}
	m := sLine.FindStringSubmatch(out)
	js := map[string]any{"literal": l, "src": src, "formatted": out, "value_before": vb}
	c.Oracle()
	if m == nil {
		c.Fail("string-literal-statement-reshaped", "`s = <literal>` is not printed as one assignment", js)
		return
	}
	va, ok := lexValue(out)
	js["value_after"] = va
	requoted := m[1] != l.token()
	c.Hist("string_literal", map[bool]string{true: "requoted", false: "kept"}[requoted]+"-"+l.Quote+map[bool]string{true: "-continuation", false: ""}[l.Cont])
	switch {
	case !ok:
		c.Fail("formatted-string-literal-rejected", "asp rejects the literal the formatter printed", js)
	case va != vb && l.Single && l.Cont && strings.ReplaceAll(vb, "\\\n", "") == va:
		c.Fail("single-line-string-backslash-newline-joined",
			"a backslash-newline inside a '...' literal is kept by asp (backslash and newline) but removed when the formatter re-quotes the literal", js)
	case va != vb:
		c.Fail("string-literal-value-changes-after-format", fmt.Sprintf("the lexer reads %q before and %q after formatting", vb, va), js)
	}
	if out2, _, err := formatText(dir, "BUILD", out); err != nil || out2 != out {
		c.Fail("format-not-idempotent", "formatting the formatted literal changes it again", js)
	}
	quote := 39
	if l.Quote[0] == '"' {
		quote = 34
	}
	c.Case(lib.App("CStr", lib.N(uint64(quote)), lib.Bool(!l.Single), lib.Str(l.Body), lib.Str(m[1]), lib.Str(vb), lib.Str(va)),
		js, "q:"+l.token(), requoted || forced)
}

func stringStream(c *lib.Ctx) {
	dir, err := os.MkdirTemp(c.Out, "str")
	if err != nil {
		panic(err)
	}
	defer os.RemoveAll(dir)
	fixed := []sLit{
		{Quote: "'''", Body: "echo one two \\\nthree > $OUT", Cont: true},
		{Quote: "\"\"\"", Body: "p \\\nq\\$", Cont: true},
		{Quote: "\"\"\"", Body: "kept \\\nas it is", Cont: true},
		{Quote: "'", Body: "a\\$b", Single: true},
		{Quote: "'", Body: "say \"hi\" \\d", Single: true},
		{Quote: "\"", Body: "it's \\. ok", Single: true},
		{Quote: "'''", Body: "two '' inside\nand \"one\" \\s", Cont: false},
		// listed finding: continuation inside a single-line literal
		{Quote: "'", Body: "x\\\ny", Single: true, Cont: true},
		{Quote: "\"", Body: "x\\\ny \\$", Single: true, Cont: true},
	}
	for _, l := range fixed {
		stringCase(c, dir, l, true)
	}
	n := c.Scale(600, 8000)
	for i := 0; i < n; i++ {
		r := c.Rng.Fork()
		stringCase(c, dir, genLit(r, i%40 == 39), false)
	}
}
